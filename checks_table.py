"""Table of engines and per-property check parts used by ./check (see DESIGN.md sections 2 and 4)."""

ENGINES = {
    "qmodel": {"pkg": "internal/queue", "dir": "harness/queue", "replay": "TestReplay_Q"},
}

POSTGRES = "PostgresStore cannot be executed in this sandbox (no server, none installable): decided for memory and SQLite only"
SAMPLED = "absence is not established: the result means no counterexample among the generated cases of the stated shape"

INTERLEAVE = ' || interleaving tier (the harness owns the schedule): a generated prologue leaves leases live, expired, superseded or settled; then two generated operations A and B run on two handles (two SQLiteStore values on one file, or one MemoryStore); A is held at its n-th yield point (n generated: a read of the injected clock, the point before any SQL statement (wrapping database/sql driver), or one of ten verif hook points inside the store - after BEGIN IMMEDIATE, around the lease UPDATE, around COMMIT, between batch rows) while B runs to completion or is seen waiting for A, then A is released; oracle: the two answers, the contents afterwards and the answers of a fixed epilogue (stats, dequeue everything, list) equal those of one sequential order of the documented atomic steps of the two operations (a by-filter mutation is select-then-id-list-mutation, everything else one step), each reference order executed on a fresh store under the transition validator; non-trivial = A was held, B completed while A was held, and the sequential orders differ among themselves'
PREEMPT = "interleaving tier: one preemption per pair (A interrupted once, by all of B), at clock reads, before every SQL statement (wrapping driver) and at the instrumented points; interleavings that need B to be interrupted as well are left to the stress tiers"

PROPS = {
    "C01": {
        "rule": "store tier: a child process runs a generated script (enqueue, batch enqueue, dequeue, ack/nack/dead single and batch, cancel/requeue/delete, "
                "wal checkpoint) against a SQLite file from 1-4 goroutines (one route each) and logs every returned call; the verif hook SIGKILLs it on the "
                "n-th hit of one of 13 labels (after BEGIN, around COMMIT, around the autocommit INSERT/UPDATE, between batch INSERTs, inside lease batches, "
                "around wal_checkpoint, between migration steps), optionally a second child dies while re-opening; the parent reopens the file: open "
                "succeeds, integrity_check ok, WAL+synchronous=FULL, counters consistent, every acknowledged effect present exactly once with identical "
                "fields, the in-flight op per goroutine applied atomically or not at all, no foreign id, every surviving message offered again; "
                "non-trivial = the label was actually hit, >=1 op acknowledged before and >=1 in flight at the kill; distinct by hash of (scripts,label,n); one case in four starts from a database file an older build left "
                "behind (schema version 1-5 with one accepted message: the child's start is the upgrade) and every case ends with one more restart on the same file (the queue opens again and holds the same messages) "
                "|| admission tier: the store tier's op sequences on full and nearly full queues under both drop policies, judged for C01's clause alone: an enqueue that returned success has stored its message",
        "level": "fault_enumeration",
        "assumptions": [SAMPLED, "SIGKILL keeps the OS page cache: power-loss durability (fsync ordering) is not decided; the PRAGMA assertion only pins the configuration",
                        "trusted: SQLite's WAL recovery", POSTGRES],
        "guards": ["acked-before-crash", "inflight-applied", "inflight-not-applied", "crash-while-opening"],
        "parts": [{"engine": "qmodel", "test": "TestProp_C01_StoreCrash", "quick": 500, "thorough": 30000, "shards": {"quick": 8}},
                  {"engine": "qmodel", "test": "TestProp_C01_Admission", "quick": 3000, "thorough": 200000}],
    },
    "C02": {
        "rule": "rapid-generated op sequences (1-40 ops over every Store method incl. batch/by-filter forms, clock steps on a 10ms lattice, "
                "per-case backend/limits/retention config) judged step by step by the transition validator; non-trivial = >=6 state-changing ops "
                "and (>=1 failed op or conflict, or an operator mutation on a leased message, or a retention prune); distinct by SHA-256 of the case JSON",
        "assumptions": [POSTGRES, SAMPLED, "raw contents are read through unexported fields (memory map / SELECT on queue_items) so that listing-triggered pruning does not perturb histories"],
        "parts": [{"engine": "qmodel", "test": "TestProp_C02_Store", "quick": 3000, "thorough": 400000}],
    },
    "C03": {
        "rule": "sequential tier: op sequences biased to dequeue/expiry edges under the transition validator (dequeue may only return due queued or "
                "expired-leased messages, fresh lease id, attempt+1); non-trivial = some message granted >=2 times or a dequeue after expiry" + INTERLEAVE,
        "assumptions": [POSTGRES, SAMPLED, PREEMPT],
        "parts": [{"engine": "qmodel", "test": "TestProp_C03_Sequential", "quick": 3000, "thorough": 400000},
                  {"engine": "qmodel", "test": "TestProp_C03_Interleaved", "quick": 4000, "thorough": 60000, "shards": {"quick": 8}, "shrinktime": "10s"}],
    },
    "C04": {
        "rule": "op sequences in which every lease id ever granted is kept in a wallet and presented again later (after ack/nack/expiry/cancel/requeue, "
                "padded/blank/unknown ids, duplicates in a batch); non-trivial = a stale id was presented while its message was leased under a newer id, "
                "or inside a batch together with >=1 valid id" + INTERLEAVE,
        "assumptions": [POSTGRES, SAMPLED, PREEMPT],
        "parts": [{"engine": "qmodel", "test": "TestProp_C04_Store", "quick": 3000, "thorough": 400000},
                  {"engine": "qmodel", "test": "TestProp_C04_Interleaved", "quick": 4000, "thorough": 60000, "shards": {"quick": 8}, "shrinktime": "10s"}],
    },
    "C05": {
        "rule": "op sequences biased to readiness (nack delays, future next_run_at, expiry, batch sizes around the ready count, route/target filters); "
                "count clause |returned| = min(batch, ready); sub-granularity tier moves the clock off the 10ms lattice and allows sqlite < 10ms lag; "
                "non-trivial = a dequeue with batch != ready > 0 and >=2 distinct readiness reasons present | long-history tier: 300-4200 messages pass through "
                "(enqueue, lease, ack in 1-5 waves) while 1-50 stay leased and 0-100 arrive late; after release by nack / batch nack / expiry every "
                "unsettled message must be offered again exactly once (reaches the memory backend's order-list compaction at 1024 slots) | waiting-consumer tier: "
                "a long-poll dequeue (max_wait 3 s, wall clock) is already waiting when 1-3 messages of its route become due on the injected store clock (lease of "
                "another consumer expires, nack / batch-nack delay elapses, scheduled next_run_at is reached; with and without queued rows on other routes, with and "
                "without a wake-up signal before the due instant); it must return min(batch, due) messages; non-trivial = the call was still waiting when the clock was advanced",
        "assumptions": [POSTGRES, SAMPLED, "'eventually offered' is checked at the generated dequeue instants only (bounded-delay form), not as liveness"],
        "parts": [{"engine": "qmodel", "test": "TestProp_C05_Store", "quick": 2500, "thorough": 300000},
                  {"engine": "qmodel", "test": "TestProp_C05_SubGranularity", "quick": 1500, "thorough": 200000},
                  {"engine": "qmodel", "test": "TestProp_C05_LongHistory", "quick": 120, "thorough": 6000, "shards": {"quick": 4}},
                  {"engine": "qmodel", "test": "TestProp_C05_WaitingConsumer", "quick": 48, "thorough": 3200, "shards": {"quick": 4}, "shrinktime": "20s"}],
    },
    "C12": {
        "rule": "store tier: queues pre-filled to max_depth(-1), single and batch enqueues (duplicates, batches larger than the remaining capacity, "
                "memory pressure) interleaved with dequeues/acks under both drop policies; non-trivial = a refusal or eviction while >=1 message was "
                "leased, or a batch that straddles the capacity boundary" + INTERLEAVE + " (here: queues full or 1-2 below max_depth, pairs with at least one single or batch enqueue under reject and drop_oldest)",
        "assumptions": [POSTGRES, SAMPLED, PREEMPT],
        "parts": [{"engine": "qmodel", "test": "TestProp_C12_Store", "quick": 3000, "thorough": 400000},
                  {"engine": "qmodel", "test": "TestProp_C12_Interleaved", "quick": 4000, "thorough": 60000, "shards": {"quick": 8}, "shrinktime": "10s"}],
    },
    "C13": {
        "rule": "one generated case drives a MemoryStore and a SQLiteStore in lock-step on one fake clock; every result (error class, counts, conflict "
                "lists, returned items modulo generated-id/lease-id bijection) and the full contents are compared after every step; a case is cut where "
                "the documented free choice among equally eligible messages was actually taken differently; non-trivial = >=1 step failed or conflicted "
                "on both backends, >=8 steps, not cut before step 8. long-history tier: 300-2100 messages (strictly increasing received times) pass through "
                "both backends while 1-4 stay leased / dead / canceled, are released by nack, expiry, requeue or resume, and a generated tail of 0-12 ordinary "
                "operations follows, all compared step by step; non-trivial there = >=1024 messages and no cut",
        "assumptions": [POSTGRES, SAMPLED, "memory-only admission guards (memory pressure, delivered-retention depth guard) are excluded by configuration as documented"],
        "parts": [{"engine": "qmodel", "test": "TestProp_C13_LockStep", "quick": 2000, "thorough": 240000},
                  {"engine": "qmodel", "test": "TestProp_C13_LongLockStep", "quick": 48, "thorough": 1600, "shards": {"quick": 8}, "shrinktime": "8s"}],
    },
    "C15": {
        "rule": "batch crash tier (engine qmodel): a child process runs scripts that end in a batch enqueue of 257-600 items (the store call behind Admin publish) and is "
                "SIGKILLed at the n-th row insert (n around 256 / 512) or around the commit; after reopening, each batch is stored as a whole or not at all",
        "assumptions": [],
        "guards": [],
        "parts": [{"engine": "qmodel", "test": "TestProp_C15_BatchCrash", "quick": 96, "thorough": 4000, "shards": {"quick": 8}, "shrinktime": "10s"}],
    },
    "C14": {
        "rule": "big-list tier: 600-1100 messages, id lists of 255-1001 ids and by-filter limits of 1000 (where implementations work in chunks), judged by the same selector || "
                "store tier: populations over routes x targets x all five states with tie timestamps, then id-list and by-filter mutations "
                "(unknown/duplicate/padded ids, contradictory filters, limits -1..1001, before-cursors on ties, preview); independent selector; "
                "non-trivial = the selection is a strict non-empty subset and an otherwise matching message is in a state the op must not touch" + INTERLEAVE,
        "assumptions": [POSTGRES, SAMPLED, PREEMPT],
        "parts": [{"engine": "qmodel", "test": "TestProp_C14_Store", "quick": 3000, "thorough": 400000},
                  {"engine": "qmodel", "test": "TestProp_C14_BigLists", "quick": 48, "thorough": 2400, "shards": {"quick": 8}, "shrinktime": "8s"},
                  {"engine": "qmodel", "test": "TestProp_C14_Interleaved", "quick": 4000, "thorough": 60000, "shards": {"quick": 8}, "shrinktime": "10s"}],
    },
}


def _merge_fragments():
    """Engines may ship their own table fragment in harness/<engine>/table.py (ENGINES, PROPS)."""
    import glob
    import os
    here = os.path.dirname(os.path.abspath(__file__))
    for path in sorted(glob.glob(os.path.join(here, "harness", "*", "table.py"))):
        ns = {"POSTGRES": POSTGRES, "SAMPLED": SAMPLED}
        exec(compile(open(path).read(), path, "exec"), ns)
        ENGINES.update(ns.get("ENGINES", {}))
        for pid, spec in ns.get("PROPS", {}).items():
            if pid in PROPS:
                PROPS[pid]["parts"] += spec.get("parts", [])
                PROPS[pid]["rule"] += " || " + spec.get("rule", "")
                PROPS[pid]["assumptions"] = PROPS[pid].get("assumptions", []) + [a for a in spec.get("assumptions", []) if a not in PROPS[pid].get("assumptions", [])]
                PROPS[pid]["guards"] = PROPS[pid].get("guards", []) + spec.get("guards", [])
                for k, v in spec.items():
                    if k not in ("parts", "rule", "assumptions", "guards"):
                        PROPS[pid].setdefault(k, v)
            else:
                PROPS[pid] = spec


_merge_fragments()
