#!/usr/bin/env python3
"""Regenerates MANIFEST.json from checks_table.py + manifest_meta.py (keeps the file valid at all times)."""
import json, os, sys
HERE = os.path.dirname(os.path.abspath(__file__))
sys.path.insert(0, HERE)
from checks_table import PROPS, ENGINES
from manifest_meta import META, NOT_APPLICABLE, HOOK_COMMITS

ALL = ["C%02d" % i for i in range(1, 21)]
checks = []
for pid in ALL:
    if pid not in PROPS or pid not in META:
        continue
    m = META[pid]
    spec = PROPS[pid]
    engines = sorted({p["engine"] for p in spec["parts"]})
    checks.append({
        "property_id": pid,
        "quick_cmd": "./check %s --tier quick" % pid,
        "thorough_cmd": "./check %s --tier thorough" % pid,
        "evidence_file": "/verif/evidence/%s.json" % pid,
        "replay_cmd_template": "./check %s --replay {path}" % pid,
        "engine": "+".join(engines),
        "level_claimed": {"category": spec.get("level", "exploration"), "text": m["text"], "design_ref": m.get("design_ref", "DESIGN.md section 4, " + pid)},
        "level_note": m["note"],
        "technique": m["technique"],
    })
na = [x for x in NOT_APPLICABLE if x["property_id"] not in {c["property_id"] for c in checks}]
for pid in ALL:
    if pid not in {c["property_id"] for c in checks} and pid not in {x["property_id"] for x in na}:
        na.append({"property_id": pid, "reason": "check not built yet in this round (no claim made)"})
manifest = {
    "version": 1,
    "setup_cmd": "./setup.sh",
    "hooks": {
        "guard": "verif",
        "enable": "checks build the in-package harness with `go test -c -tags verif` (overlay + modfile against /repo's working tree); internal/verifhook.Point is a no-op without the tag",
        "baseline_off_cmd": "cd /repo && go test -mod=mod -json -vet=off -count=1 -timeout 25m ./...",
        "source_commits": HOOK_COMMITS,
        "add_only": True,
    },
    "engines": [{"name": n, "path": "/verif/" + e["dir"], "serves_properties": sorted(p for p, s in PROPS.items() if any(x["engine"] == n for x in s["parts"])),
                 "kind_free_text": "rapid (pgregory.net/rapid v1.3.0) property tests overlaid into %s; plain replay tier; evidence merged by ./check" % e["pkg"]} for n, e in sorted(ENGINES.items())],
    "checks": checks,
    "not_applicable": na,
    "notes": "Technique family: property-based testing / fuzzing only. ./check <id> exits 0 (held; KNOWN-FINDING lines allowed), 1 (VIOLATION property=<id> replay=<path>), 2 (inconclusive: build failure, timeout, vacuity guard). Known/fixed findings: /verif/known_findings.json. Seeded breakages and which check catches them: /verif/seeded/ and DESIGN.md.",
}
json.dump(manifest, open(os.path.join(HERE, "MANIFEST.json"), "w"), indent=1)
print("MANIFEST.json: %d checks, %d not_applicable" % (len(checks), len(na)))
