"""Table fragment of engine cfg (C19: config fmt round trip). Merged by checks_table._merge_fragments()."""

ENGINES = {
    "cfg": {"pkg": "internal/config", "dir": "harness/cfg", "replay": "TestReplay_Cfg"},
}

PROPS = {
    "C19": {
        "rule": "Hookaidofile texts from (1) a grammar generator over every block and directive of parser.go (shorthand/block/dot forms, "
                "channel wrappers vs single-route vs bare routes, named matchers and refs, multi-value directives on one line vs repeated, "
                "quoted/unquoted/escaped values, {$V} {$V:def} {env.V} {file.p} {vars.N} placeholders whole and partial with the environment "
                "frozen per case, keyword-valued and blank values, unicode, comments, CRLF/CR/BOM, shuffled order; 70 % aimed at compile-valid, "
                "30 % at parse-valid but compile-invalid programs) and (2) 1-4 token/line-level mutations of the repository Hookaidofile, "
                "docs/configuration.md snippets, the seeds of FuzzParseFormatRoundTrip and generated programs; (3) the seed corpus of the native "
                "fuzz target. Oracle per text with Parse ok: Format output parses; Compile of it equals Compile of the original (canonical dump "
                "of the whole Compiled struct, OK flag, errors and warnings as multisets); a second Format is byte-identical. "
                "non-trivial = the parsed tree holds >= 8 directives/blocks/list entries and at least one alternative spelling (quoted value, "
                "placeholder, shorthand form, channel keyword); distinct by SHA-256 of the case JSON; d:* labels = one per directive present "
                "(recorded on every case in the quick tier, on every 16th case in the thorough tier, counted by d:sampled)",
        "assumptions": [
            SAMPLED,
            "texts rejected by Parse are outside the property's quantifier and are only counted (label parse-reject)",
            "Compile resolves vars by iterating a Go map: where Compile(original) itself is not reproducible (var cycles) a mismatch is "
            "only reported when neither side reproduces the other's result in 8 further runs (label compile-nondeterministic)",
            "{file.*} placeholders are only followed for files the case itself creates or regular files outside /dev /proc /sys /run",
        ],
        "parts": [
            {"engine": "cfg", "test": "TestProp_C19_Grammar", "quick": 32000, "thorough": 1600000, "shards": {"quick": 4}},
            {"engine": "cfg", "test": "TestProp_C19_Mutate", "quick": 16000, "thorough": 1000000},
            {"engine": "cfg", "test": "Fuzz_C19_Bytes", "quick": 1, "thorough": 1, "native": True, "shards": {"quick": 1, "thorough": 1}, "fuzz_seconds": {"thorough": 180}},
        ],
        "guards": ["compile-ok", "compile-invalid", "quoted", "ph-dollar-bare", "ph-env-quoted", "ph-vars", "ph-file-bare", "chan-wrapper",
                   "chan-single", "chan:bare", "named-matcher", "match-ref", "multi-value-oneline", "auth-hmac-block", "auth-hmac-shorthand",
                   "auth-forward-block", "form:Publish.shorthand", "form:Publish.dotNotation", "form:Queue.shorthand", "comment", "crlf",
                   "escape", "kw-as-value", "unicode"],
    },
}
