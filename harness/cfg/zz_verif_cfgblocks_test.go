//go:build verif

package config

import (
	"fmt"
	"strings"

	"pgregory.net/rapid"
)

// ---------------------------------------------------------------------------------------
// Grammar generator, part 2: every block and directive accepted by parser.go.
// ---------------------------------------------------------------------------------------

type ds struct {
	name string
	kind int
}

// simple: each directive of specs is present with probability p (single-value directives).
func (g *cg) simple(specs []ds, p int) []*node {
	var out []*node
	for _, s := range specs {
		if g.pct(p, "has-"+s.name) {
			out = append(out, st(s.name, g.v(s.kind)))
		}
	}
	return out
}

func (g *cg) shuffle(ns []*node) []*node {
	if len(ns) < 2 || !g.pct(50, "shuffle") {
		return ns
	}
	return rapid.Permutation(ns).Draw(g.t, "perm")
}

func stopSet(words ...string) map[string]bool {
	m := map[string]bool{}
	for _, w := range words {
		m[w] = true
	}
	return m
}

var (
	stopEgress  = stopSet("allow", "deny", "https_only", "redirects", "dns_rebind_protection")
	stopMatch   = stopSet("method", "host", "header", "header_exists", "query", "remote_ip", "query_exists")
	stopPolicy  = stopSet("direct", "managed", "allow_pull_routes", "allow_deliver_routes", "require_actor", "require_request_id", "fail_closed", "actor_allow", "actor_prefix")
	stopHMAC    = stopSet("secret", "secret_ref", "signature_header", "timestamp_header", "nonce_header", "tolerance")
	stopForward = stopSet("timeout", "copy_headers", "body_limit")
	stopDeliver = stopSet("retry", "timeout", "sign")
	stopRef     = stopSet("secret_ref")
)

// multi renders a multi-value directive: all values on one line, one directive per value, or
// a mixture. per = tokens per entry (2 for header/query pairs).
func (g *cg) multi(name []string, values [][]string) []*node {
	var out []*node
	i := 0
	for i < len(values) {
		take := 1
		if g.pct(45, "multi-oneline") {
			take = g.n("multi-take", 1, len(values)-i)
		}
		head := append([]string(nil), name...)
		for _, vs := range values[i : i+take] {
			head = append(head, vs...)
		}
		out = append(out, st(head...))
		i += take
	}
	return out
}

// values draws n values of the kind for a multi-value directive (the first one may be an
// unquoted keyword, later ones are quoted when they collide with a directive name).
func (g *cg) values(kind int, lo, hi int, stop map[string]bool, label string) [][]string {
	n := g.n(label, lo, hi)
	var out [][]string
	for i := 0; i < n; i++ {
		// every value may end up first on its line, but also later on a line: always protect
		out = append(out, []string{g.vs(kind, stop)})
	}
	return out
}

func (g *cg) tlsBlock() *node {
	var ks []*node
	if !g.bad(15, "tls-nocert") {
		ks = append(ks, st("cert_file", g.v(kFile)))
	}
	if !g.bad(15, "tls-nokey") {
		ks = append(ks, st("key_file", g.v(kFile)))
	}
	ca := g.pct(40, "tls-ca")
	if ca {
		ks = append(ks, st("client_ca", g.v(kFile)))
	}
	if g.pct(40, "tls-auth") {
		if ca || g.bad(30, "tls-auth-noca") {
			ks = append(ks, st("client_auth", g.spell(g.pick("cauth2", "require", "verify_if_given", "require_and_verify", "request", "none"), nil)))
		} else {
			ks = append(ks, st("client_auth", g.v(kClientAuth)))
		}
	}
	return blk(g.shuffle(ks), "tls")
}

func (g *cg) rateLimit() *node {
	var ks []*node
	if !g.bad(20, "rl-norps") {
		ks = append(ks, st("rps", g.v(kRPS)))
	}
	if g.pct(50, "rl-burst") {
		ks = append(ks, st("burst", g.v(kIntPos)))
	}
	return blk(g.shuffle(ks), "rate_limit")
}

func (g *cg) ingress() *node {
	var ks []*node
	if g.pct(70, "ing-listen") {
		ks = append(ks, st("listen", g.v(kListen)))
	}
	if g.pct(25, "ing-tls") {
		ks = append(ks, g.tlsBlock())
	}
	if g.pct(30, "ing-rl") {
		ks = append(ks, g.rateLimit())
	}
	return blk(g.shuffle(ks), "ingress")
}

func (g *cg) tokens(lo, hi int) []*node {
	var out []*node
	for i, n := 0, g.n("ntokens", lo, hi); i < n; i++ {
		out = append(out, st("auth", "token", g.v(kSecretRef)))
	}
	return out
}

func (g *cg) pullAPI(pulls bool) *node {
	needToken := true
	var ks []*node
	if g.pct(60, "pa-listen") {
		ks = append(ks, st("listen", g.v(kListen)))
	}
	if g.pct(30, "pa-prefix") {
		ks = append(ks, st("prefix", g.v(kPrefix)))
	}
	ks = append(ks, g.simple([]ds{{"max_batch", kIntPos}}, 30)...)
	if g.pct(25, "pa-lease") {
		ks = append(ks, st("default_lease_ttl", g.spell(g.pick("dl", "30s", "1m", "10s"), nil)))
		if g.pct(60, "pa-maxlease") {
			ks = append(ks, st("max_lease_ttl", g.spell(g.pick("ml", "5m", "1h", "off", "0"), nil)))
		}
	} else if g.pct(20, "pa-maxlease-only") {
		ks = append(ks, st("max_lease_ttl", g.v(kDurOff)))
	}
	if g.pct(25, "pa-wait") {
		ks = append(ks, st("default_max_wait", g.spell(g.pick("dw", "0", "5s", "off", "1s"), nil)))
		if g.pct(60, "pa-maxwait") {
			ks = append(ks, st("max_wait", g.spell(g.pick("mw", "30s", "1m", "off"), nil)))
		}
	}
	if g.pct(20, "pa-tls") {
		ks = append(ks, g.tlsBlock())
	}
	if (pulls && g.pct(20, "pa-grpc")) || g.bad(10, "pa-grpc-nopull") {
		ks = append(ks, st("grpc_listen", g.v(kListen)))
	}
	lo := 0
	if needToken && !g.bad(25, "pa-notoken") {
		lo = 1
	}
	ks = append(ks, g.tokens(lo, 3)...)
	return blk(g.shuffle(ks), "pull_api")
}

func (g *cg) adminAPI() *node {
	var ks []*node
	if g.pct(60, "aa-listen") {
		ks = append(ks, st("listen", g.v(kListen)))
	}
	if g.pct(40, "aa-prefix") {
		ks = append(ks, st("prefix", g.v(kPrefix)))
	}
	if g.pct(20, "aa-tls") {
		ks = append(ks, g.tlsBlock())
	}
	ks = append(ks, g.tokens(0, 2)...)
	if g.bad(10, "aa-pullonly") { // pull_api-only directive in admin_api: a parse error, case is skipped
		ks = append(ks, st("max_batch", "5"))
	}
	return blk(g.shuffle(ks), "admin_api")
}

func (g *cg) logBlock(name string) *node {
	if g.pct(40, name+"-short") {
		if name == "access_log" {
			return st(name, g.v(kBool))
		}
		return st(name, g.v(kLogLevel))
	}
	var ks []*node
	if name == "access_log" {
		ks = append(ks, g.simple([]ds{{"enabled", kBool}}, 60)...)
	} else {
		ks = append(ks, g.simple([]ds{{"level", kLogLevel}}, 60)...)
	}
	if g.pct(35, name+"-file") {
		ks = append(ks, st("output", g.spell("file", nil)))
		if !g.bad(30, name+"-nopath") {
			ks = append(ks, st("path", g.v(kFile)))
		}
	} else {
		ks = append(ks, g.simple([]ds{{"output", kLogOutput}}, 50)...)
		if g.bad(20, name+"-strayPath") {
			ks = append(ks, st("path", g.v(kFile)))
		}
	}
	ks = append(ks, g.simple([]ds{{"format", kLogFormat}}, 50)...)
	return blk(g.shuffle(ks), name)
}

func (g *cg) observability() *node {
	var ks []*node
	if g.pct(50, "obs-access") {
		ks = append(ks, g.logBlock("access_log"))
	}
	if g.pct(50, "obs-runtime") {
		ks = append(ks, g.logBlock("runtime_log"))
	}
	if g.pct(50, "obs-metrics") {
		if g.pct(40, "metrics-short") {
			ks = append(ks, st("metrics", g.v(kBool)))
		} else {
			ms := g.simple([]ds{{"enabled", kBool}, {"listen", kListen}, {"prefix", kPrefix}}, 55)
			ks = append(ks, blk(g.shuffle(ms), "metrics"))
		}
	}
	if g.pct(50, "obs-tracing") {
		if g.pct(35, "tracing-short") {
			ks = append(ks, st("tracing", g.v(kBool)))
		} else {
			ts := g.simple([]ds{{"enabled", kBool}, {"collector", kURL}, {"url_path", kPath}, {"timeout", kDurPos}, {"compression", kCompression}, {"proxy_url", kURL}}, 45)
			hasTLS := g.pct(35, "tr-tls")
			if hasTLS {
				var tl []*node
				tl = append(tl, g.simple([]ds{{"ca_file", kFile}, {"server_name", kHost}, {"insecure_skip_verify", kBool}}, 50)...)
				if g.pct(50, "tr-tls-pair") {
					tl = append(tl, st("cert_file", g.v(kFile)))
					if !g.bad(30, "tr-tls-nokey") {
						tl = append(tl, st("key_file", g.v(kFile)))
					}
				}
				ts = append(ts, blk(g.shuffle(tl), "tls"))
			}
			if g.pct(40, "tr-insecure") {
				if hasTLS && !g.bad(40, "tr-insecure-tls") {
					ts = append(ts, st("insecure", g.spell(g.pick("offv", "off", "false", "0"), nil)))
				} else {
					ts = append(ts, st("insecure", g.v(kBool)))
				}
			}
			if g.pct(40, "tr-retry") {
				var rs []*node
				rs = append(rs, g.simple([]ds{{"enabled", kBool}}, 50)...)
				if g.pct(60, "tr-retry-iv") {
					rs = append(rs, st("initial_interval", g.spell(g.pick("ii", "1s", "5s", "500ms"), nil)))
					rs = append(rs, st("max_interval", g.spell(g.pick("mi", "30s", "5s", "1m"), nil)))
				}
				if g.pct(50, "tr-retry-el") {
					rs = append(rs, st("max_elapsed_time", g.spell(g.pick("me", "1m", "off", "0", "10m"), nil)))
				}
				ts = append(ts, blk(g.shuffle(rs), "retry"))
			}
			for i, n := 0, g.n("tr-headers", 0, 3); i < n; i++ {
				name := g.sem(kHdrName) + fmt.Sprint(g.id())
				if g.bad(10, "wild") {
					name = g.wild()
				}
				ts = append(ts, st("header", g.spell(name, nil), g.v(kHdrVal)))
			}
			ks = append(ks, blk(g.shuffle(ts), "tracing"))
		}
	}
	return blk(g.shuffle(ks), "observability")
}

func (g *cg) retryDirective() *node {
	head := []string{"retry", g.v(kRetryType)}
	var opts [][]string
	if g.pct(60, "retry-max") {
		opts = append(opts, []string{"max", g.v(kIntPos)})
	}
	if g.pct(60, "retry-basecap") {
		opts = append(opts, []string{"base", g.spell(g.pick("rb", "1s", "2s", "500ms"), nil)})
		if g.pct(70, "retry-cap") {
			opts = append(opts, []string{"cap", g.spell(g.pick("rc", "30s", "2m", "2s"), nil)})
		}
	}
	if g.pct(50, "retry-jitter") {
		opts = append(opts, []string{"jitter", g.v(kFloat01)})
	}
	if len(opts) > 1 && g.pct(40, "retry-shuffle") {
		opts = rapid.Permutation(opts).Draw(g.t, "retry-perm")
	}
	for _, o := range opts {
		head = append(head, o...)
	}
	return st(head...)
}

func (g *cg) defaults() *node {
	var ks []*node
	ks = append(ks, g.simple([]ds{{"max_body", kSize}, {"max_headers", kSize}}, 40)...)
	if g.pct(50, "def-egress") {
		var es []*node
		es = append(es, g.multi([]string{"allow"}, g.values(kEgress, 0, 3, stopEgress, "n-allow"))...)
		es = append(es, g.multi([]string{"deny"}, g.values(kEgress, 0, 3, stopEgress, "n-deny"))...)
		es = append(es, g.simple([]ds{{"https_only", kBool}, {"redirects", kBool}, {"dns_rebind_protection", kBool}}, 45)...)
		ks = append(ks, blk(g.shuffle(es), "egress"))
	}
	if g.pct(40, "def-policy") {
		ps := g.simple([]ds{{"direct", kBool}, {"managed", kBool}, {"allow_pull_routes", kBool}, {"allow_deliver_routes", kBool},
			{"require_actor", kBool}, {"require_request_id", kBool}, {"fail_closed", kBool}}, 40)
		ps = append(ps, g.multi([]string{"actor_allow"}, g.values(kText, 0, 3, stopPolicy, "n-actor"))...)
		ps = append(ps, g.multi([]string{"actor_prefix"}, g.values(kText, 0, 2, stopPolicy, "n-actorpfx"))...)
		ks = append(ks, blk(g.shuffle(ps), "publish_policy"))
	}
	if g.pct(40, "def-deliver") {
		var dsn []*node
		if g.pct(60, "def-retry") {
			dsn = append(dsn, g.retryDirective())
		}
		dsn = append(dsn, g.simple([]ds{{"timeout", kDurPos}, {"concurrency", kIntPos}}, 50)...)
		ks = append(ks, blk(g.shuffle(dsn), "deliver"))
	}
	if g.pct(30, "def-trend") {
		ts := g.simple([]ds{{"window", kDurPos}, {"expected_capture_interval", kDurPos}, {"stale_grace_factor", kSmallInt},
			{"sustained_growth_consecutive", kSmallInt}, {"sustained_growth_min_samples", kIntPos}, {"sustained_growth_min_delta", kIntPos},
			{"recent_surge_min_total", kIntPos}, {"recent_surge_min_delta", kIntPos}, {"recent_surge_percent", kPct},
			{"dead_share_high_min_total", kIntPos}, {"dead_share_high_percent", kPct}, {"queued_pressure_min_total", kIntPos},
			{"queued_pressure_percent", kPct}, {"queued_pressure_leased_multiplier", kSmallInt}}, 40)
		ks = append(ks, blk(g.shuffle(ts), "trend_signals"))
	}
	if g.pct(30, "def-abp") {
		as := g.simple([]ds{{"enabled", kBool}, {"min_total", kIntPos}, {"queued_percent", kPct}, {"ready_lag", kDurPos},
			{"oldest_queued_age", kDurPos}, {"sustained_growth", kBool}}, 50)
		ks = append(ks, blk(g.shuffle(as), "adaptive_backpressure"))
	}
	return blk(g.shuffle(ks), "defaults")
}

func (g *cg) secretsBlock() *node {
	var ks []*node
	for i, n := 0, g.n("n-secrets", 1, 3); i < n; i++ {
		id := fmt.Sprintf("%s%d", g.pick("sid", "S", "key-", "secret ", "ß"), g.id())
		g.secrets = append(g.secrets, id)
		spelled := g.spell(id, nil)
		if g.bad(8, "wild") {
			spelled = g.spell(g.wild(), nil)
		}
		var ss []*node
		if !g.bad(10, "sec-novalue") {
			ss = append(ss, st("value", g.v(kSecretRef)))
		}
		if !g.bad(10, "sec-nofrom") {
			ss = append(ss, st("valid_from", g.spell(g.pick("from", "2025-01-01T00:00:00Z", "2024-06-01T00:00:00+02:00"), nil)))
		}
		if g.pct(40, "sec-until") {
			ss = append(ss, st("valid_until", g.spell(g.untilValue(), nil)))
		}
		ks = append(ks, blk(g.shuffle(ss), "secret", spelled))
	}
	return blk(ks, "secrets")
}

func (g *cg) untilValue() string {
	if g.bad(30, "until-before-from") {
		return "2020-01-01T00:00:00Z"
	}
	return g.pick("until", "2027-01-01T00:00:00Z", "2026-06-01T12:00:00.5Z", "2030-12-31T23:59:59+01:00")
}

func (g *cg) matchBody() []*node {
	var ms []*node
	ms = append(ms, g.multi([]string{"method"}, g.values(kMethod, 0, 3, stopMatch, "n-method"))...)
	ms = append(ms, g.multi([]string{"host"}, g.values(kHost, 0, 2, stopMatch, "n-host"))...)
	var hs [][]string
	for i, n := 0, g.n("n-header", 0, 2); i < n; i++ {
		hs = append(hs, []string{g.vs(kHdrName, stopMatch), g.vs(kHdrVal, nil)})
	}
	ms = append(ms, g.multi([]string{"header"}, hs)...)
	ms = append(ms, g.multi([]string{"header_exists"}, g.values(kHdrName, 0, 2, stopMatch, "n-hexists"))...)
	var qs [][]string
	for i, n := 0, g.n("n-query", 0, 2); i < n; i++ {
		qs = append(qs, []string{g.vs(kLabel, stopMatch), g.vs(kHdrVal, nil)})
	}
	ms = append(ms, g.multi([]string{"query"}, qs)...)
	ms = append(ms, g.multi([]string{"remote_ip"}, g.values(kCIDR, 0, 2, stopMatch, "n-rip"))...)
	ms = append(ms, g.multi([]string{"query_exists"}, g.values(kLabel, 0, 2, stopMatch, "n-qexists"))...)
	return g.shuffle(ms)
}

func (g *cg) hmacSecretOrRef() (kw string, val string) {
	if len(g.secrets) > 0 && g.pct(40, "hmac-ref") {
		id := rapid.SampledFrom(g.secrets).Draw(g.t, "refid")
		if g.bad(15, "dangling-ref") {
			id = "missing"
		}
		if !g.usedRefs[id] || g.bad(30, "dup-ref") {
			g.usedRefs[id] = true
			return "secret_ref", g.spell(id, stopHMAC)
		}
	}
	return "secret", g.vs(kSecretRef, stopHMAC)
}

func (g *cg) hmacOptions() []*node {
	hs := g.simple([]ds{{"tolerance", kDurPos}}, 45)
	if g.pct(35, "hmac-sighdr") {
		hs = append(hs, st("signature_header", g.spell(g.pick("sh", "X-Sig", "X-Hub-Signature-256", "x-signature"), nil)))
	}
	if g.pct(25, "hmac-tshdr") {
		hs = append(hs, st("timestamp_header", g.spell(g.pick("th", "X-TS", "X-Timestamp", "X-Sig"), nil)))
	}
	if g.pct(25, "hmac-noncehdr") {
		hs = append(hs, st("nonce_header", g.spell(g.pick("nh", "X-N", "X-Nonce"), nil)))
	}
	return hs
}

func (g *cg) authNodes() []*node {
	var out []*node
	switch g.n("authkind", 0, 5) {
	case 0:
	case 1: // basic
		for i, n := 0, g.n("n-basic", 1, 3); i < n; i++ {
			out = append(out, st("auth", "basic", g.spell(g.sem(kLabel), nil), g.v(kText)))
		}
	case 2: // hmac shorthand(s)
		for i, n := 0, g.n("n-hmac", 1, 3); i < n; i++ {
			kw, val := g.hmacSecretOrRef()
			if kw == "secret_ref" {
				out = append(out, st("auth", "hmac", "secret_ref", val))
			} else {
				// a literal secret spelled `secret_ref` must be quoted here
				out = append(out, st("auth", "hmac", g.vs(kSecretRef, stopRef)))
			}
		}
	case 3: // hmac block
		var hs []*node
		lo := 1
		if g.bad(30, "hmac-nosecret") {
			lo = 0
		}
		for i, n := 0, g.n("n-hmacb", lo, 3); i < n; i++ {
			kw, val := g.hmacSecretOrRef()
			if g.pct(30, "hmac-two") {
				_, val2 := g.hmacSecretOrRef()
				if kw == "secret" {
					hs = append(hs, st(kw, val, g.vs(kSecretRef, stopHMAC)))
				} else {
					_ = val2
					hs = append(hs, st(kw, val))
				}
			} else {
				hs = append(hs, st(kw, val))
			}
		}
		hs = append(hs, g.hmacOptions()...)
		out = append(out, blk(g.shuffle(hs), "auth", "hmac"))
	case 4: // hmac shorthand with option block: auth hmac X { ... } / auth hmac secret_ref X { ... }
		kw, val := g.hmacSecretOrRef()
		hs := g.hmacOptions()
		if g.pct(30, "hmac-extra") {
			k2, v2 := g.hmacSecretOrRef()
			hs = append(hs, st(k2, v2))
		}
		if kw == "secret_ref" {
			out = append(out, blk(g.shuffle(hs), "auth", "hmac", "secret_ref", val))
		} else {
			out = append(out, blk(g.shuffle(hs), "auth", "hmac", g.vs(kSecretRef, stopRef)))
		}
		if g.pct(25, "hmac-mixed") { // plus a separate shorthand line
			out = append(out, st("auth", "hmac", g.vs(kSecretRef, stopRef)))
		}
	case 5: // forward
		url := g.v(kURL)
		if g.pct(50, "fwd-block") {
			fs := g.simple([]ds{{"timeout", kDurPos}, {"body_limit", kSize}}, 50)
			fs = append(fs, g.multi([]string{"copy_headers"}, g.values(kHdrName, 0, 3, stopForward, "n-copy"))...)
			out = append(out, blk(g.shuffle(fs), "auth", "forward", url))
		} else {
			out = append(out, st("auth", "forward", url))
		}
	}
	if g.bad(10, "auth-combined") {
		out = append(out, st("auth", "basic", "u", "p"))
	}
	return out
}

func (g *cg) deliverNode() *node {
	var dsn []*node
	if g.pct(40, "dl-retry") {
		dsn = append(dsn, g.retryDirective())
	}
	dsn = append(dsn, g.simple([]ds{{"timeout", kDurPos}}, 40)...)
	signed := false
	refs := false
	switch g.n("signkind", 0, 2) {
	case 1:
		signed = true
		dsn = append(dsn, st("sign", "hmac", g.vs(kSecretRef, stopRef)))
	case 2:
		if len(g.secrets) > 0 {
			signed, refs = true, true
			ids := append([]string(nil), g.secrets...)
			if g.bad(15, "dangling-ref") {
				ids = append(ids, "missing")
			}
			var vals [][]string
			for _, id := range ids[:g.n("n-signrefs", 1, len(ids))] {
				vals = append(vals, []string{g.spell(id, stopDeliver)})
			}
			dsn = append(dsn, g.multi([]string{"sign", "hmac", "secret_ref"}, vals)...)
		}
	}
	if signed || g.bad(15, "sign-opts-nosign") {
		if g.pct(35, "sign-sighdr") {
			dsn = append(dsn, st("sign", "signature_header", g.spell(g.pick("ssh", "X-Hookaido-Signature", "X-Out-Sig"), nil)))
		}
		if g.pct(35, "sign-tshdr") {
			dsn = append(dsn, st("sign", "timestamp_header", g.spell(g.pick("sth", "X-Hookaido-Timestamp", "X-Out-TS"), nil)))
		}
		if (refs || g.bad(30, "sel-noref")) && g.pct(50, "sign-sel") {
			dsn = append(dsn, st("sign", "secret_selection", g.v(kSelection)))
		}
	}
	// the secret_ref lines must stay adjacent-insensitive: order of directives is free
	return blk(g.shuffle(dsn), "deliver", g.v(kURL))
}

// route builds one route block; chanType "" = bare.
func (g *cg) route(chanType string, paths *[]string) *node {
	g.usedRefs = map[string]bool{}
	path := g.sem(kPath)
	if len(*paths) > 0 && g.bad(8, "dup-path") {
		path = (*paths)[0]
	}
	*paths = append(*paths, path)
	var pathTok string
	switch g.n("pathspell", 0, 5) {
	case 0, 1, 2:
		pathTok = path
		if !isUnquotedPathSafe(path) {
			pathTok = g.quote(path, false)
		}
	case 3:
		pathTok = g.quote(path, g.pct(30, "fancy"))
	case 4:
		n := g.envName()
		g.env[n] = path
		pathTok = `"{$` + n + `}"`
	default:
		n := g.envName()
		g.env[n] = strings.TrimPrefix(path, "/")
		pathTok = `"/{env.` + n + `}"`
	}
	if g.bad(6, "wild-path") {
		pathTok = g.quote(g.wild(), false)
	}

	var ks []*node
	if g.pct(30, "labels") {
		ks = append(ks, st("application", g.v(kLabel)))
		if !g.bad(25, "label-half") {
			ks = append(ks, st("endpoint_name", g.v(kLabel)))
		}
	}
	inboundish := chanType == "" || chanType == "inbound"
	if inboundish || g.bad(25, "chan-forbidden") {
		if g.pct(35, "match") {
			ks = append(ks, blk(g.matchBody(), "match"))
		}
		if g.pct(30, "rl") {
			ks = append(ks, g.rateLimit())
		}
		if g.pct(70, "auth") {
			ks = append(ks, g.authNodes()...)
		}
	}
	ks = append(ks, g.simple([]ds{{"max_body", kSize}, {"max_headers", kSize}}, 20)...)
	pubMix := false
	switch g.n("publish", 0, 6) {
	case 1:
		ks = append(ks, st("publish", g.v(kBool)))
	case 2:
		ps := g.simple([]ds{{"enabled", kBool}, {"direct", kBool}, {"managed", kBool}}, 55)
		ks = append(ks, blk(g.shuffle(ps), "publish"))
	case 3:
		ks = append(ks, st("publish.direct", g.v(kBool)))
		if g.pct(50, "pub-both") {
			ks = append(ks, st("publish.managed", g.v(kBool)))
		}
	case 4:
		ks = append(ks, st("publish.managed", g.v(kBool)))
	case 5: // block without `enabled` followed by dot notation (accepted by the parser; not shuffled apart)
		ps := g.simple([]ds{{"managed", kBool}}, 50)
		ks = append(ks, &node{head: []string{"publish"}, block: true, kids: ps}, st("publish.direct", g.v(kBool)))
		pubMix = true
	}
	if g.backend != "sqlite" || g.pct(30, "queue") {
		be := g.v(kBackend)
		if g.bad(10, "mixed-backend") {
			be = g.spell(g.pick("be2", "memory", "sqlite", "postgres", "redis"), nil)
		}
		if g.pct(50, "queue-short") {
			ks = append(ks, st("queue", be))
		} else {
			ks = append(ks, blk([]*node{st("backend", be)}, "queue"))
		}
	}
	wantPull := chanType == "internal" || (chanType != "outbound" && g.pct(55, "pullmode"))
	if g.bad(8, "flip-mode") {
		wantPull = !wantPull
	}
	if wantPull || g.bad(8, "both-modes") {
		var ps []*node
		if !g.bad(10, "pull-nopath") {
			ps = append(ps, st("path", g.v(kPath)))
		}
		ps = append(ps, g.tokens(0, 2)...)
		ks = append(ks, blk(g.shuffle(ps), "pull"))
	}
	if !wantPull || g.bad(8, "both-modes") {
		for i, n := 0, g.n("n-deliver", 1, 3); i < n; i++ {
			ks = append(ks, g.deliverNode())
		}
		if g.pct(30, "dconc") {
			ks = append(ks, st("deliver_concurrency", g.v(kIntPos)))
		}
	}
	if g.bad(5, "empty-route") {
		ks = nil
	}
	if pubMix { // `publish.direct` before `publish { }` is a parse error: keep the order
		return blk(ks, pathTok)
	}
	return blk(g.shuffle(ks), pathTok)
}

func (g *cg) namedMatcher(names *[]string) *node {
	name := g.pick("mname", "m", "github-push", "ünï", "a.b", "POST") + fmt.Sprint(g.id())
	*names = append(*names, name)
	return blk(g.matchBody(), "@"+name)
}

func (g *cg) varsBlock() *node {
	g.useVars = false // no further {vars.N} registrations while the block itself is written
	var ks []*node
	for _, v := range g.vars {
		ks = append(ks, st(g.spell(v[0], nil), v[1]))
	}
	for i, n := 0, g.n("n-extravars", 0, 2); i < n; i++ {
		name := fmt.Sprintf("X%d", g.id())
		val := g.v(kText)
		if len(g.vars) > 0 && g.pct(40, "var-nested") {
			val = g.quote("pre-{vars."+g.vars[0][0]+"}-post", false)
		}
		if g.bad(15, "var-cycle") {
			val = g.quote("{vars."+name+"}", false)
			if g.pct(60, "var-cycle3") { // a cycle over three names: Compile reports it from a map-order dependent start
				ks = append(ks, st(name+"b", g.quote("{vars."+name+"c}", false)), st(name+"c", g.quote("x{vars."+name+"}", false)))
				val = g.quote("{vars."+name+"b}", false)
			}
		}
		if g.bad(10, "wild") {
			name = g.wild()
		}
		ks = append(ks, st(g.spell(name, nil), val))
	}
	return blk(g.shuffle(ks), "vars")
}

// program builds the whole file.
func (g *cg) program() string {
	g.backend = g.pick("backend", "sqlite", "sqlite", "memory", "postgres")
	g.useVars = g.pct(30, "usevars")
	g.dens = g.pick2("density", 100, 60, 30)
	var top []*node

	if g.pct(35, "secrets") {
		top = append(top, g.secretsBlock())
	}
	var matcherNames []string
	for i, n := 0, g.n("n-matchers", 0, 2); i < n; i++ {
		top = append(top, g.namedMatcher(&matcherNames))
	}

	// routes, grouped into channel forms
	var paths []string
	nRoutes := g.n("n-routes", 1, 4)
	if g.bad(4, "no-routes") {
		nRoutes = 0
	}
	var routeNodes []*node
	pulls := false
	for made := 0; made < nRoutes; {
		form := g.n("chanform", 0, 5)
		ct := ""
		if form >= 2 {
			ct = g.pick("chantype", "inbound", "outbound", "internal")
		}
		mk := func() *node {
			r := g.route(ct, &paths)
			if (ct == "" || ct == "inbound") && len(matcherNames) > 0 && g.pct(40, "use-ref") {
				var refs [][]string
				for _, nm := range matcherNames[:g.n("n-refs", 1, len(matcherNames))] {
					if g.bad(10, "dangling-matcher") {
						nm = "nope"
					}
					refs = append(refs, []string{"@" + nm})
				}
				at := g.n("refpos", 0, len(r.kids))
				ins := g.multi([]string{"match"}, refs)
				r.kids = append(r.kids[:at:at], append(ins, r.kids[at:]...)...)
			}
			for _, k := range r.kids {
				if len(k.head) > 0 && k.head[0] == "pull" {
					pulls = true
				}
			}
			made++
			return r
		}
		switch {
		case form <= 1: // bare
			routeNodes = append(routeNodes, mk())
		case form <= 3: // single-route shorthand: inbound /x { }
			r := mk()
			r.head = append([]string{ct}, r.head...)
			routeNodes = append(routeNodes, r)
		default: // wrapper with 0..3 routes
			var rs []*node
			lo := 1
			if g.pct(15, "empty-wrapper") {
				lo = 0
			}
			for i, n := 0, g.n("n-wrapped", lo, 3); i < n; i++ {
				rs = append(rs, mk())
			}
			if len(rs) == 0 {
				made++ // an empty wrapper counts, so the loop ends
			}
			routeNodes = append(routeNodes, blk(rs, ct))
		}
	}
	top = append(top, routeNodes...)

	if g.pct(55, "ingress") {
		top = append(top, g.ingress())
	}
	if pulls && !g.bad(20, "no-pullapi") || g.pct(25, "pullapi-anyway") {
		top = append(top, g.pullAPI(pulls))
	}
	if g.pct(35, "adminapi") {
		top = append(top, g.adminAPI())
	}
	if g.pct(35, "observability") {
		top = append(top, g.observability())
	}
	if g.pct(40, "defaults") {
		top = append(top, g.defaults())
	}
	if g.pct(25, "queue_retention") {
		top = append(top, blk(g.shuffle(g.simple([]ds{{"max_age", kDurOff}, {"prune_interval", kDurPos}}, 65)), "queue_retention"))
	}
	if g.pct(20, "delivered_retention") {
		top = append(top, blk(g.simple([]ds{{"max_age", kDurOff}}, 80), "delivered_retention"))
	}
	if g.pct(20, "dlq_retention") {
		top = append(top, blk(g.shuffle(g.simple([]ds{{"max_age", kDurOff}, {"max_depth", kInt0}}, 65)), "dlq_retention"))
	}
	if g.pct(25, "queue_limits") {
		top = append(top, blk(g.shuffle(g.simple([]ds{{"max_depth", kInt0}, {"drop_policy", kDropPolicy}}, 65)), "queue_limits"))
	}
	if len(g.vars) > 0 || g.pct(10, "vars-anyway") {
		top = append(top, g.varsBlock())
	}
	if g.bad(4, "dup-block") && len(top) > 0 { // duplicate top-level block: parse error for singletons
		top = append(top, top[0])
	}

	// top-level order: blocks may come in any order, but routes keep their relative order
	// only by choice (route order is semantic: first match wins, so it is shuffled as well -
	// the formatter must preserve whatever order the text has).
	top = g.shuffle(top)

	g.dens = 100
	l := &layout{g: g, unit: g.pick("indent", "  ", "\t", "    ", "", " "), messy: g.pct(35, "messy"), cmts: g.pct(45, "comments"), oneln: g.pick2("oneline-pct", 0, 15, 60)}
	if l.cmts && g.pct(50, "preamble") {
		for i, n := 0, g.n("n-preamble", 1, 3); i < n; i++ {
			l.b.WriteString(rapid.SampledFrom(cfgComments).Draw(g.t, "cmttext") + "\n")
			if g.pct(20, "preamble-gap") {
				l.b.WriteString("\n")
			}
		}
	}
	for _, n := range top {
		l.render(n, "")
		if g.pct(50, "gap") {
			l.b.WriteString("\n")
		}
	}
	out := l.b.String()
	if g.pct(10, "no-final-newline") {
		out = strings.TrimRight(out, "\n")
	}
	if g.pct(12, "crlf") {
		out = strings.ReplaceAll(out, "\n", "\r\n")
	} else if l.messy && g.pct(10, "cr-only") {
		out = strings.ReplaceAll(out, "\n", "\r") // classic Mac line ends: normalizeInput maps CR to LF
	}
	if g.pct(8, "bom") {
		out = "\xef\xbb\xbf" + out
	}
	return out
}

func (g *cg) pick2(label string, xs ...int) int { return rapid.SampledFrom(xs).Draw(g.t, label) }

// genCfgCase is the grammar generator: ~70 % of the cases aim at compile-valid programs,
// ~30 % at parse-valid but compile-invalid ones.
func genCfgCase() *rapid.Generator[CfgCase] {
	return rapid.Custom(func(t *rapid.T) CfgCase {
		g := &cg{t: t, env: map[string]string{}, files: map[string]string{}}
		g.invalid = g.pct(30, "mode")
		src := g.program()
		c := CfgCase{Src: src}
		if len(g.env) > 0 {
			c.Env = g.env
		}
		if len(g.files) > 0 {
			c.Files = g.files
		}
		return c
	})
}
