//go:build verif

package config

import (
	"fmt"
	"math"
	"strings"

	"pgregory.net/rapid"
)

// ---------------------------------------------------------------------------------------
// Grammar generator, part 1: values, spellings, layout.
//
// A program is first built as a tree of statements (node) whose tokens are already spelled
// (quoted / unquoted / placeholder ...), then rendered with random layout (indentation, one-line
// blocks, brace placement, comments, blank lines, CRLF, BOM).
// ---------------------------------------------------------------------------------------

type node struct {
	head  []string // spelled tokens of the statement head
	block bool     // followed by { kids }
	kids  []*node
}

func st(tokens ...string) *node              { return &node{head: tokens} }
func blk(kids []*node, head ...string) *node { return &node{head: head, block: true, kids: kids} }

type cg struct {
	t        *rapid.T
	invalid  bool // this case is biased to parse-valid but compile-invalid programs
	env      map[string]string
	files    map[string]string
	vars     [][2]string // registered {vars.N} definitions (name, spelled value)
	nID      int
	port     int
	secrets  []string // secret ids defined
	backend  string
	useVars  bool
	usedRefs map[string]bool
	dens     int // percent scale of optional parts (program density)
}

// isBarePlaceholder: v is exactly one token of the lexer's placeholder form.
func isBarePlaceholder(v string) bool {
	if !(strings.HasPrefix(v, "{$") || strings.HasPrefix(v, "{env.") || strings.HasPrefix(v, "{file.")) || !strings.HasSuffix(v, "}") {
		return false
	}
	inner := v[1 : len(v)-1]
	return !strings.ContainsAny(inner, " \t\n\r{}")
}

// pct is true with probability p/100; it shrinks towards false.
func (g *cg) pct(p int, label string) bool {
	if p <= 0 {
		return false
	}
	if g.dens > 0 && g.dens < 100 { // sparse programs: optional parts are rarer
		p = (p*g.dens + 99) / 100
	}
	if p > 100 {
		p = 100
	}
	return rapid.IntRange(0, 99).Draw(g.t, label) >= pctThresh[p]
}

// rapid draws integers with a bias to short bit lengths (small values), so `x >= 100-p` would
// be true far less often than p %. pctThresh[p] is the threshold t for which P(x >= t) is
// closest to p/100 under rapid v1.3.0's distribution for IntRange(0, 99): bit length
// n ~ 1+Geom(1/9); n <= 6: uniform on [0, 2^n); 7 <= n < 32: uniform on [0, 99]; n >= 32: 99.
var pctThresh = func() [101]int {
	pmf := make([]float64, 100)
	pn := func(k int) float64 { return math.Pow(8.0/9, float64(k-1)) / 9 }
	for n := 1; n <= 6; n++ {
		for u := 0; u < 1<<n; u++ {
			pmf[u] += pn(n) / float64(int(1)<<n)
		}
	}
	tail, top := math.Pow(8.0/9, 6), math.Pow(8.0/9, 31)
	for u := 0; u < 100; u++ {
		pmf[u] += (tail - top) / 100
	}
	pmf[99] += top
	sf := make([]float64, 101) // sf[t] = P(x >= t)
	for t := 99; t >= 0; t-- {
		sf[t] = sf[t+1] + pmf[t]
	}
	var out [101]int
	for p := 1; p <= 100; p++ {
		best := 1
		for t := 1; t <= 99; t++ {
			if math.Abs(sf[t]-float64(p)/100) < math.Abs(sf[best]-float64(p)/100) {
				best = t
			}
		}
		out[p] = best
	}
	out[100] = 0
	return out
}()

// bad is pct, but only in compile-invalid mode: used to break a semantic constraint.
func (g *cg) bad(p int, label string) bool {
	if !g.invalid {
		return false
	}
	d := g.dens
	g.dens = 100
	defer func() { g.dens = d }()
	return g.pct(p, label)
}

func (g *cg) pick(label string, xs ...string) string { return rapid.SampledFrom(xs).Draw(g.t, label) }
func (g *cg) n(label string, lo, hi int) int         { return rapid.IntRange(lo, hi).Draw(g.t, label) }
func (g *cg) id() int                                { g.nID++; return g.nID }

// value kinds
const (
	kBool = iota
	kDurPos
	kDurOff
	kIntPos
	kInt0
	kPct
	kSmallInt
	kSize
	kListen
	kPrefix
	kPath
	kURL
	kHost
	kHdrName
	kHdrVal
	kMethod
	kCIDR
	kEgress
	kSecretRef
	kTimestamp
	kLabel
	kFloat01
	kRPS
	kFile
	kText
	kDropPolicy
	kLogLevel
	kLogOutput
	kLogFormat
	kCompression
	kClientAuth
	kSelection
	kBackend
	kRetryType
)

var cfgKeywordList = []string{"deliver", "pull", "auth", "match", "on", "off", "secret", "secret_ref", "header", "method", "host", "allow",
	"deny", "max", "base", "cap", "jitter", "timeout", "retry", "sign", "token", "listen", "inbound", "outbound", "internal", "publish",
	"queue", "path", "enabled", "direct", "managed", "tolerance", "copy_headers", "query", "hmac", "basic", "forward", "tls", "vars"}

// sem draws a semantically valid value of the kind (no spelling yet).
func (g *cg) sem(kind int) string {
	switch kind {
	case kBool:
		return g.pick("bool", "on", "off", "true", "false", "1", "0", "ON", "True", "oFf")
	case kDurPos:
		return g.pick("dur", "5s", "30s", "1m", "2h", "7d", "100ms", "1h30m", "45s", "1.5s")
	case kDurOff:
		return g.pick("duroff", "5m", "off", "0", "24h", "30d", "OFF", "90s")
	case kIntPos:
		return g.pick("int", "1", "5", "20", "100", "10000", "7", "+3")
	case kInt0:
		return g.pick("int0", "0", "10", "10000", "1")
	case kPct:
		return g.pick("pct", "50", "1", "100", "75", "20")
	case kSmallInt:
		return g.pick("small", "3", "1", "5", "10", "60")
	case kSize:
		return g.pick("size", "64kb", "2mb", "1g", "512", "100b", "1k", "10MB", "1 kb")
	case kListen:
		g.port++
		return g.pick("listenhost", ":", "127.0.0.1:", "localhost:", "[::1]:", "0.0.0.0:") + fmt.Sprint(8000+g.port)
	case kPrefix:
		return g.pick("prefix", "/api", "/admin", "/v1/x", "/p/", "/a//b", "/")
	case kPath:
		return g.pick("pathbase", "/q/", "/jobs/", "/x/y/", "/ü/") + fmt.Sprintf("p%d", g.id())
	case kURL:
		return g.pick("urlbase", "https://ci.internal/", "http://10.0.0.5:8080/hook/", "https://a.example.com/x?y=1&z=", "https://h.example/#frag", "https://user@h.example/p%20q/") + fmt.Sprintf("t%d", g.id())
	case kHost:
		return g.pick("hostv", "hooks.example.com", "*.example.com", "*", "EXAMPLE.org.", "h.example:8443", "[2001:db8::1]:443", "allow", "on")
	case kHdrName:
		return g.pick("hdr", "X-GitHub-Event", "x-foo", "Authorization", "X_Under", "Content-Type", "header", "token")
	case kHdrVal:
		return g.pick("hdrval", "push", "Bearer abc def", "a=b; c=\"d\"", "ünï ✓", "deliver", "{x}", "# not a comment", "a\\b", "v")
	case kMethod:
		return g.pick("methodv", "POST", "get", "PUT", "DELETE", "header", "M-SEARCH")
	case kCIDR:
		return g.pick("cidr", "203.0.113.0/24", "10.1.2.3", "2001:db8::/32", "::1", "192.168.0.0/16", "10.1.2.3/8")
	case kEgress:
		return g.pick("egress", "*.internal.example.com", "169.254.0.0/16", "10.0.0.1", "api.example.com", "fd00::/8", "deny", "Example.COM.")
	case kSecretRef:
		return g.pick("sref", "env:HOOKAIDO_SECRET", "raw:s3cr3t", "file:/run/secrets/x", "vault:secret/data/hook#key", "raw: spaced value ", "raw:a\"b\\c", "env: PADDED", "raw:{x}") + fmt.Sprint(g.id())
	case kTimestamp:
		return g.pick("ts", "2026-01-01T00:00:00Z", "2025-06-01T12:30:00+02:00", "2026-01-01T00:00:00.123456789Z", "2024-02-29T23:59:59-08:00")
	case kLabel:
		return g.pick("label", "github", "push-events", "a.b:c", "deliver", "X1", "on") + fmt.Sprint(g.id())
	case kFloat01:
		return g.pick("f01", "0.2", "0", "1", "0.5", "1e-1", ".25")
	case kRPS:
		return g.pick("rps", "100", "0.5", "50", "1e3", "2.5")
	case kFile:
		return g.pick("file", "/etc/ssl/cert.pem", "/path/to/key.pem", "C:\\certs\\ca.pem", "/p/with space/ca.pem", "rel/ca.pem", "/ünï/k.pem")
	case kText:
		return g.pick("text", "ci-bot", "deploy-", "two words", "ünïcode ✓ 日本", "a\"quote", "back\\slash", "tab\there", "line\nbreak", "deliver", "#hash", "{brace}", "a}b{c", "x", "cr\rhere")
	case kDropPolicy:
		return g.pick("drop", "reject", "drop_oldest", "REJECT")
	case kLogLevel:
		return g.pick("lvl", "info", "debug", "warn", "warning", "error", "off", "INFO")
	case kLogOutput:
		return g.pick("lout", "stderr", "stdout", "STDOUT")
	case kLogFormat:
		return g.pick("lfmt", "json", "JSON")
	case kCompression:
		return g.pick("compr", "gzip", "none", "GZIP")
	case kClientAuth:
		return g.pick("cauth", "none", "request", "require_any", "off")
	case kSelection:
		return g.pick("sel", "newest_valid", "oldest_valid", "NEWEST_VALID")
	case kBackend:
		return g.backend
	case kRetryType:
		return g.pick("rtype", "exponential", "Exponential")
	}
	return "x"
}

// wild returns a value that is (mostly) not valid for any kind; used in compile-invalid mode.
func (g *cg) wild() string {
	switch g.n("wildkind", 0, 9) {
	case 0:
		return ""
	case 1:
		return g.pick("blank", " ", "\t", "  \t ", "\u00a0", "\f", "\u2003")
	case 2:
		return rapid.SampledFrom(cfgKeywordList).Draw(g.t, "kw")
	case 3:
		return g.pick("uni", "héllo wörld ✓", "日本語", "\u202eRTL", "e\u0301", "\ufeffbom", "ß")
	case 4:
		return g.pick("num", "-5", "0", "off", "1e309", "NaN", "Inf", "99999999999999999999", "0x10", "-1s", "5x", "1.5")
	case 5:
		return g.pick("punct", "#x", "{", "}", "a b", "a\"b\\c", "\\", "\"", "a#b", "{}", "}{", "x{y}z", "@m", "/p", ";", "on;")
	case 6:
		return g.pick("phbad", "{$"+cfgEnvPrefix+"UNSET}", "{$:x}", "{vars.nope}", "{vars.}", "{env.}", "{env."+cfgEnvPrefix+"UNSET}", "{file.}", "{file."+cfgFilePrefix+"missing.txt}", "{$"+cfgEnvPrefix+"UNSET", "{vars.x", "pre{$"+cfgEnvPrefix+"UNSET:d e f}post")
	case 7:
		return strings.Repeat(g.pick("rep", "a", "ü", "/x", "0"), g.n("replen", 1, 300))
	case 8:
		return rapid.StringN(0, 12, -1).Draw(g.t, "anystring")
	default:
		return g.pick("misc", "env:", "raw:", "ftp://h/x", "https://", "http:///nohost", "not a url", "*.*.example.com", "1.2.3.4/33", "2026-13-01T00:00:00Z", "abc", "file:", "vault:")
	}
}

func unquotedSafe(v string) bool {
	if v == "" {
		return false
	}
	for _, r := range v {
		switch r {
		case ' ', '\t', '\n', '\r', '{', '}', '"', '#':
			return false
		}
	}
	return true
}

// quote renders v as a quoted token. style 0: minimal escapes; 1: also \t as escape and one
// gratuitous escape of an ordinary character (the lexer keeps unknown escapes as the character).
func (g *cg) quote(v string, fancy bool) string {
	var b strings.Builder
	b.WriteByte('"')
	did := false
	for _, r := range v {
		switch r {
		case '\\':
			b.WriteString(`\\`)
		case '"':
			b.WriteString(`\"`)
		case '\n':
			b.WriteString(`\n`)
		case '\r':
			b.WriteString(`\r`)
		case '\t':
			if fancy {
				b.WriteString(`\t`)
			} else {
				b.WriteRune(r)
			}
		default:
			if fancy && !did && r != 'n' && r != 't' && r != 'r' && r > ' ' {
				b.WriteByte('\\')
				did = true
			}
			b.WriteRune(r)
		}
	}
	b.WriteByte('"')
	return b.String()
}

func (g *cg) envName() string { return fmt.Sprintf("%sE%d", cfgEnvPrefix, g.id()) }

// spell chooses how the value v is written. stop: unquoted spellings that would be read as a
// keyword at this position (then the value is quoted). noPlaceholder: positions where the
// resolved value, not the text, must stay unique/stable (still allowed, just rarer).
func (g *cg) spell(v string, stop map[string]bool) string {
	canBare := (unquotedSafe(v) || isBarePlaceholder(v)) && !stop[v]
	simple := !strings.ContainsAny(v, "{}\x00") && v != ""
	choice := g.n("spell", 0, 19)
	switch {
	case choice <= 7:
		if canBare {
			return v
		}
		return g.quote(v, false)
	case choice <= 11:
		return g.quote(v, choice == 11)
	case choice == 12 && simple: // {$VAR}
		n := g.envName()
		g.env[n] = v
		if g.pct(50, "phq") {
			return `"{$` + n + `}"`
		}
		return "{$" + n + "}"
	case choice == 13 && simple: // {$VAR:default}, variable unset
		n := g.envName()
		if unquotedSafe(v) && g.pct(50, "phq") {
			return "{$" + n + ":" + v + "}"
		}
		inner := g.quote("{$"+n+":"+v+"}", false)
		return inner
	case choice == 14 && simple: // {env.VAR}
		n := g.envName()
		g.env[n] = v
		if g.pct(50, "phq") {
			return `"{env.` + n + `}"`
		}
		return "{env." + n + "}"
	case choice == 15 && simple && len([]rune(v)) >= 2: // partial placeholder inside a quoted string
		n := g.envName()
		rs := []rune(v)
		cut := g.n("cut", 1, len(rs)-1)
		cut2 := g.n("cut2", cut, len(rs))
		g.env[n] = string(rs[cut:cut2])
		form := g.pick("partialform", "{$%s}", "{env.%s}", "{$%s:zz}")
		return g.quote(string(rs[:cut])+fmt.Sprintf(form, n)+string(rs[cut2:]), false)
	case choice == 16 && simple && g.useVars: // {vars.N}
		name := fmt.Sprintf("V%d", g.id())
		g.vars = append(g.vars, [2]string{name, g.spell(v, nil)})
		if g.pct(30, "varspartial") && len(v) >= 1 {
			return g.quote("{vars."+name+"}", false)
		}
		return `"{vars.` + name + `}"`
	case choice == 17 && simple: // {file.NAME}
		name := fmt.Sprintf("%sf%d.txt", cfgFilePrefix, g.id())
		g.files[name] = v
		if g.pct(50, "phq") {
			return `"{file.` + name + `}"`
		}
		return "{file." + name + "}"
	case choice == 18 && simple: // value with surrounding whitespace inside quotes (Compile trims most values)
		return g.quote(" "+v+"\t", false)
	}
	if canBare {
		return v
	}
	return g.quote(v, false)
}

// v draws a value of the kind and spells it. In compile-invalid mode some values are wild.
func (g *cg) v(kind int) string { return g.vs(kind, nil) }

func (g *cg) vs(kind int, stop map[string]bool) string {
	if g.bad(9, "wild") {
		return g.spell(g.wild(), stop)
	}
	return g.spell(g.sem(kind), stop)
}

// ---------------------------------------------------------------------------------------
// Layout
// ---------------------------------------------------------------------------------------

var cfgComments = []string{"# note", "#", "# a { b } \"c\" # d", "# ünïcode ✓", "#listen :1", "# {$X} {env.Y}", "#\t tab ", "## }", "# \"unterminated"}

type layout struct {
	g     *cg
	b     strings.Builder
	unit  string
	messy bool // extra spaces, blank lines, split lines, odd brace placement
	cmts  bool
	oneln int // percent of blocks rendered on one line
}

func (l *layout) sep() string {
	if l.messy && l.g.pct(15, "sep") {
		return l.g.pick("sepv", "  ", "\t", " \t ", "   ")
	}
	return " "
}

func (l *layout) comment(indent string) {
	if l.cmts && l.g.pct(12, "cmt") {
		l.b.WriteString(indent + rapid.SampledFrom(cfgComments).Draw(l.g.t, "cmttext") + "\n")
	}
}

func (l *layout) inline(n *node) string {
	var b strings.Builder
	b.WriteString(strings.Join(n.head, " "))
	if n.block {
		if len(n.head) > 0 {
			b.WriteString(" ")
		}
		b.WriteString("{")
		for _, k := range n.kids {
			b.WriteString(" " + l.inline(k))
		}
		b.WriteString(" }")
	}
	return b.String()
}

func (l *layout) render(n *node, indent string) {
	l.comment(indent)
	if l.messy && l.g.pct(8, "blankline") {
		l.b.WriteString(l.g.pick("blankv", "\n", "  \n", "\n\n"))
	}
	if n.block && l.g.pct(l.oneln, "oneline") {
		l.b.WriteString(indent + l.inline(n))
		l.trailing()
		return
	}
	l.b.WriteString(indent)
	for i, tok := range n.head {
		if i > 0 {
			if l.messy && l.g.pct(3, "splitline") {
				l.b.WriteString("\n" + indent + l.unit)
			} else {
				l.b.WriteString(l.sep())
			}
		}
		l.b.WriteString(tok)
	}
	if !n.block {
		l.trailing()
		return
	}
	switch {
	case len(n.head) == 0:
		l.b.WriteString("{")
	case l.messy && l.g.pct(10, "bracenl"):
		l.b.WriteString("\n" + indent + "{")
	case l.messy && l.g.pct(10, "bracetight"):
		l.b.WriteString("{") // `pull{` : the lexer ends an identifier at '{'
	default:
		l.b.WriteString(" {")
	}
	l.trailing()
	for _, k := range n.kids {
		l.render(k, indent+l.unit)
	}
	l.comment(indent + l.unit)
	l.b.WriteString(indent + "}")
	l.trailing()
}

func (l *layout) trailing() {
	if l.cmts && l.g.pct(8, "trailcmt") {
		l.b.WriteString(l.sep() + rapid.SampledFrom(cfgComments).Draw(l.g.t, "cmttext"))
	}
	if l.messy && l.g.pct(10, "trailws") {
		l.b.WriteString(l.g.pick("trailwsv", " ", "\t", "  "))
	}
	l.b.WriteString("\n")
}
