//go:build verif

package config

import (
	"os"
	"path/filepath"
	"strings"

	"pgregory.net/rapid"
)

// ---------------------------------------------------------------------------------------
// Seeds and the token-level mutation layer.
// ---------------------------------------------------------------------------------------

// seeds of the repository's own FuzzParseFormatRoundTrip
var cfgRepoFuzzSeeds = []string{
	`"/hooks" { pull { path /pull/hooks } }`,
	`
ingress { listen :8080 }
pull_api { auth token "raw:test-token" }
"/hooks" { pull { path /pull/hooks } }
`,
	`
secrets {
  secret "S1" {
    value "raw:s1"
    valid_from "2026-01-01T00:00:00Z"
  }
}
"/x" {
  auth hmac secret_ref "S1"
  pull { path "/pull/x" }
}
`,
}

// the repository Hookaidofile with its commented examples switched on (embedded so that a
// replay never depends on the file; the live file is added as a further seed when readable)
const cfgSeedHookaidofile = `# Hookaidofile (minimal pull-mode example)
#
# Caddyfile-inspired DSL. See DESIGN.md for the full spec.

ingress {
  # Supports placeholders: {$VAR} / {$VAR:default} / {env.VAR} / {file.PATH} / {vars.NAME}
  listen :8080
}

vars {
  PULL_ENDPOINT /pull/github
}

pull_api {
  # Required: explicit token allowlist. Prefer env/file refs over raw values.
  auth token env:HOOKAIDO_PULL_TOKEN
}

observability {
  access_log {
    enabled on
    output stderr
    format json
  }
  runtime_log {
    level info
    output stderr
    format json
  }
  metrics {
    listen ":9900"
    prefix "/metrics"
  }
  tracing {
    enabled off
    collector "https://otel.example.com/v1/traces"
    url_path "/v1/traces"
    timeout "10s"
    compression gzip
    insecure off
    retry {
      enabled on
      initial_interval "5s"
      max_interval "30s"
      max_elapsed_time "1m"
    }
    header "Authorization" "Bearer token"
  }
}

queue_retention {
  max_age 7d
  prune_interval 5m
}

delivered_retention {
  max_age 30d
}

dlq_retention {
  max_age 30d
  max_depth 10000
}

queue_limits {
  max_depth 10000
  drop_policy reject
}

defaults {
  max_body 2mb
  max_headers 64kb
  egress {
    https_only on
    redirects off
    dns_rebind_protection on
  }
  deliver {
    retry exponential max 8 base 2s cap 2m jitter 0.2
    timeout 10s
    concurrency 20
  }
  publish_policy {
    direct on
    managed on
    allow_pull_routes on
    allow_deliver_routes on
  }
  trend_signals {
    window 15m
    expected_capture_interval 1m
    stale_grace_factor 3
    sustained_growth_consecutive 3
    sustained_growth_min_samples 5
    sustained_growth_min_delta 10
    recent_surge_min_total 20
    recent_surge_min_delta 10
    recent_surge_percent 50
    dead_share_high_min_total 10
    dead_share_high_percent 20
    queued_pressure_min_total 20
    queued_pressure_percent 75
    queued_pressure_leased_multiplier 2
  }
}

secrets {
  secret "S1" {
    value "env:MY_SECRET"
    valid_from "2026-01-01T00:00:00Z"
  }
}

@github-only {
  method POST
  header_exists X-GitHub-Event
}

/webhooks/github {
  # Optional: ingress HMAC verification with replay protection.
  auth hmac env:HOOKAIDO_INGRESS_SECRET
  match @github-only
  pull { path "{vars.PULL_ENDPOINT}" }
}

/webhooks/stripe {
  auth hmac env:HOOKAIDO_STRIPE_SECRET
  deliver "https://billing.internal/stripe" {
    timeout 10s
    retry exponential max 5 base 1s cap 30s jitter 0.2
  }
}

outbound /jobs/deploy {
  deliver "https://ci.internal/deploy" { timeout 10s }
}

internal {
  /jobs/reports {
    pull { path /pull/reports }
  }
}
`

// snippets of docs/configuration.md, assembled into parseable programs
var cfgDocSeeds = []string{
	`ingress {
  listen :8080
  rate_limit {
    rps 100
    burst 200     # optional; defaults to ceil(rps)
  }
  tls {
    cert_file /path/to/cert.pem
    key_file  /path/to/key.pem
    client_ca /path/to/ca.pem     # optional, enables mTLS
    client_auth require_and_verify # optional
  }
}
pull_api {
  listen :9443
  grpc_listen 127.0.0.1:9943  # optional gRPC worker listener
  prefix /pull        # optional URL prefix
  auth token env:HOOKAIDO_PULL_TOKEN

  max_batch 100              # max items per dequeue (default 100)
  default_lease_ttl 30s      # default lease duration (default 30s)
  max_lease_ttl 5m           # optional upper bound for lease TTL
  default_max_wait 0         # default long-poll wait (default 0 = no wait)
  max_wait 30s               # optional upper bound for long-poll wait
}
admin_api {
  listen 127.0.0.1:2019
  prefix /admin       # optional URL prefix
  auth token env:HOOKAIDO_ADMIN_TOKEN   # optional
}
internal {
  /jobs/report { pull { path /q/reports } }
  /jobs/cleanup { pull { path /q/cleanup } }
}
`,
	`secrets {
  secret "S1" {
    value env:MY_SECRET_V1
    valid_from "2026-01-01T00:00:00Z"
    valid_until "2026-07-01T00:00:00Z"
  }
  secret "S2" {
    value env:MY_SECRET_V2
    valid_from "2026-06-01T00:00:00Z"
  }
}
vars {
  BASE_URL https://internal.example.com
  BUILD_TARGET "{vars.BASE_URL}/build"
}
defaults {
  max_body 2mb
  max_headers 64kb

  egress {
    allow "*.internal.example.com"
    deny  "169.254.0.0/16"
    https_only on
    redirects off
    dns_rebind_protection on
  }

  deliver {
    retry exponential max 8 base 2s cap 2m jitter 0.2
    timeout 10s
    concurrency 20
  }

  publish_policy {
    direct on
    managed on
    allow_pull_routes on
    allow_deliver_routes on
    require_actor off
    require_request_id off
    fail_closed off
    actor_allow "ci-bot"
    actor_prefix "deploy-"
  }

  adaptive_backpressure {
    enabled off
    min_total 200
    queued_percent 80
    ready_lag 30s
    oldest_queued_age 60s
    sustained_growth on
  }
}
/webhooks/github {
  deliver_concurrency 5
  deliver "{vars.BUILD_TARGET}" {
    retry exponential max 8 base 2s cap 2m jitter 0.2
    timeout 10s

    # Or with secret rotation:
    sign hmac secret_ref "S1"
    sign hmac secret_ref "S2"
    sign secret_selection newest_valid   # or oldest_valid
    sign signature_header "X-Hookaido-Signature"    # default
    sign timestamp_header "X-Hookaido-Timestamp"     # default
  }
}
outbound /notifications/slack {
  deliver "https://hooks.slack.com/services/T0/B0/x" { timeout 5s  sign hmac env:DELIVER_SECRET }
}
`,
	`observability {
  access_log { enabled on; output stderr; format json }
  runtime_log { level info; output stderr; format json }
  metrics { listen ":9900"; prefix "/metrics" }
  tracing { enabled on; collector "https://otel.example.com/v1/traces" }
}
pull_api { auth token env:T }
@github-push {
  method POST
  header "X-GitHub-Event" "push"
}
/webhooks/github {
  # Optional management labels
  application "github"
  endpoint_name "push-events"

  # Optional matchers (ANDed with path)
  match {
    method POST
    host "hooks.example.com"
    header "X-GitHub-Event" "push"
    header_exists "X-GitHub-Delivery"
    query "env" "production"
    query_exists "token"
    remote_ip "203.0.113.0/24"
  }
  match @github-push

  # Optional rate limit override
  rate_limit { rps 50 }

  # Authentication (pick one)
  auth hmac {
    secret env:HOOKAIDO_SECRET
    secret_ref "S1"
    signature_header "X-Signature"
    timestamp_header "X-Timestamp"
    nonce_header "X-Nonce"
    tolerance 5m
  }

  # Route-level publish control
  publish {
    enabled on             # default; set "off" to block manual publish
    direct on              # controls global direct publish path
    managed on             # controls endpoint-scoped managed publish path
  }

  # Queue backend
  queue { backend sqlite }  # or "memory" / "postgres"

  # Mode: pull OR deliver (not both)
  pull { path /pull/github }
}
inbound {
  /webhooks/basic {
    auth basic "username" "password"
    pull { path /q/basic  auth token raw:t }
  }
  /webhooks/fwd {
    auth forward "https://auth.example/check" {
      timeout 5s
      copy_headers "X-User-ID"
      copy_headers "X-Org-ID"
      body_limit 64kb
    }
    publish.direct off
    publish.managed on
    queue sqlite
    pull { path /q/fwd }
  }
}
`,
	// the defect documented in DESIGN.md section 7, kept as a seed so that mutations explore its neighbourhood
	`pull_api { auth token raw:t }
/x {
  auth hmac "raw:k"
  pull { path /q/x }
}
`,
}

func cfgSeeds() []string {
	seeds := []string{cfgSeedHookaidofile}
	seeds = append(seeds, cfgRepoFuzzSeeds...)
	seeds = append(seeds, cfgDocSeeds...)
	if dir := os.Getenv("VERIF_REPO_DIR"); dir != "" {
		if b, err := os.ReadFile(filepath.Join(dir, "Hookaidofile")); err == nil {
			seeds = append(seeds, string(b))
		}
	}
	return seeds
}

// mtok is a token of the mutation tokenizer; raw is the exact source text.
type mtok struct {
	kind int // 0 space, 1 newline, 2 comment, 3 string, 4 lbrace, 5 rbrace, 6 word
	raw  string
}

func mtokenize(src string) []mtok {
	var out []mtok
	i := 0
	for i < len(src) {
		c := src[i]
		switch {
		case c == '\n':
			out = append(out, mtok{1, "\n"})
			i++
		case c == ' ' || c == '\t' || c == '\r':
			j := i
			for j < len(src) && (src[j] == ' ' || src[j] == '\t' || src[j] == '\r') {
				j++
			}
			out = append(out, mtok{0, src[i:j]})
			i = j
		case c == '#':
			j := i
			for j < len(src) && src[j] != '\n' {
				j++
			}
			out = append(out, mtok{2, src[i:j]})
			i = j
		case c == '"':
			j := i + 1
			for j < len(src) && src[j] != '"' && src[j] != '\n' {
				if src[j] == '\\' && j+1 < len(src) {
					j++
				}
				j++
			}
			if j < len(src) && src[j] == '"' {
				j++
			}
			out = append(out, mtok{3, src[i:j]})
			i = j
		case c == '{':
			if strings.HasPrefix(src[i:], "{$") || strings.HasPrefix(src[i:], "{env.") || strings.HasPrefix(src[i:], "{file.") {
				j := i + 1
				ok := false
				for j < len(src) {
					if src[j] == ' ' || src[j] == '\t' || src[j] == '\n' || src[j] == '\r' || src[j] == '{' {
						break
					}
					if src[j] == '}' {
						ok = true
						j++
						break
					}
					j++
				}
				if ok {
					out = append(out, mtok{6, src[i:j]})
					i = j
					continue
				}
			}
			out = append(out, mtok{4, "{"})
			i++
		case c == '}':
			out = append(out, mtok{5, "}"})
			i++
		default:
			j := i
			for j < len(src) && !strings.ContainsRune(" \t\r\n{}\"#", rune(src[j])) {
				j++
			}
			out = append(out, mtok{6, src[i:j]})
			i = j
		}
	}
	return out
}

func mjoin(ts []mtok) string {
	var b strings.Builder
	for _, t := range ts {
		b.WriteString(t.raw)
	}
	return b.String()
}

var cfgMutations = []string{"quote", "unquote", "empty", "insert-empty", "keyword", "dup-line", "del-line", "swap-lines", "uncomment",
	"placeholder", "del-token", "dup-token", "chan-prefix", "chan-wrap", "crlf", "join-lines", "blank", "comment-out", "inject-comment", "swap-tokens", "inject-directive", "inject-directive", "inject-family-pair", "inject-family-pair"}

// families of spellings of one setting: two members of one family in one block is where shorthand /
// block / dotted forms meet.
var cfgInjectFamilies = [][]string{
	{"publish.managed on", "publish.managed off", "publish.direct off", "publish.direct on", "publish off", "publish on", "publish { enabled off }", "publish { enabled on }",
		"publish { direct off }", "publish { managed off }", "publish {\n    enabled off\n    direct on\n  }"},
	{"queue memory", "queue sqlite", "queue { backend sqlite }", "queue { backend memory }"},
	{"auth hmac \"raw:k\"", "auth hmac secret_ref \"S1\"", "auth hmac {\n    secret \"raw:k2\"\n  }", "auth hmac {\n    secret_ref \"S1\"\n    tolerance 1m\n  }", "auth basic \"u\" \"p\"", "auth forward \"https://auth.example/check\""},
	{"rate_limit { rps 5 }", "rate_limit {\n    rps 2\n    burst 4\n  }"},
	{"match { method GET }", "match @m", "match {\n    host \"h.example\"\n  }"},
}

// the same for deliver blocks: the two ways of naming a signing secret, their options, retry and timeout
var cfgDeliverFamilies = [][]string{
	{"sign hmac \"raw:k\"", "sign hmac secret_ref \"S1\"", "sign hmac secret_ref \"S2\"", "sign hmac env:DELIVER_SECRET", "sign hmac secret_ref \"S1\" \"S2\"",
		"sign secret_selection oldest_valid", "sign signature_header \"X-S\"", "sign timestamp_header \"X-T\""},
	{"timeout 5s", "timeout 6s", "retry exponential max 3 base 1s cap 2s jitter 0", "retry exponential max 4 base 1s cap 2s jitter 0.5"},
}

// directive spellings that interact with each other (shorthand vs block vs dotted forms): injected into
// blocks so that combinations the grammar generator avoids (because today's parser refuses them) are
// still tried - a parser that starts to accept one must still round-trip it.
var cfgInjectPool = []string{
	"publish.managed on", "publish.managed off", "publish.direct off", "publish.direct on", "publish off", "publish on",
	"publish { enabled off }", "publish { direct off }", "publish { managed off }", "publish {\n    enabled off\n    managed on\n  }",
	"queue memory", "queue { backend sqlite }", "queue sqlite",
	"auth basic \"u\" \"p\"", "auth hmac \"raw:k\"", "auth hmac secret_ref \"S1\"", "auth hmac {\n    secret \"raw:k2\"\n    tolerance 1m\n  }", "auth forward \"https://auth.example/check\"",
	"rate_limit { rps 5 }", "rate_limit {\n    rps 2\n    burst 4\n  }", "application \"app\"", "endpoint_name \"ep\"",
	"pull { path /pulled }", "deliver \"https://x.example/y\" { }", "match { method GET }", "match @m", "max_body 1kb", "max_headers 2kb",
	"metrics on", "metrics { listen \":9900\" }", "tracing off", "egress { https_only off }", "listen :9999", "prefix /pfx", "auth token \"raw:tok\"",
}

// mutate applies one mutation; env receives variables for introduced placeholders.
func cfgMutate(t *rapid.T, src string, env map[string]string, step int) (string, string) {
	kind := rapid.SampledFrom(cfgMutations).Draw(t, "mutation")
	idx := func(n int, label string) int {
		if n <= 0 {
			return -1
		}
		return rapid.IntRange(0, n-1).Draw(t, label)
	}
	toks := mtokenize(src)
	var values []int // indices of value-like tokens (word or string)
	for i, tk := range toks {
		if tk.kind == 3 || tk.kind == 6 {
			values = append(values, i)
		}
	}
	lines := strings.Split(src, "\n")
	switch kind {
	case "quote":
		if k := idx(len(values), "at"); k >= 0 && toks[values[k]].kind == 6 {
			toks[values[k]].raw = `"` + strings.NewReplacer(`\`, `\\`, `"`, `\"`).Replace(toks[values[k]].raw) + `"`
			return mjoin(toks), kind
		}
	case "unquote":
		var strs []int
		for _, i := range values {
			if toks[i].kind == 3 && len(toks[i].raw) >= 2 {
				strs = append(strs, i)
			}
		}
		if k := idx(len(strs), "at"); k >= 0 {
			r := toks[strs[k]].raw
			toks[strs[k]].raw = strings.TrimSuffix(strings.TrimPrefix(r, `"`), `"`)
			return mjoin(toks), kind
		}
	case "empty", "blank":
		if k := idx(len(values), "at"); k >= 0 {
			toks[values[k]].raw = `""`
			if kind == "blank" {
				toks[values[k]].raw = rapid.SampledFrom([]string{`" "`, `"\t"`, " ", `"  "`}).Draw(t, "blankv")
			}
			return mjoin(toks), kind
		}
	case "insert-empty":
		if k := idx(len(values), "at"); k >= 0 {
			i := values[k]
			ins := rapid.SampledFrom([]string{` ""`, ` " "`, ` x`, ` "a b"`}).Draw(t, "ins")
			toks = append(toks[:i+1], append([]mtok{{6, ins}}, toks[i+1:]...)...)
			return mjoin(toks), kind
		}
	case "keyword":
		if k := idx(len(values), "at"); k >= 0 {
			toks[values[k]].raw = rapid.SampledFrom(cfgKeywordList).Draw(t, "kw")
			return mjoin(toks), kind
		}
	case "dup-line":
		if k := idx(len(lines), "at"); k >= 0 {
			lines = append(lines[:k+1], append([]string{lines[k]}, lines[k+1:]...)...)
			return strings.Join(lines, "\n"), kind
		}
	case "del-line":
		if k := idx(len(lines), "at"); k >= 0 && len(lines) > 1 {
			lines = append(lines[:k], lines[k+1:]...)
			return strings.Join(lines, "\n"), kind
		}
	case "swap-lines":
		if k := idx(len(lines)-1, "at"); k >= 0 {
			lines[k], lines[k+1] = lines[k+1], lines[k]
			return strings.Join(lines, "\n"), kind
		}
	case "join-lines":
		if k := idx(len(lines)-1, "at"); k >= 0 && !strings.Contains(lines[k], "#") {
			lines[k] = lines[k] + " " + strings.TrimSpace(lines[k+1])
			lines = append(lines[:k+1], lines[k+2:]...)
			return strings.Join(lines, "\n"), kind
		}
	case "uncomment":
		var cs []int
		for i, l := range lines {
			if strings.HasPrefix(strings.TrimSpace(l), "#") {
				cs = append(cs, i)
			}
		}
		if k := idx(len(cs), "at"); k >= 0 {
			l := lines[cs[k]]
			lines[cs[k]] = strings.Replace(l, "#", "", 1)
			return strings.Join(lines, "\n"), kind
		}
	case "comment-out":
		if k := idx(len(lines), "at"); k >= 0 {
			lines[k] = "#" + lines[k]
			return strings.Join(lines, "\n"), kind
		}
	case "inject-comment":
		if k := idx(len(toks), "at"); k >= 0 && toks[k].kind == 1 {
			toks[k].raw = " # injected { \" }\n"
			return mjoin(toks), kind
		}
	case "placeholder":
		if k := idx(len(values), "at"); k >= 0 {
			i := values[k]
			val := toks[i].raw
			if toks[i].kind == 3 {
				val = strings.TrimSuffix(strings.TrimPrefix(val, `"`), `"`)
			}
			name := cfgEnvPrefix + "M" + string(rune('A'+step%26))
			if !strings.ContainsAny(val, "\\\x00") {
				env[name] = val
				toks[i].raw = rapid.SampledFrom([]string{"{$" + name + "}", `"{$` + name + `}"`, "{env." + name + "}", `"{env.` + name + `}"`,
					"{$" + name + "_UNSET:" + strings.Map(func(r rune) rune {
						if strings.ContainsRune(" \t{}\"#", r) {
							return '_'
						}
						return r
					}, val) + "}"}).Draw(t, "phform")
				return mjoin(toks), kind
			}
		}
	case "del-token":
		if k := idx(len(values), "at"); k >= 0 {
			toks[values[k]].raw = ""
			return mjoin(toks), kind
		}
	case "dup-token":
		if k := idx(len(values), "at"); k >= 0 {
			toks[values[k]].raw += " " + toks[values[k]].raw
			return mjoin(toks), kind
		}
	case "swap-tokens":
		if k := idx(len(values)-1, "at"); k >= 0 {
			a, b := values[k], values[k+1]
			toks[a].raw, toks[b].raw = toks[b].raw, toks[a].raw
			return mjoin(toks), kind
		}
	case "chan-prefix":
		var starts []int
		for i, l := range lines {
			if strings.HasPrefix(l, "/") || strings.HasPrefix(l, `"/`) {
				starts = append(starts, i)
			}
		}
		if k := idx(len(starts), "at"); k >= 0 {
			lines[starts[k]] = rapid.SampledFrom([]string{"inbound ", "outbound ", "internal "}).Draw(t, "ct") + lines[starts[k]]
			return strings.Join(lines, "\n"), kind
		}
	case "chan-wrap":
		// wrap a top-level route (line starting with a path up to the line that is just "}")
		for i, l := range lines {
			if strings.HasPrefix(l, "/") || strings.HasPrefix(l, `"/`) {
				for j := i; j < len(lines); j++ {
					if (j > i && strings.HasPrefix(lines[j], "}")) || (j == i && strings.HasSuffix(strings.TrimSpace(l), "}")) {
						ct := rapid.SampledFrom([]string{"inbound", "outbound", "internal"}).Draw(t, "ct")
						lines[i] = ct + " {\n" + lines[i]
						lines[j] = lines[j] + "\n}"
						if rapid.Bool().Draw(t, "empty-wrapper-too") {
							lines[j] += "\n" + ct + " { }"
						}
						return strings.Join(lines, "\n"), kind
					}
				}
			}
		}
	case "crlf":
		return strings.ReplaceAll(src, "\n", "\r\n"), kind
	case "inject-family-pair":
		var opens []int
		for i, ln := range lines {
			if strings.HasSuffix(strings.TrimSpace(ln), "{") {
				opens = append(opens, i)
			}
		}
		var delivers []int
		for _, i := range opens {
			if strings.HasPrefix(strings.TrimSpace(lines[i]), "deliver ") {
				delivers = append(delivers, i)
			}
		}
		if len(delivers) > 0 && rapid.IntRange(0, 2).Draw(t, "in-deliver") == 0 {
			at := delivers[rapid.IntRange(0, len(delivers)-1).Draw(t, "deliver-at")]
			fam := cfgDeliverFamilies[rapid.IntRange(0, len(cfgDeliverFamilies)-1).Draw(t, "deliver-family")]
			a := fam[rapid.IntRange(0, len(fam)-1).Draw(t, "da")]
			b := fam[rapid.IntRange(0, len(fam)-1).Draw(t, "db")]
			pos := at + 1
			lines = append(lines[:pos], append([]string{"    " + a, "    " + b}, lines[pos:]...)...)
			return strings.Join(lines, "\n"), kind
		}
		if k := idx(len(opens), "at"); k >= 0 {
			fam := cfgInjectFamilies[rapid.IntRange(0, len(cfgInjectFamilies)-1).Draw(t, "family")]
			a := fam[rapid.IntRange(0, len(fam)-1).Draw(t, "a")]
			b := fam[rapid.IntRange(0, len(fam)-1).Draw(t, "b")]
			pos := opens[k] + 1
			lines = append(lines[:pos], append([]string{"  " + a, "  " + b}, lines[pos:]...)...)
			return strings.Join(lines, "\n"), kind
		}
	case "inject-directive":
		var opens []int
		for i, ln := range lines {
			if strings.HasSuffix(strings.TrimSpace(ln), "{") {
				opens = append(opens, i)
			}
		}
		if k := idx(len(opens), "at"); k >= 0 {
			d := rapid.SampledFrom(cfgInjectPool).Draw(t, "directive")
			pos := opens[k] + 1
			if rapid.Bool().Draw(t, "at-end") {
				// before the matching close of that block: scan forward for the line that closes it
				depth := 0
				for j := opens[k]; j < len(lines); j++ {
					depth += strings.Count(lines[j], "{") - strings.Count(lines[j], "}")
					if depth <= 0 && j > opens[k] {
						pos = j
						break
					}
				}
			}
			lines = append(lines[:pos], append([]string{"  " + d}, lines[pos:]...)...)
			return strings.Join(lines, "\n"), kind
		}
	}
	return src, "noop"
}

// genCfgMutant: a seed (fixed seed texts, or a freshly generated program) plus 1..4 mutations.
func genCfgMutant() *rapid.Generator[CfgCase] {
	seeds := cfgSeeds()
	grammar := genCfgCase()
	return rapid.Custom(func(t *rapid.T) CfgCase {
		var c CfgCase
		if k := rapid.IntRange(0, 2*len(seeds)-1).Draw(t, "seed"); k < len(seeds) {
			c = CfgCase{Src: seeds[k]}
		} else {
			c = grammar.Draw(t, "generated-seed")
		}
		if c.Env == nil {
			c.Env = map[string]string{}
		}
		n := rapid.IntRange(1, 4).Draw(t, "n-mutations")
		// A mutation that makes the text unparseable (or changes nothing) is retried a few
		// times: texts rejected by Parse are outside the property. Parse is used here only as a
		// filter of the generator; one in ten rejected mutants is kept to keep the reject path
		// of the runner exercised.
		keepBroken := rapid.IntRange(0, 9).Draw(t, "keep-broken") == 9
		for i := 0; i < n; i++ {
			for attempt := 0; attempt < 5; attempt++ {
				next, kind := cfgMutate(t, c.Src, c.Env, i)
				if kind == "noop" || next == c.Src {
					continue
				}
				if _, err := Parse([]byte(next)); err != nil && !keepBroken {
					continue
				}
				c.Src = next
				break
			}
		}
		if len(c.Env) == 0 {
			c.Env = nil
		}
		return c
	})
}
