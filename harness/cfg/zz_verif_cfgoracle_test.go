//go:build verif

package config

import (
	"encoding/base64"
	"fmt"
	"net/netip"
	"os"
	"path/filepath"
	"reflect"
	"runtime/debug"
	"sort"
	"strconv"
	"strings"
	"time"
	"unicode/utf8"

	"github.com/nuetzliches/hookaido/internal/verifkit"
)

// ---------------------------------------------------------------------------------------
// Case: a plain JSON value. All randomness is spent producing it; running it is a pure
// function of (tree, Case). Src is the Hookaidofile text; B64 replaces it when the bytes are
// not valid UTF-8 (native fuzzing only). Env is the complete set of VERIF_C19_* variables the
// text may refer to (every other VERIF_C19_* variable is unset for the case). Files are
// created in the working directory for {file.NAME} placeholders.
// ---------------------------------------------------------------------------------------

type CfgCase struct {
	Src   string            `json:"src"`
	B64   string            `json:"b64,omitempty"`
	Env   map[string]string `json:"env,omitempty"`
	Files map[string]string `json:"files,omitempty"`
}

const cfgEnvPrefix = "VERIF_C19_"
const cfgFilePrefix = "verif-c19-"

const (
	sigDropsEmpty  = "fmt-drops-empty-value"
	sigEmptyOutput = "fmt-empty-output-unparseable"
)

func (c CfgCase) bytes() []byte {
	if c.B64 != "" {
		b, err := base64.StdEncoding.DecodeString(c.B64)
		if err == nil {
			return b
		}
	}
	return []byte(c.Src)
}

func cfgCaseFromBytes(b []byte) CfgCase {
	if utf8.Valid(b) {
		return CfgCase{Src: string(b)}
	}
	return CfgCase{B64: base64.StdEncoding.EncodeToString(b)}
}

type cfgOutcome struct {
	Failure *verifkit.Failure
	Labels  []string
	Known   []string
	NonTriv bool
	Skipped string
}

func cfgFail(prop, clause, sig, format string, args ...any) *verifkit.Failure {
	d := fmt.Sprintf(format, args...)
	if len(d) > 1800 {
		d = d[:1800] + "...(cut)"
	}
	return &verifkit.Failure{Prop: prop, Clause: clause, Detail: d, Sig: sig}
}

// cfgFreezeEnv installs the case environment and returns the undo function. The environment is
// not touched again until the case is over, so every placeholder resolves identically for the
// original and for the formatted text.
func cfgFreezeEnv(c CfgCase) (func(), error) {
	saved := map[string]*string{}
	save := func(k string) {
		if _, ok := saved[k]; ok {
			return
		}
		if v, ok := os.LookupEnv(k); ok {
			vv := v
			saved[k] = &vv
		} else {
			saved[k] = nil
		}
	}
	for _, kv := range os.Environ() {
		k, _, _ := strings.Cut(kv, "=")
		if strings.HasPrefix(k, cfgEnvPrefix) {
			save(k)
			os.Unsetenv(k)
		}
	}
	for k, v := range c.Env {
		if k == "" || strings.ContainsAny(k, "=\x00") || strings.ContainsRune(v, 0) {
			continue
		}
		save(k)
		os.Setenv(k, v)
	}
	var created []string
	for name, content := range c.Files {
		if name != filepath.Base(name) || !strings.HasPrefix(name, cfgFilePrefix) {
			return nil, fmt.Errorf("case file %q: only %s* base names are allowed", name, cfgFilePrefix)
		}
		if err := os.WriteFile(name, []byte(content), 0o644); err != nil {
			return nil, err
		}
		created = append(created, name)
	}
	return func() {
		for k, v := range saved {
			if v == nil {
				os.Unsetenv(k)
			} else {
				os.Setenv(k, *v)
			}
		}
		for _, n := range created {
			os.Remove(n)
		}
	}, nil
}

// cfgFileRefsSafe rejects inputs whose {file.*} placeholders point at device-like paths (a
// byte-level mutation could otherwise make Compile block on /dev/stdin or read /dev/zero).
func cfgFileRefsSafe(src string) bool {
	rest := src
	for {
		i := strings.Index(rest, "{file.")
		if i < 0 {
			return true
		}
		rest = rest[i+6:]
		end := strings.IndexByte(rest, '}')
		if end < 0 {
			return true
		}
		p := rest[:end]
		if p == "" {
			continue
		}
		if p == filepath.Base(p) && strings.HasPrefix(p, cfgFilePrefix) {
			continue
		}
		abs, err := filepath.Abs(p)
		if err != nil {
			return false
		}
		if fi, err := os.Lstat(abs); err == nil && !fi.Mode().IsRegular() {
			return false
		}
		for _, bad := range []string{"/dev", "/proc", "/sys", "/run"} {
			if abs == bad || strings.HasPrefix(abs, bad+"/") {
				return false
			}
		}
	}
}

// ---------------------------------------------------------------------------------------
// Canonical dump of a compiled configuration. reflect.DeepEqual is not usable directly:
// Compile accepts "NaN" for retry jitter / rate-limit rps (NaN != NaN), time.Time carries
// *Location pointers, and a line-per-leaf dump gives a readable difference. The dump is
// injective on everything the runtime can observe: every field of every struct (exported or
// not), nil vs empty slices/maps, map entries sorted by key, floats by their shortest exact
// representation, time.Time as RFC3339Nano including its offset, netip values by String().
// Compiled contains no funcs, channels or regexps (checked: unsupported kinds panic).
// ---------------------------------------------------------------------------------------

var (
	typTime   = reflect.TypeOf(time.Time{})
	typPrefix = reflect.TypeOf(netip.Prefix{})
	typAddr   = reflect.TypeOf(netip.Addr{})
)

func cfgDump(v any) []string {
	var out []string
	cfgDumpValue(&out, reflect.ValueOf(v), "")
	return out
}

func cfgDumpValue(out *[]string, v reflect.Value, path string) {
	emit := func(s string) { *out = append(*out, path+" = "+s) }
	if !v.IsValid() {
		emit("<invalid>")
		return
	}
	switch v.Type() {
	case typTime:
		if v.CanInterface() {
			emit("time:" + v.Interface().(time.Time).Format(time.RFC3339Nano))
			return
		}
	case typPrefix:
		if v.CanInterface() {
			emit("prefix:" + v.Interface().(netip.Prefix).String())
			return
		}
	case typAddr:
		if v.CanInterface() {
			emit("addr:" + v.Interface().(netip.Addr).String())
			return
		}
	}
	switch v.Kind() {
	case reflect.Bool:
		emit(strconv.FormatBool(v.Bool()))
	case reflect.Int, reflect.Int8, reflect.Int16, reflect.Int32, reflect.Int64:
		emit(strconv.FormatInt(v.Int(), 10))
	case reflect.Uint, reflect.Uint8, reflect.Uint16, reflect.Uint32, reflect.Uint64:
		emit(strconv.FormatUint(v.Uint(), 10))
	case reflect.Float32, reflect.Float64:
		emit("f:" + strconv.FormatFloat(v.Float(), 'g', -1, 64))
	case reflect.String:
		emit(strconv.Quote(v.String()))
	case reflect.Pointer:
		if v.IsNil() {
			emit("nil")
			return
		}
		cfgDumpValue(out, v.Elem(), path+"*")
	case reflect.Struct:
		t := v.Type()
		for i := 0; i < v.NumField(); i++ {
			cfgDumpValue(out, v.Field(i), path+"."+t.Field(i).Name)
		}
	case reflect.Slice:
		if v.IsNil() {
			emit("nil-slice")
			return
		}
		emit("len:" + strconv.Itoa(v.Len()))
		for i := 0; i < v.Len(); i++ {
			cfgDumpValue(out, v.Index(i), path+"["+strconv.Itoa(i)+"]")
		}
	case reflect.Map:
		if v.IsNil() {
			emit("nil-map")
			return
		}
		emit("maplen:" + strconv.Itoa(v.Len()))
		keys := v.MapKeys()
		sort.Slice(keys, func(i, j int) bool { return fmt.Sprint(keys[i]) < fmt.Sprint(keys[j]) })
		for _, k := range keys {
			cfgDumpValue(out, v.MapIndex(k), path+"["+strconv.Quote(fmt.Sprint(k))+"]")
		}
	default:
		panic("cfgDump: unsupported kind " + v.Kind().String() + " at " + path)
	}
}

type cfgCompiled struct {
	dump []string
	ok   bool
	errs []string // sorted
	wrns []string // sorted
}

func cfgCompile(cfg *Config) cfgCompiled {
	comp, res := Compile(cfg)
	e := append([]string(nil), res.Errors...)
	w := append([]string(nil), res.Warnings...)
	sort.Strings(e)
	sort.Strings(w)
	return cfgCompiled{dump: cfgDump(comp), ok: res.OK, errs: e, wrns: w}
}

func sameStrings(a, b []string) bool {
	if len(a) != len(b) {
		return false
	}
	for i := range a {
		if a[i] != b[i] {
			return false
		}
	}
	return true
}

func (a cfgCompiled) equal(b cfgCompiled) bool {
	return a.ok == b.ok && sameStrings(a.dump, b.dump) && sameStrings(a.errs, b.errs) && sameStrings(a.wrns, b.wrns)
}

// multiset difference of two sorted lists, for messages
func onlyIn(a, b []string, max int) []string {
	cnt := map[string]int{}
	for _, s := range b {
		cnt[s]++
	}
	var out []string
	for _, s := range a {
		if cnt[s] > 0 {
			cnt[s]--
			continue
		}
		if len(out) < max {
			out = append(out, s)
		}
	}
	return out
}

// ---------------------------------------------------------------------------------------
// Known finding "fmt-drops-empty-value". format.go omits list entries (and a few scalars)
// whose text is empty / whitespace-only although Compile judges them. The signature is given
// only when this is decided on the syntax trees: src and the formatted text are both parsed
// again, the entries format.go skips because they are blank are removed from both trees (the
// list below is exactly the set of `TrimSpace(x) == ""` / `x == ""` guards in format.go), the
// source tree must have lost at least one entry, the two trees must then be deeply equal
// (every other directive, value, quoting flag and order is unchanged), and the remaining
// oracle clauses must hold between the stripped source tree and the formatted text.
// ---------------------------------------------------------------------------------------

func blankStr(s string) bool { return strings.TrimSpace(s) == "" }

func stripList(vals *[]string, flags ...*[]bool) int {
	n := 0
	var keep []string
	kf := make([][]bool, len(flags))
	for i, v := range *vals {
		if blankStr(v) {
			n++
			continue
		}
		keep = append(keep, v)
		for k, f := range flags {
			if i < len(*f) {
				kf[k] = append(kf[k], (*f)[i])
			}
		}
	}
	*vals = keep
	for k, f := range flags {
		*f = kf[k]
	}
	return n
}

func stripMatch(m *MatchBlock) int {
	if m == nil {
		return 0
	}
	n := stripList(&m.Methods, &m.MethodsQuoted)
	n += stripList(&m.Hosts, &m.HostsQuoted)
	n += stripList(&m.RemoteIPs, &m.RemoteIPsQuoted)
	n += stripList(&m.HeaderExists, &m.HeaderExistsQuoted)
	n += stripList(&m.QueryExists, &m.QueryExistsQuoted)
	var hs []HeaderMatch
	for _, h := range m.Headers {
		if blankStr(h.Name) {
			n++
			continue
		}
		hs = append(hs, h)
	}
	m.Headers = hs
	var qs []QueryMatch
	for _, q := range m.Query {
		if blankStr(q.Name) {
			n++
			continue
		}
		qs = append(qs, q)
	}
	m.Query = qs
	return n
}

func stripAPI(a *APIBlock) int {
	if a == nil {
		return 0
	}
	n := stripList(&a.AuthTokens, &a.AuthTokensQuoted)
	// `listen ""` / `prefix ""` are omitted too; Compile treats them like an absent directive,
	// so they are normalised without counting as a dropped entry.
	if a.Listen == "" {
		a.ListenQuoted = false
	}
	if a.Prefix == "" {
		a.PrefixQuoted = false
	}
	return n
}

// cfgStripBlank removes, in place, what format.go skips for being blank. It returns how many
// entries Compile would have judged were removed.
func cfgStripBlank(c *Config) int {
	n := 0
	if c.Ingress != nil && c.Ingress.Listen == "" {
		c.Ingress.ListenQuoted = false
	}
	n += stripAPI(c.PullAPI)
	n += stripAPI(c.AdminAPI)
	if c.Vars != nil {
		var keep []VarItem
		for _, it := range c.Vars.Items {
			if blankStr(it.Name) {
				n++
				continue
			}
			keep = append(keep, it)
		}
		c.Vars.Items = keep
	}
	if c.Secrets != nil {
		var keep []SecretBlock
		for _, it := range c.Secrets.Items {
			if blankStr(it.ID) {
				n++
				continue
			}
			keep = append(keep, it)
		}
		c.Secrets.Items = keep
	}
	if c.Defaults != nil && c.Defaults.Egress != nil {
		n += stripList(&c.Defaults.Egress.Allow, &c.Defaults.Egress.AllowQuoted)
		n += stripList(&c.Defaults.Egress.Deny, &c.Defaults.Egress.DenyQuoted)
	}
	if c.Observability != nil && c.Observability.Tracing != nil {
		var keep []TracingHeader
		for _, h := range c.Observability.Tracing.Headers {
			if blankStr(h.Name) {
				n++
				continue
			}
			keep = append(keep, h)
		}
		c.Observability.Tracing.Headers = keep
	}
	for i := range c.NamedMatchers {
		n += stripMatch(c.NamedMatchers[i].Match)
	}
	for i := range c.Routes {
		r := &c.Routes[i]
		n += stripMatch(r.Match)
		n += stripList(&r.AuthHMACSecrets, &r.AuthHMACSecretsQuoted, &r.AuthHMACSecretIsRef)
		if r.AuthForward != nil {
			if blankStr(r.AuthForward.URL) {
				r.AuthForward = nil
				n++
			} else {
				n += stripList(&r.AuthForward.CopyHeaders, &r.AuthForward.CopyHeadersQuoted)
			}
		}
		if r.Pull != nil {
			n += stripList(&r.Pull.AuthTokens, &r.Pull.AuthTokensQuoted)
			if r.Pull.Path == "" {
				r.Pull.PathQuoted = false
			}
		}
	}
	return n
}

// cfgExplainedByBlankDrop decides the signature (see above). src parsed, f = Format(Parse(src)).
func cfgExplainedByBlankDrop(src, f []byte) bool {
	a, err := Parse(src)
	if err != nil {
		return false
	}
	b, err := Parse(f)
	if err != nil {
		return false
	}
	dropped := cfgStripBlank(a)
	cfgStripBlank(b)
	if dropped == 0 || !reflect.DeepEqual(a, b) {
		return false
	}
	// the stripped source tree must satisfy the remaining clauses against the formatted text
	fa, err := Format(a)
	if err != nil || string(fa) != string(f) {
		return false
	}
	return cfgStableEqual(func() cfgCompiled { return cfgCompile(a) }, func() cfgCompiled { return cfgCompile(b) })
}

// cfgStableEqual compares two compile results. Compile iterates over a Go map when it
// resolves vars (cycle / unknown-var messages depend on the iteration order), so a mismatch is
// only accepted as one when neither side can reproduce the other side's result in 8 further
// runs each.
func cfgStableEqual(left, right func() cfgCompiled) bool {
	l, r := left(), right()
	if l.equal(r) {
		return true
	}
	ls, rs := []cfgCompiled{l}, []cfgCompiled{r}
	for i := 0; i < 8; i++ {
		ls = append(ls, left())
		rs = append(rs, right())
	}
	for _, x := range ls {
		for _, y := range rs {
			if x.equal(y) {
				return true
			}
		}
	}
	return false
}

func cfgBodyEmpty(c *Config) bool {
	return c.Ingress == nil && c.Defaults == nil && c.Vars == nil && c.Secrets == nil && c.PullAPI == nil && c.AdminAPI == nil &&
		c.Observability == nil && c.QueueRetention == nil && c.DeliveredRetention == nil && c.DLQRetention == nil && c.QueueLimits == nil &&
		len(c.NamedMatchers) == 0 && len(c.Routes) == 0
}

// ---------------------------------------------------------------------------------------
// Runner: Case -> outcome. The oracle is exactly the property text:
//   Parse(src) ok  =>  f := Format(Parse(src));  Parse(f) ok;
//                      Compile(Parse(f)) == Compile(Parse(src))  (runtime configuration AND
//                      validation result: OK flag, errors and warnings as multisets);
//                      Format(Parse(f)) == f byte for byte.
// Compile messages carry no source positions (only Parse errors do), so nothing is
// normalised away; they carry list indices, which formatting must preserve.
// ---------------------------------------------------------------------------------------

func runCfgCase(c CfgCase, tolerateKnown bool) (out cfgOutcome) {
	src := c.bytes()
	if !cfgFileRefsSafe(string(src)) {
		out.Skipped = "unsafe {file.*} reference"
		out.Labels = []string{"skip:unsafe-file-ref"}
		return out
	}
	undo, err := cfgFreezeEnv(c)
	if err != nil {
		out.Failure = cfgFail("HARNESS", "env", "", "%v", err)
		return out
	}
	defer undo()

	stage := "parse(src)"
	defer func() {
		if r := recover(); r != nil {
			prop := "C19"
			if stage == "parse(src)" || stage == "compile(src)" {
				// a crash before the formatter is involved is not a C19 clause
				prop = "HARNESS"
			}
			out.Failure = cfgFail(prop, "panic", "", "SUT panic in %s: %v\n%s", stage, r, debug.Stack())
		}
	}()

	cfg, perr := Parse(src)
	if perr != nil {
		out.Labels = []string{"parse-reject"}
		return out
	}
	labels, nDir, alt := cfgFeatures(src, cfg)
	out.Labels = labels
	out.NonTriv = nDir >= 8 && alt
	addLabel := func(l string) { out.Labels = append(out.Labels, l) }

	finish := func(f *verifkit.Failure) cfgOutcome {
		if f == nil {
			return out
		}
		if f.Sig != "" {
			addLabel("known:" + f.Sig)
			if tolerateKnown && verifkit.Known(f.Sig) {
				out.Known = append(out.Known, f.Sig)
				return out
			}
		}
		out.Failure = f
		return out
	}

	stage = "format(src)"
	f, ferr := Format(cfg)
	if ferr != nil {
		return finish(cfgFail("C19", "format-error", "", "Format(Parse(src)) failed: %v", ferr))
	}

	stage = "parse(formatted)"
	cfg2, perr2 := Parse(f)
	if perr2 != nil {
		sig := ""
		if cfgBodyEmpty(cfg) && strings.Contains(perr2.Error(), "empty config") {
			sig = sigEmptyOutput
		}
		return finish(cfgFail("C19", "reparse", sig, "formatted text does not parse: %v\n--- formatted ---\n%s", perr2, f))
	}

	stage = "compile(src)"
	orig := cfgCompile(cfg)
	if orig.ok {
		addLabel("compile-ok")
	} else {
		addLabel("compile-invalid")
	}
	if len(orig.wrns) > 0 {
		addLabel("compile-warnings")
	}
	stage = "compile(formatted)"
	fmtd := cfgCompile(cfg2)
	if !orig.equal(fmtd) {
		if cfgStableEqual(func() cfgCompiled { return cfgCompile(cfg) }, func() cfgCompiled { return cfgCompile(cfg2) }) {
			addLabel("compile-nondeterministic")
		} else {
			sig := ""
			if cfgExplainedByBlankDrop(src, f) {
				sig = sigDropsEmpty
			}
			clause := "compile-diff"
			var d []string
			if orig.ok != fmtd.ok {
				clause = "validation-diff"
				d = append(d, fmt.Sprintf("OK: original=%v formatted=%v", orig.ok, fmtd.ok))
			}
			if !sameStrings(orig.errs, fmtd.errs) {
				if clause == "compile-diff" {
					clause = "validation-diff"
				}
				d = append(d, fmt.Sprintf("errors only for original: %q", onlyIn(orig.errs, fmtd.errs, 4)), fmt.Sprintf("errors only for formatted: %q", onlyIn(fmtd.errs, orig.errs, 4)))
			}
			if !sameStrings(orig.wrns, fmtd.wrns) {
				if clause == "compile-diff" {
					clause = "validation-diff"
				}
				d = append(d, fmt.Sprintf("warnings only for original: %q", onlyIn(orig.wrns, fmtd.wrns, 4)), fmt.Sprintf("warnings only for formatted: %q", onlyIn(fmtd.wrns, orig.wrns, 4)))
			}
			if !sameStrings(orig.dump, fmtd.dump) {
				d = append(d, fmt.Sprintf("compiled only for original: %q", onlyIn(orig.dump, fmtd.dump, 5)), fmt.Sprintf("compiled only for formatted: %q", onlyIn(fmtd.dump, orig.dump, 5)))
			}
			return finish(cfgFail("C19", clause, sig, "%s\n--- formatted ---\n%s", strings.Join(d, "\n"), f))
		}
	}

	stage = "format(formatted)"
	f2, ferr2 := Format(cfg2)
	if ferr2 != nil {
		return finish(cfgFail("C19", "format-error", "", "Format(Parse(formatted)) failed: %v", ferr2))
	}
	if string(f2) != string(f) {
		sig := ""
		if cfgExplainedByBlankDrop(src, f) {
			sig = sigDropsEmpty
		}
		return finish(cfgFail("C19", "not-idempotent", sig, "formatting the formatted text changes it\n--- first ---\n%s--- second ---\n%s", f, f2))
	}
	return out
}

// ---------------------------------------------------------------------------------------
// Measured features of a case (labels, directive count, "an alternative spelling was used").
// Everything is measured on the source text / the parsed tree, never taken from the
// generator's intent, so the same labels describe generated, mutated, fuzzed and replayed
// cases.
// ---------------------------------------------------------------------------------------

var cfgKeywords = func() map[string]bool {
	m := map[string]bool{}
	for _, k := range strings.Fields(`ingress defaults vars secrets pull_api admin_api observability queue_retention
		delivered_retention dlq_retention queue_limits inbound outbound internal listen tls rate_limit rps burst max_body
		max_headers egress publish_policy deliver trend_signals adaptive_backpressure retry timeout concurrency secret value
		valid_from valid_until prefix max_batch grpc_listen default_lease_ttl max_lease_ttl default_max_wait max_wait auth token
		cert_file key_file client_ca client_auth access_log runtime_log metrics tracing enabled output path format level allow
		deny https_only redirects dns_rebind_protection direct managed allow_pull_routes allow_deliver_routes require_actor
		require_request_id fail_closed actor_allow actor_prefix collector url_path compression insecure proxy_url header ca_file
		server_name insecure_skip_verify initial_interval max_interval max_elapsed_time max_depth drop_policy max_age
		prune_interval application endpoint_name match queue basic hmac forward pull publish publish.direct publish.managed
		deliver_concurrency secret_ref signature_header timestamp_header nonce_header tolerance copy_headers body_limit method
		host header_exists query remote_ip query_exists backend sign secret_selection max base cap jitter window on off`) {
		m[k] = true
	}
	return m
}()

var cfgMultiKw = map[string]int{"method": 2, "host": 2, "header_exists": 2, "query_exists": 2, "remote_ip": 2, "allow": 2, "deny": 2,
	"actor_allow": 2, "actor_prefix": 2, "copy_headers": 2, "secret": 2, "secret_ref": 2, "header": 4, "query": 4}

type cfgWalk struct {
	labels  map[string]bool
	n       int
	quoted  bool
	short   bool
	kwValue bool
	full    bool // also emit one label per directive
}

func (w *cfgWalk) walk(v reflect.Value) {
	switch v.Kind() {
	case reflect.Pointer:
		if !v.IsNil() {
			w.walk(v.Elem())
		}
	case reflect.Slice:
		for i := 0; i < v.Len(); i++ {
			w.walk(v.Index(i))
		}
	case reflect.Struct:
		t := v.Type()
		tn := strings.TrimSuffix(t.Name(), "Block")
		has := map[string]bool{}
		for i := 0; i < t.NumField(); i++ {
			has[t.Field(i).Name] = true
		}
		for i := 0; i < t.NumField(); i++ {
			fd := t.Field(i)
			fv := v.Field(i)
			name := fd.Name
			switch {
			case fd.Type.Kind() == reflect.Bool && !fd.IsExported():
				if fv.Bool() {
					w.short = true
					w.labels["form:"+tn+"."+name] = true
				}
			case fd.Type.Kind() == reflect.Bool && strings.HasSuffix(name, "Quoted"):
				if fv.Bool() {
					w.quoted = true
				}
			case fd.Type.Kind() == reflect.Bool && strings.HasSuffix(name, "Set"):
				if fv.Bool() {
					base := strings.TrimSuffix(name, "Set")
					if has[base] {
						w.n++
						if w.full {
							w.labels["d:"+tn+"."+base] = true
						}
					} else {
						w.labels["form:"+tn+"."+name] = true
					}
				}
			case fd.Type.Kind() == reflect.String:
				s := fv.String()
				if cfgKeywords[s] && name != "ChannelType" {
					w.kwValue = true
				}
				if !has[name+"Set"] && name != "ChannelType" && s != "" {
					w.n++
					if w.full {
						w.labels["d:"+tn+"."+name] = true
					}
				}
			case fd.Type.Kind() == reflect.Slice && fd.Type.Elem().Kind() == reflect.String:
				if name == "Preamble" {
					continue
				}
				w.n += fv.Len()
				if fv.Len() > 0 && w.full {
					w.labels["d:"+tn+"."+name] = true
				}
				if fv.Len() > 1 {
					w.labels["multi-value"] = true
				}
				for k := 0; k < fv.Len(); k++ {
					if cfgKeywords[fv.Index(k).String()] {
						w.kwValue = true
					}
				}
			case fd.Type.Kind() == reflect.Slice && fd.Type.Elem().Kind() == reflect.Bool:
				for k := 0; k < fv.Len(); k++ {
					if fv.Index(k).Bool() && strings.HasSuffix(name, "Quoted") {
						w.quoted = true
					}
				}
			case fd.Type.Kind() == reflect.Slice:
				w.n += fv.Len()
				if fv.Len() > 0 && w.full {
					w.labels["d:"+tn+"."+name] = true
				}
				w.walk(fv)
			case fd.Type.Kind() == reflect.Pointer:
				if !fv.IsNil() {
					w.n++
					w.labels["b:"+tn+"."+name] = true
					w.walk(fv)
				}
			}
		}
	}
}

var cfgCaseCounter int

func cfgFeatures(src []byte, cfg *Config) (labels []string, nDirectives int, alt bool) {
	cfgCaseCounter++
	w := &cfgWalk{labels: map[string]bool{}}
	// per-directive labels: every case in the quick tier, every 16th case otherwise
	w.full = os.Getenv("VERIF_TIER") != "thorough" || cfgCaseCounter%16 == 0
	w.walk(reflect.ValueOf(cfg))
	L := w.labels
	if w.full {
		L["d:sampled"] = true
	}

	// tree-level forms
	chans := []string{}
	for _, r := range cfg.Routes {
		ct := string(r.ChannelType)
		if ct == "" {
			ct = "bare"
			if r.PathQuoted {
				L["route-quoted-path"] = true
			}
		}
		L["chan:"+ct] = true
		if len(chans) == 0 || chans[len(chans)-1] != ct {
			chans = append(chans, ct)
		}
		if len(r.AuthHMACSecrets) > 0 && !r.AuthHMACBlockSet {
			L["auth-hmac-shorthand"] = true
		}
		if r.AuthHMACBlockSet {
			L["auth-hmac-block"] = true
		}
		for _, ref := range r.AuthHMACSecretIsRef {
			if ref {
				L["auth-hmac-secret_ref"] = true
			}
		}
		if r.AuthForward != nil {
			if r.AuthForward.BlockSet {
				L["auth-forward-block"] = true
			} else {
				L["auth-forward-shorthand"] = true
			}
		}
		if len(r.AuthBasic) > 0 {
			L["auth-basic"] = true
		}
		if len(r.MatchRefs) > 0 {
			L["match-ref"] = true
		}
		if r.Match != nil {
			L["match-inline"] = true
		}
		if r.Publish != nil && !r.Publish.shorthand && !r.Publish.dotNotation {
			L["publish-block"] = true
		}
		if r.Queue != nil && !r.Queue.shorthand {
			L["queue-block"] = true
		}
		for _, d := range r.Deliveries {
			if len(d.SignHMACSecretRefs) > 0 {
				L["sign-secret_ref"] = true
			}
			if d.SignHMACSecretSet {
				L["sign-hmac"] = true
			}
		}
	}
	seen := map[string]bool{}
	for _, c := range chans {
		if seen[c] {
			L["chan-interleaved"] = true
		}
		seen[c] = true
	}
	if len(cfg.NamedMatchers) > 0 {
		L["named-matcher"] = true
	}
	if len(cfg.Preamble) > 0 {
		L["comment-preamble"] = true
	}
	if len(cfg.Routes) == 0 {
		L["no-routes"] = true
	}
	if o := cfg.Observability; o != nil {
		if o.AccessLogSet || o.RuntimeLogSet {
			w.short = true
		}
		if o.Metrics != nil && !o.Metrics.shorthand {
			L["metrics-block"] = true
		}
		if o.Tracing != nil && !o.Tracing.shorthand {
			L["tracing-block"] = true
		}
	}
	if w.kwValue {
		L["kw-as-value"] = true
	}

	// token-level spelling features (the package's own lexer is used for description only)
	raw := string(src)
	if strings.HasPrefix(raw, "\xef\xbb\xbf") {
		L["bom"] = true
	}
	if strings.Contains(raw, "\r\n") {
		L["crlf"] = true
	} else if strings.Contains(raw, "\r") {
		L["cr-only"] = true
	}
	if strings.Contains(raw, "\n\t") || strings.HasPrefix(raw, "\t") {
		L["tab-indent"] = true
	}
	norm := string(normalizeInput(src))
	lx := newLexer(norm)
	type tk struct {
		token
		end int
	}
	var toks []tk
	prevEnd := 0
	placeholder := false
	for {
		t, err := lx.nextToken()
		if err != nil || t.kind == tokEOF {
			break
		}
		seg := norm[prevEnd:lx.i]
		prevEnd = lx.i
		toks = append(toks, tk{t, lx.i})
		switch t.kind {
		case tokString:
			L["quoted"] = true
			if t.text == "" {
				L["quoted-empty"] = true
			} else if blankStr(t.text) {
				L["quoted-blank"] = true
			}
			if strings.Contains(seg, `\`) {
				L["escape"] = true
			}
		case tokComment:
			L["comment"] = true
		case tokIdent:
			if blankStr(t.text) {
				L["unquoted-blank"] = true
			}
		}
		if t.kind == tokString || t.kind == tokIdent {
			for _, r := range t.text {
				if r >= 0x80 {
					L["unicode"] = true
					break
				}
			}
			kind := "bare"
			if t.kind == tokString {
				kind = "quoted"
			}
			if t.kind == tokString && !strings.HasPrefix(t.text, "{") &&
				(strings.Contains(t.text, "{$") || strings.Contains(t.text, "{env.") || strings.Contains(t.text, "{file.") || strings.Contains(t.text, "{vars.")) {
				L["ph-partial"] = true
			}
			if strings.Contains(t.text, "{$") {
				placeholder = true
				L["ph-dollar-"+kind] = true
				if i := strings.Index(t.text, "{$"); strings.Contains(t.text[i:], ":") {
					L["ph-dollar-default"] = true
				}
			}
			if strings.Contains(t.text, "{env.") {
				placeholder = true
				L["ph-env-"+kind] = true
			}
			if strings.Contains(t.text, "{file.") {
				placeholder = true
				L["ph-file-"+kind] = true
			}
			if strings.Contains(t.text, "{vars.") {
				placeholder = true
				L["ph-vars"] = true
			}
		}
	}
	depth := 0
	for i, t := range toks {
		isVal := func(j int) bool {
			return j < len(toks) && (toks[j].kind == tokIdent || toks[j].kind == tokString) && toks[j].pos.line == t.pos.line
		}
		switch t.kind {
		case tokLBrace:
			depth++
			// one-line block: matching brace on the same line with content in between
			d := 0
			for j := i; j < len(toks); j++ {
				if toks[j].kind == tokLBrace {
					d++
				} else if toks[j].kind == tokRBrace {
					d--
					if d == 0 {
						if toks[j].pos.line == t.pos.line && j > i+1 {
							L["oneline-block"] = true
						}
						break
					}
				}
			}
			if i > 0 && toks[i-1].pos.line != t.pos.line {
				L["brace-on-next-line"] = true
			}
		case tokRBrace:
			depth--
		case tokComment:
			if i > 0 && toks[i-1].pos.line == t.pos.line {
				L["comment-trailing"] = true
			}
			if depth > 0 {
				L["comment-in-block"] = true
			}
		case tokIdent:
			if depth == 0 && (t.text == "inbound" || t.text == "outbound" || t.text == "internal") && i+1 < len(toks) {
				if toks[i+1].kind == tokLBrace {
					L["chan-wrapper"] = true
					if i+2 < len(toks) && toks[i+2].kind == tokRBrace {
						L["chan-wrapper-empty"] = true
					}
				} else {
					L["chan-single"] = true
				}
			}
			if need, ok := cfgMultiKw[t.text]; ok && depth > 0 {
				all := true
				for k := 1; k <= need; k++ {
					if !isVal(i+k) || (toks[i+k].kind == tokIdent && cfgMultiKw[toks[i+k].text] > 0) {
						all = false
					}
				}
				if all {
					L["multi-value-oneline"] = true
				}
			}
			if t.text == "match" && isVal(i+1) && isVal(i+2) && strings.HasPrefix(toks[i+1].text, "@") && strings.HasPrefix(toks[i+2].text, "@") {
				L["multi-value-oneline"] = true
			}
			if i+1 < len(toks) && (toks[i+1].kind == tokIdent || toks[i+1].kind == tokString) && toks[i+1].pos.line != t.pos.line && cfgKeywords[t.text] && depth > 0 &&
				t.text != "on" && t.text != "off" && i > 0 && toks[i-1].pos.line != t.pos.line && (toks[i-1].kind == tokLBrace || toks[i-1].kind == tokRBrace) {
				// a directive whose first argument sits on the next line
				L["value-on-next-line"] = true
			}
		}
	}

	switch {
	case w.n < 8:
		L["size:<8"] = true
	case w.n < 32:
		L["size:8-31"] = true
	default:
		L["size:32+"] = true
	}
	hasChan := L["chan:inbound"] || L["chan:outbound"] || L["chan:internal"]
	alt = w.quoted || L["quoted"] || placeholder || w.short || hasChan || L["auth-hmac-shorthand"] || L["auth-forward-shorthand"]
	for l := range L {
		labels = append(labels, l)
	}
	sort.Strings(labels)
	return labels, w.n, alt
}
