//go:build verif

package config

import (
	"encoding/json"
	"fmt"
	"testing"

	"github.com/nuetzliches/hookaido/internal/verifkit"
	"pgregory.net/rapid"
)

// ---------------------------------------------------------------------------------------
// Entry points
// ---------------------------------------------------------------------------------------

func cfgEmit(test string, c CfgCase, out cfgOutcome) {
	verifkit.Emit(verifkit.Record{Prop: "C19", Test: test, Hash: verifkit.Hash(c), NonTrivial: out.NonTriv,
		Labels: out.Labels, Known: out.Known, Skipped: out.Skipped}, c)
}

func cfgProp(t *testing.T, test string, gen *rapid.Generator[CfgCase]) {
	rapid.Check(t, func(rt *rapid.T) {
		c := gen.Draw(rt, "case")
		out := runCfgCase(c, true)
		cfgEmit(test, c, out)
		if out.Failure != nil {
			verifkit.SaveFailing(test, c, out.Failure)
			rt.Fatalf("%v", out.Failure)
		}
	})
}

// TestProp_C19_Grammar: grammar-generated Hookaidofiles.
func TestProp_C19_Grammar(t *testing.T) { cfgProp(t, "TestProp_C19_Grammar", genCfgCase()) }

// TestProp_C19_Mutate: token-level mutations of seed files and of generated programs.
func TestProp_C19_Mutate(t *testing.T) { cfgProp(t, "TestProp_C19_Mutate", genCfgMutant()) }

var cfgTests = []string{"TestProp_C19_Grammar", "TestProp_C19_Mutate", "Fuzz_C19_Bytes"}

// TestReplay_Cfg re-executes saved cases without rapid (the plain regression tier).
func TestReplay_Cfg(t *testing.T) {
	for _, test := range cfgTests {
		for _, rf := range verifkit.ReplayFiles(test) {
			var c CfgCase
			if err := json.Unmarshal(rf.Case, &c); err != nil {
				fmt.Printf("REPLAY-ERROR file=%s err=%v\n", rf.Path, err)
				continue
			}
			out := runCfgCase(c, false)
			verifkit.ReportReplay(rf, out.Failure)
		}
	}
}

// Fuzz_C19_Bytes: raw bytes under the same oracle. Without -test.fuzz it runs the seed corpus
// as a plain test (that is how the driver's search tier uses it); with -test.fuzz it is the
// coverage-guided mutation tier.
func Fuzz_C19_Bytes(f *testing.F) {
	for _, s := range cfgSeeds() {
		f.Add([]byte(s))
	}
	for _, s := range []string{
		"\xef\xbb\xbf# bom\r\n/x {\r\n  pull { path /q }\r\n}\r\n",
		"inbound { /a { pull { path /q/a } } } outbound /b { deliver https://h.example/x { } }",
		"/x { auth hmac secret_ref S { tolerance 5m } deliver \"https://h.example/#f\" { sign hmac secret_ref S T sign secret_selection oldest_valid } }",
		"vars { A \"{$VERIF_C19_X:d}\" B \"{vars.A}/b\" } /x { pull { path \"{vars.B}\" auth token \"raw:{env.VERIF_C19_Y}\" } }",
		"defaults { egress { allow a b \"deny\" deny c } publish_policy { actor_allow x \"direct\" y } } /x { match { method GET POST header A b C d } pull { path /q } }",
	} {
		f.Add([]byte(s))
	}
	f.Fuzz(func(t *testing.T, in []byte) {
		if len(in) > 1<<16 {
			return
		}
		c := cfgCaseFromBytes(in)
		out := runCfgCase(c, true)
		cfgEmit("Fuzz_C19_Bytes", c, out)
		if out.Failure != nil {
			verifkit.SaveFailing("Fuzz_C19_Bytes", c, out.Failure)
			t.Fatalf("%v", out.Failure)
		}
	})
}
