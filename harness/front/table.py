ENGINES = {"front": {"pkg": "internal/app", "dir": "harness/front", "replay": "TestReplay_Front", "extra_bins": {"hookaido": "./cmd/hookaido"}}}

PROPS = {
    "C10": {
        "rule": "configs as Hookaidofile text (1-6 routes in random order mixing bare/inbound/outbound/internal in single and wrapper form, "
                "overlapping paths from a small tree, match blocks incl. named matchers) compiled by the real compiler and served by the real ingress "
                "handler built with startServers; 1-8 requests per config aimed at a route and perturbed (path variants, method, Host, headers, query, "
                "remote address); independent resolver written from the docs; inputs on which the docs are silent are evaluated under 32 reading "
                "combinations and judged only when all agree; non-trivial = >=2 routes match the request path, or the first path-matching route is "
                "outbound/internal",
        "assumptions": [SAMPLED, "handlers are invoked in-process with the request a net/http server would present (canonical header keys)"],
        "guards": ["expect-202", "expect-404", "expect-405"],
        "parts": [{"engine": "front", "test": "TestProp_C10_Routing", "quick": 6000, "thorough": 600000}],
    },
    "C08": {
        "rule": "configs as text with 1-3 routes each using none/basic/hmac (direct secrets and secret_ref versions with validity windows, custom "
                "header names, tolerance, shorthand and block form)/forward auth (a harness auth service answering 2xx/401/403/3xx/404/5xx/hang/reset/closed "
                "port); per route requests = a valid request then 0-2 mutations (bit flip/case/truncate/pad/delete of signature, timestamp, nonce, body, "
                "path, method; foreign / out-of-window secret; basic-auth near misses), clock offsets around +-tolerance; independent verifier; "
                "non-trivial = exactly one mutation on an authenticated route",
        "assumptions": [SAMPLED, "TLS/mTLS ingress is outside the statement"],
        "guards": ["accepted", "rejected-401", "rejected-403", "rejected-503", "kind-hmac", "kind-basic", "kind-forward"],
        "parts": [{"engine": "front", "test": "TestProp_C08_Auth", "quick": 2500, "thorough": 250000},
                  {"engine": "front", "test": "TestProp_C08_ReloadWindow", "quick": 1200, "thorough": 40000, "shards": {"quick": 8}}],
    },
    "C02": {
        "rule": "store wiring tier: the store is built by the product's own newQueueStore from generated config text (backend memory / sqlite, queue / delivered / dlq retention ages "
                "of 1 s against 1 h or off, dlq max_depth, queue_limits max_depth 4 with reject / drop_oldest) and runs on the wall clock: after 1.3 s a message is gone exactly "
                "when the retention of ITS state is 1 s, the depth limit refuses or evicts as configured, an acked message is kept only under delivered retention",
        "assumptions": ["store wiring tier: wall clock, 1.3 s per case"],
        "guards": [],
        "parts": [{"engine": "front", "test": "TestProp_C02_StoreWiring", "quick": 48, "thorough": 960, "shards": {"quick": 16, "thorough": 16}}],
    },
    "C04": {
        "rule": "transport parity tier: one generated history of dequeue / ack / nack / extend calls (lease ttl, nack delay and extend_by from {0, 1, 400, 900, 999, 1000, 1001, "
                "1500, 2500, 30000} ms, extend also negative; current, stale and unknown lease ids) and clock moves is run on two identical worlds, through the Pull "
                "HTTP handler and through the Worker gRPC service methods; after every call the answer class (ok / conflict / invalid / not found) and the queue "
                "contents (state, attempt, next_run_at = lease deadline while leased, dead reason) must agree, and the gRPC world must obey the timing rules (lease "
                "deadline = now+ttl, ready at now+delay after nack, deadline + extend_by after extend); non-trivial = a sub-second delay or extension took effect",
        "assumptions": ["transport parity tier: Worker gRPC is driven through the service methods with metadata contexts, not over a socket"],
        "guards": [],
        "parts": [{"engine": "front", "test": "TestProp_C04_TransportParity", "quick": 1600, "thorough": 120000, "shards": {"quick": 4}}],
    },
    "C05": {
        "rule": "transport parity tier: one generated history of dequeue / ack / nack / extend calls (lease ttl, nack delay and extend_by from {0, 1, 400, 900, 999, 1000, 1001, "
                "1500, 2500, 30000} ms, extend also negative; current, stale and unknown lease ids) and clock moves is run on two identical worlds, through the Pull "
                "HTTP handler and through the Worker gRPC service methods; after every call the answer class (ok / conflict / invalid / not found) and the queue "
                "contents (state, attempt, next_run_at = lease deadline while leased, dead reason) must agree, and the gRPC world must obey the timing rules (lease "
                "deadline = now+ttl, ready at now+delay after nack, deadline + extend_by after extend); non-trivial = a sub-second delay or extension took effect",
        "assumptions": [],
        "guards": [],
        "parts": [{"engine": "front", "test": "TestProp_C05_TransportParity", "quick": 1600, "thorough": 120000, "shards": {"quick": 4}},
                  {"engine": "front", "test": "TestProp_C05_PublishTarget", "quick": 400, "thorough": 20000, "shards": {"quick": 4}}],
    },
    "C06": {
        "rule": "outbound wiring tier (real `hookaido run` process per case, wall clock): generated config text with egress allow/deny lists over IPs, CIDRs and host names, "
                "a defaults retry next to per-target retry overrides and partial deliver blocks, 0-6 secret versions with validity windows days away from now, 1-3 "
                "fan-out targets on loopback addresses 127.0.0.1-3 that always answer 200/404/429/500/503/302, inline or secret_ref signing with newest_valid / "
                "oldest_valid and custom header names, path segments that need escaping; one ingress POST, then the capture server's request log and the Admin API's "
                "listing are judged: a target the policy denies gets no request and ends dead:policy_denied (C16); a target is contacted exactly retry.max+1 times for a "
                "retryable answer, once otherwise, and ends delivered / dead:no_retry / dead:max_retries with the retry.max that applies to it (C06); every request sent "
                "carries exactly one timestamp and one signature header, signed over (POST, escaped path, timestamp, body as sent) with the version the rule picks among "
                "those valid now, and nothing is sent when none is valid (C17)",
        "assumptions": ["outbound wiring tier: wall clock; deliveries that do not settle within 30 s are skipped (inconclusive) cases"],
        "guards": [],
        "parts": [{"engine": "front", "test": "TestProp_C06_OutboundProcess", "quick": 64, "thorough": 2400, "shards": {"quick": 8, "thorough": 16}, "needs_bins": ["hookaido"]}],
    },
    "C16": {
        "rule": "outbound wiring tier (real `hookaido run` process per case, wall clock): generated config text with egress allow/deny lists over IPs, CIDRs and host names, "
                "a defaults retry next to per-target retry overrides and partial deliver blocks, 0-6 secret versions with validity windows days away from now, 1-3 "
                "fan-out targets on loopback addresses 127.0.0.1-3 that always answer 200/404/429/500/503/302, inline or secret_ref signing with newest_valid / "
                "oldest_valid and custom header names, path segments that need escaping; one ingress POST, then the capture server's request log and the Admin API's "
                "listing are judged: a target the policy denies gets no request and ends dead:policy_denied (C16); a target is contacted exactly retry.max+1 times for a "
                "retryable answer, once otherwise, and ends delivered / dead:no_retry / dead:max_retries with the retry.max that applies to it (C06); every request sent "
                "carries exactly one timestamp and one signature header, signed over (POST, escaped path, timestamp, body as sent) with the version the rule picks among "
                "those valid now, and nothing is sent when none is valid (C17)",
        "assumptions": ["outbound wiring tier: targets are IP-literal loopback hosts, so only IP/CIDR rules and the empty/non-empty allowlist rule decide"],
        "guards": [],
        "parts": [{"engine": "front", "test": "TestProp_C16_OutboundProcess", "quick": 64, "thorough": 2400, "shards": {"quick": 8, "thorough": 16}, "needs_bins": ["hookaido"]}],
    },
    "C17": {
        "rule": "inbound half: HMAC routes with 0-3 secret_ref versions (windows before/around/after the clock, open and closed) plus direct secrets; "
                "requests signed with each version at clock values around the window edges; accepted <=> some configured secret valid at the signed "
                "timestamp verifies the request (an iff: rotation never rejects a valid secret); non-trivial = >=2 versions valid at the signed instant "
                "or the signed instant within 1s of a window boundary || " + "outbound wiring tier (real `hookaido run` process per case, wall clock): generated config text with egress allow/deny lists over IPs, CIDRs and host names, "
                "a defaults retry next to per-target retry overrides and partial deliver blocks, 0-6 secret versions with validity windows days away from now, 1-3 "
                "fan-out targets on loopback addresses 127.0.0.1-3 that always answer 200/404/429/500/503/302, inline or secret_ref signing with newest_valid / "
                "oldest_valid and custom header names, path segments that need escaping; one ingress POST, then the capture server's request log and the Admin API's "
                "listing are judged: a target the policy denies gets no request and ends dead:policy_denied (C16); a target is contacted exactly retry.max+1 times for a "
                "retryable answer, once otherwise, and ends delivered / dead:no_retry / dead:max_retries with the retry.max that applies to it (C06); every request sent "
                "carries exactly one timestamp and one signature header, signed over (POST, escaped path, timestamp, body as sent) with the version the rule picks among "
                "those valid now, and nothing is sent when none is valid (C17)",
        "assumptions": [SAMPLED],
        "guards": ["accepted", "rejected-401", "near-window-boundary"],
        "parts": [{"engine": "front", "test": "TestProp_C17_Inbound", "quick": 2500, "thorough": 250000},
                  {"engine": "front", "test": "TestProp_C17_InboundConcurrent", "quick": 400, "thorough": 20000, "shards": {"quick": 4, "thorough": 8}, "shrinktime": "5s"},
                  {"engine": "front", "test": "TestProp_C17_OutboundProcess", "quick": 96, "thorough": 2400, "shards": {"quick": 16, "thorough": 16}, "needs_bins": ["hookaido"]}],
    },
    "C09": {
        "rule": "histories on one HMAC route over one process lifetime: fresh valid sends (timestamps at -tol, -tol+1s, 0, tol-1s, tol), verbatim replays, "
                "re-signed requests reusing a nonce, bad-signature requests with used nonces, clock moves to ts+tol-1ns / ts+tol / ts+tol+1ns, floods of "
                "1-1500 other nonces (valid or with a bad signature), reloads through the real reloadConfig (unchanged file, unrelated change, tolerance down/up, added secret), "
                "requests in flight across such a reload (the reload runs while the request body is being read: planned before, verified after), concurrent "
                "bursts of 2-16 copies; a second generator (ManyNonces) puts 1023-16385 other live nonces (powers of two and neighbours) between an accepted "
                "request and its replay; oracle: per nonce at most one 202 while the first accepted request is inside its tolerance window, and #messages == #202; "
                "non-trivial = a replay of an accepted request separated from it by a reload (between or in flight), a boundary-instant clock value or >=1000 nonces, or a burst",
        "assumptions": [SAMPLED, "burst interleavings are sampled by the Go scheduler, not enumerated"],
        "guards": ["some-accepted", "replay-of-accepted", "reload-between", "boundary-instant"],
        "parts": [{"engine": "front", "test": "TestProp_C09_Replay", "quick": 4000, "thorough": 200000, "shards": {"quick": 8}},
                  {"engine": "front", "test": "TestProp_C09_ManyNonces", "quick": 32, "thorough": 400, "shards": {"quick": 8}}],
    },
    "C11": {
        "rule": "configs as text: global pull_api tokens (0-3), per-route pull tokens (0-3) on 1-3 pull routes, admin tokens (0-2), separate / prefixed / shared "
                "listener topologies, including configs that must not compile (a pull route with neither own nor global tokens); requests over Pull HTTP "
                "(handler from startServers), Worker gRPC methods (metadata context) and every Admin endpoint, with credentials absent / exact / scheme "
                "variants / near-miss tokens (prefix, suffix, case, NUL, inner space, other route's, global against an overriding route) / multiple values; "
                "must-reject when no presented value is a bearer token of the effective allowlist under the most lenient reading (=> 401/Unauthenticated, "
                "queue unchanged, no items), must-accept for exactly 'Bearer T'; everything else unspecified; non-trivial = a near-miss credential or a "
                "config with an empty allowlist || after-reload tier: C18's (old, new) configuration pairs with the whole probe battery answered once under the old configuration, "
                "then a real reload; afterwards no pull endpoint may hand out messages (every route holds a stock, the answer names the route served) to a token, or from a route, "
                "other than a process started on the new configuration does",
        "assumptions": [SAMPLED, "the Worker server is wired in the harness exactly as startServers wires it (real gRPC transport over TCP is not used)"],
        "guards": ["must-reject", "must-accept", "api-pull", "api-worker", "api-admin", "config-with-empty-allowlist"],
        "parts": [{"engine": "front", "test": "TestProp_C11_Authz", "quick": 3000, "thorough": 300000},
                  {"engine": "front", "test": "TestProp_C11_AfterReload", "quick": 1200, "thorough": 40000, "shards": {"quick": 8}}],
    },
    "C07": {
        "rule": "body bytes (ramps over 0x00-0xFF, NULs, invalid UTF-8, CR/LF text; sizes 0,1,..,max_body-1,max_body,max_body+1 with generated max_body "
                "1 B-64 KiB) and 0-8 header fields from a pool mixing case variants of one name, repeated values, the three sensitive names in several "
                "casings, long/UTF-8/tab/padded values; accepted through the real ingress handler or Admin publish (payload_b64), stored on memory or "
                "SQLite, delivered through pull HTTP (base64), Worker gRPC methods or the real PushDispatcher+HTTPDeliverer into a recording "
                "RoundTripper, with 0-3 redeliveries (nack / 503) in between; round-trip oracle on payload bytes and an independent header expectation; "
                "non-trivial = (body has a byte >=0x80 or 0x00, or size within 1 of max_body, or a repeated/sensitive header) and >=1 redelivery | store batch tier: 2-6 messages "
                "with a header / trace / payload variant each (none, empty map, plain, values a serialiser must escape), single or batch enqueue, one dequeue with batch "
                "below / at / above the ready count on memory and SQLite, optionally nack-all and a second dequeue; every returned item equals what was accepted; "
                "non-trivial = a batch of >=2 in which a header-less message follows a header-bearing one",
        "assumptions": [SAMPLED, POSTGRES, "handlers are invoked in-process: the header map is what a net/http server would present for the generated field list; "
                        "restart fidelity is covered by C01; real gRPC wire encoding is not exercised"],
        "guards": ["mode-pull", "mode-worker", "mode-push", "via-ingress", "via-publish", "over-max-body", "redelivered"],
        "parts": [{"engine": "front", "test": "TestProp_C07_Fidelity", "quick": 1200, "thorough": 60000, "shards": {"quick": 8}},
                  {"engine": "qmodel", "test": "TestProp_C07_StoreBatch", "quick": 1500, "thorough": 100000}],
    },
    "C12": {
        "rule": "ingress/publish tier: configs with max_depth 1-6, both drop policies, 1-3 routes with 0-3 deliver targets (fan-out), small max_body / "
                "max_headers; sequences of ingress POSTs (body and header bytes at limit-1/limit/limit+1), publish batches around the remaining capacity "
                "(incl. an id already queued), leases and acks; oracle on status vs active count, fan-out prefix rule, eviction accounting, refusals leave "
                "the queue unchanged | rate tier: arrival sequences (gaps 0,1ns,..,10s; 1-16 concurrent callers per instant) against the real ingress "
                "handler with the injected clock, global vs route-override limiter compiled from text (rps incl. fractional, huge, nan, inf); for every "
                "pair of admitted arrivals of one limiter #admitted in the window <= burst + rps*window; non-trivial = a refusal/eviction with a leased "
                "message present, a straddling batch, a size exactly one above a limit, or >=burst+1 arrivals / a 429 || after-reload tier (shared with C18): (old, new) configuration pairs, the whole probe battery answered once under the old configuration, a real reload, then the battery again: an ingress request or an Admin publish above the route size limit in force (or refused for any other reason by a process started on the new configuration) must not be stored",
        "assumptions": [SAMPLED, "rate windows spanning a reload are not generated (excluded by the statement)"],
        "guards": ["202", "503", "413", "429", "evicted", "fanout-partial"],
        "parts": [{"engine": "front", "test": "TestProp_C12_Ingress", "quick": 2500, "thorough": 200000},
                  {"engine": "front", "test": "TestProp_C12_RateLimit", "quick": 2500, "thorough": 200000},
                  {"engine": "front", "test": "TestProp_C12_StoreWiring", "quick": 32, "thorough": 640, "shards": {"quick": 16, "thorough": 16}},
                  {"engine": "front", "test": "TestProp_C12_AfterReload", "quick": 1200, "thorough": 40000, "shards": {"quick": 8}}],
    },
    "C15": {
        "rule": "one fixed route set (pull, single/multi-target deliver, publish off, publish.direct off, managed route, outbound) under generated "
                "queue_limits / max_body / publish_policy; pre-filled queue (incl. near-full and colliding ids); global or endpoint-scoped path; audit headers "
                "present/absent; batches of 1-12 items with 0-2 positions made invalid by a drawn kind (20 kinds: unknown/relative/empty/managed route, "
                "selector hints, target not allowed/ambiguous, publish disabled, payload max_body+1, bad base64, headers too large, invalid header "
                "name/value, bad timestamps, blank id, duplicate id in batch incl. padded, id already queued) or a batch larger than the remaining depth; "
                "oracle: all valid => 200, exactly those n messages stored with the given shape; otherwise non-2xx with code, item_index among the offending "
                "positions, queue unchanged; non-trivial = batch >=3 with the first invalid item at position >=1, or an overflow with free capacity left || after-reload tier (shared with C18): (old, new) configuration pairs, the whole probe battery answered once under the old configuration, a real reload, then the battery again: an ingress request or an Admin publish above the route size limit in force (or refused for any other reason by a process started on the new configuration) must not be stored",
        "assumptions": [SAMPLED, POSTGRES],
        "guards": ["accepted", "refused", "status-409", "status-413", "status-503"],
        "parts": [{"engine": "front", "test": "TestProp_C15_Publish", "quick": 3000, "thorough": 250000},
                  {"engine": "front", "test": "TestProp_C15_PolicyReload", "quick": 400, "thorough": 20000, "shards": {"quick": 4}},
                  {"engine": "front", "test": "TestProp_C15_AfterReload", "quick": 1200, "thorough": 40000, "shards": {"quick": 8}}],
    },
    "C18": {
        "rule": "reload tier: (old, new) config pairs (new = old with 1-3 edits: route added/removed, auth kind/secret changed, pull path remapped, pull tokens "
                "moved between global and route, admin token, route order, methods) and a probe battery (per route path: anonymous / each basic credential / "
                "each HMAC secret / GET; every pull endpoint x every token; admin x every token); mode pause: the real reloadConfig is paused at a verif "
                "hook between its state writes and the battery must answer, probe by probe, like an entirely-old or entirely-new process; mode body-read: "
                "an in-flight ingress request triggers the reload from inside its body Read; mode pull-in-flight: every pull probe is authorized, then the reload is carried out (verif hook point), then its endpoint is resolved - "
                "the answer (which names the route whose messages were handed out) must be the old or the new configuration's; mode publish-in-flight: an Admin publish of two items to two routes, the reload arriving "
                "from another goroutine between the validation of the two items (it may land there or wait for the request): status and number of stored messages must be the old or the new configuration's; mode failed: 9 kinds of bad new content (removed, directory, "
                "garbage, truncated, uncompilable, unloadable secret, three restart-requiring changes) must leave every answer as an untouched process "
                "gives it | file tier: a child process runs the real writeFileAtomic and is SIGKILLed at each hook label; the file must hold exactly the "
                "old or the new bytes | rollback tier: management upsert/delete through the Admin API with a fault injected after the write (secret env "
                "removed so the reload fails; backlog appearing) must restore the previous bytes and behaviour; non-trivial = old and new differ in >=1 "
                "battery answer, a crash label actually hit, or an injected fault | derived-state tier: adaptive backpressure with sustained-growth detection over a generated "
                "backlog history (4-9 trend samples captured by the store itself), old/new trend_signals and adaptive_backpressure settings 1-2 edits apart (sometimes invalid), "
                "1-3 ingress requests before and 1-4 after the reload at clock offsets around the 250 ms / 1 s cache lifetimes; every post-reload status must equal that of a process "
                "started on the configuration in force with the same history and cold caches; non-trivial there = old and new decide the post-reload requests differently",
        "level": "fault_enumeration",
        "assumptions": [SAMPLED, "SIGKILL keeps the page cache: power-loss durability of the rename is not decided", "mid-request mixture is explored for ingress requests (reload from inside the body read) and pull requests (hook point between authorization and endpoint resolution); worker gRPC requests likewise, through a Worker server the harness wires as startServers does (so the product's own wiring of that server is not what is exercised); Admin publish batches between two items; other admin requests read the state once",
                        "--watch/SIGHUP delivery itself is not exercised; reloadConfig is called directly"],
        "guards": ["mode-pause", "mode-failed", "mode-body-read", "configs-differ-in-battery", "reload-inside-request", "holds-old", "holds-new", "fault-reload-fails"],
        "parts": [{"engine": "front", "test": "TestProp_C18_Reload", "quick": 4000, "thorough": 60000, "shards": {"quick": 8}},
                  {"engine": "front", "test": "TestProp_C18_FileCrash", "quick": 150, "thorough": 3000},
                  {"engine": "front", "test": "TestProp_C18_MgmtRollback", "quick": 60, "thorough": 600},
                  {"engine": "front", "test": "TestProp_C18_GlobalReload", "quick": 600, "thorough": 40000, "shards": {"quick": 4}},
                  {"engine": "front", "test": "TestProp_C18_RateReload", "quick": 600, "thorough": 40000, "shards": {"quick": 4}},
                  {"engine": "front", "test": "TestProp_C18_BackpressureReload", "quick": 1200, "thorough": 40000, "shards": {"quick": 4}},
                  {"engine": "front", "test": "TestProp_C18_OutboundReload", "quick": 128, "thorough": 3200, "shards": {"quick": 16, "thorough": 16}, "needs_bins": ["hookaido"]}],
    },
    "C01": {
        "rule": "process tier: the real `hookaido run` binary (verif build) on a SQLite file with a 2-3 target fan-out deliver route (targets on a closed "
                "port, retry base 1h) and a pull route, driven over real HTTP by 1-8 concurrent clients (ingress POSTs, publish batches, pull "
                "dequeue/ack/nack); the process SIGKILLs itself at the n-th hit of one of 14 hook labels (between per-target enqueues, before/after the "
                "202, after the publish commit, after the store ack/nack, inside sqlite transactions) or is SIGKILLed externally after k requests; it is "
                "restarted on the same db and inspected through GET /messages, pull dequeue after lease expiry and PRAGMA integrity_check; non-trivial = the "
                "label was hit (or external kill), >=1 request acknowledged before and >=1 in flight at the kill | in-process fault tier: the store "
                "answers one per-target enqueue of a fan-out request with a transient error (queue full / memory pressure / other): the request must not be "
                "answered 202 and must keep exactly the copies for the earlier targets",
        "level": "fault_enumeration",
        "assumptions": ["SIGKILL keeps the OS page cache: power-loss durability is not decided", "interleavings of the concurrent clients are sampled by the OS scheduler"],
        "guards": ["acked-before-crash", "inflight-at-crash", "redelivery-checked"],
        "parts": [{"engine": "front", "test": "TestProp_C01_StoreWiring", "quick": 32, "thorough": 640, "shards": {"quick": 16, "thorough": 16}},
                  {"engine": "front", "test": "TestProp_C01_ProcessCrash", "quick": 64, "thorough": 4000, "shards": {"quick": 8}, "needs_bins": ["hookaido"], "shrinktime": "60s"},
                  {"engine": "front", "test": "TestProp_C01_FanoutFault", "quick": 2000, "thorough": 150000}],
    },
    "C03": {
        "rule": "concurrent tier: 2-16 consumers of three kinds (direct Store, Pull HTTP handler, Worker gRPC methods) plus an operator run generated "
                "per-phase scripts (dequeue b, ack, nack, extend, forget, cancel/requeue) against one memory or SQLite store; the fake clock is constant "
                "inside a phase and advances (possibly across lease boundaries) only at the barrier; every call is logged with invocation/response "
                "sequence numbers; history oracle: lease ids globally unique, a message's grants carry attempts exactly 1..k, grant k+1 only after grant "
                "k ended (release invoked before k+1 returned, operator cancel, or the phase clock >= lease_until), never twice in one response; "
                "non-trivial = some message granted >=2 times and >=2 workers' dequeues overlapped in real time",
        "assumptions": ["the Go scheduler is not controlled: interleavings are sampled (GOMAXPROCS varied per shard; -race build in the thorough tier); a schedule-dependent "
                        "failure cannot be shrunk by rapid, the history is printed by the harness", "the live PushDispatcher is exercised under C07's push leg, not here"],
        "guards": ["message-granted-twice", "dequeues-overlapped"],
        "parts": [{"engine": "front", "test": "TestProp_C03_Concurrent", "quick": 800, "thorough": 60000, "shards": {"quick": 4}, "gomaxprocs": [16, 2, 4, 1], "shrinktime": "5s"}],
    },
    "C14": {
        "rule": "Admin HTTP tier: populations of 0-14 messages over 3 routes x states queued/leased/dead/canceled with tie timestamps, built with real store "
                "operations, then 1-4 requests to the real Admin handlers (cancel/requeue/resume/dlq requeue/dlq delete by id list with unknown, blank, "
                "padded, duplicate ids; the three by-filter forms with route/target/state/before/limit -1..1001/preview_only/unknown field); independent "
                "selector; changed set, result states, reported counts, matched, preview; invalid requests must be refused without effect",
        "assumptions": [SAMPLED],
        "guards": ["applied", "preview", "status-400", "canceled-leased"],
        "parts": [{"engine": "front", "test": "TestProp_C14_HTTP", "quick": 2000, "thorough": 150000}],
    },
}
