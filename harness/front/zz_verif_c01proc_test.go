//go:build verif

package app

import (
	"bytes"
	"database/sql"
	"encoding/base64"
	"encoding/json"
	"fmt"
	"io"
	"net"
	"net/http"
	"os"
	"os/exec"
	"path/filepath"
	"strconv"
	"strings"
	"sync"
	"syscall"
	"testing"
	"time"

	"pgregory.net/rapid"
)

// ---------------------------------------------------------------------------------------
// C01, process tier: the real `hookaido run` binary (verif build) on a SQLite file, driven
// over real HTTP by 1-8 concurrent clients, killed at a verif crash label or by an external
// SIGKILL after k requests, restarted on the same db and inspected through the Admin API.
// ---------------------------------------------------------------------------------------

type PReq struct {
	K    string `json:"k"` // fan | single | publish | deq | ack | nack
	N    int    `json:"n,omitempty"`
	Size int    `json:"size,omitempty"`
}

type C01ProcCase struct {
	Targets int    `json:"targets"` // fan-out width of /fan (2-3)
	Clients int    `json:"clients"`
	Reqs    []PReq `json:"reqs"`
	Label   string `json:"label,omitempty"` // hook label (self-kill) ...
	Nth     int    `json:"nth,omitempty"`
	KillAt  int    `json:"kill_at,omitempty"` // ... or external SIGKILL once this many requests have completed
}

var c01ProcLabels = []string{"ingress.enqueue.target", "ingress.202.before", "ingress.202.after", "admin.publish.enqueued", "pull.ack.stored", "pull.nack.stored",
	"sqlite.begin", "sqlite.commit.before", "sqlite.commit.after", "sqlite.enqueue.insert.before", "sqlite.enqueue.insert.after", "sqlite.batch.insert",
	"sqlite.lease.mutate.after", "sqlite.leasebatch.fn.after"}

func genC01ProcCase() *rapid.Generator[C01ProcCase] {
	return rapid.Custom(func(t *rapid.T) C01ProcCase {
		c := C01ProcCase{Targets: rapid.IntRange(2, 3).Draw(t, "targets"), Clients: rapid.SampledFrom([]int{1, 1, 2, 4, 8}).Draw(t, "clients")}
		g := rapid.Custom(func(t *rapid.T) PReq {
			r := PReq{K: rapid.SampledFrom([]string{"fan", "fan", "fan", "single", "single", "publish", "publish", "deq", "deq", "ack", "ack", "nack"}).Draw(t, "k")}
			switch r.K {
			case "fan", "single":
				r.Size = rapid.SampledFrom([]int{0, 1, 100, 20000}).Draw(t, "size")
			case "publish":
				r.N = rapid.IntRange(1, 4).Draw(t, "n")
			case "deq":
				r.N = rapid.IntRange(1, 3).Draw(t, "n")
			}
			return r
		})
		c.Reqs = rapid.SliceOfN(g, 4, 30).Draw(t, "reqs")
		if rapid.IntRange(0, 3).Draw(t, "external") == 0 {
			c.KillAt = rapid.IntRange(1, len(c.Reqs)).Draw(t, "kill_at")
		} else {
			c.Label = rapid.SampledFrom(c01ProcLabels).Draw(t, "label")
			c.Nth = rapid.SampledFrom([]int{1, 1, 2, 3, 5, 8}).Draw(t, "nth")
		}
		return c
	})
}

func freePorts(n int) []int {
	var ls []net.Listener
	var ports []int
	for i := 0; i < n; i++ {
		l, err := net.Listen("tcp", "127.0.0.1:0")
		if err != nil {
			continue
		}
		ls = append(ls, l)
		ports = append(ports, l.Addr().(*net.TCPAddr).Port)
	}
	for _, l := range ls {
		l.Close()
	}
	return ports
}

// exited reports whether the child has terminated (a zombie still answers signal 0).
func exited(pid int) bool {
	b, err := os.ReadFile(fmt.Sprintf("/proc/%d/stat", pid))
	if err != nil {
		return true
	}
	i := bytes.LastIndexByte(b, ')')
	return i >= 0 && i+2 < len(b) && (b[i+2] == 'Z' || b[i+2] == 'X')
}

// ownsPort reports whether process pid itself holds a listening TCP socket on port (another
// test process may have bound the port a moment after it was found free: then something answers
// there, but it is not the process under test).
func ownsPort(pid, port int) bool {
	inodes := map[string]bool{}
	for _, f := range []string{"/proc/net/tcp", "/proc/net/tcp6"} {
		b, err := os.ReadFile(f)
		if err != nil {
			continue
		}
		for _, line := range strings.Split(string(b), "\n")[1:] {
			fs := strings.Fields(line)
			if len(fs) < 10 || fs[3] != "0A" { // 0A = LISTEN
				continue
			}
			i := strings.LastIndexByte(fs[1], ':')
			if i < 0 {
				continue
			}
			if p, err := strconv.ParseInt(fs[1][i+1:], 16, 32); err == nil && int(p) == port {
				inodes[fs[9]] = true
			}
		}
	}
	if len(inodes) == 0 {
		return false
	}
	ents, err := os.ReadDir(fmt.Sprintf("/proc/%d/fd", pid))
	if err != nil {
		return false
	}
	for _, e := range ents {
		if l, err := os.Readlink(fmt.Sprintf("/proc/%d/fd/%s", pid, e.Name())); err == nil && strings.HasPrefix(l, "socket:[") {
			if inodes[strings.TrimSuffix(strings.TrimPrefix(l, "socket:["), "]")] {
				return true
			}
		}
	}
	return false
}

func waitPort(port int, d time.Duration) bool {
	deadline := time.Now().Add(d)
	for time.Now().Before(deadline) {
		c, err := net.DialTimeout("tcp", fmt.Sprintf("127.0.0.1:%d", port), 100*time.Millisecond)
		if err == nil {
			c.Close()
			return true
		}
		time.Sleep(2 * time.Millisecond)
	}
	return false
}

type procResult struct {
	status int // 0: no response
	body   []byte
}

func runC01Proc(c C01ProcCase, _ bool) *fOutcome {
	out := newFOutcome()
	bin := os.Getenv("VERIF_BIN_HOOKAIDO")
	if bin == "" {
		out.Failure = ffail("HARNESS", "no-binary", 0, "VERIF_BIN_HOOKAIDO is not set")
		return out
	}
	dir := filepath.Join(fScratch(), fmt.Sprintf("proc%d", fSeq.Add(1)))
	_ = os.MkdirAll(dir, 0o755)
	defer os.RemoveAll(dir)
	ports := freePorts(4)
	if len(ports) < 4 {
		out.Skipped = "no free ports"
		out.Labels["inconclusive-environment"] = true
		return out
	}
	// delivery targets: nothing may ever answer there (port 1 is refused; a port "found free" could be
	// another test process's listener a moment later and would settle the messages)
	pIn, pPull, pAdmin, pDead := ports[0], ports[1], ports[2], 1
	var targets []string
	for k := 0; k < c.Targets; k++ {
		targets = append(targets, fmt.Sprintf("http://127.0.0.1:%d/t%d", pDead, k))
	}
	cfgPath := filepath.Join(dir, "Hookaidofile")
	dbPath := filepath.Join(dir, "q.db")
	markPath := filepath.Join(dir, "mark")
	// the listener ports are not part of the durable state: a restart may use other ports
	writeCfg := func() {
		var cfg strings.Builder
		fmt.Fprintf(&cfg, "ingress { listen 127.0.0.1:%d }\npull_api {\n  listen 127.0.0.1:%d\n  auth token raw:t\n}\nadmin_api { listen 127.0.0.1:%d }\n", pIn, pPull, pAdmin)
		cfg.WriteString("defaults {\n  egress {\n    https_only off\n    dns_rebind_protection off\n  }\n  deliver {\n    retry exponential max 3 base 1h cap 1h jitter 0\n    timeout 1s\n  }\n}\n")
		cfg.WriteString("/fan {\n")
		for _, u := range targets {
			fmt.Fprintf(&cfg, "  deliver %s {\n  }\n", q(u))
		}
		cfg.WriteString("}\n/p {\n  pull { path /pull/p }\n}\n")
		_ = os.WriteFile(cfgPath, []byte(cfg.String()), 0o600)
	}
	writeCfg()
	// start returns the running process, or an error; env reports that the failure is the
	// environment's (a port taken by another process in the meantime, or a start that did not finish
	// within the budget on a saturated machine), which says nothing about the database.
	start := func(crash bool) (cmd *exec.Cmd, err error, env bool) {
		cmd = exec.Command(bin, "run", "--config", cfgPath, "--db", dbPath, "--log-level", "error")
		cmd.Env = append(os.Environ(), "VERIF_STATS=", "VERIF_FAILDIR=")
		if crash && c.Label != "" {
			cmd.Env = append(cmd.Env, fmt.Sprintf("VERIF_CRASH=%s:%d", c.Label, c.Nth), "VERIF_CRASH_MARK="+markPath)
		}
		var errb bytes.Buffer
		cmd.Stderr = &errb
		cmd.Stdout = io.Discard
		if err := cmd.Start(); err != nil {
			return nil, err, true
		}
		deadline := time.Now().Add(20 * time.Second)
		for _, port := range []int{pIn, pAdmin, pPull} {
			for !(waitPort(port, 50*time.Millisecond) && ownsPort(cmd.Process.Pid, port)) {
				// a process that has exited will never listen: stop waiting (signal 0 probes liveness)
				if cmd.Process.Signal(syscall.Signal(0)) != nil || exited(cmd.Process.Pid) || time.Now().After(deadline) {
					timedOut := time.Now().After(deadline)
					_ = cmd.Process.Kill()
					_, _ = cmd.Process.Wait()
					msg := errb.String()
					return nil, fmt.Errorf("process did not start listening: %s", msg), timedOut || strings.Contains(msg, "address already in use")
				}
			}
		}
		return cmd, nil, false
	}
	proc, err, _ := start(true)
	if err != nil {
		if _, e := os.Stat(markPath); e != nil {
			out.Skipped = "start: " + err.Error()
			out.Labels["start-failed"] = true
			return out
		}
	}
	client := &http.Client{Timeout: 5 * time.Second, Transport: &http.Transport{DisableKeepAlives: true}}
	do := func(method, url string, body []byte, hdr map[string]string) procResult {
		req, _ := http.NewRequest(method, url, bytes.NewReader(body))
		for k, v := range hdr {
			req.Header.Set(k, v)
		}
		resp, err := client.Do(req)
		if err != nil {
			return procResult{}
		}
		defer resp.Body.Close()
		b, err := io.ReadAll(resp.Body)
		if err != nil {
			return procResult{} // the answer was cut off: not acknowledged
		}
		return procResult{status: resp.StatusCode, body: b}
	}
	// ---- traffic
	type sentRec struct {
		req    PReq
		idx    int
		tag    string
		res    procResult
		leases []string // deq: leases returned; ack/nack: lease used
		ids    []string // deq: ids returned; publish: ids
	}
	recs := make([]*sentRec, len(c.Reqs))
	var mu sync.Mutex
	var heldLeases [][2]string // (lease, id) pool shared by the clients
	completed := 0
	killed := false
	var wg sync.WaitGroup
	payloadFor := func(tag string, size int) []byte {
		b := []byte(tag + ":")
		for len(b) < len(tag)+1+size {
			b = append(b, byte('a'+len(b)%26))
		}
		return b
	}
	if proc != nil {
		for cl := 0; cl < c.Clients; cl++ {
			wg.Add(1)
			go func(cl int) {
				defer wg.Done()
				for i := cl; i < len(c.Reqs); i += c.Clients {
					mu.Lock()
					if killed {
						mu.Unlock()
						return
					}
					mu.Unlock()
					r := c.Reqs[i]
					rec := &sentRec{req: r, idx: i, tag: fmt.Sprintf("req%d", i)}
					switch r.K {
					case "fan", "single":
						p := "/fan"
						if r.K == "single" {
							p = "/p"
						}
						rec.res = do("POST", fmt.Sprintf("http://127.0.0.1:%d%s", pIn, p), payloadFor(rec.tag, r.Size), map[string]string{"X-Tag": rec.tag})
					case "publish":
						var items []map[string]any
						for k := 0; k < r.N; k++ {
							id := fmt.Sprintf("%s-i%d", rec.tag, k)
							rec.ids = append(rec.ids, id)
							items = append(items, map[string]any{"id": id, "route": "/p", "target": "pull", "payload_b64": base64.StdEncoding.EncodeToString(payloadFor(id, 10))})
						}
						b, _ := json.Marshal(map[string]any{"items": items})
						rec.res = do("POST", fmt.Sprintf("http://127.0.0.1:%d/messages/publish", pAdmin), b, map[string]string{"Content-Type": "application/json", "X-Hookaido-Audit-Reason": "verif"})
					case "deq":
						b := []byte(fmt.Sprintf(`{"batch":%d,"lease_ttl":"1s"}`, r.N))
						rec.res = do("POST", fmt.Sprintf("http://127.0.0.1:%d/pull/p/dequeue", pPull), b, map[string]string{"Content-Type": "application/json", "Authorization": "Bearer t"})
						if rec.res.status == 200 {
							var resp struct {
								Items []struct {
									ID      string `json:"id"`
									LeaseID string `json:"lease_id"`
								} `json:"items"`
							}
							_ = json.Unmarshal(rec.res.body, &resp)
							mu.Lock()
							for _, it := range resp.Items {
								rec.ids = append(rec.ids, it.ID)
								rec.leases = append(rec.leases, it.LeaseID)
								heldLeases = append(heldLeases, [2]string{it.LeaseID, it.ID})
							}
							mu.Unlock()
						}
					case "ack", "nack":
						mu.Lock()
						var pick [2]string
						if len(heldLeases) > 0 {
							pick = heldLeases[0]
							heldLeases = heldLeases[1:]
						}
						mu.Unlock()
						if pick[0] == "" {
							break
						}
						rec.leases, rec.ids = []string{pick[0]}, []string{pick[1]}
						b := []byte(fmt.Sprintf(`{"lease_id":%q}`, pick[0]))
						rec.res = do("POST", fmt.Sprintf("http://127.0.0.1:%d/pull/p/%s", pPull, r.K), b, map[string]string{"Content-Type": "application/json", "Authorization": "Bearer t"})
					}
					mu.Lock()
					recs[i] = rec
					completed++
					if c.KillAt > 0 && completed >= c.KillAt && !killed {
						killed = true
						_ = proc.Process.Signal(syscall.SIGKILL)
					}
					mu.Unlock()
				}
			}(cl)
		}
		wg.Wait()
		if c.KillAt > 0 && !killed {
			_ = proc.Process.Signal(syscall.SIGKILL)
		}
		if c.Label != "" {
			if _, e := os.Stat(markPath); e != nil {
				// label never hit: kill now (counted separately)
				_ = proc.Process.Signal(syscall.SIGKILL)
				out.Labels["label-not-reached"] = true
			} else {
				out.Labels["crashed:"+c.Label] = true
			}
		} else {
			out.Labels["external-kill"] = true
		}
		_, _ = proc.Process.Wait()
	}
	// ---- restart and inspect
	p2, err, env := start(false)
	for try := 0; err != nil && env && try < 3; try++ {
		np := freePorts(3)
		if len(np) < 3 {
			break
		}
		pIn, pPull, pAdmin = np[0], np[1], np[2]
		writeCfg()
		out.Labels["restart-retried-on-other-ports"] = true
		p2, err, env = start(false)
	}
	if err != nil && env {
		out.Skipped = "restart inconclusive (environment): " + err.Error()
		out.Labels["inconclusive-environment"] = true
		return out
	}
	if err != nil {
		out.Failure = ffail("C01", "restart-failed", 0, "the process does not come up on the same database after the crash: %v", err)
		return out
	}
	stop := func() {
		_ = p2.Process.Signal(syscall.SIGTERM)
		done := make(chan struct{})
		go func() { _, _ = p2.Process.Wait(); close(done) }()
		select {
		case <-done:
		case <-time.After(20 * time.Second):
			_ = p2.Process.Kill()
			<-done
		}
	}
	res := do("GET", fmt.Sprintf("http://127.0.0.1:%d/messages?limit=1000&include_payload=true&include_headers=true", pAdmin), nil, nil)
	for try := 0; res.status == 0 && try < 5; try++ {
		// no answer at all (client timeout on a saturated machine): ask again
		time.Sleep(200 * time.Millisecond)
		res = do("GET", fmt.Sprintf("http://127.0.0.1:%d/messages?limit=1000&include_payload=true&include_headers=true", pAdmin), nil, nil)
	}
	if res.status == 0 {
		stop()
		out.Skipped = "the restarted process did not answer the listing request in time (machine load)"
		out.Labels["inconclusive-time-budget"] = true
		return out
	}
	if res.status != 200 {
		stop()
		out.Failure = ffail("C01", "list-after-restart", 0, "GET /messages answered %d %s", res.status, res.body)
		return out
	}
	var listing struct {
		Items []struct {
			ID         string            `json:"id"`
			Route      string            `json:"route"`
			Target     string            `json:"target"`
			State      string            `json:"state"`
			PayloadB64 string            `json:"payload_b64"`
			Headers    map[string]string `json:"headers"`
		} `json:"items"`
	}
	_ = json.Unmarshal(res.body, &listing)
	type key struct{ tag, target string }
	count := map[key]int{}
	byID := map[string]string{}
	for _, it := range listing.Items {
		payload, _ := base64.StdEncoding.DecodeString(it.PayloadB64)
		tag := string(payload)
		if i := strings.IndexByte(tag, ':'); i >= 0 {
			tag = tag[:i]
		}
		count[key{tag, it.Target}]++
		byID[it.ID] = it.State
		// half-written rows: the payload must be exactly what some request sent
		var want []byte
		var ok bool
		for _, r := range recs {
			if r == nil {
				continue
			}
			if r.tag == tag && (r.req.K == "fan" || r.req.K == "single") {
				want, ok = payloadFor(r.tag, r.req.Size), true
				if it.Headers["X-Tag"] != r.tag {
					stop()
					out.Failure = ffail("C01,C07", "headers-after-restart", 0, "message %s of %s lost its headers: %v", it.ID, tag, it.Headers)
					return out
				}
			}
			for _, id := range r.ids {
				if r.req.K == "publish" && id == tag {
					want, ok = payloadFor(id, 10), true
				}
			}
		}
		if !ok {
			// requests that never completed are not in recs (client stopped): accept tags of unsent indexes
			if !strings.HasPrefix(tag, "req") {
				stop()
				out.Failure = ffail("C01", "message-nobody-sent", 0, "after restart message %s with payload %q was stored but never sent", it.ID, head(payload))
				return out
			}
			continue
		}
		if !bytes.Equal(payload, want) {
			stop()
			out.Failure = ffail("C01", "half-written", 0, "message %s of %s has payload of %d bytes, sent %d", it.ID, tag, len(payload), len(want))
			return out
		}
	}
	ackedOps, inflight := 0, 0
	ackedGone := map[string]bool{}
	for _, r := range recs {
		if r == nil {
			continue
		}
		if r.res.status == 0 {
			inflight++
		} else {
			ackedOps++
		}
		if (r.req.K == "ack") && r.res.status/100 == 2 && len(r.ids) == 1 {
			ackedGone[r.ids[0]] = true
		}
	}
	for _, r := range recs {
		if r == nil {
			continue
		}
		switch r.req.K {
		case "fan", "single":
			tl := targets
			if r.req.K == "single" {
				tl = []string{"pull"}
			}
			for _, tg := range tl {
				n := count[key{r.tag, tg}]
				if n > 1 {
					stop()
					out.Failure = ffail("C01", "duplicated", r.idx, "request %s has %d copies for target %s after restart", r.tag, n, tg)
					return out
				}
				if r.res.status == 202 && n != 1 && r.req.K == "fan" {
					stop()
					out.Failure = ffail("C01", "acknowledged-lost", r.idx, "request %s was answered 202 but its copy for target %s is missing after the crash (%s)", r.tag, tg, crashDesc(c))
					return out
				}
			}
			if r.res.status == 202 && r.req.K == "single" {
				// a pull message may have been acked away by a later acknowledged ack
				present := count[key{r.tag, "pull"}] == 1
				if !present {
					goneByAck := false
					for _, rr := range recs {
						if rr != nil && rr.req.K == "ack" && (rr.res.status/100 == 2 || rr.res.status == 0) {
							goneByAck = true // the id of an ingress message is generated: any (possibly in-flight) ack may have removed it
						}
					}
					if !goneByAck {
						stop()
						out.Failure = ffail("C01", "acknowledged-lost", r.idx, "request %s was answered 202 but its message is missing after the crash (%s)", r.tag, crashDesc(c))
						return out
					}
				}
			}
		case "publish":
			for _, id := range r.ids {
				st, present := byID[id]
				if r.res.status == 200 && !present && !ackedGone[id] {
					inflightAck := false
					for _, rr := range recs {
						if rr != nil && rr.req.K == "ack" && rr.res.status == 0 && len(rr.ids) == 1 && rr.ids[0] == id {
							inflightAck = true
						}
					}
					if !inflightAck {
						stop()
						out.Failure = ffail("C01", "acknowledged-lost", r.idx, "publish %s was answered 200 but item %s is missing after the crash (%s)", r.tag, id, crashDesc(c))
						return out
					}
				}
				_ = st
			}
			if r.res.status != 200 {
				// all-or-nothing also across a crash
				n := 0
				for _, id := range r.ids {
					if _, ok := byID[id]; ok || ackedGone[id] {
						n++
					}
				}
				if n != 0 && n != len(r.ids) {
					stop()
					out.Failure = ffail("C01,C15", "publish-partial", r.idx, "unacknowledged publish %s left %d of %d items after the crash (%s)", r.tag, n, len(r.ids), crashDesc(c))
					return out
				}
			}
		case "ack":
			if r.res.status/100 == 2 && len(r.ids) == 1 {
				if _, present := byID[r.ids[0]]; present {
					stop()
					out.Failure = ffail("C01", "ack-undone", r.idx, "ack of %s was answered %d but the message is back after the crash (%s)", r.ids[0], r.res.status, crashDesc(c))
					return out
				}
			}
		}
	}
	// leased pull messages are offered again once their 1s lease has expired
	leasedLeft := 0
	for _, it := range listing.Items {
		if it.Route == "/p" && (it.State == "leased" || it.State == "queued") {
			leasedLeft++
		}
	}
	if leasedLeft > 0 {
		time.Sleep(1100 * time.Millisecond)
		got, unanswered := 0, 0
		for deadline := time.Now().Add(10 * time.Second); got < leasedLeft && time.Now().Before(deadline); {
			r := do("POST", fmt.Sprintf("http://127.0.0.1:%d/pull/p/dequeue", pPull), []byte(`{"batch":100,"lease_ttl":"30s"}`), map[string]string{"Content-Type": "application/json", "Authorization": "Bearer t"})
			var resp struct {
				Items []struct {
					ID string `json:"id"`
				} `json:"items"`
			}
			_ = json.Unmarshal(r.body, &resp)
			if r.status == 0 {
				unanswered++
			}
			if len(resp.Items) == 0 {
				if got > 0 && r.status == 200 && unanswered == 0 {
					// an answered, empty dequeue after some were handed out: ask twice more, then stop
					time.Sleep(50 * time.Millisecond)
					r2 := do("POST", fmt.Sprintf("http://127.0.0.1:%d/pull/p/dequeue", pPull), []byte(`{"batch":100,"lease_ttl":"30s"}`), map[string]string{"Content-Type": "application/json", "Authorization": "Bearer t"})
					_ = json.Unmarshal(r2.body, &resp)
					if r2.status == 200 && len(resp.Items) == 0 {
						break
					}
					got += len(resp.Items)
					continue
				}
				time.Sleep(100 * time.Millisecond)
				continue
			}
			got += len(resp.Items)
		}
		if got < leasedLeft && unanswered > 0 {
			stop()
			out.Skipped = "dequeue requests after the restart went unanswered (machine load)"
			out.Labels["inconclusive-time-budget"] = true
			return out
		}
		if got < leasedLeft {
			stop()
			out.Failure = ffail("C01,C05", "not-offered-again", 0, "%d pull messages survived the crash but only %d were offered again after lease expiry", leasedLeft, got)
			return out
		}
		out.Labels["redelivery-checked"] = true
	}
	stop()
	db, err := sql.Open("sqlite", dbPath)
	if err == nil {
		var integrity string
		if e := db.QueryRow("PRAGMA integrity_check;").Scan(&integrity); e != nil || integrity != "ok" {
			out.Failure = ffail("C01", "integrity", 0, "integrity_check: %q %v", integrity, e)
		}
		db.Close()
	}
	if ackedOps > 0 {
		out.Labels["acked-before-crash"] = true
	}
	if inflight > 0 {
		out.Labels["inflight-at-crash"] = true
	}
	out.NonTriv = !out.Labels["label-not-reached"] && ackedOps > 0 && inflight > 0
	return out
}

func crashDesc(c C01ProcCase) string {
	if c.Label != "" {
		return fmt.Sprintf("crash at %s:%d", c.Label, c.Nth)
	}
	return fmt.Sprintf("external SIGKILL after %d requests", c.KillAt)
}

func TestProp_C01_ProcessCrash(t *testing.T) {
	frontProp(t, "C01", "TestProp_C01_ProcessCrash", genC01ProcCase(), runC01Proc)
}
