//go:build verif

package app

import (
	"context"
	"encoding/json"
	"fmt"
	"os"
	"sort"
	"sync"
	"sync/atomic"
	"testing"
	"time"

	"github.com/nuetzliches/hookaido/internal/pullapi"
	"github.com/nuetzliches/hookaido/internal/queue"
	"github.com/nuetzliches/hookaido/internal/workerapi"
	workerapipb "github.com/nuetzliches/hookaido/internal/workerapi/proto"
	"google.golang.org/protobuf/types/known/durationpb"
	"pgregory.net/rapid"
)

// ---------------------------------------------------------------------------------------
// C03, concurrent tier: 2-16 consumers of three kinds (direct Store, Pull HTTP handler, Worker
// gRPC methods) plus an operator run generated per-phase scripts against one store. The fake
// clock is constant inside a phase and advances only at the barrier between phases. Every
// call is logged with invocation/response sequence numbers; the history is then judged.
// ---------------------------------------------------------------------------------------

type CWAct struct {
	K string `json:"k"` // deq | ack | nack | ext | forget | cancel | requeue
	N int    `json:"n,omitempty"`
}

type CWorker struct {
	Kind   string    `json:"kind"` // store | http | grpc | operator
	Phases [][]CWAct `json:"phases"`
}

type C03CCase struct {
	Backend string    `json:"backend"`
	Msgs    int       `json:"msgs"`
	TTLMs   int       `json:"ttl_ms"`
	AdvMs   []int     `json:"adv_ms"` // clock advance at the barrier after each phase
	Workers []CWorker `json:"workers"`
	Procs   int       `json:"procs,omitempty"`
	// TwoHandles (sqlite): the database file is opened twice (as the gateway and `hookaido mcp` do); workers with
	// an odd index and the operator work through the second handle
	TwoHandles bool `json:"two_handles,omitempty"`
}

type grantEv struct {
	id      string
	lease   string
	attempt int
	until   int64
	worker  int
	phase   int
	inv     int64
	resp    int64
}

type releaseEv struct {
	lease string // lease operation
	id    string // operator operation on a message id
	kind  string
	ok    bool
	inv   int64
	resp  int64
	phase int
}

func genC03CCase() *rapid.Generator[C03CCase] {
	return rapid.Custom(func(t *rapid.T) C03CCase {
		c := C03CCase{Backend: rapid.SampledFrom([]string{"memory", "sqlite"}).Draw(t, "backend")}
		c.Msgs = rapid.SampledFrom([]int{1, 2, 3, 5, 12, 40, 120}).Draw(t, "msgs")
		c.TTLMs = rapid.SampledFrom([]int{10, 50, 1000}).Draw(t, "ttl")
		nph := rapid.IntRange(2, 5).Draw(t, "phases")
		for i := 0; i < nph; i++ {
			c.AdvMs = append(c.AdvMs, rapid.SampledFrom([]int{0, 0, c.TTLMs - 10, c.TTLMs, c.TTLMs + 10, 5}).Draw(t, "adv"))
		}
		nw := rapid.SampledFrom([]int{2, 3, 4, 8, 16}).Draw(t, "workers")
		for wi := 0; wi < nw; wi++ {
			w := CWorker{Kind: rapid.SampledFrom([]string{"store", "store", "http", "grpc", "operator"}).Draw(t, "kind")}
			for p := 0; p < nph; p++ {
				var acts []CWAct
				na := rapid.IntRange(0, 5).Draw(t, "nacts")
				for a := 0; a < na; a++ {
					if w.Kind == "operator" {
						acts = append(acts, CWAct{K: rapid.SampledFrom([]string{"cancel", "requeue", "requeue"}).Draw(t, "ok"), N: rapid.IntRange(0, c.Msgs-1).Draw(t, "on")})
					} else {
						k := rapid.SampledFrom([]string{"deq", "deq", "deq", "ack", "nack", "nack", "ext", "forget"}).Draw(t, "k")
						acts = append(acts, CWAct{K: k, N: rapid.SampledFrom([]int{1, 1, 2, 5, 9, 16, 50}).Draw(t, "n")})
					}
				}
				w.Phases = append(w.Phases, acts)
			}
			c.Workers = append(c.Workers, w)
		}
		c.Procs = rapid.SampledFrom([]int{0, 1, 2, 4}).Draw(t, "procs")
		c.TwoHandles = c.Backend == "sqlite" && rapid.Bool().Draw(t, "two_handles")
		return c
	})
}

func runC03C(c C03CCase, _ bool) *fOutcome {
	out := newFOutcome()
	clk := &fClock{}
	var store, store2 queue.Store
	switch c.Backend {
	case "sqlite":
		dir := fmt.Sprintf("%s/c03-%d", fScratch(), fSeq.Add(1))
		s, err := queue.NewSQLiteStore(dir+"/q.db", queue.WithSQLiteNowFunc(clk.Now), queue.WithSQLiteCheckpointInterval(0))
		if err != nil {
			out.Failure = ffail("HARNESS", "open", 0, "%v", err)
			return out
		}
		defer func() { s.Close(); os.RemoveAll(dir) }()
		store = s
		if c.TwoHandles {
			s2, err := queue.NewSQLiteStore(dir+"/q.db", queue.WithSQLiteNowFunc(clk.Now), queue.WithSQLiteCheckpointInterval(0))
			if err != nil {
				out.Failure = ffail("HARNESS", "open-second-handle", 0, "%v", err)
				return out
			}
			defer s2.Close()
			store2 = s2
			out.Labels["two-handles"] = true
		}
	default:
		store = queue.NewMemoryStore(queue.WithNowFunc(clk.Now))
	}
	for i := 0; i < c.Msgs; i++ {
		_ = store.Enqueue(queue.Envelope{ID: fmt.Sprintf("m%d", i), Route: "/r", Target: "pull", Payload: []byte("p")})
	}
	ph := pullapi.NewServer(store)
	ph.ResolveRoute = func(ep string) (string, bool) { return "/r", ep == "/pull/r" }
	wk := workerapi.NewServer(ph)
	wk.ResolveRoute = ph.ResolveRoute
	ttl := time.Duration(c.TTLMs) * time.Millisecond
	ttlStr := fmt.Sprintf("%dms", c.TTLMs)

	var seq atomic.Int64
	var mu sync.Mutex
	var grants []grantEv
	var releases []releaseEv
	var violation string

	nph := len(c.AdvMs)
	for p := 0; p < nph; p++ {
		var wg sync.WaitGroup
		phaseNow := clk.since().Nanoseconds()
		for wi, w := range c.Workers {
			if p >= len(w.Phases) {
				continue
			}
			wg.Add(1)
			go func(wi int, w CWorker, acts []CWAct) {
				defer wg.Done()
				store := store
				if store2 != nil && (wi%2 == 1 || w.Kind == "operator") {
					store = store2
				}
				var held []grantEv
				record := func(items []grantEv, inv, resp int64) {
					seenIn := map[string]bool{}
					mu.Lock()
					for _, g := range items {
						if seenIn[g.id] && violation == "" {
							violation = fmt.Sprintf("message %s appears twice in one dequeue response", g.id)
						}
						seenIn[g.id] = true
						g.worker, g.phase, g.inv, g.resp = wi, p, inv, resp
						grants = append(grants, g)
						held = append(held, g)
					}
					mu.Unlock()
				}
				for _, a := range acts {
					switch a.K {
					case "deq":
						inv := seq.Add(1)
						var items []grantEv
						switch w.Kind {
						case "store":
							resp, err := store.Dequeue(queue.DequeueRequest{Route: "/r", Target: "pull", Batch: a.N, LeaseTTL: ttl})
							if err == nil {
								for _, it := range resp.Items {
									items = append(items, grantEv{id: it.ID, lease: it.LeaseID, attempt: it.Attempt, until: it.LeaseUntil.Sub(fT0).Nanoseconds()})
								}
							}
						case "http":
							body := fmt.Sprintf(`{"batch":%d,"lease_ttl":%q}`, a.N, ttlStr)
							rec := serve(ph, FReq{Method: "POST", Path: "/pull/r/dequeue", Host: "p", Remote: "127.0.0.1:1", Body: []byte(body), Headers: [][2]string{{"Content-Type", "application/json"}}})
							var resp struct {
								Items []struct {
									ID      string `json:"id"`
									LeaseID string `json:"lease_id"`
									Attempt int    `json:"attempt"`
								} `json:"items"`
							}
							if rec.Code == 200 && json.Unmarshal(rec.Body.Bytes(), &resp) == nil {
								for _, it := range resp.Items {
									items = append(items, grantEv{id: it.ID, lease: it.LeaseID, attempt: it.Attempt, until: phaseNow + int64(ttl)})
								}
							}
						case "grpc":
							resp, err := wk.Dequeue(context.Background(), &workerapipb.DequeueRequest{Endpoint: "/pull/r", Batch: uint32(a.N), LeaseTtl: durationpb.New(ttl)})
							if err == nil {
								for _, it := range resp.GetItems() {
									items = append(items, grantEv{id: it.GetId(), lease: it.GetLeaseId(), attempt: int(it.GetAttempt()), until: phaseNow + int64(ttl)})
								}
							}
						}
						record(items, inv, seq.Add(1))
					case "ack", "nack", "ext":
						if len(held) == 0 {
							continue
						}
						g := held[0]
						if a.K != "ext" {
							held = held[1:]
						}
						inv := seq.Add(1)
						var err error
						switch {
						case w.Kind == "http":
							path := map[string]string{"ack": "ack", "nack": "nack", "ext": "extend"}[a.K]
							body := fmt.Sprintf(`{"lease_id":%q,"extend_by":"20ms","delay":"0s"}`, g.lease)
							if a.K != "ext" {
								body = fmt.Sprintf(`{"lease_id":%q}`, g.lease)
							}
							rec := serve(ph, FReq{Method: "POST", Path: "/pull/r/" + path, Host: "p", Remote: "127.0.0.1:1", Body: []byte(body), Headers: [][2]string{{"Content-Type", "application/json"}}})
							if rec.Code/100 != 2 {
								err = fmt.Errorf("status %d", rec.Code)
							}
						case w.Kind == "grpc" && a.K == "ack":
							_, err = wk.Ack(context.Background(), &workerapipb.AckRequest{Endpoint: "/pull/r", LeaseId: g.lease})
						case w.Kind == "grpc" && a.K == "nack":
							_, err = wk.Nack(context.Background(), &workerapipb.NackRequest{Endpoint: "/pull/r", LeaseId: g.lease})
						case w.Kind == "grpc":
							_, err = wk.Extend(context.Background(), &workerapipb.ExtendRequest{Endpoint: "/pull/r", LeaseId: g.lease, ExtendBy: durationpb.New(20 * time.Millisecond)})
						case a.K == "ack":
							err = store.Ack(g.lease)
						case a.K == "nack":
							err = store.Nack(g.lease, 0)
						default:
							err = store.Extend(g.lease, 20*time.Millisecond)
						}
						resp := seq.Add(1)
						mu.Lock()
						if a.K == "ext" {
							if err == nil {
								// a successful extend prolongs the grant
								for k := range grants {
									if grants[k].lease == g.lease {
										grants[k].until += int64(20 * time.Millisecond)
									}
								}
							} else {
								// a refused extend means the lease was already gone or expired (and is released now)
								releases = append(releases, releaseEv{lease: g.lease, kind: "extend-conflict", ok: false, inv: inv, resp: resp, phase: p})
							}
						} else {
							releases = append(releases, releaseEv{lease: g.lease, kind: a.K, ok: err == nil, inv: inv, resp: resp, phase: p})
						}
						mu.Unlock()
					case "forget":
						if len(held) > 0 {
							held = held[1:]
						}
					case "cancel", "requeue":
						id := fmt.Sprintf("m%d", a.N)
						inv := seq.Add(1)
						changed := 0
						if a.K == "cancel" {
							r, err := store.CancelMessages(queue.MessageCancelRequest{IDs: []string{id}})
							if err == nil {
								changed = r.Canceled
							}
						} else {
							r, err := store.RequeueMessages(queue.MessageRequeueRequest{IDs: []string{id}})
							if err == nil {
								changed = r.Requeued
							}
						}
						resp := seq.Add(1)
						mu.Lock()
						releases = append(releases, releaseEv{id: id, kind: a.K, ok: changed > 0, inv: inv, resp: resp, phase: p})
						mu.Unlock()
					}
				}
			}(wi, w, w.Phases[p])
		}
		wg.Wait()
		clk.add(time.Duration(c.AdvMs[p]) * time.Millisecond)
	}
	if violation != "" {
		out.Failure = ffail("C03", "twice-in-one-response", 0, "%s", violation)
		return out
	}
	// ---- judge the history
	phaseClock := make([]int64, nph+1)
	acc := int64(0)
	for p := 0; p < nph; p++ {
		phaseClock[p] = acc
		acc += int64(time.Duration(c.AdvMs[p]) * time.Millisecond)
	}
	leaseSeen := map[string]bool{}
	byMsg := map[string][]grantEv{}
	for _, g := range grants {
		if leaseSeen[g.lease] {
			out.Failure = ffail("C03", "lease-id-reused", 0, "lease id %s was issued twice", g.lease)
			return out
		}
		leaseSeen[g.lease] = true
		byMsg[g.id] = append(byMsg[g.id], g)
	}
	overlapped := false
	regranted := false
	for id, gs := range byMsg {
		sort.Slice(gs, func(i, j int) bool { return gs[i].attempt < gs[j].attempt })
		for k, g := range gs {
			if k > 0 && g.attempt == gs[k-1].attempt {
				out.Failure = ffail("C03", "double-lease", 0, "message %s was granted twice with attempt %d: lease %s (worker %d, phase %d) and lease %s (worker %d, phase %d)\n%s",
					id, g.attempt, gs[k-1].lease, gs[k-1].worker, gs[k-1].phase, g.lease, g.worker, g.phase, histStr(gs, releases))
				return out
			}
			if g.attempt != k+1 {
				// attempts of ungranted (e.g. operator-requeued, never re-dequeued) rounds cannot be missing: every increment is a dequeue we did not see
				out.Failure = ffail("C03", "attempt-gap", 0, "message %s: grants carry attempts %v, expected 1..%d\n%s", id, attemptsOf(gs), len(gs), histStr(gs, releases))
				return out
			}
			if k == 0 {
				continue
			}
			regranted = true
			prev := gs[k-1]
			ended := phaseClock[g.phase] >= prev.until
			for _, r := range releases {
				if r.inv >= g.resp {
					continue
				}
				switch {
				case r.lease != "" && r.lease == prev.lease:
					ended = true // ack/nack/extend-conflict on the previous lease (a refused one means it was already gone or expired)
				case r.id == id && r.kind == "cancel" && r.ok && r.resp > prev.inv:
					ended = true // an operator cancel that can have hit the previous lease
				}
			}
			if !ended {
				out.Failure = ffail("C03", "lease-not-exclusive", 0, "message %s re-granted (attempt %d, lease %s, worker %d, phase %d at clock %dms) while lease %s (until %dms) had neither been released nor expired\n%s",
					id, g.attempt, g.lease, g.worker, g.phase, phaseClock[g.phase]/1e6, prev.lease, prev.until/1e6, histStr(gs, releases))
				return out
			}
		}
	}
	// did dequeues overlap in real time?
	for i := range grants {
		for j := range grants {
			if grants[i].worker != grants[j].worker && grants[i].phase == grants[j].phase && grants[i].inv < grants[j].resp && grants[j].inv < grants[i].resp {
				overlapped = true
			}
		}
	}
	if regranted {
		out.Labels["message-granted-twice"] = true
	}
	if overlapped {
		out.Labels["dequeues-overlapped"] = true
	}
	out.Labels["backend-"+c.Backend] = true
	out.NonTriv = regranted && overlapped
	return out
}

func attemptsOf(gs []grantEv) []int {
	var a []int
	for _, g := range gs {
		a = append(a, g.attempt)
	}
	return a
}

func histStr(gs []grantEv, rs []releaseEv) string {
	s := ""
	for _, g := range gs {
		s += fmt.Sprintf("  grant id=%s lease=%s attempt=%d until=%dms worker=%d phase=%d inv=%d resp=%d\n", g.id, g.lease, g.attempt, g.until/1e6, g.worker, g.phase, g.inv, g.resp)
	}
	for _, r := range rs {
		for _, g := range gs {
			if r.lease == g.lease || r.id == g.id {
				s += fmt.Sprintf("  release kind=%s lease=%s id=%s ok=%v phase=%d inv=%d resp=%d\n", r.kind, r.lease, r.id, r.ok, r.phase, r.inv, r.resp)
				break
			}
		}
	}
	return s
}

func TestProp_C03_Concurrent(t *testing.T) {
	frontProp(t, "C03", "TestProp_C03_Concurrent", genC03CCase(), runC03C)
}
