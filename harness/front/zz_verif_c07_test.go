//go:build verif

package app

import (
	"context"
	"encoding/base64"
	"encoding/json"
	"fmt"
	"io"
	"net/http"
	"sort"
	"strings"
	"sync"
	"testing"
	"time"

	"github.com/nuetzliches/hookaido/internal/dispatcher"
	"github.com/nuetzliches/hookaido/internal/pullapi"
	"github.com/nuetzliches/hookaido/internal/queue"
	"github.com/nuetzliches/hookaido/internal/workerapi"
	workerapipb "github.com/nuetzliches/hookaido/internal/workerapi/proto"
	"google.golang.org/grpc/metadata"
	"pgregory.net/rapid"
)

// ---------------------------------------------------------------------------------------
// C07: end-to-end payload and header fidelity (accept at ingress or publish; deliver through
// pull HTTP, worker gRPC methods or the real push dispatcher + HTTPDeliverer).
// ---------------------------------------------------------------------------------------

type C07Case struct {
	Backend   string      `json:"backend"`
	MaxBody   int         `json:"max_body"`
	Via       string      `json:"via"`  // ingress | publish
	Mode      string      `json:"mode"` // pull | worker | push
	Body      []byte      `json:"body,omitempty"`
	Headers   [][2]string `json:"headers,omitempty"`
	Redeliver int         `json:"redeliver,omitempty"`
	More      [][]byte    `json:"more,omitempty"`    // further messages accepted before delivery starts (dequeued in one batch)
	Observe   []string    `json:"observe,omitempty"` // operator read calls issued between acceptance and delivery
	// Auth: the ingress route is protected by forward auth (the service answers 200); with
	// "forward-copy" the service's X-User / X-Org answer headers are copied onto the message
	Auth string `json:"auth,omitempty"`
	// Chunked: ingress bodies are sent without a declared length
	Chunked bool `json:"chunked,omitempty"`
	// Tracing: observability.tracing is enabled (the handlers are wrapped, a tracer provider is installed)
	Tracing bool `json:"tracing,omitempty"`
	// Detour (pull / worker modes): between acceptance and delivery an operator cancels every stored
	// message by id and then resumes or requeues it: "cancel-resume" | "cancel-requeue"
	Detour string `json:"detour,omitempty"`
}

func c07Text(c C07Case) string {
	var b strings.Builder
	b.WriteString("ingress { listen 127.0.0.1:0 }\n")
	b.WriteString("pull_api {\n  listen localhost:0\n  auth token raw:pulltoken\n}\n")
	b.WriteString("admin_api { listen 0.0.0.0:0 }\n")
	fmt.Fprintf(&b, "defaults {\n  max_body %db\n  egress {\n    https_only off\n    dns_rebind_protection off\n  }\n  deliver {\n    retry exponential max 8 base 1ms cap 2ms jitter 0\n    timeout 2s\n  }\n}\n", c.MaxBody)
	if c.Tracing {
		b.WriteString("observability {\n  tracing {\n    enabled on\n    collector \"http://127.0.0.1:1/v1/traces\"\n    insecure on\n    timeout \"100ms\"\n  }\n}\n")
	}
	auth := ""
	if c.Auth == "hmac" {
		auth = "  auth hmac raw:c07-secret\n"
	}
	if strings.HasPrefix(c.Auth, "forward") {
		live, _ := fwdServer()
		auth = fmt.Sprintf("  auth forward %s {\n    timeout 5s\n", q(live+"/b/200"))
		if c.Auth == "forward-copy" {
			auth += "    copy_headers \"X-User\"\n    copy_headers \"X-Org\"\n"
		}
		auth += "  }\n"
	}
	if c.Mode == "push" {
		b.WriteString("/in {\n" + auth + "  deliver \"http://sink.example.org/hook\" {\n  }\n}\n")
	} else {
		b.WriteString("/in {\n" + auth + "  pull { path /pull/in }\n}\n")
	}
	return b.String()
}

var sensitive = map[string]bool{"authorization": true, "proxy-authorization": true, "cookie": true}

// expectedStored computes, from the list of header fields as sent, what must be stored.
func expectedStored(fields [][2]string) map[string]string {
	order := []string{}
	vals := map[string][]string{}
	for _, kv := range fields {
		k := http.CanonicalHeaderKey(kv[0])
		if sensitive[strings.ToLower(k)] {
			continue
		}
		if _, ok := vals[k]; !ok {
			order = append(order, k)
		}
		vals[k] = append(vals[k], kv[1])
	}
	out := map[string]string{}
	for _, k := range order {
		out[k] = strings.Join(vals[k], ",")
	}
	return out
}

type recordingRT struct {
	mu     sync.Mutex
	reqs   []recordedReq
	script []int // status per call; last repeats
	notify chan struct{}
}

type recordedReq struct {
	Method string
	URL    string
	Header http.Header
	Body   []byte
}

func (rt *recordingRT) RoundTrip(r *http.Request) (*http.Response, error) {
	var body []byte
	if r.Body != nil {
		body, _ = io.ReadAll(r.Body)
		_ = r.Body.Close()
	}
	rt.mu.Lock()
	idx := len(rt.reqs)
	rt.reqs = append(rt.reqs, recordedReq{Method: r.Method, URL: r.URL.String(), Header: r.Header.Clone(), Body: body})
	code := 200
	if len(rt.script) > 0 {
		if idx < len(rt.script) {
			code = rt.script[idx]
		} else {
			code = rt.script[len(rt.script)-1]
		}
	}
	rt.mu.Unlock()
	select {
	case rt.notify <- struct{}{}:
	default:
	}
	return &http.Response{StatusCode: code, Status: fmt.Sprint(code), Proto: "HTTP/1.1", ProtoMajor: 1, ProtoMinor: 1,
		Header: http.Header{}, Body: io.NopCloser(strings.NewReader("")), Request: r}, nil
}

func (rt *recordingRT) count() int {
	rt.mu.Lock()
	defer rt.mu.Unlock()
	return len(rt.reqs)
}

var (
	c07HdrNames = []string{"X-Event", "x-event", "X-EVENT", "Content-Type", "X-Long", "Authorization", "authorization", "AUTHORIZATION",
		"Proxy-Authorization", "proxy-authorization", "Cookie", "COOKIE", "X-Tab", "X-Utf8", "User-Agent", "X-Empty", "Cookie2", "X-Authorization", "Traceparent", "tracestate"}
	c07HdrVals = []string{"push", "a,b", "a, b", "", "tab\there", "héllo wörld ✓", "Bearer secret", "k=v; k2=v2", strings.Repeat("v", 300), "  padded  ", "\"quoted\"", "a;b=c", "00-4bf92f3577b34da6a3ce929d0e0e4736-00f067aa0ba902b7-01",
		// bytes that a serialisation of the header map has to escape (seed C07-14: backslash forgotten by a
		// hand-written JSON fast path of the SQLite store)
		"C:\\temp\\new\\report.json", "a\\", "^\\d+$", "\\u0041\\n", "<b>&amp;</b>", "{\"k\":\"v\"}", "%5C%22", "'single'", "a\\\"b"}
)

func genBody(t *rapid.T, maxBody int) []byte {
	size := rapid.SampledFrom([]int{0, 1, 2, 7, maxBody - 1, maxBody, maxBody, maxBody + 1, maxBody / 2, 64}).Draw(t, "size")
	if size < 0 {
		size = 0
	}
	b := make([]byte, size)
	switch rapid.IntRange(0, 4).Draw(t, "pattern") {
	case 0: // ramp over every byte value
		off := rapid.IntRange(0, 255).Draw(t, "ramp_off")
		for i := range b {
			b[i] = byte(i + off)
		}
	case 1: // NULs
	case 2: // invalid UTF-8 runs
		for i := range b {
			b[i] = []byte{0xff, 0xfe, 0xc0, 0x80, 0xed, 0xa0}[i%6]
		}
	case 3: // JSON-ish text with newline/CR at the edges
		for i := range b {
			b[i] = "{\"a\":\"b\"}\r\n"[i%11]
		}
	default:
		pool := []byte{0, 1, 0x7f, 0x80, 0xff, '\n', '\r', '"', '\\', 'a'}
		for i := range b {
			b[i] = pool[rapid.IntRange(0, len(pool)-1).Draw(t, "b")]
		}
	}
	return b
}

func genC07Case() *rapid.Generator[C07Case] {
	return rapid.Custom(func(t *rapid.T) C07Case {
		c := C07Case{Backend: rapid.SampledFrom([]string{"memory", "sqlite"}).Draw(t, "backend")}
		c.MaxBody = rapid.SampledFrom([]int{1, 2, 16, 100, 1024, 4096, 65536}).Draw(t, "max_body")
		c.Via = rapid.SampledFrom([]string{"ingress", "ingress", "publish"}).Draw(t, "via")
		c.Mode = rapid.SampledFrom([]string{"pull", "worker", "push"}).Draw(t, "mode")
		c.Body = genBody(t, c.MaxBody)
		n := rapid.IntRange(0, 8).Draw(t, "nhdr")
		for i := 0; i < n; i++ {
			c.Headers = append(c.Headers, [2]string{rapid.SampledFrom(c07HdrNames).Draw(t, "hn"), rapid.SampledFrom(c07HdrVals).Draw(t, "hv")})
		}
		if c.Via == "ingress" {
			c.Auth = rapid.SampledFrom([]string{"", "", "", "forward", "forward-copy", "hmac", "hmac"}).Draw(t, "auth")
			c.Chunked = rapid.IntRange(0, 3).Draw(t, "chunked") == 0
		}
		c.Tracing = rapid.IntRange(0, 3).Draw(t, "tracing") == 0
		c.Redeliver = rapid.SampledFrom([]int{0, 0, 1, 2, 3}).Draw(t, "redeliver")
		c.Detour = rapid.SampledFrom([]string{"", "", "", "cancel-resume", "cancel-requeue"}).Draw(t, "detour")
		nm := rapid.SampledFrom([]int{0, 0, 1, 2}).Draw(t, "nmore")
		for i := 0; i < nm; i++ {
			b := genBody(t, c.MaxBody)
			if len(b) > c.MaxBody {
				b = b[:c.MaxBody]
			}
			c.More = append(c.More, b)
		}
		c.Observe = rapid.SliceOfN(rapid.SampledFrom([]string{"/messages", "/messages?include_payload=true", "/messages?include_headers=true", "/messages?include_payload=true&include_headers=true&include_trace=true",
			"/messages?state=queued&limit=1", "/dlq", "/dlq?include_headers=true", "/backlog/top_queued", "/healthz?details=1"}), 0, 3).Draw(t, "observe")
		return c
	})
}

func eqStrMap(a, b map[string]string) bool {
	if len(a) != len(b) {
		return false
	}
	for k, v := range a {
		if w, ok := b[k]; !ok || v != w {
			return false
		}
	}
	return true
}

// c07Signed appends the three HMAC headers a sender adds (they are ordinary headers: what the route
// accepted is what must be stored and passed on).
func c07Signed(c C07Case, now time.Time, body []byte, seq int) [][2]string {
	h := append([][2]string(nil), c.Headers...)
	if c.Auth != "hmac" {
		return h
	}
	ts := fmt.Sprint(now.Unix())
	return append(h, [2]string{"X-Timestamp", ts}, [2]string{"X-Nonce", fmt.Sprintf("c07-%d", seq)}, [2]string{"X-Signature", signHex("c07-secret", ts, "POST", "/in", body)})
}

func runC07(c C07Case, _ bool) *fOutcome {
	out := newFOutcome()
	w, err := newFrontWorld(c07Text(c), worldOpts{backend: c.Backend})
	if err != nil {
		out.Failure = ffail("HARNESS", "world", 0, "%v\n%s", err, c07Text(c))
		return out
	}
	defer w.close()
	target := "pull"
	if c.Mode == "push" {
		target = "http://sink.example.org/hook"
	}
	wantHeaders := expectedStored(c.Headers)
	if c.Auth != "" {
		out.Labels["auth-"+c.Auth] = true
	}
	if c.Auth == "forward-copy" {
		// documented: the listed answer headers of the auth service are set on the message
		wantHeaders["X-User"], wantHeaders["X-Org"] = "u-200", "o1,o2"
	}
	tooLarge := len(c.Body) > c.MaxBody
	// ---- acceptance
	var accepted bool
	switch c.Via {
	case "ingress":
		req := FReq{Method: "POST", Path: "/in", Host: "h.example.com", Remote: "203.0.113.7:1", Headers: c07Signed(c, w.clk.Now(), c.Body, 0), Body: c.Body, Chunked: c.Chunked}
		if c.Chunked {
			out.Labels["undeclared-length"] = true
		}
		rec := serve(w.ingress, req)
		switch {
		case tooLarge:
			out.Labels["over-max-body"] = true
			if rec.Code != 413 {
				out.Failure = ffail("C07,C12", "oversize-status", 0, "body of %d bytes with max_body %d answered %d, expected 413", len(c.Body), c.MaxBody, rec.Code)
				return out
			}
		case rec.Code == 202:
			accepted = true
		case rec.Code == 503 && c.Auth != "":
			out.Skipped = "the forward-auth callout did not answer in time (machine load)"
			out.Labels["inconclusive-environment"] = true
			return out
		case rec.Code == 413:
			// header bytes above the default max_headers (64 KiB): not reachable with this pool
			out.Failure = ffail("C07,C12", "unexpected-413", 0, "body of %d bytes (max_body %d) answered 413", len(c.Body), c.MaxBody)
			return out
		default:
			out.Failure = ffail("C07", "not-accepted", 0, "valid request answered %d", rec.Code)
			return out
		}
	case "publish":
		// publish takes a header map: collapse the field list the way a client would
		hm := map[string]string{}
		for k, v := range wantHeaders {
			hm[k] = v
		}
		body, _ := json.Marshal(map[string]any{"items": []map[string]any{{"id": "pub-1", "route": "/in", "target": target,
			"payload_b64": base64.StdEncoding.EncodeToString(c.Body), "headers": hm}}})
		req := FReq{Method: "POST", Path: "/messages/publish", Host: "a.example.com", Remote: "127.0.0.1:1", Body: body,
			Headers: [][2]string{{"Content-Type", "application/json"}, {"X-Hookaido-Audit-Reason", "verif"}}}
		rec := serve(w.adminH, req)
		switch {
		case rec.Code == 200:
			accepted = true
			if tooLarge {
				out.Failure = ffail("C07,C15", "oversize-published", 0, "published payload of %d bytes with max_body %d", len(c.Body), c.MaxBody)
				return out
			}
		default:
			if !tooLarge {
				// header values the publish validator refuses (it validates HTTP header syntax) are not fidelity failures
				out.Labels["publish-refused"] = true
				out.Skipped = fmt.Sprintf("publish refused: %d %s", rec.Code, strings.TrimSpace(rec.Body.String()))
				return out
			}
			out.Labels["over-max-body"] = true
		}
	}
	msgs, err := w.dump()
	if err != nil {
		out.Failure = ffail("HARNESS", "dump", 0, "%v", err)
		return out
	}
	if !accepted {
		if len(msgs) != 0 {
			out.Failure = ffail("C07,C12", "refused-but-stored", 0, "refused request left %d messages", len(msgs))
		}
		out.NonTriv = true // size within +-1 of max_body by construction of this branch
		return out
	}
	if len(msgs) != 1 {
		out.Failure = ffail("C07", "stored-count", 0, "accepted request stored %d messages", len(msgs))
		return out
	}
	bodies := map[string][]byte{msgs[0].ID: c.Body}
	check := func(where string, id string, payload []byte, headers map[string]string) bool {
		want, known := bodies[id]
		if !known {
			// push deliveries carry no id: any accepted body is fine
			for _, b := range bodies {
				if string(b) == string(payload) {
					want, known = b, true
				}
			}
			if !known {
				out.Failure = ffail("C07", "payload-differs", 0, "%s: payload %d bytes %x... is not the body of any accepted request", where, len(payload), head(payload))
				return false
			}
		}
		if string(payload) != string(want) {
			out.Failure = ffail("C07", "payload-differs", 0, "%s (message %s): payload %d bytes %x..., accepted %d bytes %x...", where, id, len(payload), head(payload), len(want), head(want))
			return false
		}
		hh := map[string]string{}
		for k, v := range headers {
			hh[k] = v
		}
		for k := range hh {
			if sensitive[strings.ToLower(k)] {
				out.Failure = ffail("C07", "sensitive-header-kept", 0, "%s: header %s was persisted / passed on", where, k)
				return false
			}
		}
		if c.Auth == "hmac" {
			// the sender's three authentication headers travel with the message like any other header
			ts, nonce, sig := hh["X-Timestamp"], hh["X-Nonce"], hh["X-Signature"]
			if ts == "" || !strings.HasPrefix(nonce, "c07-") || sig != signHex("c07-secret", ts, "POST", "/in", payload) {
				out.Failure = ffail("C07", "headers-differ", 0, "%s: the request's HMAC headers were not kept as sent: X-Timestamp=%q X-Nonce=%q X-Signature=%q (all headers: %s)", where, ts, nonce, sig, sortedKV(hh))
				return false
			}
			delete(hh, "X-Timestamp")
			delete(hh, "X-Nonce")
			delete(hh, "X-Signature")
		}
		if !eqStrMap(hh, wantHeaders) {
			out.Failure = ffail("C07", "headers-differ", 0, "%s: headers %s, expected %s (sent %v)", where, sortedKV(hh), sortedKV(wantHeaders), c.Headers)
			return false
		}
		return true
	}
	if !check("stored", msgs[0].ID, msgs[0].Payload, msgs[0].Headers) {
		return out
	}
	// further messages (same header list, other bodies) so that one dequeue returns a batch
	for k, b := range c.More {
		before, _ := w.dump()
		rec := serve(w.ingress, FReq{Method: "POST", Path: "/in", Host: "h.example.com", Remote: "203.0.113.7:1", Headers: c07Signed(c, w.clk.Now(), b, k+1), Body: b, Chunked: c.Chunked})
		if rec.Code != 202 {
			out.Failure = ffail("HARNESS", "more", k, "additional request answered %d", rec.Code)
			return out
		}
		after, _ := w.dump()
		nw := newMsgs(before, after)
		if len(nw) != 1 {
			out.Failure = ffail("C07", "stored-count", k, "additional request stored %d messages", len(nw))
			return out
		}
		bodies[nw[0].ID] = b
		w.clk.add(time.Millisecond)
	}
	if len(c.More) > 0 {
		out.Labels["batch-of-messages"] = true
	}
	// operator read calls between acceptance and delivery must not disturb anything
	for _, o := range c.Observe {
		path, query := o, ""
		if i := strings.IndexByte(o, '?'); i >= 0 {
			path, query = o[:i], o[i+1:]
		}
		_ = serve(w.adminH, FReq{Method: "GET", Path: path, Query: query, Host: "a.example.com", Remote: "127.0.0.1:1"})
		out.Labels["observed"] = true
	}
	if stored, err := w.dump(); err == nil {
		for _, m := range stored {
			if !check("stored after operator reads", m.ID, m.Payload, m.Headers) {
				return out
			}
		}
	}
	if c.Detour != "" && c.Mode != "push" {
		var ids []string
		if stored, err := w.dump(); err == nil {
			for _, m := range stored {
				ids = append(ids, m.ID)
			}
		}
		body, _ := json.Marshal(map[string]any{"ids": ids})
		hdr := [][2]string{{"Content-Type", "application/json"}, {"X-Hookaido-Audit-Reason", "verif"}}
		second := "/messages/resume"
		if c.Detour == "cancel-requeue" {
			second = "/messages/requeue"
		}
		for _, path := range []string{"/messages/cancel", second} {
			rec := serve(w.adminH, FReq{Method: "POST", Path: path, Host: "a.example.com", Remote: "127.0.0.1:1", Headers: hdr, Body: body})
			if rec.Code != 200 {
				out.Failure = ffail("HARNESS", "detour", 0, "%s answered %d %s", path, rec.Code, rec.Body.String())
				return out
			}
		}
		out.Labels["operator-"+c.Detour] = true
		if stored, err := w.dump(); err == nil {
			for _, m := range stored {
				if !check("stored after the operator canceled and revived it", m.ID, m.Payload, m.Headers) {
					return out
				}
			}
		}
	}
	total := len(bodies)
	// ---- delivery (with redeliveries in between)
	switch c.Mode {
	case "pull":
		for round := 0; round <= c.Redeliver; round++ {
			req := FReq{Method: "POST", Path: "/pull/in/dequeue", Host: "p", Remote: "127.0.0.1:1", Body: []byte(fmt.Sprintf(`{"batch":%d,"lease_ttl":"30s"}`, total)),
				Headers: [][2]string{{"Authorization", "Bearer pulltoken"}, {"Content-Type", "application/json"}}}
			rec := serve(w.pull, req)
			var resp struct {
				Items []struct {
					ID         string            `json:"id"`
					LeaseID    string            `json:"lease_id"`
					PayloadB64 string            `json:"payload_b64"`
					Headers    map[string]string `json:"headers"`
				} `json:"items"`
			}
			if rec.Code != 200 || json.Unmarshal(rec.Body.Bytes(), &resp) != nil || len(resp.Items) != total {
				out.Failure = ffail("C07,C05", "pull-dequeue", round, "dequeue round %d answered %d with %d items, %d expected: %s", round, rec.Code, len(resp.Items), total, rec.Body.String())
				return out
			}
			for _, it := range resp.Items {
				payload, err := base64.StdEncoding.DecodeString(it.PayloadB64)
				if err != nil {
					out.Failure = ffail("C07", "payload-b64", round, "payload_b64 is not standard base64: %v", err)
					return out
				}
				if !check(fmt.Sprintf("pull dequeue #%d", round+1), it.ID, payload, it.Headers) {
					return out
				}
			}
			if round < c.Redeliver {
				for _, it := range resp.Items {
					nb := fmt.Sprintf(`{"lease_id":%q,"delay":"0s"}`, it.LeaseID)
					nreq := FReq{Method: "POST", Path: "/pull/in/nack", Host: "p", Remote: "127.0.0.1:1", Body: []byte(nb),
						Headers: [][2]string{{"Authorization", "Bearer pulltoken"}, {"Content-Type", "application/json"}}}
					if r2 := serve(w.pull, nreq); r2.Code/100 != 2 {
						out.Failure = ffail("HARNESS", "nack", round, "nack answered %d %s", r2.Code, r2.Body.String())
						return out
					}
				}
			}
		}
	case "worker":
		ph := pullapi.NewServer(w.store)
		ph.ResolveRoute = w.state.resolvePull
		wk := workerapi.NewServer(ph)
		wk.ResolveRoute = w.state.resolvePull
		wk.Authorize = w.state.authorizeWorker
		wk.PlanRequest = w.state.planWorker // as startServers wires it
		ctx := metadata.NewIncomingContext(context.Background(), metadata.Pairs("authorization", "Bearer pulltoken"))
		for round := 0; round <= c.Redeliver; round++ {
			resp, err := wk.Dequeue(ctx, &workerapipb.DequeueRequest{Endpoint: "/pull/in", Batch: uint32(total)})
			if err != nil || len(resp.GetItems()) != total {
				out.Failure = ffail("C07,C05", "worker-dequeue", round, "worker dequeue round %d: %v (%d items, %d expected)", round, err, len(resp.GetItems()), total)
				return out
			}
			// judge the whole response after it is complete (items of one response must not share buffers)
			for _, it := range resp.GetItems() {
				if !check(fmt.Sprintf("worker dequeue #%d", round+1), it.GetId(), it.GetPayload(), it.GetHeaders()) {
					return out
				}
			}
			if round < c.Redeliver {
				for _, it := range resp.GetItems() {
					if _, err := wk.Nack(ctx, &workerapipb.NackRequest{Endpoint: "/pull/in", LeaseId: it.GetLeaseId()}); err != nil {
						out.Failure = ffail("HARNESS", "nack", round, "worker nack: %v", err)
						return out
					}
				}
			}
		}
	case "push":
		rt := &recordingRT{notify: make(chan struct{}, 64)}
		for i := 0; i < c.Redeliver; i++ {
			rt.script = append(rt.script, 503)
		}
		rt.script = append(rt.script, 200)
		policy := dispatcher.EgressPolicy{HTTPSOnly: w.compiled.Defaults.EgressPolicy.HTTPSOnly, Redirects: w.compiled.Defaults.EgressPolicy.Redirects,
			DNSRebindProtection: w.compiled.Defaults.EgressPolicy.DNSRebindProtection}
		push := dispatcher.PushDispatcher{Store: w.store, Deliverer: dispatcher.NewHTTPDeliverer(&http.Client{Transport: rt}, policy),
			Routes: buildDispatchRoutes(w.compiled), Logger: discardLogger, MaxWait: 50 * time.Millisecond}
		// the dispatcher polls the store with the store clock; let the fake clock follow real time
		stopClock := make(chan struct{})
		go func() {
			tk := time.NewTicker(time.Millisecond)
			defer tk.Stop()
			for {
				select {
				case <-stopClock:
					return
				case <-tk.C:
					w.clk.add(5 * time.Millisecond)
				}
			}
		}()
		push.Start()
		deadline := time.After(20 * time.Second)
		want := c.Redeliver + total
	waitLoop:
		for rt.count() < want {
			select {
			case <-rt.notify:
			case <-time.After(5 * time.Millisecond):
			case <-deadline:
				break waitLoop
			}
		}
		push.Drain(5 * time.Second)
		close(stopClock)
		if rt.count() < want {
			// a time budget overrun is inconclusive for this case, never a verdict
			out.Skipped = fmt.Sprintf("push budget: dispatcher sent %d of %d expected requests within 20s", rt.count(), want)
			out.Labels["inconclusive-time-budget"] = true
			return out
		}
		rt.mu.Lock()
		reqs := append([]recordedReq(nil), rt.reqs...)
		rt.mu.Unlock()
		for i, r := range reqs {
			hm := map[string]string{}
			for k, v := range r.Header {
				hm[k] = strings.Join(v, ",")
			}
			if !check(fmt.Sprintf("push delivery #%d", i+1), "", r.Body, hm) {
				return out
			}
		}
	}
	out.Labels["via-"+c.Via] = true
	out.Labels["mode-"+c.Mode] = true
	out.Labels["backend-"+c.Backend] = true
	nontrivBody := len(c.Body) >= c.MaxBody-1
	for _, b := range c.Body {
		if b >= 0x80 || b == 0 {
			nontrivBody = true
		}
	}
	repeated := len(wantHeaders) < len(c.Headers)
	if (nontrivBody || repeated) && c.Redeliver > 0 {
		out.NonTriv = true
	}
	if repeated {
		out.Labels["repeated-or-sensitive-header"] = true
	}
	if c.Redeliver > 0 {
		out.Labels["redelivered"] = true
	}
	return out
}

func head(b []byte) []byte {
	if len(b) > 16 {
		return b[:16]
	}
	return b
}

var _ = sort.Strings
var _ queue.State

func TestProp_C07_Fidelity(t *testing.T) {
	frontProp(t, "C07", "TestProp_C07_Fidelity", genC07Case(), runC07)
}
