//go:build verif

package app

import (
	"crypto/hmac"
	"crypto/sha256"
	"encoding/base64"
	"encoding/hex"
	"encoding/json"
	"fmt"
	"math/big"
	"net/http"
	"net/http/httptest"
	"os"
	"path"
	"path/filepath"
	"strconv"
	"strings"
	"sync"
	"testing"
	"time"

	"github.com/nuetzliches/hookaido/internal/verifkit"
	"pgregory.net/rapid"
)

// ---------------------------------------------------------------------------------------
// C08 (ingress authentication sound and fail-closed) and the inbound half of C17
// (verification accepts exactly the secrets valid at the signed timestamp).
// ---------------------------------------------------------------------------------------

type SecretVer struct {
	ID     string `json:"id"`
	Value  string `json:"value"`
	FromS  int    `json:"from_s"`            // valid_from = T0 + FromS seconds
	UntilS int    `json:"until_s,omitempty"` // 0: open ended; else T0 + UntilS
}

type AuthRoute struct {
	Kind     string      `json:"kind"` // none | basic | hmac | forward | basic+hmac
	Users    [][2]string `json:"users,omitempty"`
	Secrets  []string    `json:"secrets,omitempty"` // direct raw secrets
	Refs     []SecretVer `json:"refs,omitempty"`    // referenced secret versions
	SigH     string      `json:"sig_h,omitempty"`
	TsH      string      `json:"ts_h,omitempty"`
	NonceH   string      `json:"nonce_h,omitempty"`
	TolS     int         `json:"tol_s,omitempty"`   // 0: default 5m
	Block    bool        `json:"block,omitempty"`   // print hmac in block form
	Forward  string      `json:"forward,omitempty"` // behaviour of the auth service
	CopyHdrs []string    `json:"copy_hdrs,omitempty"`
	MaxBody  int         `json:"max_body,omitempty"`
	// Targets > 0: a push route with that many deliver targets instead of a pull route
	Targets int `json:"targets,omitempty"`
	// Via: how secret values reach the config ("" raw: | env | file; files end in a newline, as files do);
	// TZMin: validity timestamps are written with this UTC offset in minutes (same instants)
	Via   string `json:"via,omitempty"`
	TZMin int    `json:"tz_min,omitempty"`
}

var (
	c08RefSeq  int
	c08Cleanup []func()
)

// c08Release removes the variables and files the last generated config referred to.
func c08Release() {
	for _, f := range c08Cleanup {
		f()
	}
	c08Cleanup = nil
}

// c08SecretRef renders a reference to a secret value and provides the value behind it.
func c08SecretRef(via, val string) string {
	switch via {
	case "env":
		c08RefSeq++
		name := fmt.Sprintf("VERIF_C08_%d_%d", os.Getpid(), c08RefSeq)
		_ = os.Setenv(name, val)
		c08Cleanup = append(c08Cleanup, func() { _ = os.Unsetenv(name) })
		return "env:" + name
	case "file":
		c08RefSeq++
		path := filepath.Join(fScratch(), fmt.Sprintf("c08sec-%d-%d", os.Getpid(), c08RefSeq))
		_ = os.MkdirAll(filepath.Dir(path), 0o755)
		_ = os.WriteFile(path, []byte(val+"\n"), 0o600)
		c08Cleanup = append(c08Cleanup, func() { _ = os.Remove(path) })
		return "file:" + path
	}
	return "raw:" + val
}

func rfc3339TZ(offS, tzMin int) string {
	t := fT0.Add(time.Duration(offS) * time.Second)
	if tzMin == 0 {
		return t.Format(time.RFC3339)
	}
	return t.In(time.FixedZone("", tzMin*60)).Format(time.RFC3339)
}

type AuthReq struct {
	Route   int      `json:"route"`
	NowS    int      `json:"now_s"` // clock = T0 + NowS seconds (+NowNs)
	NowNs   int      `json:"now_ns,omitempty"`
	TsOffS  int      `json:"ts_off_s"` // signed timestamp = now + TsOffS
	Secret  int      `json:"secret"`   // index into candidate secrets of the route (see candidates)
	Muts    []string `json:"muts,omitempty"`
	Body    []byte   `json:"body,omitempty"`
	Suffix  string   `json:"suffix,omitempty"` // appended to the route path in the request target
	User    int      `json:"user"`
	UserMut string   `json:"user_mut,omitempty"`
	PassMut string   `json:"pass_mut,omitempty"`
}

type C08Case struct {
	Routes []AuthRoute `json:"routes"`
	Reqs   []AuthReq   `json:"reqs"`
}

var (
	fwdOnce sync.Once
	fwdURL  string
	fwdDead string
)

// forward-auth test service: behaviour is selected by the URL path.
func fwdServer() (string, string) {
	fwdOnce.Do(func() {
		srv := httptest.NewServer(http.HandlerFunc(func(w http.ResponseWriter, r *http.Request) {
			b := strings.TrimPrefix(r.URL.Path, "/b/")
			w.Header().Add("X-User", "u-"+b)
			w.Header().Add("X-Org", "o1")
			w.Header().Add("X-Org", "o2")
			switch b {
			case "hang":
				select {
				case <-r.Context().Done():
				case <-time.After(2 * time.Second):
				}
				return
			case "reset":
				if hj, ok := w.(http.Hijacker); ok {
					if c, _, err := hj.Hijack(); err == nil {
						_ = c.Close()
						return
					}
				}
				w.WriteHeader(500)
			default:
				code, err := strconv.Atoi(b)
				if err != nil {
					code = 500
				}
				if code >= 300 && code < 400 {
					w.Header().Set("Location", "/b/200")
				}
				w.WriteHeader(code)
			}
		}))
		fwdURL = srv.URL
		// a port nothing listens on. Not "a port that was open a moment ago": with many test processes
		// on the machine such a port is soon somebody else's listener. Port 1 is below the ephemeral
		// range and unused in this environment.
		fwdDead = "http://127.0.0.1:1"
	})
	return fwdURL, fwdDead
}

func rfc3339(offS int) string { return fT0.Add(time.Duration(offS) * time.Second).Format(time.RFC3339) }

func authText(routes []AuthRoute) string {
	live, dead := fwdServer()
	var b strings.Builder
	b.WriteString("ingress { listen 127.0.0.1:0 }\n")
	b.WriteString("pull_api {\n  listen localhost:0\n  auth token raw:pulltoken\n}\n")
	b.WriteString("admin_api { listen 0.0.0.0:0 }\n")
	var sec strings.Builder
	for i, r := range routes {
		for _, v := range r.Refs {
			fmt.Fprintf(&sec, "  secret %s {\n    value %s\n    valid_from %s\n", q(fmt.Sprintf("R%d_%s", i, v.ID)), q(c08SecretRef(r.Via, v.Value)), q(rfc3339TZ(v.FromS, r.TZMin)))
			if v.UntilS != 0 {
				fmt.Fprintf(&sec, "    valid_until %s\n", q(rfc3339TZ(v.UntilS, r.TZMin)))
			}
			sec.WriteString("  }\n")
		}
	}
	if sec.Len() > 0 {
		b.WriteString("secrets {\n" + sec.String() + "}\n")
	}
	for i, r := range routes {
		fmt.Fprintf(&b, "/r%d {\n", i)
		if r.MaxBody > 0 {
			// route-level limits are not part of the route grammar; use defaults via a global below
		}
		if strings.Contains(r.Kind, "basic") {
			for _, u := range r.Users {
				fmt.Fprintf(&b, "  auth basic %s %s\n", q(u[0]), q(u[1]))
			}
		}
		if strings.Contains(r.Kind, "hmac") {
			opts := r.SigH != "" || r.TsH != "" || r.NonceH != "" || r.TolS != 0 || r.Block || len(r.Secrets)+len(r.Refs) > 1
			if !opts && len(r.Secrets) == 1 {
				fmt.Fprintf(&b, "  auth hmac %s\n", q(c08SecretRef(r.Via, r.Secrets[0])))
			} else if !opts && len(r.Refs) == 1 {
				fmt.Fprintf(&b, "  auth hmac secret_ref %s\n", q(fmt.Sprintf("R%d_%s", i, r.Refs[0].ID)))
			} else {
				b.WriteString("  auth hmac {\n")
				for _, s := range r.Secrets {
					fmt.Fprintf(&b, "    secret %s\n", q(c08SecretRef(r.Via, s)))
				}
				for _, v := range r.Refs {
					fmt.Fprintf(&b, "    secret_ref %s\n", q(fmt.Sprintf("R%d_%s", i, v.ID)))
				}
				if r.SigH != "" {
					fmt.Fprintf(&b, "    signature_header %s\n", q(r.SigH))
				}
				if r.TsH != "" {
					fmt.Fprintf(&b, "    timestamp_header %s\n", q(r.TsH))
				}
				if r.NonceH != "" {
					fmt.Fprintf(&b, "    nonce_header %s\n", q(r.NonceH))
				}
				if r.TolS != 0 {
					fmt.Fprintf(&b, "    tolerance %ds\n", r.TolS)
				}
				b.WriteString("  }\n")
			}
		}
		if r.Kind == "forward" {
			base := live + "/b/" + r.Forward
			if r.Forward == "closed" {
				base = dead + "/b/closed"
			}
			fmt.Fprintf(&b, "  auth forward %s {\n    timeout 150ms\n", q(base))
			for _, h := range r.CopyHdrs {
				fmt.Fprintf(&b, "    copy_headers %s\n", q(h))
			}
			b.WriteString("  }\n")
		}
		if r.Targets > 0 {
			for k := 0; k < r.Targets; k++ {
				fmt.Fprintf(&b, "  deliver %s {\n  }\n", q(fmt.Sprintf("https://t%d-%d.example.org/h", i, k)))
			}
			b.WriteString("}\n")
		} else {
			fmt.Fprintf(&b, "  pull { path /pull/r%d }\n}\n", i)
		}
	}
	return b.String()
}

type candSecret struct {
	value  string
	ver    *SecretVer // nil: direct secret (no window)
	member bool       // configured on this route
}

// candidates lists the secrets a request of this route may be signed with: the route's own
// direct secrets and versions first, then foreign ones (another route's, a made-up one).
func candidates(routes []AuthRoute, ri int) []candSecret {
	var out []candSecret
	r := routes[ri]
	for _, s := range r.Secrets {
		out = append(out, candSecret{value: s, member: true})
	}
	for k := range r.Refs {
		out = append(out, candSecret{value: r.Refs[k].Value, ver: &r.Refs[k], member: true})
	}
	for j, o := range routes {
		if j == ri {
			continue
		}
		for _, s := range o.Secrets {
			out = append(out, candSecret{value: s})
		}
		for k := range o.Refs {
			out = append(out, candSecret{value: o.Refs[k].Value})
		}
	}
	out = append(out, candSecret{value: "not-a-configured-secret"})
	return out
}

func (r AuthRoute) hdrNames() (string, string, string) {
	s, t, n := r.SigH, r.TsH, r.NonceH
	if s == "" {
		s = "X-Signature"
	}
	if t == "" {
		t = "X-Timestamp"
	}
	if n == "" {
		n = "X-Nonce"
	}
	return s, t, n
}

func (r AuthRoute) tol() time.Duration {
	if r.TolS == 0 {
		return 5 * time.Minute
	}
	return time.Duration(r.TolS) * time.Second
}

func signHex(secret, ts, method, p string, body []byte) string {
	h := sha256.Sum256(body)
	m := hmac.New(sha256.New, []byte(secret))
	m.Write([]byte(ts + "\n" + method + "\n" + p + "\n" + hex.EncodeToString(h[:])))
	return hex.EncodeToString(m.Sum(nil))
}

func verValidAt(v SecretVer, t time.Time) bool {
	from := fT0.Add(time.Duration(v.FromS) * time.Second)
	if t.Before(from) {
		return false
	}
	if v.UntilS == 0 {
		return true
	}
	return t.Before(fT0.Add(time.Duration(v.UntilS) * time.Second))
}

// buildAuthReq constructs the request of one step: a valid one for the route, then mutated.
func buildAuthReq(routes []AuthRoute, a AuthReq, now time.Time, nonce string) FReq {
	r := routes[a.Route]
	req := FReq{Method: "POST", Path: fmt.Sprintf("/r%d", a.Route) + a.Suffix, Host: "hooks.example.com", Remote: "203.0.113.7:5555", Body: append([]byte(nil), a.Body...)}
	signPath := path.Clean(req.Path)
	if strings.Contains(r.Kind, "basic") && len(r.Users) > 0 {
		u := r.Users[a.User%len(r.Users)]
		user, pass := u[0], u[1]
		switch a.PassMut {
		case "wrong-same-len":
			pass = strings.Repeat("x", len(pass))
		case "prefix":
			if len(pass) > 0 {
				pass = pass[:len(pass)-1]
			}
		case "longer":
			pass += "x"
		case "other-user":
			pass = r.Users[(a.User+1)%len(r.Users)][1]
		case "empty":
			pass = ""
		case "case":
			pass = strings.ToUpper(pass)
		case "unknown-user":
			user += "x"
		}
		switch a.UserMut {
		case "unknown":
			user = "ghost"
		case "empty":
			user = ""
		case "case":
			user = strings.ToUpper(user)
		case "prefix":
			user = user[:len(user)-1]
		case "colon":
			user = user + ":"
		}
		val := "Basic " + base64.StdEncoding.EncodeToString([]byte(user+":"+pass))
		switch a.PassMut {
		case "no-header":
			val = ""
		case "not-base64":
			val = "Basic !!!" + val[6:]
		case "lower-scheme":
			val = "basic " + val[6:]
		case "bearer":
			val = "Bearer " + val[6:]
		}
		if val != "" {
			req.Headers = append(req.Headers, [2]string{"Authorization", val})
		}
	}
	if strings.Contains(r.Kind, "hmac") {
		cands := candidates(routes, a.Route)
		c := cands[a.Secret%len(cands)]
		sh, th, nh := r.hdrNames()
		ts := strconv.FormatInt(now.Add(time.Duration(a.TsOffS)*time.Second).Unix(), 10)
		sig := signHex(c.value, ts, "POST", signPath, req.Body)
		hs := map[string]string{sh: sig, th: ts, nh: nonce}
		for _, m := range a.Muts {
			switch m {
			case "sig-flipbit":
				b := []byte(hs[sh])
				if len(b) > 0 {
					if b[len(b)-1] == '0' {
						b[len(b)-1] = '1'
					} else {
						b[len(b)-1] = '0'
					}
				}
				hs[sh] = string(b)
			case "sig-upper":
				hs[sh] = strings.ToUpper(hs[sh])
			case "sig-trunc":
				if len(hs[sh]) > 2 {
					hs[sh] = hs[sh][:len(hs[sh])-2]
				}
			case "sig-pad":
				hs[sh] += "00"
			case "sig-del":
				delete(hs, sh)
			case "sig-empty":
				hs[sh] = "  "
			case "sig-prefix":
				hs[sh] = "sha256=" + hs[sh]
			case "ts-del":
				delete(hs, th)
			case "ts-plus":
				hs[th] = "+" + hs[th]
			case "ts-plus-signed":
				hs[th] = "+" + ts
				hs[sh] = signHex(c.value, "+"+ts, "POST", signPath, req.Body)
			case "ts-zero-signed":
				hs[th] = "0" + ts
				hs[sh] = signHex(c.value, "0"+ts, "POST", signPath, req.Body)
			case "ts-extreme-signed":
				// a correctly signed timestamp absurdly far from now (where second/nanosecond arithmetic wraps)
				offs := []int64{-(1 << 55), 1 << 55, -(1 << 62), 1 << 62, -9223372036, -9223372037, 9223372036, 9223372037, -(1 << 33), 1 << 33, -(1 << 31), 1 << 31}
				x := now.Unix() + offs[(a.TsOffS+a.NowS+len(a.Body)+1000)%len(offs)]
				if (a.TsOffS+a.NowS)%7 == 0 {
					x = []int64{-1 << 63, 1<<63 - 1, 0, -1}[(a.User+len(a.Body))%4]
				}
				xs := strconv.FormatInt(x, 10)
				hs[th] = xs
				hs[sh] = signHex(c.value, xs, "POST", signPath, req.Body)
			case "ts-hex":
				hs[th] = "0x" + strconv.FormatInt(now.Unix(), 16)
			case "ts-float":
				hs[th] = ts + ".0"
			case "ts-shift":
				hs[th] = strconv.FormatInt(now.Add(time.Duration(a.TsOffS)*time.Second).Unix()+1, 10)
			case "nonce-del":
				delete(hs, nh)
			case "nonce-blank":
				hs[nh] = " "
			case "body-flip":
				if len(req.Body) > 0 {
					req.Body[0] ^= 1
				} else {
					req.Body = []byte{0}
				}
			case "body-append":
				req.Body = append(req.Body, ' ')
			case "method-get":
				req.Method = "GET"
			case "method-lower":
				req.Method = "post"
			case "path-child":
				req.Path += "/x"
			case "path-raw-signed":
				// the client signed the raw (uncleaned) path
				hs[sh] = signHex(c.value, ts, "POST", req.Path, req.Body)
			case "hdr-lower":
				// header names in lower case are the same headers
			case "default-hdr-names":
				// client uses the default header names although the route configured others
				v1, v2, v3 := hs[sh], hs[th], hs[nh]
				hs = map[string]string{"X-Signature": v1, "X-Timestamp": v2, "X-Nonce": v3}
			}
		}
		lower := false
		for _, m := range a.Muts {
			if m == "hdr-lower" {
				lower = true
			}
		}
		for _, name := range []string{sh, th, nh, "X-Signature", "X-Timestamp", "X-Nonce"} {
			v, ok := hs[name]
			if !ok {
				continue
			}
			delete(hs, name)
			n := name
			if lower {
				n = strings.ToLower(n)
			}
			req.Headers = append(req.Headers, [2]string{n, v})
		}
	}
	return req
}

// hmacAuthentic is the independent verifier written from the statement of C08.
func hmacAuthentic(routes []AuthRoute, ri int, req FReq, now time.Time) (authentic bool, memberSecret bool, inTol bool) {
	r := routes[ri]
	sh, th, nh := r.hdrNames()
	get := func(name string) string {
		vs := headerValues(req, name)
		if len(vs) == 0 {
			return ""
		}
		return strings.TrimSpace(vs[0])
	}
	sig, tsStr, nonce := get(sh), get(th), get(nh)
	if sig == "" || tsStr == "" || nonce == "" {
		return false, false, false
	}
	// decimal integer, optional sign
	digits := tsStr
	if strings.HasPrefix(digits, "+") || strings.HasPrefix(digits, "-") {
		digits = digits[1:]
	}
	if digits == "" {
		return false, false, false
	}
	for _, ch := range digits {
		if ch < '0' || ch > '9' {
			return false, false, false
		}
	}
	ts, err := strconv.ParseInt(tsStr, 10, 64)
	if err != nil {
		return false, false, false
	}
	t := time.Unix(ts, 0).UTC()
	// age in exact arithmetic (time.Time / Duration saturate or wrap for absurd timestamps)
	ageNs := new(big.Int).Sub(big.NewInt(now.Unix()), big.NewInt(ts))
	ageNs.Mul(ageNs, big.NewInt(1e9)).Add(ageNs, big.NewInt(int64(now.Nanosecond())))
	tolNs := big.NewInt(int64(r.tol()))
	inTol = ageNs.CmpAbs(tolNs) <= 0
	if new(big.Int).Abs(ageNs).Cmp(big.NewInt(1e18)) > 0 {
		t = time.Time{} // far outside every validity window as well
	}
	got, err := hex.DecodeString(sig)
	if err != nil || len(got) == 0 {
		return false, false, inTol
	}
	cleaned := path.Clean(req.Path)
	for _, c := range candidates(routes, ri) {
		if !c.member {
			continue
		}
		if c.ver != nil && !verValidAt(*c.ver, t) {
			continue
		}
		want, _ := hex.DecodeString(signHex(c.value, tsStr, req.Method, cleaned, req.Body))
		if hmac.Equal(got, want) {
			return inTol, true, inTol
		}
	}
	return false, false, inTol
}

func basicAuthentic(r AuthRoute, req FReq) bool {
	vs := headerValues(req, "Authorization")
	if len(vs) == 0 {
		return false
	}
	v := vs[0]
	if len(v) < 6 || !strings.EqualFold(v[:6], "basic ") {
		return false
	}
	raw, err := base64.StdEncoding.DecodeString(v[6:])
	if err != nil {
		return false
	}
	i := strings.IndexByte(string(raw), ':')
	if i < 0 {
		return false
	}
	user, pass := string(raw[:i]), string(raw[i+1:])
	for _, u := range r.Users {
		if u[0] == user && u[1] == pass {
			return true
		}
	}
	return false
}

var (
	c08Muts = []string{"sig-flipbit", "sig-upper", "sig-trunc", "sig-pad", "sig-del", "sig-empty", "sig-prefix", "ts-del", "ts-plus", "ts-plus-signed",
		"ts-zero-signed", "ts-hex", "ts-float", "ts-shift", "ts-extreme-signed", "ts-extreme-signed", "nonce-del", "nonce-blank", "body-flip", "body-append", "method-get", "method-lower",
		"path-child", "path-raw-signed", "hdr-lower", "default-hdr-names"}
	c08PassMuts = []string{"", "", "", "wrong-same-len", "prefix", "longer", "other-user", "empty", "case", "unknown-user", "no-header", "not-base64", "lower-scheme", "bearer"}
	c08Fwd      = []string{"200", "204", "401", "403", "302", "404", "500", "hang", "reset", "closed", "299", "400"}
)

func genAuthRoute(t *rapid.T, i int, kinds []string) AuthRoute {
	r := AuthRoute{Kind: rapid.SampledFrom(kinds).Draw(t, "kind")}
	if strings.Contains(r.Kind, "basic") {
		n := rapid.IntRange(1, 3).Draw(t, "nusers")
		for k := 0; k < n; k++ {
			r.Users = append(r.Users, [2]string{fmt.Sprintf("user%d", k), rapid.SampledFrom([]string{"pw", "secret1", "secret2", "p:w", "Päss", "a b"}).Draw(t, "pw") + fmt.Sprint(k)})
		}
	}
	if strings.Contains(r.Kind, "hmac") {
		nd := rapid.IntRange(0, 2).Draw(t, "ndirect")
		nv := rapid.IntRange(0, 3).Draw(t, "nvers")
		if nd+nv == 0 {
			nd = 1
		}
		for k := 0; k < nd; k++ {
			r.Secrets = append(r.Secrets, fmt.Sprintf("direct-%d-%d", i, k))
		}
		for k := 0; k < nv; k++ {
			v := SecretVer{ID: fmt.Sprintf("v%d", k), Value: fmt.Sprintf("ver-%d-%d", i, k)}
			v.FromS = rapid.SampledFrom([]int{-3600, -100, -10, 0, 10, 100}).Draw(t, "from")
			if rapid.IntRange(0, 1).Draw(t, "has_until") == 0 {
				v.UntilS = v.FromS + rapid.SampledFrom([]int{1, 10, 50, 110, 3600}).Draw(t, "len")
				if v.UntilS == 0 {
					v.UntilS = 1
				}
			}
			r.Refs = append(r.Refs, v)
		}
		if rapid.IntRange(0, 3).Draw(t, "custom_hdrs") == 0 {
			r.SigH, r.TsH, r.NonceH = "X-Hub-Sig", "X-Hub-Ts", "X-Hub-Nonce"
		}
		r.TolS = rapid.SampledFrom([]int{0, 1, 30, 60}).Draw(t, "tol")
		r.Block = rapid.Bool().Draw(t, "block")
		r.Via = rapid.SampledFrom([]string{"", "", "env", "file"}).Draw(t, "via")
		r.TZMin = rapid.SampledFrom([]int{0, 0, 120, -420, 330}).Draw(t, "tz_min")
		if rapid.IntRange(0, 9).Draw(t, "blank_secret") == 0 {
			// the only secret of the route is whitespace (an empty secret file, a blank variable): the route
			// may refuse to load, but it must not end up open
			r.Secrets, r.Refs = []string{rapid.SampledFrom([]string{" ", "\t"}).Draw(t, "blank_val")}, nil
			if r.Via == "" {
				r.Via = rapid.SampledFrom([]string{"env", "file"}).Draw(t, "blank_via")
			}
		}
	}
	if r.Kind == "forward" {
		r.Forward = rapid.SampledFrom(c08Fwd).Draw(t, "fwd")
		if rapid.Bool().Draw(t, "copy") {
			r.CopyHdrs = []string{"X-User", "x-org"}
		}
	}
	return r
}

func genAuthReq(t *rapid.T, routes []AuthRoute) AuthReq {
	a := AuthReq{Route: rapid.IntRange(0, len(routes)-1).Draw(t, "route")}
	r := routes[a.Route]
	a.NowS = rapid.SampledFrom([]int{0, 0, -100, -10, 9, 10, 11, 99, 100, 101, 3600}).Draw(t, "now_s")
	// the gateway clock is not on a whole second most of the time
	a.NowNs = rapid.SampledFrom([]int{0, 0, 1, 400000000, 999999999}).Draw(t, "now_ns")
	tol := int(r.tol() / time.Second)
	a.TsOffS = rapid.SampledFrom([]int{0, 0, 0, -tol - 1, -tol, -tol + 1, tol - 1, tol, tol + 1, -1, 1}).Draw(t, "ts_off")
	nc := len(candidates(routes, a.Route))
	a.Secret = rapid.IntRange(0, nc-1).Draw(t, "secret")
	if rapid.IntRange(0, 2).Draw(t, "member_secret") > 0 {
		// prefer the route's own secrets
		own := len(r.Secrets) + len(r.Refs)
		if own > 0 {
			a.Secret = rapid.IntRange(0, own-1).Draw(t, "own_secret")
		}
	}
	nm := rapid.SampledFrom([]int{0, 0, 1, 1, 1, 2}).Draw(t, "nmuts")
	for i := 0; i < nm; i++ {
		a.Muts = append(a.Muts, rapid.SampledFrom(c08Muts).Draw(t, "mut"))
	}
	a.Body = rapid.SampledFrom([][]byte{nil, []byte("{}"), {0, 1, 2, 0xff}, []byte("héllo"), []byte(strings.Repeat("a", 300))}).Draw(t, "body")
	a.Suffix = rapid.SampledFrom([]string{"", "", "", "/", "/sub", "/../" + fmt.Sprintf("r%d", a.Route), "/./"}).Draw(t, "suffix")
	a.User = rapid.IntRange(0, 2).Draw(t, "user")
	a.PassMut = rapid.SampledFrom(c08PassMuts).Draw(t, "pass_mut")
	a.UserMut = rapid.SampledFrom([]string{"", "", "", "", "unknown", "empty", "case", "prefix", "colon"}).Draw(t, "user_mut")
	return a
}

func genC08Case(kinds []string) *rapid.Generator[C08Case] {
	return rapid.Custom(func(t *rapid.T) C08Case {
		var c C08Case
		n := rapid.IntRange(1, 3).Draw(t, "nroutes")
		for i := 0; i < n; i++ {
			c.Routes = append(c.Routes, genAuthRoute(t, i, kinds))
		}
		routes := c.Routes
		g := rapid.Custom(func(t *rapid.T) AuthReq { return genAuthReq(t, routes) })
		c.Reqs = rapid.SliceOfN(g, 1, 10).Draw(t, "reqs")
		return c
	})
}

// runAuth executes a C08 case. iff=true additionally demands acceptance of every authentic,
// in-tolerance, fresh-nonce request (C17 inbound half: rotation never rejects a valid secret).
func runAuth(c C08Case, prop string, iff bool) *fOutcome {
	out := newFOutcome()
	defer c08Release()
	w, err := newFrontWorld(authText(c.Routes), worldOpts{})
	if err != nil {
		out.Skipped = "config rejected: " + err.Error()
		out.Labels["config-rejected"] = true
		return out
	}
	defer w.close()
	lastNow := time.Duration(-1 << 62)
	for i, a := range c.Reqs {
		if a.Route >= len(c.Routes) {
			continue
		}
		r := c.Routes[a.Route]
		nowD := time.Duration(a.NowS)*time.Second + time.Duration(a.NowNs)
		if nowD < lastNow {
			nowD = lastNow // the clock never runs backwards inside a case
		}
		lastNow = nowD
		w.clk.set(nowD)
		now := w.clk.Now()
		req := buildAuthReq(c.Routes, a, now, fmt.Sprintf("nonce-%d", i))
		before, _ := w.dump()
		rec := serve(w.ingress, req)
		after, _ := w.dump()
		added := newMsgs(before, after)

		resolves := req.Method == "POST" && specMatchPath(path.Clean(req.Path), fmt.Sprintf("/r%d", a.Route))
		// another route may own the cleaned path (e.g. /r1/../r0): judge against the route that does
		owner := -1
		for j := range c.Routes {
			if specMatchPath(path.Clean(req.Path), fmt.Sprintf("/r%d", j)) {
				owner = j
				break
			}
		}
		if owner != a.Route {
			resolves = false
		}
		authentic := true
		expectFail := 0
		if strings.Contains(r.Kind, "basic") && !basicAuthentic(r, req) {
			authentic = false
			expectFail = 401
		}
		var member, inTol bool
		if strings.Contains(r.Kind, "hmac") {
			var ok bool
			ok, member, inTol = hmacAuthentic(c.Routes, a.Route, req, now)
			if !ok {
				authentic = false
				if expectFail == 0 {
					expectFail = 401
				}
			}
		}
		if r.Kind == "forward" {
			code, err := strconv.Atoi(r.Forward)
			switch {
			case err == nil && code >= 200 && code < 300:
			case err == nil && (code == 401 || code == 403):
				authentic, expectFail = false, code
			default:
				authentic, expectFail = false, 503
			}
		}
		if r.Kind != "none" && len(a.Muts) == 1 {
			out.Labels["single-mutation"] = true
			out.NonTriv = true
		}
		if member && !inTol {
			out.Labels["valid-secret-outside-tolerance"] = true
		}
		if strings.Contains(r.Kind, "hmac") {
			signedAt := now.Add(time.Duration(a.TsOffS) * time.Second).Truncate(time.Second)
			nvalid := 0
			for _, v := range r.Refs {
				if verValidAt(v, signedAt) {
					nvalid++
				}
				for _, edge := range []int{v.FromS, v.UntilS} {
					d := signedAt.Sub(fT0.Add(time.Duration(edge) * time.Second))
					if (edge != 0 || edge == v.FromS) && d >= -time.Second && d <= time.Second {
						out.Labels["near-window-boundary"] = true
						if prop == "C17" {
							out.NonTriv = true
						}
					}
				}
			}
			if nvalid >= 2 {
				out.Labels["multi-valid-versions"] = true
				if prop == "C17" {
					out.NonTriv = true
				}
			}
		}
		out.Labels["kind-"+r.Kind] = true
		mk := func(clause, format string, args ...any) *verifkit.Failure {
			return ffail(prop, clause, i, "route %s now=T0%+ds request %s: "+format, append([]any{routesOne(r), a.NowS, reqStr(req)}, args...)...)
		}
		switch {
		case rec.Code == 202:
			out.Labels["accepted"] = true
			if !resolves {
				// accepted by whatever route owns the path; C10 judges resolution. Only demand authenticity when we know the owner.
				out.Labels["accepted-other-owner"] = true
				continue
			}
			if !authentic {
				out.Failure = mk("accepted-unauthenticated", "answered 202 but the request does not authenticate (member-secret=%v in-tolerance=%v)", member, inTol)
				return out
			}
			if len(added) != 1 {
				out.Failure = mk("accepted-count", "answered 202 and stored %d messages", len(added))
				return out
			}
			if r.Kind == "forward" && len(r.CopyHdrs) > 0 {
				h := added[0].Headers
				if h["X-User"] != "u-"+r.Forward || h["X-Org"] != "o1,o2" {
					out.Failure = ffail("C07,"+prop, "copy-headers", i, "forward-auth copy_headers not stored: %v", h)
					return out
				}
				out.Labels["copy-headers-checked"] = true
			}
		default:
			if len(added) != 0 || dumpKey(before) != dumpKey(after) {
				out.Failure = mk("rejected-but-changed", "answered %d but the queue changed (%d new)", rec.Code, len(added))
				return out
			}
			if resolves && !authentic {
				out.Labels[fmt.Sprintf("rejected-%d", rec.Code)] = true
				if rec.Code == 503 && r.Kind == "forward" && expectFail != 503 {
					// the callout to a live auth service timed out (150 ms budget on a saturated
					// machine): failing closed with 503 is the documented answer to that
					out.Labels["forward-callout-timed-out"] = true
				} else if rec.Code != expectFail {
					out.Failure = mk("reject-status", "answered %d, expected %d", rec.Code, expectFail)
					return out
				}
			}
			if resolves && authentic {
				out.Labels["authentic-rejected"] = true
				if iff && strings.Contains(r.Kind, "hmac") {
					out.Failure = mk("valid-rejected", "authentic, in-tolerance, fresh-nonce request answered %d", rec.Code)
					return out
				}
			}
		}
	}
	return out
}

func routesOne(r AuthRoute) string { return routesStrAny(r) }

func routesStrAny(v any) string {
	b, _ := json.Marshal(v)
	return string(b)
}

func runC08(c C08Case, _ bool) *fOutcome { return runAuth(c, "C08", false) }
func runC17In(c C08Case, _ bool) *fOutcome {
	out := runAuth(c, "C17", true)
	return out
}

func TestProp_C08_Auth(t *testing.T) {
	frontProp(t, "C08", "TestProp_C08_Auth", genC08Case([]string{"hmac", "hmac", "basic", "forward", "none"}), runC08)
}

func TestProp_C17_Inbound(t *testing.T) {
	frontProp(t, "C17", "TestProp_C17_Inbound", genC08Case([]string{"hmac"}), runC17In)
}

var _ = verifkit.Hash
