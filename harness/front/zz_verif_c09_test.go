//go:build verif

package app

import (
	"fmt"
	"io"
	"net/http/httptest"
	"os"
	"strconv"
	"strings"
	"sync"
	"testing"
	"time"

	"github.com/nuetzliches/hookaido/internal/verifkit"
	"pgregory.net/rapid"
)

// ---------------------------------------------------------------------------------------
// C09: replay protection. One HMAC route, a history of sends / replays / clock moves /
// floods of other nonces / reloads / concurrent bursts. Oracle: per nonce at most one 202
// while the first accepted request's timestamp is still inside the tolerance window.
// ---------------------------------------------------------------------------------------

type C09Step struct {
	K       string `json:"k"` // send | sendfail | inflight | replay | resign | badsig | adv | advto | flood | reload | burst
	Ref     int    `json:"ref,omitempty"`
	TsOffS  int    `json:"ts_off_s,omitempty"`
	Ms      int    `json:"ms,omitempty"`
	DeltaNs int    `json:"delta_ns,omitempty"`
	N       int    `json:"n,omitempty"`
	Mode    string `json:"mode,omitempty"`
	G       int    `json:"g,omitempty"`
	// FaultAt (sendfail): the FaultAt-th per-target enqueue of this request fails in the store
	FaultAt int `json:"fault_at,omitempty"`
}

type C09Case struct {
	Route AuthRoute `json:"route"`
	Steps []C09Step `json:"steps"`
}

type sentReq struct {
	req      FReq
	ts       int64
	nonce    string
	accepted bool
}

type nonceFirst struct {
	ts  int64
	tol time.Duration
	at  time.Time
	// keepUntil mirrors what a nonce cache that survives reloads can still know: the entry lives until
	// ts+tol, is prolonged when a reload raises the tolerance while it is still alive, and is forgotten
	// (legitimately, this is the known finding) once any request was processed after that instant.
	keepUntil time.Time
	forgotten bool
	// raisedInFlight: the request was in flight across a reload that raised the tolerance
	raisedInFlight bool
}

func c09Text(r AuthRoute, variant string) string {
	routes := []AuthRoute{r}
	txt := authText(routes)
	// an always-present pull route keeps "has pull routes" stable across reloads (a change of it needs a restart)
	txt += "\n/keep {\n  pull { path /pull/keep }\n}\n"
	switch variant {
	case "touch":
		txt += "\n# touched\n/other {\n  pull { path /pull/other }\n}\n"
	}
	return txt
}

func genC09Case() *rapid.Generator[C09Case] {
	return rapid.Custom(func(t *rapid.T) C09Case {
		var c C09Case
		c.Route = AuthRoute{Kind: "hmac", Secrets: []string{"k-one"}}
		c.Route.TolS = rapid.SampledFrom([]int{1, 2, 30, 60, 0, 0, 300}).Draw(t, "tol")
		if rapid.IntRange(0, 3).Draw(t, "custom") == 0 {
			c.Route.SigH, c.Route.TsH, c.Route.NonceH = "X-Hub-Sig", "X-Hub-Ts", "X-Hub-Nonce"
		}
		if rapid.IntRange(0, 2).Draw(t, "fanout") == 0 {
			c.Route.Targets = 2
		}
		tol := int(c.Route.tol() / time.Second)
		stepGen := rapid.Custom(func(t *rapid.T) C09Step {
			k := rapid.SampledFrom([]string{"send", "send", "send", "sendfail", "inflight", "inflight", "replay", "replay", "replay", "replay", "resign", "badsig", "adv", "adv", "advto", "advto", "flood", "reload", "reload", "reload", "burst"}).Draw(t, "k")
			s := C09Step{K: k}
			switch k {
			case "send", "burst":
				s.TsOffS = rapid.SampledFrom([]int{0, 0, -tol, -tol + 1, tol - 1, tol, -1, 1}).Draw(t, "ts_off")
				if k == "burst" {
					s.G = rapid.SampledFrom([]int{2, 4, 8, 16}).Draw(t, "g")
				}
			case "sendfail":
				s.FaultAt = rapid.IntRange(1, 2).Draw(t, "fault_at")
			case "inflight":
				// a request planned before a reload and authenticated after it: the reload happens
				// while the request body is still being read
				s.TsOffS = rapid.SampledFrom([]int{0, 0, -tol + 1, tol - 1, -1, 1}).Draw(t, "ts_off")
				s.Mode = rapid.SampledFrom([]string{"same", "touch", "tol-down", "tol-up", "tol-up", "tol-up3", "secret", "respell", "respell"}).Draw(t, "mode")
			case "replay":
				s.Ref = rapid.IntRange(0, 5).Draw(t, "ref")
			case "badsig":
				// a junk-signature request that names a used nonce, with a timestamp of its own inside the window
				s.Ref = rapid.IntRange(0, 5).Draw(t, "ref")
				s.TsOffS = rapid.SampledFrom([]int{0, 0, -tol, -tol + 1, tol - 1, -1}).Draw(t, "bad_ts_off")
			case "resign":
				s.Ref = rapid.IntRange(0, 5).Draw(t, "ref")
				s.Mode = rapid.SampledFrom([]string{"same-ts", "now-ts", "off-ts", "off-ts"}).Draw(t, "mode")
				s.TsOffS = rapid.SampledFrom([]int{-tol, -tol + 1, tol - 1, -1}).Draw(t, "re_ts_off")
			case "adv":
				s.Ms = rapid.SampledFrom([]int{1, 500, 1000, 1500, 2000, 30000, 45000, 60000, 90000, 400000}).Draw(t, "ms")
			case "advto":
				s.Ref = rapid.IntRange(0, 5).Draw(t, "ref")
				s.DeltaNs = rapid.SampledFrom([]int{-1000000000, -1, 0, 0, 1, 1000000000}).Draw(t, "delta")
			case "flood":
				s.N = rapid.SampledFrom([]int{1, 10, 100, 100, 1000, 1500}).Draw(t, "n")
				s.Mode = rapid.SampledFrom([]string{"valid", "valid", "badsig"}).Draw(t, "mode")
			case "reload":
				s.Mode = rapid.SampledFrom([]string{"same", "touch", "tol-down", "tol-up", "tol-up", "tol-up3", "secret", "respell", "respell"}).Draw(t, "mode")
			}
			return s
		})
		c.Steps = rapid.SliceOfN(stepGen, 2, 18).Draw(t, "steps")
		return c
	})
}

func runC09(c C09Case, tolerate bool) *fOutcome {
	out := newFOutcome()
	defer c08Release()
	route := c.Route
	routes := []AuthRoute{route}
	w, err := newFrontWorld(c09Text(route, ""), worldOpts{withFile: true, faults: true})
	if err != nil {
		out.Skipped = "config rejected: " + err.Error()
		out.Labels["config-rejected"] = true
		return out
	}
	defer w.close()
	var sent []sentReq
	faulted := false
	first := map[string]nonceFirst{}
	accepted202 := 0
	nonceSeq := 0
	curTol := route.tol()
	variant := ""

	// every request that reaches the nonce cache sweeps expired entries: from then on a cache cannot
	// know those nonces any more (this is what the known finding is about)
	markForgotten := func(except string) {
		for k, f := range first {
			if k != except && !f.forgotten && w.clk.Now().After(f.keepUntil) {
				f.forgotten = true
				first[k] = f
			}
		}
	}
	var midRequest func() // when set, runs once while the next request's body is being read
	issue := func(step int, req FReq, ts int64, nonce string, record bool) (*verifkit.Failure, bool) {
		markForgotten(nonce)
		var rec *httptest.ResponseRecorder
		if midRequest != nil {
			fire, fired := midRequest, false
			midRequest = nil
			hr := req.build()
			hr.Body = io.NopCloser(&triggerReader{data: req.Body, fire: func() {
				if !fired {
					fired = true
					fire()
				}
			}})
			rec = httptest.NewRecorder()
			w.ingress.ServeHTTP(rec, hr)
			if fired {
				out.Labels["reload-inside-request"] = true
			}
		} else {
			rec = serve(w.ingress, req)
		}
		ok := rec.Code == 202
		if record {
			sent = append(sent, sentReq{req: req, ts: ts, nonce: nonce, accepted: ok})
		}
		if !ok {
			return nil, false
		}
		accepted202++
		now := w.clk.Now()
		if f, seen := first[nonce]; seen {
			within := !now.After(time.Unix(f.ts, 0).Add(f.tol))
			if ts == f.ts || within {
				fl := ffail("C09", "nonce-honoured-twice", step, "nonce %q accepted again at %s (first accepted at %s with ts=%d tol=%s; this request ts=%d, tolerance now %s)",
					nonce, now.Format(time.RFC3339Nano), f.at.Format(time.RFC3339Nano), f.ts, f.tol, ts, curTol)
				// narrow signatures of the two defects known from reading the code
				switch {
				case f.raisedInFlight && now.After(f.keepUntil):
					fl.Sig = "nonce-inflight-across-tolerance-raise"
				case out.Labels["reload-between"] && now.Before(time.Unix(f.ts, 0).Add(f.tol)):
					fl.Sig = "nonce-cache-reset-on-reload"
				case now.Equal(time.Unix(f.ts, 0).Add(f.tol)):
					fl.Sig = "nonce-expires-at-inclusive-boundary"
				case f.forgotten && out.Labels["tolerance-raised"] && now.After(time.Unix(f.ts, 0).Add(f.tol)):
					fl.Sig = "nonce-forgotten-before-tolerance-raise"
				}
				return fl, true
			}
			out.Labels["unspecified-reuse-after-window"] = true
			return nil, true
		}
		first[nonce] = nonceFirst{ts: ts, tol: curTol, at: now, keepUntil: time.Unix(ts, 0).Add(curTol)}
		return nil, true
	}
	handle := func(f *verifkit.Failure) bool {
		if f == nil {
			return false
		}
		if f.Sig != "" && tolerate && verifkit.Known(f.Sig) {
			out.Known = append(out.Known, f.Sig)
			return true
		}
		out.Failure = f
		return true
	}

	// doReload writes the next configuration and reloads; the harness failure, if any, is returned
	doReload := func(i int, mode string) *verifkit.Failure {
		nr := route
		switch mode {
		case "touch":
			variant = "touch"
		case "tol-down":
			if curTol > time.Second {
				nr.TolS = int(curTol/time.Second) / 2
				if nr.TolS == 0 {
					nr.TolS = 1
				}
			}
		case "tol-up", "tol-up3":
			nr.TolS = int(curTol/time.Second) * 2
			if mode == "tol-up3" {
				nr.TolS = int(curTol/time.Second) * 3
			}
			out.Labels["tolerance-raised"] = true
		case "secret":
			nr.Secrets = append(append([]string(nil), nr.Secrets...), "k-two")
		case "respell":
			// the same key bytes behind another reference (raw: -> env: -> file: -> raw:, and every env / file
			// reference is a new name): nothing about the secret changed, no nonce may be forgotten
			// (seed C09-14 reset the replay state of routes that "kept none of their old secret references")
			nr.Via = map[string]string{"": "env", "env": "file", "file": ""}[nr.Via]
		}
		route = nr
		routes = []AuthRoute{route}
		if err := os.WriteFile(w.cfgPath, []byte(c09Text(route, variant)), 0o600); err != nil {
			return ffail("HARNESS", "write-config", i, "%v", err)
		}
		if !w.reload() {
			return ffail("HARNESS", "reload-failed", i, "reload of a valid config failed")
		}
		if nt := route.tol(); nt > curTol {
			for k, f := range first {
				if !f.forgotten {
					f.keepUntil = f.keepUntil.Add(nt - curTol)
					first[k] = f
				}
			}
		}
		curTol = route.tol()
		out.Labels["reload-between"] = true
		out.Labels["reload-"+mode] = true
		return nil
	}

	for i, s := range c.Steps {
		now := w.clk.Now()
		switch s.K {
		case "send":
			nonceSeq++
			nonce := fmt.Sprintf("n%d", nonceSeq)
			a := AuthReq{Route: 0, TsOffS: s.TsOffS, Body: []byte(fmt.Sprintf("body-%d", nonceSeq))}
			req := buildAuthReq(routes, a, now, nonce)
			ts := now.Add(time.Duration(s.TsOffS) * time.Second).Unix()
			if f, _ := issue(i, req, ts, nonce, true); handle(f) {
				return out
			}
		case "sendfail":
			// a valid request that the store fails on: answered 503, possibly after some of its
			// per-target enqueues already happened. It may be sent again, but no target may ever
			// hold it twice (the final per-target count below judges that).
			nonceSeq++
			nonce := fmt.Sprintf("x%d", nonceSeq)
			a := AuthReq{Route: 0, Body: []byte(fmt.Sprintf("body-%d", nonceSeq))}
			req := buildAuthReq(routes, a, now, nonce)
			markForgotten(nonce)
			w.faults.arm(map[int]error{s.FaultAt: errInjected})
			rec := serve(w.ingress, req)
			w.faults.arm(nil)
			faulted = true
			out.Labels["store-fault-during-request"] = true
			if rec.Code == 202 {
				accepted202++
				first[nonce] = nonceFirst{ts: now.Unix(), tol: curTol, at: now, keepUntil: now.Add(curTol)}
			}
			sent = append(sent, sentReq{req: req, ts: now.Unix(), nonce: nonce, accepted: rec.Code == 202})
		case "replay":
			if len(sent) == 0 {
				continue
			}
			o := sent[s.Ref%len(sent)]
			if o.accepted {
				out.Labels["replay-of-accepted"] = true
				if out.Labels["reload-between"] || out.Labels["boundary-instant"] || out.Labels["flood>=1000"] || out.Labels["inflight-across-reload"] {
					out.NonTriv = true
				}
			}
			if f, _ := issue(i, o.req, o.ts, o.nonce, false); handle(f) {
				return out
			}
		case "resign":
			if len(sent) == 0 {
				continue
			}
			o := sent[s.Ref%len(sent)]
			off := 0
			ts := o.ts
			switch s.Mode {
			case "now-ts":
				ts = now.Unix()
			case "off-ts":
				// a timestamp of its own, elsewhere inside the window
				off = s.TsOffS
				ts = now.Add(time.Duration(off) * time.Second).Unix()
			default:
				off = int(ts - now.Unix())
			}
			a := AuthReq{Route: 0, TsOffS: off, Body: []byte("other-body")}
			req := buildAuthReq(routes, a, now, o.nonce)
			out.Labels["resigned-same-nonce"] = true
			if f, _ := issue(i, req, ts, o.nonce, false); handle(f) {
				return out
			}
		case "badsig":
			if len(sent) == 0 {
				continue
			}
			o := sent[s.Ref%len(sent)]
			a := AuthReq{Route: 0, TsOffS: s.TsOffS, Muts: []string{"sig-flipbit"}, Body: []byte("x")}
			req := buildAuthReq(routes, a, now, o.nonce)
			markForgotten(o.nonce)
			rec := serve(w.ingress, req)
			if rec.Code == 202 {
				out.Failure = ffail("C08,C09", "bad-signature-accepted", i, "request with a flipped signature accepted")
				return out
			}
		case "adv":
			w.clk.add(time.Duration(s.Ms) * time.Millisecond)
		case "advto":
			if len(sent) == 0 {
				continue
			}
			o := sent[s.Ref%len(sent)]
			f, ok := first[o.nonce]
			tol := curTol
			if ok {
				tol = f.tol
			}
			target := time.Unix(o.ts, 0).Add(tol).Add(time.Duration(s.DeltaNs))
			if target.After(now) {
				w.clk.set(target.Sub(fT0))
				if s.DeltaNs == 0 || s.DeltaNs == -1 || s.DeltaNs == 1 {
					out.Labels["boundary-instant"] = true
				}
			}
		case "flood":
			for k := 0; k < s.N; k++ {
				nonceSeq++
				nonce := fmt.Sprintf("f%d", nonceSeq)
				a := AuthReq{Route: 0}
				if s.Mode == "badsig" {
					a.Muts = []string{"sig-flipbit"}
				}
				req := buildAuthReq(routes, a, now, nonce)
				if f, _ := issue(i, req, now.Unix(), nonce, false); handle(f) {
					return out
				}
			}
			if s.N >= 1000 {
				out.Labels["flood>=1000"] = true
			}
			if s.N >= 9000 {
				out.Labels["flood>=9000"] = true
			}
		case "reload":
			if f := doReload(i, s.Mode); f != nil {
				out.Failure = f
				return out
			}
		case "inflight":
			nonceSeq++
			nonce := fmt.Sprintf("i%d", nonceSeq)
			a := AuthReq{Route: 0, TsOffS: s.TsOffS, Body: []byte(fmt.Sprintf("inflight-%d", nonceSeq))}
			req := buildAuthReq(routes, a, now, nonce)
			ts := now.Add(time.Duration(s.TsOffS) * time.Second).Unix()
			var hf *verifkit.Failure
			mode := s.Mode
			tolBefore := curTol
			midRequest = func() { hf = doReload(i, mode) }
			f, _ := issue(i, req, ts, nonce, true)
			if nf, ok := first[nonce]; ok && curTol > tolBefore {
				nf.raisedInFlight, nf.keepUntil = true, time.Unix(ts, 0).Add(tolBefore)
				first[nonce] = nf
			}
			if hf != nil {
				out.Failure = hf
				return out
			}
			if handle(f) {
				return out
			}
			out.Labels["inflight-across-reload"] = true
		case "burst":
			nonceSeq++
			nonce := fmt.Sprintf("b%d", nonceSeq)
			a := AuthReq{Route: 0, TsOffS: s.TsOffS, Body: []byte("burst")}
			req := buildAuthReq(routes, a, now, nonce)
			ts := now.Add(time.Duration(s.TsOffS) * time.Second).Unix()
			markForgotten(nonce)
			var wg sync.WaitGroup
			codes := make([]int, s.G)
			start := make(chan struct{})
			for g := 0; g < s.G; g++ {
				wg.Add(1)
				go func(g int) {
					defer wg.Done()
					<-start
					codes[g] = serve(w.ingress, req).Code
				}(g)
			}
			close(start)
			wg.Wait()
			n202 := 0
			for _, cde := range codes {
				if cde == 202 {
					n202++
				}
			}
			accepted202 += n202
			sent = append(sent, sentReq{req: req, ts: ts, nonce: nonce, accepted: n202 > 0})
			if n202 > 0 {
				first[nonce] = nonceFirst{ts: ts, tol: curTol, at: now, keepUntil: time.Unix(ts, 0).Add(curTol)}
			}
			out.Labels["burst"] = true
			out.NonTriv = true
			if n202 > 1 {
				out.Failure = ffail("C09", "concurrent-duplicates-accepted", i, "%d of %d concurrent copies of one signed request were accepted", n202, s.G)
				return out
			}
		}
	}
	// every 202 stands for exactly one enqueue on the route
	st, err := w.store.Stats()
	if err != nil {
		out.Failure = ffail("HARNESS", "stats", len(c.Steps), "%v", err)
		return out
	}
	per := 1
	if route.Targets > 0 {
		per = route.Targets
	}
	if !faulted && st.Total != accepted202*per {
		out.Failure = ffail("C09,C01", "enqueue-count", len(c.Steps), "%d requests answered 202 (x %d targets) but %d messages are stored", accepted202, per, st.Total)
		return out
	}
	// no target ever holds one signed request twice (every signed request has a body of its own,
	// except the flood requests, which share the empty body and distinct nonces)
	if ms, err := w.dump(); err == nil {
		seen := map[string]int{}
		for _, m := range ms {
			if len(m.Payload) == 0 || string(m.Payload) == "burst" || string(m.Payload) == "other-body" || string(m.Payload) == "x" {
				continue
			}
			k := m.Target + "|" + string(m.Payload)
			seen[k]++
			if seen[k] > 1 {
				out.Failure = ffail("C09", "second-enqueue", len(c.Steps), "target %s holds the signed request with body %q %d times", m.Target, m.Payload, seen[k])
				return out
			}
		}
	}
	if accepted202 > 0 {
		out.Labels["some-accepted"] = true
	}
	return out
}

// genC09ManyNonces builds the histories the general generator cannot afford in bulk: thousands of
// other nonces, all alive at once, between an accepted request and its replay (power-of-two sizes
// and their neighbours, the usual places for a cache bound), optionally with a reload or a second
// flood in between.
func genC09ManyNonces() *rapid.Generator[C09Case] {
	return rapid.Custom(func(t *rapid.T) C09Case {
		var c C09Case
		c.Route = AuthRoute{Kind: "hmac", Secrets: []string{"k-one"}}
		c.Route.TolS = rapid.SampledFrom([]int{30, 0, 300}).Draw(t, "tol")
		c.Steps = append(c.Steps, C09Step{K: "send"})
		if rapid.Bool().Draw(t, "second") {
			c.Steps = append(c.Steps, C09Step{K: "send", TsOffS: -1})
		}
		// the accepted request may be fresh or already in the older half of its window when the others arrive
		if tolS := int(c.Route.tol() / time.Second); rapid.Bool().Draw(t, "aged") {
			c.Steps = append(c.Steps, C09Step{K: "adv", Ms: rapid.SampledFrom([]int{tolS*500 + 1000, tolS * 900, tolS*1000 - 1000}).Draw(t, "age_ms")})
		}
		n := rapid.SampledFrom([]int{1023, 1024, 1025, 2048, 4095, 4096, 4097, 8191, 8192, 8193, 9000, 10000, 16385}).Draw(t, "n")
		mode := rapid.SampledFrom([]string{"valid", "badsig"}).Draw(t, "mode")
		c.Steps = append(c.Steps, C09Step{K: "flood", N: n, Mode: mode})
		switch rapid.IntRange(0, 3).Draw(t, "mid") {
		case 0:
			c.Steps = append(c.Steps, C09Step{K: "reload", Mode: rapid.SampledFrom([]string{"same", "touch", "tol-up", "secret", "respell"}).Draw(t, "rmode")})
		case 1:
			c.Steps = append(c.Steps, C09Step{K: "adv", Ms: rapid.SampledFrom([]int{1, 1000, 20000}).Draw(t, "ms")})
		}
		c.Steps = append(c.Steps, C09Step{K: "replay", Ref: 0}, C09Step{K: "replay", Ref: 1})
		return c
	})
}

func TestProp_C09_ManyNonces(t *testing.T) {
	frontProp(t, "C09", "TestProp_C09_ManyNonces", genC09ManyNonces(), runC09)
}

func TestProp_C09_Replay(t *testing.T) {
	frontProp(t, "C09", "TestProp_C09_Replay", genC09Case(), runC09)
}

var _ = strconv.Itoa
var _ = strings.TrimSpace
