//go:build verif

package app

import (
	"encoding/json"
	"fmt"
	"net"
	"net/netip"
	"net/url"
	"os"
	"path"
	"path/filepath"
	"sort"
	"strings"
	"testing"

	"github.com/nuetzliches/hookaido/internal/verifkit"
	"pgregory.net/rapid"
)

// ---------------------------------------------------------------------------------------
// C10: ingress route resolution and channel isolation.
// Case = route specs (printed to Hookaidofile text, compiled by the real compiler) + requests.
// Oracle = independent resolver written from docs/configuration.md "Routing Semantics" and
// the property statement; it works on the specs, never on the compiled structs.
// ---------------------------------------------------------------------------------------

type RouteSpec struct {
	Channel     string      `json:"channel"` // bare | inbound | inbound-wrap | outbound | internal | internal-wrap
	Path        string      `json:"path"`
	Mode        string      `json:"mode"` // pull | deliver | deliver2
	Methods     []string    `json:"methods,omitempty"`
	Hosts       []string    `json:"hosts,omitempty"`
	Headers     [][2]string `json:"headers,omitempty"`
	HeaderExist []string    `json:"header_exists,omitempty"`
	Query       [][2]string `json:"query,omitempty"`
	QueryExist  []string    `json:"query_exists,omitempty"`
	RemoteIPs   []string    `json:"remote_ips,omitempty"`
	Named       bool        `json:"named,omitempty"` // print the match block as a named matcher + reference
	// Ref > 0: the route also references the case's shared named matcher Shared[Ref-1]; its criteria
	// (AND-lists only) hold in addition to the route's own
	Ref int `json:"ref,omitempty"`
	// RefFirst: the reference to the shared matcher is written before the route's own match block / matcher
	RefFirst bool `json:"ref_first,omitempty"`
}

// SharedMatch is a named matcher several routes may reference. It carries only the criteria kinds
// whose combination with a route's own criteria is unambiguous (all of them must hold), under names
// no route uses inline.
type SharedMatch struct {
	Headers     [][2]string `json:"headers,omitempty"`
	HeaderExist []string    `json:"header_exists,omitempty"`
	Query       [][2]string `json:"query,omitempty"`
	QueryExist  []string    `json:"query_exists,omitempty"`
}

type C10Case struct {
	Routes []RouteSpec   `json:"routes"`
	Shared []SharedMatch `json:"shared,omitempty"`
	Reqs   []FReq        `json:"reqs"`
	// Vars: 1 = the file has a vars block nobody references, 2 = the pull paths are written through a
	// variable ({vars.PB}/rN). Neither changes what the file means.
	Vars int `json:"vars,omitempty"`
	// Phase2: after the requests above the process gets a second route table through a real reload and
	// answers more requests, judged by the same independent resolver. Kind "files": the configuration
	// text stays the same - header-match values and remote_ip values are written as {file.PATH}
	// placeholders in both phases and only the files change; kind "edit": the text changes.
	Phase2 *C10Phase2 `json:"phase2,omitempty"`
}

type C10Phase2 struct {
	Kind   string      `json:"kind"`
	Routes []RouteSpec `json:"routes"`
	Reqs   []FReq      `json:"reqs"`
}

// c10FileBacked writes the routes' own header-match values and remote_ip values as {file.} placeholders
// (one file per value, numbered in order of appearance) and returns the text and the files' contents.
func c10FileBacked(routes []RouteSpec, shared []SharedMatch, dir string) (string, []string) {
	cp := make([]RouteSpec, len(routes))
	var vals []string
	mark := func(v string) string {
		vals = append(vals, v)
		return fmt.Sprintf("__FV%d__", len(vals)-1)
	}
	for i, r := range routes {
		r.Headers = append([][2]string(nil), r.Headers...)
		for k := range r.Headers {
			r.Headers[k][1] = mark(r.Headers[k][1])
		}
		r.RemoteIPs = append([]string(nil), r.RemoteIPs...)
		for k := range r.RemoteIPs {
			r.RemoteIPs[k] = mark(r.RemoteIPs[k])
		}
		cp[i] = r
	}
	text := c10Text(cp, shared...)
	for k := range vals {
		text = strings.ReplaceAll(text, q(fmt.Sprintf("__FV%d__", k)), q(fmt.Sprintf("{file.%s/v%d}", dir, k)))
	}
	return text, vals
}

func c10WriteVals(dir string, vals []string) error {
	for k, v := range vals {
		if err := os.WriteFile(fmt.Sprintf("%s/v%d", dir, k), []byte(v), 0o600); err != nil {
			return err
		}
	}
	return nil
}

// c10Src is the configuration text of the case.
func (c C10Case) src() string {
	src := c10Text(c.Routes, c.Shared...)
	switch c.Vars {
	case 1:
		src = "vars {\n  UNUSED \"u\"\n}\n" + src
	case 2:
		src = "vars {\n  PB /pull\n}\n" + strings.ReplaceAll(src, "path /pull/", "path {vars.PB}/")
	}
	return src
}

// effective returns the routes with the criteria of their referenced shared matcher folded in:
// what the oracle and the request generator work with.
func (c C10Case) effective() []RouteSpec { return c10Effective(c.Routes, c.Shared) }

func c10Effective(routes []RouteSpec, shared []SharedMatch) []RouteSpec {
	c := C10Case{Routes: routes, Shared: shared}
	out := make([]RouteSpec, len(c.Routes))
	for i, r := range c.Routes {
		if r.Ref > 0 && r.Ref <= len(c.Shared) && r.inbound() {
			sm := c.Shared[r.Ref-1]
			r.Headers = append(append([][2]string(nil), r.Headers...), sm.Headers...)
			r.HeaderExist = append(append([]string(nil), r.HeaderExist...), sm.HeaderExist...)
			r.Query = append(append([][2]string(nil), r.Query...), sm.Query...)
			r.QueryExist = append(append([]string(nil), r.QueryExist...), sm.QueryExist...)
		}
		out[i] = r
	}
	return out
}

func (r RouteSpec) inbound() bool {
	return r.Channel == "bare" || r.Channel == "inbound" || r.Channel == "inbound-wrap"
}

func (r RouteSpec) targets(i int) []string {
	switch r.Mode {
	case "deliver":
		return []string{fmt.Sprintf("https://t%d.example.org/x", i)}
	case "deliver2":
		return []string{fmt.Sprintf("https://t%d.example.org/x", i), fmt.Sprintf("https://u%d.example.org/y", i)}
	}
	return []string{"pull"}
}

func q(s string) string {
	return `"` + strings.ReplaceAll(strings.ReplaceAll(s, `\`, `\\`), `"`, `\"`) + `"`
}

func c10Text(routes []RouteSpec, shared ...SharedMatch) string {
	var b strings.Builder
	b.WriteString("ingress { listen 127.0.0.1:0 }\n")
	b.WriteString("pull_api {\n  listen localhost:0\n  auth token raw:pulltoken\n}\n")
	b.WriteString("admin_api { listen 0.0.0.0:0 }\n")
	var named strings.Builder
	var body strings.Builder
	for k, sm := range shared {
		fmt.Fprintf(&named, "@s%d {\n", k+1)
		for _, x := range sm.Headers {
			fmt.Fprintf(&named, "  header %s %s\n", q(x[0]), q(x[1]))
		}
		for _, x := range sm.HeaderExist {
			fmt.Fprintf(&named, "  header_exists %s\n", q(x))
		}
		for _, x := range sm.Query {
			fmt.Fprintf(&named, "  query %s %s\n", q(x[0]), q(x[1]))
		}
		for _, x := range sm.QueryExist {
			fmt.Fprintf(&named, "  query_exists %s\n", q(x))
		}
		named.WriteString("}\n")
	}
	for i, r := range routes {
		matchLines := func(ind string) string {
			var m strings.Builder
			for _, x := range r.Methods {
				fmt.Fprintf(&m, "%smethod %s\n", ind, x)
			}
			for _, x := range r.Hosts {
				fmt.Fprintf(&m, "%shost %s\n", ind, q(x))
			}
			for _, x := range r.Headers {
				fmt.Fprintf(&m, "%sheader %s %s\n", ind, q(x[0]), q(x[1]))
			}
			for _, x := range r.HeaderExist {
				fmt.Fprintf(&m, "%sheader_exists %s\n", ind, q(x))
			}
			for _, x := range r.Query {
				fmt.Fprintf(&m, "%squery %s %s\n", ind, q(x[0]), q(x[1]))
			}
			for _, x := range r.QueryExist {
				fmt.Fprintf(&m, "%squery_exists %s\n", ind, q(x))
			}
			for _, x := range r.RemoteIPs {
				fmt.Fprintf(&m, "%sremote_ip %s\n", ind, q(x))
			}
			return m.String()
		}
		hasMatch := len(r.Methods)+len(r.Hosts)+len(r.Headers)+len(r.HeaderExist)+len(r.Query)+len(r.QueryExist)+len(r.RemoteIPs) > 0
		var rb strings.Builder
		own, ref := "", ""
		if hasMatch && r.inbound() {
			if r.Named {
				fmt.Fprintf(&named, "@m%d {\n%s}\n", i, matchLines("  "))
				own = fmt.Sprintf("  match @m%d\n", i)
			} else {
				own = fmt.Sprintf("  match {\n%s  }\n", matchLines("    "))
			}
		}
		if r.Ref > 0 && r.Ref <= len(shared) && r.inbound() {
			ref = fmt.Sprintf("  match @s%d\n", r.Ref)
		}
		if r.RefFirst {
			rb.WriteString(ref + own)
		} else {
			rb.WriteString(own + ref)
		}
		switch r.Mode {
		case "pull":
			fmt.Fprintf(&rb, "  pull { path /pull/r%d }\n", i)
		default:
			for _, t := range r.targets(i) {
				fmt.Fprintf(&rb, "  deliver %s {\n    timeout 1s\n  }\n", q(t))
			}
		}
		switch r.Channel {
		case "bare":
			fmt.Fprintf(&body, "%s {\n%s}\n", r.Path, rb.String())
		case "inbound", "outbound", "internal":
			fmt.Fprintf(&body, "%s %s {\n%s}\n", r.Channel, r.Path, rb.String())
		case "inbound-wrap":
			fmt.Fprintf(&body, "inbound {\n%s {\n%s}\n}\n", r.Path, rb.String())
		case "internal-wrap":
			fmt.Fprintf(&body, "internal {\n%s {\n%s}\n}\n", r.Path, rb.String())
		case "outbound-wrap":
			fmt.Fprintf(&body, "outbound {\n%s {\n%s}\n}\n", r.Path, rb.String())
		}
	}
	b.WriteString(named.String())
	b.WriteString(body.String())
	return b.String()
}

// readings the documentation leaves open; a request is judged only when all readings agree.
type c10Reading struct {
	methodFold   bool // request method compared case-insensitively
	hostDot      bool // trailing dot of the request host is ignored
	headerSplit  bool // header value may match one element of a comma-separated list
	unmapIP      bool // an IPv4-mapped IPv6 remote address is treated as IPv4
	escapedSlash bool // %2F in the request path is a path separator
	hostNoPort   bool // Host header port is ignored even for odd spellings
}

type c10Outcome struct {
	status int
	route  string
	allow  string
}

func specMatchPath(reqPath, routePath string) bool {
	if routePath == "/" {
		return true
	}
	if reqPath == routePath {
		return true
	}
	return strings.HasPrefix(reqPath, routePath+"/")
}

func specHost(h string, rd c10Reading) string {
	h = strings.ToLower(strings.TrimSpace(h))
	if strings.HasPrefix(h, "[") {
		if hh, _, err := net.SplitHostPort(h); err == nil {
			h = hh
		} else {
			h = strings.Trim(h, "[]")
		}
	} else if strings.Count(h, ":") == 1 {
		if hh, _, err := net.SplitHostPort(h); err == nil {
			h = hh
		}
	}
	if rd.hostDot {
		h = strings.TrimSuffix(h, ".")
	}
	return h
}

func specHostMatch(reqHost string, allowed []string) bool {
	if len(allowed) == 0 {
		return true
	}
	if reqHost == "" {
		return false
	}
	for _, a := range allowed {
		a = strings.ToLower(a)
		switch {
		case a == "*":
			return true
		case strings.HasPrefix(a, "*."):
			if strings.HasSuffix(reqHost, a[1:]) && len(reqHost) > len(a[1:]) {
				return true
			}
		case reqHost == a:
			return true
		}
	}
	return false
}

func headerValues(req FReq, name string) []string {
	var out []string
	for _, kv := range req.Headers {
		if strings.EqualFold(kv[0], name) {
			out = append(out, kv[1])
		}
	}
	return out
}

func c10Expect(routes []RouteSpec, req FReq, rd c10Reading) c10Outcome {
	rawPath := req.Path
	var decoded string
	if rd.escapedSlash {
		d, err := url.PathUnescape(rawPath)
		if err != nil {
			d = rawPath
		}
		decoded = d
	} else {
		// keep %2F opaque: unescape everything else
		tmp := strings.ReplaceAll(strings.ReplaceAll(rawPath, "%2F", "\x00"), "%2f", "\x00")
		d, err := url.PathUnescape(tmp)
		if err != nil {
			d = tmp
		}
		decoded = d
	}
	reqPath := path.Clean(decoded)
	reqPath = strings.ReplaceAll(reqPath, "\x00", "%2F")
	host := specHost(req.Host, rd)
	vals, _ := url.ParseQuery(req.Query)
	var remote netip.Addr
	remoteOK := false
	{
		raw := strings.TrimSpace(req.Remote)
		if h, _, err := net.SplitHostPort(raw); err == nil {
			raw = h
		}
		raw = strings.Trim(raw, "[]")
		if ip, err := netip.ParseAddr(raw); err == nil {
			remote, remoteOK = ip, true
			if rd.unmapIP {
				remote = ip.Unmap()
			}
		}
	}
	method := req.Method
	allowSet := map[string]bool{}
	var allow []string
	for _, r := range routes {
		if !r.inbound() {
			continue
		}
		if !specMatchPath(reqPath, r.Path) || !specHostMatch(host, r.Hosts) {
			continue
		}
		ok := true
		for _, n := range r.HeaderExist {
			if len(headerValues(req, n)) == 0 {
				ok = false
			}
		}
		for _, hv := range r.Headers {
			found := false
			for _, v := range headerValues(req, hv[0]) {
				if v == hv[1] {
					found = true
				}
				if rd.headerSplit {
					for _, part := range strings.Split(v, ",") {
						if strings.TrimSpace(part) == hv[1] {
							found = true
						}
					}
				}
			}
			if !found {
				ok = false
			}
		}
		for _, n := range r.QueryExist {
			if _, has := vals[n]; !has {
				ok = false
			}
		}
		for _, qv := range r.Query {
			found := false
			for _, v := range vals[qv[0]] {
				if v == qv[1] {
					found = true
				}
			}
			if !found {
				ok = false
			}
		}
		if len(r.RemoteIPs) > 0 {
			in := false
			if remoteOK {
				for _, p := range r.RemoteIPs {
					if pfx, err := netip.ParsePrefix(p); err == nil {
						if pfx.Contains(remote) {
							in = true
						}
					} else if ip, err := netip.ParseAddr(p); err == nil {
						if ip == remote {
							in = true
						}
					}
				}
			}
			if !in {
				ok = false
			}
		}
		if !ok {
			continue
		}
		methods := r.Methods
		if len(methods) == 0 {
			methods = []string{"POST"}
		}
		methodOK := false
		for _, m := range methods {
			if strings.ToUpper(m) == method || (rd.methodFold && strings.EqualFold(m, method)) {
				methodOK = true
			}
		}
		if methodOK {
			return c10Outcome{status: 202, route: r.Path}
		}
		for _, m := range methods {
			m = strings.ToUpper(m)
			if !allowSet[m] {
				allowSet[m] = true
				allow = append(allow, m)
			}
		}
	}
	if len(allow) > 0 {
		sort.Strings(allow)
		return c10Outcome{status: 405, allow: strings.Join(allow, ",")}
	}
	return c10Outcome{status: 404}
}

func c10AllReadings() []c10Reading {
	var out []c10Reading
	for i := 0; i < 32; i++ {
		out = append(out, c10Reading{methodFold: i&1 != 0, hostDot: i&2 != 0, headerSplit: i&4 != 0, unmapIP: i&8 != 0, escapedSlash: i&16 != 0})
	}
	return out
}

var (
	c10Paths   = []string{"/", "/a", "/a/b", "/a-b", "/ab", "/a/b/c", "/b"}
	c10Hosts   = []string{"hooks.example.com", "example.com", "*.example.com", "*", "api.example.com", "other.test"}
	c10Methods = []string{"POST", "GET", "PUT", "post", "PURGE"}
	c10HdrName = []string{"X-Event", "x-kind", "X-Env"}
	c10HdrVal  = []string{"push", "pull", "a b"}
	c10QName   = []string{"env", "token"}
	c10QVal    = []string{"prod", "dev"}
	c10IPs     = []string{"203.0.113.0/24", "203.0.113.7", "10.0.0.0/8", "2001:db8::/32", "::1", "192.0.2.1/32"}

	c10ReqPaths   = []string{"/", "/a", "/a/", "/a/b", "/a/b/", "/a-b", "/ab", "/a/b/c/d", "/a//b", "/a/./b", "/a/b/..", "/a/../a/b", "/b", "/c", "/a%2Fb", "/A", "/a/b/c", "/b/x", "/ab/c", "/a-b/c", "/ab/c/d", "/a.b/c", "/c-x/y"}
	c10ReqHosts   = []string{"hooks.example.com", "HOOKS.Example.COM", "hooks.example.com:8443", "example.com", "api.example.com", "evilexample.com", "x.y.example.com", "other.test", "hooks.example.com.", "[2001:db8::1]:443", "", "example.com.:80", "127.0.0.1:8080"}
	c10ReqRemotes = []string{"203.0.113.7:5555", "203.0.113.8:1", "203.0.114.7:5555", "10.1.2.3:80", "[2001:db8::5]:443", "[::1]:9", "[::ffff:203.0.113.7]:80", "203.0.113.7", "garbage", "192.0.2.1:1", "192.0.2.2:1"}
)

func genSharedMatch(t *rapid.T, k int) SharedMatch {
	var sm SharedMatch
	// list sizes around the growth steps of an appended slice (3 of 4, 5-7 of 8)
	sizes := []int{0, 0, 1, 2, 3, 3, 4, 5, 6, 7}
	for i, n := 0, rapid.SampledFrom(sizes).Draw(t, "sm_headers"); i < n; i++ {
		sm.Headers = append(sm.Headers, [2]string{fmt.Sprintf("X-S%d-%d", k, i), fmt.Sprintf("v%d", i)})
	}
	for i, n := 0, rapid.SampledFrom(sizes).Draw(t, "sm_hexists"); i < n; i++ {
		sm.HeaderExist = append(sm.HeaderExist, fmt.Sprintf("X-SE%d-%d", k, i))
	}
	for i, n := 0, rapid.SampledFrom(sizes).Draw(t, "sm_query"); i < n; i++ {
		sm.Query = append(sm.Query, [2]string{fmt.Sprintf("s%d_%d", k, i), fmt.Sprintf("w%d", i)})
	}
	for i, n := 0, rapid.SampledFrom(sizes).Draw(t, "sm_qexists"); i < n; i++ {
		sm.QueryExist = append(sm.QueryExist, fmt.Sprintf("se%d_%d", k, i))
	}
	return sm
}

func genRouteSpec(t *rapid.T, usedPaths map[string]bool, nshared ...int) (RouteSpec, bool) {
	var free []string
	for _, p := range c10Paths {
		if !usedPaths[p] {
			free = append(free, p)
		}
	}
	if len(free) == 0 {
		return RouteSpec{}, false
	}
	r := RouteSpec{Path: rapid.SampledFrom(free).Draw(t, "path")}
	usedPaths[r.Path] = true
	r.Channel = rapid.SampledFrom([]string{"bare", "bare", "bare", "inbound", "inbound-wrap", "outbound", "internal", "internal-wrap", "outbound-wrap"}).Draw(t, "channel")
	switch r.Channel {
	case "outbound", "outbound-wrap":
		r.Mode = rapid.SampledFrom([]string{"deliver", "deliver2"}).Draw(t, "mode")
	case "internal", "internal-wrap":
		r.Mode = "pull"
	default:
		r.Mode = rapid.SampledFrom([]string{"pull", "pull", "deliver", "deliver2"}).Draw(t, "mode")
	}
	if !r.inbound() {
		return r, true
	}
	bias := 0
	if len(nshared) > 0 && nshared[0] > 0 && rapid.Bool().Draw(t, "has_ref") {
		r.Ref = rapid.IntRange(1, nshared[0]).Draw(t, "ref")
		r.RefFirst = rapid.Bool().Draw(t, "ref_first")
		bias = 2 // routes sharing a matcher mostly add own criteria of the same kinds
	}
	if rapid.IntRange(0, 2).Draw(t, "has_methods") == 0 {
		r.Methods = uniq(rapid.SliceOfN(rapid.SampledFrom(c10Methods), 1, 2).Draw(t, "methods"))
	}
	if rapid.IntRange(0, 2).Draw(t, "has_hosts") == 0 {
		r.Hosts = uniq(rapid.SliceOfN(rapid.SampledFrom(c10Hosts), 1, 2).Draw(t, "hosts"))
	}
	if rapid.IntRange(0, 3).Draw(t, "has_hdr") <= bias {
		r.Headers = [][2]string{{rapid.SampledFrom(c10HdrName).Draw(t, "hn"), rapid.SampledFrom(c10HdrVal).Draw(t, "hv")}}
	}
	if rapid.IntRange(0, 4).Draw(t, "has_hdrx") <= bias {
		r.HeaderExist = []string{rapid.SampledFrom(c10HdrName).Draw(t, "hxn")}
	}
	if rapid.IntRange(0, 3).Draw(t, "has_q") <= bias {
		r.Query = [][2]string{{rapid.SampledFrom(c10QName).Draw(t, "qn"), rapid.SampledFrom(c10QVal).Draw(t, "qv")}}
	}
	if rapid.IntRange(0, 4).Draw(t, "has_qx") <= bias {
		r.QueryExist = []string{rapid.SampledFrom(c10QName).Draw(t, "qxn")}
	}
	if rapid.IntRange(0, 3).Draw(t, "has_ip") == 0 {
		r.RemoteIPs = uniq(rapid.SliceOfN(rapid.SampledFrom(c10IPs), 1, 2).Draw(t, "ips"))
	}
	r.Named = rapid.IntRange(0, 3).Draw(t, "named") == 0
	return r, true
}

func uniq(in []string) []string {
	seen := map[string]bool{}
	var out []string
	for _, s := range in {
		if !seen[strings.ToLower(s)] {
			seen[strings.ToLower(s)] = true
			out = append(out, s)
		}
	}
	return out
}

// genC10Req builds a request aimed at one of the routes, then perturbs it.
func genC10Req(t *rapid.T, routes []RouteSpec) FReq {
	req := FReq{Method: "POST", Path: rapid.SampledFrom(c10ReqPaths).Draw(t, "rpath"), Host: "hooks.example.com", Remote: "203.0.113.7:5555"}
	if len(routes) > 0 && rapid.IntRange(0, 4).Draw(t, "aimed") > 0 {
		r := routes[rapid.IntRange(0, len(routes)-1).Draw(t, "aim")]
		req.Path = r.Path + rapid.SampledFrom([]string{"", "", "/", "/sub", "/./", "-x", "x", "-x/y", "x/y", ".v2/a/b", "%2Fsub", "/sub/deeper"}).Draw(t, "suffix")
		if r.Path == "/" {
			req.Path = rapid.SampledFrom(c10ReqPaths).Draw(t, "rpath2")
		}
		if len(r.Methods) > 0 {
			req.Method = strings.ToUpper(r.Methods[0])
		}
		if len(r.Hosts) > 0 {
			switch h := r.Hosts[0]; {
			case h == "*":
				req.Host = "anything.test"
			case strings.HasPrefix(h, "*."):
				req.Host = "sub." + h[2:]
			default:
				req.Host = h
			}
		}
		for _, hv := range r.Headers {
			req.Headers = append(req.Headers, [2]string{hv[0], hv[1]})
		}
		for _, n := range r.HeaderExist {
			req.Headers = append(req.Headers, [2]string{n, "1"})
		}
		var qs []string
		for _, qv := range r.Query {
			qs = append(qs, url.QueryEscape(qv[0])+"="+url.QueryEscape(qv[1]))
		}
		for _, n := range r.QueryExist {
			qs = append(qs, url.QueryEscape(n)+"=1")
		}
		req.Query = strings.Join(qs, "&")
		if len(r.RemoteIPs) > 0 {
			p := r.RemoteIPs[0]
			if pfx, err := netip.ParsePrefix(p); err == nil {
				p = pfx.Addr().Next().String()
				if !pfx.Contains(pfx.Addr().Next()) {
					p = pfx.Addr().String()
				}
			}
			if strings.Contains(p, ":") {
				req.Remote = "[" + p + "]:4000"
			} else {
				req.Remote = p + ":4000"
			}
		}
	}
	// the same host in another legal spelling (case x port x trailing dot are independent of each other):
	// seed C10-13 lost the case folding only for names that also carry a port
	if rapid.IntRange(0, 3).Draw(t, "respell") == 0 {
		req.Host = c10Respell(t, req.Host)
	}
	nperturb := rapid.IntRange(0, 2).Draw(t, "nperturb")
	for i := 0; i < nperturb; i++ {
		switch rapid.IntRange(0, 8).Draw(t, "perturb") {
		case 0:
			req.Method = rapid.SampledFrom([]string{"POST", "GET", "PUT", "post", "PURGE", "DELETE"}).Draw(t, "pm")
		case 1:
			req.Host = rapid.SampledFrom(c10ReqHosts).Draw(t, "ph")
			if rapid.IntRange(0, 2).Draw(t, "ph_respell") == 0 {
				req.Host = c10Respell(t, req.Host)
			}
		case 2:
			if len(req.Headers) > 0 {
				req.Headers = req.Headers[1:]
			}
		case 3:
			req.Headers = append(req.Headers, [2]string{rapid.SampledFrom(c10HdrName).Draw(t, "phn"), rapid.SampledFrom([]string{"push", "pull", "x, push", "push,other", "PUSH", ""}).Draw(t, "phv")})
		case 4:
			req.Query = rapid.SampledFrom([]string{"", "env=prod", "env=dev&env=prod", "token", "token=", "env=PROD", "env=prod&token=1", "x=1"}).Draw(t, "pq")
		case 5:
			req.Remote = rapid.SampledFrom(c10ReqRemotes).Draw(t, "pr")
		case 6:
			req.Path = rapid.SampledFrom(c10ReqPaths).Draw(t, "pp")
		case 7:
			for j := range req.Headers {
				req.Headers[j][0] = strings.ToLower(req.Headers[j][0])
			}
		case 8:
			req.Body = []byte("x")
		}
	}
	return req
}

func genC10Case() *rapid.Generator[C10Case] {
	return rapid.Custom(func(t *rapid.T) C10Case {
		var c C10Case
		used := map[string]bool{}
		for k, ns := 0, rapid.SampledFrom([]int{0, 0, 1, 1, 2}).Draw(t, "nshared"); k < ns; k++ {
			c.Shared = append(c.Shared, genSharedMatch(t, k+1))
		}
		n := rapid.IntRange(1, 6).Draw(t, "nroutes")
		for i := 0; i < n; i++ {
			r, ok := genRouteSpec(t, used, len(c.Shared))
			if !ok {
				break
			}
			c.Routes = append(c.Routes, r)
		}
		routes := c.effective()
		reqGen := rapid.Custom(func(t *rapid.T) FReq { return genC10Req(t, routes) })
		c.Reqs = rapid.SliceOfN(reqGen, 1, 8).Draw(t, "reqs")
		c.Vars = rapid.SampledFrom([]int{0, 0, 0, 1, 2}).Draw(t, "vars")
		switch rapid.IntRange(0, 5).Draw(t, "phase2") {
		case 0: // same text, other file contents
			c.Vars = 0
			p2 := &C10Phase2{Kind: "files"}
			for _, r := range c.Routes {
				r.Headers = append([][2]string(nil), r.Headers...)
				for k := range r.Headers {
					r.Headers[k][1] = rapid.SampledFrom(c10HdrVal).Draw(t, "hv2")
				}
				r.RemoteIPs = append([]string(nil), r.RemoteIPs...)
				for k := range r.RemoteIPs {
					r.RemoteIPs[k] = rapid.SampledFrom(c10IPs).Draw(t, "ip2")
				}
				p2.Routes = append(p2.Routes, r)
			}
			c.Phase2 = p2
		case 1: // another text: routes reordered, dropped, moved to another channel
			c.Vars = 0
			p2 := &C10Phase2{Kind: "edit", Routes: append([]RouteSpec(nil), c.Routes...)}
			switch rapid.IntRange(0, 2).Draw(t, "edit2") {
			case 0:
				for i, j := 0, len(p2.Routes)-1; i < j; i, j = i+1, j-1 {
					p2.Routes[i], p2.Routes[j] = p2.Routes[j], p2.Routes[i]
				}
			case 1:
				if len(p2.Routes) > 1 {
					p2.Routes = p2.Routes[1:]
				}
			case 2:
				k := rapid.IntRange(0, len(p2.Routes)-1).Draw(t, "flip")
				if p2.Routes[k].inbound() {
					p2.Routes[k].Channel, p2.Routes[k].Mode = "internal", "pull"
				} else {
					p2.Routes[k].Channel = "bare"
				}
			}
			c.Phase2 = p2
		}
		if c.Phase2 != nil {
			routes2 := c10Effective(c.Phase2.Routes, c.Shared)
			reqGen2 := rapid.Custom(func(t *rapid.T) FReq { return genC10Req(t, routes2) })
			c.Phase2.Reqs = rapid.SliceOfN(reqGen2, 1, 8).Draw(t, "reqs2")
		}
		return c
	})
}

type fOutcome struct {
	Failure *verifkit.Failure
	Labels  map[string]bool
	NonTriv bool
	Known   []string
	Skipped string
}

func newFOutcome() *fOutcome { return &fOutcome{Labels: map[string]bool{}} }

func (o *fOutcome) labels() []string {
	var out []string
	for l := range o.Labels {
		out = append(out, l)
	}
	sort.Strings(out)
	return out
}

func runC10(c C10Case, tolerate bool) *fOutcome {
	out := newFOutcome()
	src := c.src()
	eff := c.effective()
	valDir := ""
	if c.Phase2 != nil && c.Phase2.Kind == "files" {
		valDir = filepath.Join(fScratch(), fmt.Sprintf("c10v-%d-%d", os.Getpid(), fSeq.Add(1)))
		_ = os.MkdirAll(valDir, 0o755)
		defer os.RemoveAll(valDir)
		var vals []string
		src, vals = c10FileBacked(c.Routes, c.Shared, valDir)
		if err := c10WriteVals(valDir, vals); err != nil {
			out.Failure = ffail("HARNESS", "write-values", 0, "%v", err)
			return out
		}
		out.Labels["values-through-file-placeholders"] = true
	}
	w, err := newFrontWorld(src, worldOpts{withFile: c.Phase2 != nil})
	if err != nil {
		// a generated config the compiler refuses is a generator problem unless the refusal is
		// about a documented constraint we generate on purpose (none here)
		out.Skipped = "config rejected: " + err.Error()
		out.Labels["config-rejected"] = true
		return out
	}
	defer w.close()
	refs := map[int]int{}
	for _, r := range c.Routes {
		if r.Ref > 0 && r.Ref <= len(c.Shared) && r.inbound() && len(r.Headers)+len(r.HeaderExist)+len(r.Query)+len(r.QueryExist) > 0 {
			refs[r.Ref]++
		}
	}
	for _, n := range refs {
		out.Labels["shared-matcher-referenced"] = true
		if n >= 2 {
			out.Labels["shared-matcher-two-routes-own-criteria"] = true
		}
	}
	readings := c10AllReadings()
	routes := c.Routes
	judge := func(reqs []FReq, stepBase int) bool {
		for k, req := range reqs {
			i := stepBase + k
			before, err := w.dump()
			if err != nil {
				out.Failure = ffail("HARNESS", "dump", i, "%v", err)
				return false
			}
			rec := serve(w.ingress, req)
			after, err := w.dump()
			if err != nil {
				out.Failure = ffail("HARNESS", "dump", i, "%v", err)
				return false
			}
			added := newMsgs(before, after)
			exp := c10Expect(eff, req, readings[0])
			agree := true
			for _, rd := range readings[1:] {
				if e := c10Expect(eff, req, rd); e != exp {
					agree = false
					break
				}
			}
			// classification for the non-trivial rule
			pathMatching, firstNonInbound := 0, false
			cleaned := path.Clean(req.Path)
			for _, r := range routes {
				if specMatchPath(cleaned, r.Path) {
					if pathMatching == 0 && !r.inbound() {
						firstNonInbound = true
					}
					pathMatching++
				}
			}
			if pathMatching >= 2 {
				out.Labels["overlapping-paths"] = true
				out.NonTriv = true
			}
			if firstNonInbound {
				out.Labels["first-path-match-not-inbound"] = true
				out.NonTriv = true
			}
			if !agree {
				out.Labels["ambiguous-reading"] = true
				// even an ambiguous request must leave the queue alone unless it was accepted
				if rec.Code != 202 && len(added) > 0 {
					out.Failure = ffail("C10", "rejected-but-enqueued", i, "request %s answered %d but %d messages were stored", reqStr(req), rec.Code, len(added))
					return false
				}
				continue
			}
			out.Labels[fmt.Sprintf("expect-%d", exp.status)] = true
			sig := ""
			// known-finding signature: a route declared outbound/internal was resolved from ingress
			if rec.Code == 202 && len(added) > 0 {
				for _, r := range routes {
					if r.Path == added[0].Route && !r.inbound() {
						sig = "ingress-reaches-non-inbound-route"
					}
				}
			}
			mk := func(clause, format string, args ...any) *verifkit.Failure {
				f := ffail("C10", clause, i, format, args...)
				f.Sig = sig
				return f
			}
			var f *verifkit.Failure
			switch {
			case rec.Code != exp.status:
				f = mk("status", "request %s: status %d, expected %d (route %q) for routes %s", reqStr(req), rec.Code, exp.status, exp.route, routesStr(eff))
			case exp.status == 202:
				wantTargets := []string{}
				for ri, r := range routes {
					if r.Path == exp.route {
						wantTargets = r.targets(ri)
					}
				}
				var gotTargets []string
				for _, m := range added {
					if m.Route != exp.route {
						f = mk("wrong-route", "request %s stored under route %q, expected %q", reqStr(req), m.Route, exp.route)
					}
					gotTargets = append(gotTargets, m.Target)
				}
				sort.Strings(gotTargets)
				sort.Strings(wantTargets)
				if f == nil && strings.Join(gotTargets, " ") != strings.Join(wantTargets, " ") {
					f = mk("wrong-targets", "request %s stored for targets %v, expected %v", reqStr(req), gotTargets, wantTargets)
				}
			default:
				if len(added) > 0 || dumpKey(before) != dumpKey(after) {
					f = mk("rejected-but-changed", "request %s answered %d but the queue changed", reqStr(req), rec.Code)
				}
				if f == nil && exp.status == 405 {
					var got []string
					for _, m := range strings.Split(rec.Header().Get("Allow"), ",") {
						if m = strings.TrimSpace(m); m != "" {
							got = append(got, m)
						}
					}
					sort.Strings(got)
					if strings.Join(got, ",") != exp.allow {
						f = mk("allow-header", "request %s: Allow %q, expected %q", reqStr(req), strings.Join(got, ","), exp.allow)
					}
				}
			}
			if f != nil {
				if f.Sig != "" && tolerate && verifkit.Known(f.Sig) {
					out.Known = append(out.Known, f.Sig)
					return false
				}
				if stepBase > 0 {
					f.Detail = "after a reload (" + c.Phase2.Kind + "): " + f.Detail
				}
				out.Failure = f
				return false
			}
		}
		return true
	}
	if !judge(c.Reqs, 0) || c.Phase2 == nil {
		return out
	}
	// ---- phase 2: a second route table arrives through a real reload
	p2 := c.Phase2
	switch p2.Kind {
	case "files":
		_, vals := c10FileBacked(p2.Routes, c.Shared, valDir)
		if err := c10WriteVals(valDir, vals); err != nil {
			out.Failure = ffail("HARNESS", "write-values", 0, "%v", err)
			return out
		}
	default:
		if err := os.WriteFile(w.cfgPath, []byte(c10Text(p2.Routes, c.Shared...)), 0o600); err != nil {
			out.Failure = ffail("HARNESS", "write-config", 0, "%v", err)
			return out
		}
	}
	if !w.reload() {
		out.Labels["phase2-reload-refused"] = true
		return out
	}
	out.Labels["phase2-"+p2.Kind] = true
	routes, eff = p2.Routes, c10Effective(p2.Routes, c.Shared)
	judge(p2.Reqs, 1000)
	return out
}

func reqStr(r FReq) string {
	b, _ := json.Marshal(r)
	return string(b)
}

func routesStr(rs []RouteSpec) string {
	b, _ := json.Marshal(rs)
	return string(b)
}

func frontProp[C any](t *testing.T, prop, test string, gen *rapid.Generator[C], run func(C, bool) *fOutcome) {
	rapid.Check(t, func(rt *rapid.T) {
		c := gen.Draw(rt, "case")
		out := run(c, true)
		verifkit.Emit(verifkit.Record{Prop: prop, Test: test, Hash: verifkit.Hash(c), NonTrivial: out.NonTriv, Labels: out.labels(), Known: out.Known, Skipped: out.Skipped}, c)
		if out.Failure != nil {
			verifkit.SaveFailing(test, c, out.Failure)
			rt.Fatalf("%v", out.Failure)
		}
	})
}

func frontReplay[C any](test string, run func(C, bool) *fOutcome) {
	for _, rf := range verifkit.ReplayFiles(test) {
		var c C
		if err := json.Unmarshal(rf.Case, &c); err != nil {
			fmt.Printf("REPLAY-ERROR file=%s err=%v\n", rf.Path, err)
			continue
		}
		out := run(c, false)
		verifkit.ReportReplay(rf, out.Failure)
	}
}

func TestProp_C10_Routing(t *testing.T) {
	frontProp(t, "C10", "TestProp_C10_Routing", genC10Case(), runC10)
}

// c10Respell writes a request host in another spelling: letter case and a port (and a trailing dot) are
// drawn independently. IPv6 literals and the empty host are left alone.
func c10Respell(t *rapid.T, h string) string {
	if h == "" || strings.HasPrefix(h, "[") {
		return h
	}
	name, tail := h, ""
	if i := strings.LastIndex(h, ":"); i >= 0 {
		name, tail = h[:i], h[i:]
	}
	switch rapid.IntRange(0, 2).Draw(t, "hcase") {
	case 1:
		name = strings.ToUpper(name)
	case 2:
		b := []byte(strings.ToLower(name))
		for i := 0; i < len(b); i += 2 {
			if b[i] >= 'a' && b[i] <= 'z' {
				b[i] -= 32
			}
		}
		name = string(b)
	}
	switch rapid.IntRange(0, 3).Draw(t, "htail") {
	case 1:
		tail = ":8443"
	case 2:
		tail = ""
	case 3:
		if !strings.HasSuffix(name, ".") {
			name += "."
		}
	}
	return name + tail
}
