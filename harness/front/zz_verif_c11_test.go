//go:build verif

package app

import (
	"context"
	"encoding/json"
	"fmt"
	"os"
	"path/filepath"
	"strings"
	"testing"
	"time"

	"github.com/nuetzliches/hookaido/internal/pullapi"
	"github.com/nuetzliches/hookaido/internal/queue"
	"github.com/nuetzliches/hookaido/internal/workerapi"
	workerapipb "github.com/nuetzliches/hookaido/internal/workerapi/proto"
	"google.golang.org/grpc/codes"
	"google.golang.org/grpc/metadata"
	"google.golang.org/grpc/status"
	"google.golang.org/protobuf/types/known/durationpb"
	"pgregory.net/rapid"
)

// ---------------------------------------------------------------------------------------
// C11: Pull (HTTP), Worker (gRPC methods) and Admin APIs act only for authorized callers.
// ---------------------------------------------------------------------------------------

type C11Route struct {
	Tokens []string `json:"tokens,omitempty"`
}

type C11Cred struct {
	Kind    string `json:"kind"` // absent | bearer | lower | upper | basic | noscheme | spaces | tab | trailing
	Src     string `json:"src"`  // own | global | other | admin | none
	Idx     int    `json:"idx"`
	Variant string `json:"variant"`         // exact | prefix | suffix | case | nul | space | empty | plus
	Multi   string `json:"multi,omitempty"` // "" | bad-first | bad-second
}

type C11Req struct {
	API    string  `json:"api"` // pull | worker | admin
	Route  int     `json:"route"`
	Op     string  `json:"op"`
	Batch  bool    `json:"batch,omitempty"`
	Method string  `json:"method,omitempty"`
	Cred   C11Cred `json:"cred"`
	// PathVar spells the (pull) request path non-canonically; the endpoint addressed is the cleaned path
	PathVar string `json:"path_var,omitempty"` // "" | dslash | trailing | dot | dotdot | dotdot-other
}

type C11Case struct {
	Global []string   `json:"global,omitempty"`
	Routes []C11Route `json:"routes"`
	Admin  []string   `json:"admin,omitempty"`
	Prefix bool       `json:"prefix,omitempty"`
	Shared bool       `json:"shared,omitempty"`
	// Via: how the token values reach the config ("" raw: | env | file); Blank: the tokens of that scope
	// ("global" | "routes" | "admin" | "all") are whitespace-only values (BlankVal) delivered that way
	Via      string   `json:"via,omitempty"`
	Blank    string   `json:"blank,omitempty"`
	BlankVal string   `json:"blank_val,omitempty"`
	Reqs     []C11Req `json:"reqs"`
}

var c11RefSeq int

// c11Ref renders one token reference and provides the value behind it.
func (c C11Case) c11Ref(scope, tok string, cleanup *[]func()) string {
	val := tok
	via := c.Via
	if c.Blank == scope || c.Blank == "all" {
		val = c.BlankVal
		if via == "" {
			via = "env"
		}
	}
	switch via {
	case "env":
		c11RefSeq++
		name := fmt.Sprintf("VERIF_C11_%d_%d", os.Getpid(), c11RefSeq)
		_ = os.Setenv(name, val)
		*cleanup = append(*cleanup, func() { _ = os.Unsetenv(name) })
		return "env:" + name
	case "file":
		c11RefSeq++
		path := filepath.Join(fScratch(), fmt.Sprintf("c11tok-%d-%d", os.Getpid(), c11RefSeq))
		_ = os.MkdirAll(filepath.Dir(path), 0o755)
		_ = os.WriteFile(path, []byte(val), 0o600)
		*cleanup = append(*cleanup, func() { _ = os.Remove(path) })
		return "file:" + path
	}
	return "raw:" + tok
}

func (c C11Case) blankScope(scope string) bool { return c.Blank == scope || c.Blank == "all" }

func c11Text(c C11Case) string {
	var drop []func()
	return c11TextRefs(c, &drop)
}

func c11TextRefs(c C11Case, cleanup *[]func()) string {
	var b strings.Builder
	b.WriteString("ingress { listen 127.0.0.1:0 }\n")
	b.WriteString("pull_api {\n  listen localhost:0\n")
	if c.Prefix || c.Shared {
		b.WriteString("  prefix /p\n")
	}
	for _, t := range c.Global {
		fmt.Fprintf(&b, "  auth token %s\n", q(c.c11Ref("global", t, cleanup)))
	}
	b.WriteString("}\nadmin_api {\n")
	if c.Shared {
		b.WriteString("  listen localhost:0\n  prefix /adm\n")
	} else {
		b.WriteString("  listen 0.0.0.0:0\n")
		if c.Prefix {
			b.WriteString("  prefix /adm\n")
		}
	}
	for _, t := range c.Admin {
		fmt.Fprintf(&b, "  auth token %s\n", q(c.c11Ref("admin", t, cleanup)))
	}
	b.WriteString("}\n")
	for i, r := range c.Routes {
		fmt.Fprintf(&b, "/r%d {\n  pull {\n    path /pull/r%d\n", i, i)
		for _, t := range r.Tokens {
			fmt.Fprintf(&b, "    auth token %s\n", q(c.c11Ref("routes", t, cleanup)))
		}
		b.WriteString("  }\n}\n")
	}
	return b.String()
}

var c11AdminEndpoints = [][2]string{
	{"GET", "/healthz"}, {"GET", "/dlq"}, {"GET", "/messages"}, {"GET", "/backlog/top_queued"}, {"GET", "/backlog/oldest_queued"},
	{"GET", "/backlog/aging_summary"}, {"GET", "/backlog/trends"}, {"GET", "/attempts"}, {"GET", "/management/model"}, {"GET", "/applications"},
	{"POST", "/messages/publish"}, {"POST", "/dlq/requeue"}, {"POST", "/dlq/delete"}, {"POST", "/messages/cancel"}, {"POST", "/messages/cancel_by_filter"},
	{"POST", "/messages/requeue"}, {"POST", "/messages/resume"}, {"POST", "/messages/requeue_by_filter"}, {"POST", "/messages/resume_by_filter"},
	{"GET", "/applications/app1/endpoints"}, {"POST", "/applications/app1/endpoints/e1/messages/publish"}, {"DELETE", "/applications/app1/endpoints/e1"},
	{"GET", "/nope"},
}

func (c C11Case) effective(route int) []string {
	if route >= 0 && route < len(c.Routes) && len(c.Routes[route].Tokens) > 0 {
		if c.blankScope("routes") {
			return []string{c.BlankVal}
		}
		return c.Routes[route].Tokens
	}
	if c.blankScope("global") && len(c.Global) > 0 {
		return []string{c.BlankVal}
	}
	return c.Global
}

func (c C11Case) adminAllowed() []string {
	if c.blankScope("admin") && len(c.Admin) > 0 {
		return []string{c.BlankVal}
	}
	return c.Admin
}

func (c C11Case) tokenFor(r C11Req) (string, bool) {
	var pool []string
	switch r.Cred.Src {
	case "own":
		if r.API == "admin" {
			pool = c.Admin
		} else {
			pool = c.effective(r.Route)
		}
	case "global":
		pool = c.Global
	case "other":
		for j, o := range c.Routes {
			if j != r.Route {
				pool = append(pool, o.Tokens...)
			}
		}
		if r.API != "admin" {
			pool = append(pool, c.Admin...)
		} else {
			pool = append(pool, c.Global...)
		}
	case "admin":
		pool = c.Admin
	}
	if len(pool) == 0 {
		return "zz-unconfigured-token", false
	}
	return pool[r.Cred.Idx%len(pool)], true
}

// c11Long: a token tail of n characters (tokens longer than any fixed-size comparison buffer).
func c11Long(n int) string {
	const abc = "abcdefghijklmnopqrstuvwxyzABCDEFGHIJKLMNOPQRSTUVWXYZ0123456789"
	var b strings.Builder
	for i := 0; i < n; i++ {
		b.WriteByte(abc[(i*7+3)%len(abc)])
	}
	return b.String()
}

func credValues(c C11Case, r C11Req) []string {
	tok, _ := c.tokenFor(r)
	switch r.Cred.Variant {
	case "prefix":
		if len(tok) > 1 {
			tok = tok[:len(tok)-1]
		}
	case "suffix":
		tok = tok + "x"
	case "case":
		if strings.ToUpper(tok) != tok {
			tok = strings.ToUpper(tok)
		} else {
			tok = strings.ToLower(tok)
		}
	case "lastchar":
		// same length, only the last character differs
		if n := len(tok); n > 0 {
			ch := byte('Q')
			if tok[n-1] == 'Q' {
				ch = 'R'
			}
			tok = tok[:n-1] + string(ch)
		}
	case "tailcase":
		// same length, the second half in the other case
		h := len(tok) / 2
		tail := strings.ToUpper(tok[h:])
		if tail == tok[h:] {
			tail = strings.ToLower(tok[h:])
		}
		tok = tok[:h] + tail
	case "midchar":
		if n := len(tok); n > 2 {
			ch := byte('Q')
			if tok[n/2] == 'Q' {
				ch = 'R'
			}
			tok = tok[:n/2] + string(ch) + tok[n/2+1:]
		}
	case "nul":
		tok = tok + "\x00"
	case "space":
		if len(tok) > 2 {
			tok = tok[:2] + " " + tok[2:]
		}
	case "empty":
		tok = ""
	case "plus":
		tok = tok + "," + tok
	}
	var v string
	switch r.Cred.Kind {
	case "absent":
		return nil
	case "bearer":
		v = "Bearer " + tok
	case "lower":
		v = "bearer " + tok
	case "upper":
		v = "BEARER " + tok
	case "basic":
		v = "Basic " + tok
	case "noscheme":
		v = tok
	case "spaces":
		v = "Bearer    " + tok
	case "tab":
		v = "Bearer\t" + tok
	case "trailing":
		v = "Bearer " + tok + "  "
	case "leading":
		v = "  Bearer " + tok
	default:
		v = "Bearer " + tok
	}
	switch r.Cred.Multi {
	case "bad-first":
		return []string{"Bearer zz-wrong", v}
	case "bad-second":
		return []string{v, "Bearer zz-wrong"}
	}
	return []string{v}
}

// lenientMatch: under the most permissive reading some presented value carries an allowed token.
func lenientMatch(values []string, allowed []string) bool {
	for _, raw := range values {
		h := strings.TrimSpace(raw)
		if len(h) < 7 || !strings.EqualFold(h[:6], "bearer") {
			continue
		}
		rest := h[6:]
		if rest == "" || !(rest[0] == ' ' || rest[0] == '\t') {
			continue
		}
		tok := strings.TrimSpace(rest)
		for _, a := range allowed {
			if tok == a {
				return true
			}
		}
	}
	return false
}

func strictMatch(values []string, allowed []string) bool {
	if len(values) != 1 {
		return false
	}
	for _, a := range allowed {
		if values[0] == "Bearer "+a {
			return true
		}
	}
	return false
}

func genC11Case() *rapid.Generator[C11Case] {
	return rapid.Custom(func(t *rapid.T) C11Case {
		var c C11Case
		ng := rapid.SampledFrom([]int{0, 1, 1, 2, 3}).Draw(t, "nglobal")
		for i := 0; i < ng; i++ {
			c.Global = append(c.Global, fmt.Sprintf("gtok%d-%s", i, rapid.SampledFrom([]string{"a", "Ab", "abc", c11Long(70), c11Long(200)}).Draw(t, "gs")))
		}
		nr := rapid.IntRange(1, 3).Draw(t, "nroutes")
		for i := 0; i < nr; i++ {
			var r C11Route
			nt := rapid.SampledFrom([]int{0, 0, 1, 2, 3}).Draw(t, "ntok")
			for k := 0; k < nt; k++ {
				r.Tokens = append(r.Tokens, fmt.Sprintf("r%dtok%d-%s", i, k, rapid.SampledFrom([]string{"x", "Xy", "xyz", c11Long(64), c11Long(130)}).Draw(t, "rs")))
			}
			c.Routes = append(c.Routes, r)
		}
		na := rapid.SampledFrom([]int{0, 1, 1, 2}).Draw(t, "nadmin")
		for i := 0; i < na; i++ {
			c.Admin = append(c.Admin, fmt.Sprintf("atok%d%s", i, rapid.SampledFrom([]string{"", "", "-" + c11Long(61), "-" + c11Long(300)}).Draw(t, "as")))
		}
		switch rapid.IntRange(0, 3).Draw(t, "topology") {
		case 0:
			c.Prefix = true
		case 1:
			c.Shared = true
		}
		c.Via = rapid.SampledFrom([]string{"", "", "env", "file"}).Draw(t, "via")
		if rapid.IntRange(0, 5).Draw(t, "blank") == 0 {
			c.Blank = rapid.SampledFrom([]string{"global", "routes", "admin", "all"}).Draw(t, "blank_scope")
			c.BlankVal = rapid.SampledFrom([]string{"\n", "  ", "\t", " \r\n"}).Draw(t, "blank_val")
		}
		nroutes := len(c.Routes)
		g := rapid.Custom(func(t *rapid.T) C11Req {
			r := C11Req{API: rapid.SampledFrom([]string{"pull", "pull", "worker", "admin"}).Draw(t, "api")}
			r.Route = rapid.IntRange(0, nroutes).Draw(t, "route") // == nroutes: unknown endpoint
			if r.API == "admin" {
				r.Op = fmt.Sprint(rapid.IntRange(0, len(c11AdminEndpoints)-1).Draw(t, "ep"))
			} else {
				r.Op = rapid.SampledFrom([]string{"dequeue", "dequeue", "ack", "nack", "extend"}).Draw(t, "op")
				r.Batch = rapid.Bool().Draw(t, "batch")
			}
			r.Method = rapid.SampledFrom([]string{"", "", "", "GET", "PUT"}).Draw(t, "method")
			if r.API == "pull" {
				r.PathVar = rapid.SampledFrom([]string{"", "", "", "dslash", "trailing", "dot", "dotdot", "dotdot-other"}).Draw(t, "path_var")
			}
			if r.API == "worker" {
				r.PathVar = rapid.SampledFrom([]string{"", "", "", "", "dslash", "trailing", "dot", "dotdot", "dotdot-other", "space"}).Draw(t, "path_var")
			}
			r.Cred.Kind = rapid.SampledFrom([]string{"absent", "bearer", "bearer", "bearer", "lower", "upper", "basic", "noscheme", "spaces", "tab", "trailing", "leading"}).Draw(t, "ckind")
			r.Cred.Src = rapid.SampledFrom([]string{"own", "own", "global", "other", "admin", "none"}).Draw(t, "csrc")
			r.Cred.Idx = rapid.IntRange(0, 2).Draw(t, "cidx")
			r.Cred.Variant = rapid.SampledFrom([]string{"exact", "exact", "exact", "prefix", "suffix", "case", "nul", "space", "empty", "plus", "lastchar", "lastchar", "tailcase", "midchar"}).Draw(t, "cvar")
			r.Cred.Multi = rapid.SampledFrom([]string{"", "", "", "bad-first", "bad-second"}).Draw(t, "multi")
			return r
		})
		c.Reqs = rapid.SliceOfN(g, 1, 12).Draw(t, "reqs")
		return c
	})
}

func runC11(c C11Case, _ bool) *fOutcome {
	out := newFOutcome()
	var cleanup []func()
	defer func() {
		for _, f := range cleanup {
			f()
		}
	}()
	src := c11TextRefs(c, &cleanup)
	if c.Via != "" {
		out.Labels["tokens-via-"+c.Via] = true
	}
	// compile clause: a compiled configuration leaves every pull route with a non-empty allowlist
	emptyAllow := false
	for i := range c.Routes {
		if len(c.effective(i)) == 0 {
			emptyAllow = true
		}
	}
	_, res, perr := compileSrc(src)
	if perr != nil {
		out.Failure = ffail("HARNESS", "parse", 0, "generated config does not parse: %v\n%s", perr, src)
		return out
	}
	if emptyAllow {
		out.Labels["config-with-empty-allowlist"] = true
		out.NonTriv = true
		if res.OK {
			out.Failure = ffail("C11", "compiled-empty-allowlist", 0, "config compiles although a pull route has neither own nor global tokens:\n%s", src)
		}
		return out
	}
	w, err := newFrontWorld(src, worldOpts{})
	if err != nil && c.Blank != "" {
		// refusing to start on a whitespace-only token is a sound answer
		out.Labels["blank-token-refused-at-load"] = true
		return out
	}
	if err != nil {
		out.Failure = ffail("HARNESS", "world", 0, "valid config rejected: %v\n%s", err, src)
		return out
	}
	defer w.close()
	if c.Blank != "" {
		out.Labels["blank-token-loaded"] = true
		out.NonTriv = true
	}
	// loaded authorizers are non-nil for each endpoint
	w.state.mu.RLock()
	for i, r := range c.Routes {
		if len(r.Tokens) > 0 && w.state.pullByRoute[fmt.Sprintf("/r%d", i)] == nil {
			out.Failure = ffail("C11", "route-authorizer-missing", 0, "route /r%d declares pull tokens but has no authorizer loaded", i)
		}
	}
	w.state.mu.RUnlock()
	if out.Failure != nil {
		return out
	}
	// worker transport wired as startServers does
	ph := pullapi.NewServer(w.store)
	ph.ResolveRoute = w.state.resolvePull
	ph.Authorize = w.state.authorizePull
	wk := workerapi.NewServer(ph)
	wk.ResolveRoute = w.state.resolvePull
	wk.Authorize = w.state.authorizeWorker
	wk.PlanRequest = w.state.planWorker // as startServers wires it

	// population: per route two queued messages and one leased (lease id known)
	leases := map[int]string{}
	for i := range c.Routes {
		route := fmt.Sprintf("/r%d", i)
		for k := 0; k < 3; k++ {
			if err := w.store.Enqueue(queue.Envelope{ID: fmt.Sprintf("m%d_%d", i, k), Route: route, Target: "pull", Payload: []byte("p")}); err != nil {
				out.Failure = ffail("HARNESS", "populate", 0, "%v", err)
				return out
			}
		}
		resp, err := w.store.Dequeue(queue.DequeueRequest{Route: route, Target: "pull", Batch: 1, LeaseTTL: time.Hour})
		if err != nil || len(resp.Items) != 1 {
			out.Failure = ffail("HARNESS", "populate", 0, "dequeue: %v", err)
			return out
		}
		leases[i] = resp.Items[0].LeaseID
	}
	if err := w.store.Enqueue(queue.Envelope{ID: "dead1", Route: "/r0", Target: "pull", Payload: []byte("p")}); err == nil {
		if resp, err := w.store.Dequeue(queue.DequeueRequest{Route: "/r0", Target: "pull", Batch: 5, LeaseTTL: time.Hour}); err == nil {
			for _, it := range resp.Items {
				if it.ID == "dead1" {
					_ = w.store.MarkDead(it.LeaseID, "no_retry")
				} else {
					_ = w.store.Nack(it.LeaseID, 0)
				}
			}
		}
	}

	pullPrefix, adminPrefix := "", ""
	if c.Prefix || c.Shared {
		pullPrefix = "/p"
		adminPrefix = "/adm"
	}
	for i, r := range c.Reqs {
		values := credValues(c, r)
		before, _ := w.dump()
		var stCode int
		var unauth bool
		var gotItems bool
		switch r.API {
		case "pull":
			ep := fmt.Sprintf("/pull/r%d", r.Route)
			lease := leases[r.Route]
			if lease == "" {
				lease = "lease_unknown"
			}
			var body string
			switch r.Op {
			case "dequeue":
				body = `{"batch":2}`
			case "ack":
				body = fmt.Sprintf(`{"lease_id":%q}`, lease)
				if r.Batch {
					body = fmt.Sprintf(`{"lease_ids":[%q]}`, lease)
				}
			case "nack":
				body = fmt.Sprintf(`{"lease_id":%q,"delay":"0s"}`, lease)
				if r.Batch {
					body = fmt.Sprintf(`{"lease_ids":[%q]}`, lease)
				}
			case "extend":
				body = fmt.Sprintf(`{"lease_id":%q,"extend_by":"10s"}`, lease)
			}
			method := r.Method
			if method == "" {
				method = "POST"
			}
			reqPath := pullPrefix + ep + "/" + r.Op
			switch r.PathVar {
			case "dslash":
				reqPath = pullPrefix + ep + "//" + r.Op
			case "trailing":
				reqPath = pullPrefix + ep + "/" + r.Op + "/"
			case "dot":
				reqPath = pullPrefix + ep + "/./" + r.Op
			case "dotdot":
				reqPath = pullPrefix + ep + "/x/../" + r.Op
			case "dotdot-other":
				other := (r.Route + 1) % (len(c.Routes) + 1)
				reqPath = fmt.Sprintf("%s/pull/r%d/../r%d/%s", pullPrefix, other, r.Route, r.Op)
			}
			if r.PathVar != "" {
				out.Labels["non-canonical-pull-path"] = true
			}
			fr := FReq{Method: method, Path: reqPath, Host: "pull.example.com", Remote: "203.0.113.7:1", Body: []byte(body)}
			fr.Headers = append(fr.Headers, [2]string{"Content-Type", "application/json"})
			for _, v := range values {
				fr.Headers = append(fr.Headers, [2]string{"Authorization", v})
			}
			rec := serve(w.pull, fr)
			stCode = rec.Code
			unauth = rec.Code == 401 || (method != "POST" && rec.Code == 405)
			gotItems = strings.Contains(rec.Body.String(), `"lease_id"`)
		case "worker":
			ep := fmt.Sprintf("/pull/r%d", r.Route)
			switch r.PathVar {
			case "dslash":
				ep = fmt.Sprintf("//pull//r%d", r.Route)
			case "trailing":
				ep += "/"
			case "dot":
				ep += "/."
			case "dotdot":
				ep = fmt.Sprintf("/pull/x/../r%d", r.Route)
			case "dotdot-other":
				ep = fmt.Sprintf("/pull/r%d/../r%d", (r.Route+1)%(len(c.Routes)+1), r.Route)
			case "space":
				ep = " " + ep + " "
			}
			if r.PathVar != "" {
				out.Labels["non-canonical-worker-endpoint"] = true
			}
			lease := leases[r.Route]
			if lease == "" {
				lease = "lease_unknown"
			}
			md := metadata.MD{}
			for _, v := range values {
				if strings.ContainsAny(v, "\x00") {
					// not a legal gRPC metadata value on the wire; skip this credential shape
					v = strings.ReplaceAll(v, "\x00", "")
					v += "x"
				}
				md.Append("authorization", v)
			}
			values = md.Get("authorization")
			ctx := metadata.NewIncomingContext(context.Background(), md)
			var err error
			switch r.Op {
			case "dequeue":
				var resp *workerapipb.DequeueResponse
				resp, err = wk.Dequeue(ctx, &workerapipb.DequeueRequest{Endpoint: ep, Batch: 2})
				gotItems = resp != nil && len(resp.GetItems()) > 0
			case "ack":
				if r.Batch {
					_, err = wk.Ack(ctx, &workerapipb.AckRequest{Endpoint: ep, LeaseIds: []string{lease}})
				} else {
					_, err = wk.Ack(ctx, &workerapipb.AckRequest{Endpoint: ep, LeaseId: lease})
				}
			case "nack":
				_, err = wk.Nack(ctx, &workerapipb.NackRequest{Endpoint: ep, LeaseId: lease})
			case "extend":
				_, err = wk.Extend(ctx, &workerapipb.ExtendRequest{Endpoint: ep, LeaseId: lease, ExtendBy: durationpb.New(10 * time.Second)})
			}
			code := status.Code(err)
			unauth = code == codes.Unauthenticated
			// a non-canonical spelling of an endpoint may also simply not exist on this transport:
			// what matters is that a caller outside the allowlist of the endpoint it spells gets nothing done
			if r.PathVar != "" && code == codes.NotFound {
				unauth = true
			}
			stCode = int(code)
		case "admin":
			var epi int
			fmt.Sscan(r.Op, &epi)
			ep := c11AdminEndpoints[epi%len(c11AdminEndpoints)]
			method := ep[0]
			if r.Method != "" {
				method = r.Method
			}
			body := `{}`
			switch ep[1] {
			case "/messages/cancel", "/messages/requeue", "/messages/resume", "/dlq/requeue", "/dlq/delete":
				body = `{"ids":["m0_1","dead1"]}`
			case "/messages/cancel_by_filter", "/messages/requeue_by_filter", "/messages/resume_by_filter":
				body = `{"route":"/r0","limit":10}`
			case "/messages/publish":
				body = `{"items":[{"id":"pub1","route":"/r0","target":"pull","payload_b64":"eA=="}]}`
			}
			fr := FReq{Method: method, Path: adminPrefix + ep[1], Host: "admin.example.com", Remote: "127.0.0.1:1", Body: []byte(body)}
			fr.Headers = append(fr.Headers, [2]string{"Content-Type", "application/json"}, [2]string{"X-Hookaido-Audit-Reason", "verif"})
			for _, v := range values {
				fr.Headers = append(fr.Headers, [2]string{"Authorization", v})
			}
			rec := serve(w.adminH, fr)
			stCode = rec.Code
			unauth = rec.Code == 401
		}
		after, _ := w.dump()
		changed := dumpKey(before) != dumpKey(after)

		var allowed []string
		judged := true
		switch r.API {
		case "admin":
			allowed = c.adminAllowed()
			if len(c.Admin) == 0 {
				judged = false // no admin tokens configured: the statement does not apply
			}
		default:
			allowed = c.effective(r.Route)
			if r.Route >= len(c.Routes) {
				// unknown endpoint: falls to the global list (possibly empty); it can never touch a queue
				if len(allowed) == 0 {
					judged = false
				}
			}
		}
		lenient := lenientMatch(values, allowed)
		strict := strictMatch(values, allowed)
		out.Labels["api-"+r.API] = true
		if r.Cred.Variant != "exact" && r.Cred.Src == "own" || r.Cred.Src == "other" || (r.Cred.Src == "global" && r.API != "admin" && r.Route < len(c.Routes) && len(c.Routes[r.Route].Tokens) > 0) {
			if _, ok := c.tokenFor(r); ok {
				out.Labels["near-miss"] = true
				out.NonTriv = true
			}
		}
		if !judged {
			out.Labels["not-judged-no-allowlist"] = true
			if r.API != "admin" && changed {
				out.Failure = ffail("C11", "unknown-endpoint-changed-queue", i, "request %s to an unconfigured endpoint changed the queue", reqJSON(r))
				return out
			}
			continue
		}
		switch {
		case !lenient:
			out.Labels["must-reject"] = true
			if !unauth {
				out.Failure = ffail("C11", "unauthorized-not-rejected", i, "%s request %s with credentials %q answered %d; allowlist %v", r.API, reqJSON(r), values, stCode, allowed)
				return out
			}
			if changed || gotItems {
				out.Failure = ffail("C11", "unauthorized-had-effect", i, "%s request %s with credentials %q changed the queue or returned items", r.API, reqJSON(r), values)
				return out
			}
		case strict && r.API == "worker" && r.PathVar != "":
			// whether a non-canonical spelling names the endpoint at all on this transport is not specified
			out.Labels["worker-non-canonical-authorized"] = true
		case strict:
			out.Labels["must-accept"] = true
			if unauth && !(r.API == "pull" && r.Method != "" && r.Method != "POST") {
				out.Failure = ffail("C11", "authorized-rejected", i, "%s request %s with exact credentials %q answered %d", r.API, reqJSON(r), values, stCode)
				return out
			}
			if r.API == "pull" && r.Method != "" && r.Method != "POST" {
				out.Labels["non-post"] = true
			}
		default:
			out.Labels["unspecified-credential-shape"] = true
			if unauth && (changed || gotItems) {
				out.Failure = ffail("C11", "rejected-but-effect", i, "%s request %s answered unauthorized but changed the queue", r.API, reqJSON(r))
				return out
			}
		}
	}
	return out
}

func reqJSON(v any) string {
	b, _ := json.Marshal(v)
	return string(b)
}

func TestProp_C11_Authz(t *testing.T) {
	frontProp(t, "C11", "TestProp_C11_Authz", genC11Case(), runC11)
}
