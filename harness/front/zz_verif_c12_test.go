//go:build verif

package app

import (
	"encoding/base64"
	"encoding/json"
	"fmt"
	"math"
	"net/http"
	"sort"
	"strconv"
	"strings"
	"sync"
	"testing"
	"time"

	"github.com/nuetzliches/hookaido/internal/queue"
	"github.com/nuetzliches/hookaido/internal/verifkit"
	"pgregory.net/rapid"
)

// ---------------------------------------------------------------------------------------
// C12, ingress/publish level: depth limit and drop policy through the real handlers (fan-out
// prefix rule), body and header size limits, and the ingress rate limiter.
// ---------------------------------------------------------------------------------------

type C12Op struct {
	K       string      `json:"k"` // post | publish | lease | ack
	Route   int         `json:"route"`
	BodyLen int         `json:"body_len,omitempty"`
	Chunked bool        `json:"chunked,omitempty"` // body sent without a declared length
	Headers [][2]string `json:"headers,omitempty"`
	N       int         `json:"n,omitempty"` // publish batch size / lease batch
	DupID   bool        `json:"dup_id,omitempty"`
	// FaultAt > 0: the store answers the FaultAt-th per-target enqueue of this request with a transient error
	FaultAt   int    `json:"fault_at,omitempty"`
	FaultKind string `json:"fault_kind,omitempty"` // full | pressure | other
}

type C12Case struct {
	Backend    string  `json:"backend"`
	Depth      int     `json:"depth"`
	Drop       string  `json:"drop"`
	MaxBody    int     `json:"max_body"`
	MaxHeaders int     `json:"max_headers"`
	Fanout     []int   `json:"fanout"` // targets per route (0: pull route)
	Ops        []C12Op `json:"ops"`
}

func c12Targets(c C12Case, ri int) []string {
	n := c.Fanout[ri]
	if n == 0 {
		return []string{"pull"}
	}
	var out []string
	for k := 0; k < n; k++ {
		out = append(out, fmt.Sprintf("https://t%d-%d.example.org/h", ri, k))
	}
	return out
}

func c12Text(c C12Case) string {
	var b strings.Builder
	b.WriteString("ingress { listen 127.0.0.1:0 }\n")
	b.WriteString("pull_api {\n  listen localhost:0\n  auth token raw:pulltoken\n}\n")
	b.WriteString("admin_api { listen 0.0.0.0:0 }\n")
	fmt.Fprintf(&b, "queue_limits {\n  max_depth %d\n  drop_policy %s\n}\n", c.Depth, c.Drop)
	fmt.Fprintf(&b, "defaults {\n  max_body %db\n  max_headers %db\n  deliver {\n    retry exponential max 3 base 1h cap 1h jitter 0\n  }\n}\n", c.MaxBody, c.MaxHeaders)
	for i := range c.Fanout {
		fmt.Fprintf(&b, "/r%d {\n", i)
		if c.Fanout[i] == 0 {
			fmt.Fprintf(&b, "  pull { path /pull/r%d }\n", i)
		} else {
			for _, t := range c12Targets(c, i) {
				fmt.Fprintf(&b, "  deliver %s {\n  }\n", q(t))
			}
		}
		b.WriteString("}\n")
	}
	return b.String()
}

func genC12Case() *rapid.Generator[C12Case] {
	return rapid.Custom(func(t *rapid.T) C12Case {
		c := C12Case{Backend: rapid.SampledFrom([]string{"memory", "sqlite"}).Draw(t, "backend")}
		c.Depth = rapid.SampledFrom([]int{1, 2, 3, 4, 6}).Draw(t, "depth")
		c.Drop = rapid.SampledFrom([]string{"reject", "drop_oldest"}).Draw(t, "drop")
		c.MaxBody = rapid.SampledFrom([]int{1, 8, 64}).Draw(t, "max_body")
		c.MaxHeaders = rapid.SampledFrom([]int{16, 40, 200, 65536}).Draw(t, "max_headers")
		nr := rapid.IntRange(1, 3).Draw(t, "nroutes")
		hasPull := false
		for i := 0; i < nr; i++ {
			f := rapid.SampledFrom([]int{0, 0, 1, 2, 3}).Draw(t, "fanout")
			if f == 0 {
				hasPull = true
			}
			c.Fanout = append(c.Fanout, f)
		}
		if !hasPull {
			c.Fanout[0] = 0
		}
		nroutes := len(c.Fanout)
		maxBody, maxHeaders := c.MaxBody, c.MaxHeaders
		g := rapid.Custom(func(t *rapid.T) C12Op {
			op := C12Op{K: rapid.SampledFrom([]string{"post", "post", "post", "post", "publish", "publish", "lease", "lease", "ack"}).Draw(t, "k")}
			op.Route = rapid.IntRange(0, nroutes-1).Draw(t, "route")
			switch op.K {
			case "post":
				op.BodyLen = rapid.SampledFrom([]int{0, 1, maxBody - 1, maxBody, maxBody, maxBody + 1, maxBody + 1, 3*maxBody + 7, 100 * maxBody}).Draw(t, "body_len")
				if op.BodyLen < 0 {
					op.BodyLen = 0
				}
				op.Chunked = rapid.IntRange(0, 2).Draw(t, "chunked") == 0
				if rapid.IntRange(0, 2).Draw(t, "hdrs") == 0 {
					// header bytes around max_headers: name "X-Pad" (5) + value
					vlen := rapid.SampledFrom([]int{0, 1, maxHeaders - 6, maxHeaders - 5, maxHeaders - 4, maxHeaders}).Draw(t, "vlen")
					if vlen < 0 {
						vlen = 0
					}
					if vlen > 70000 {
						vlen = 70000
					}
					op.Headers = append(op.Headers, [2]string{"X-Pad", strings.Repeat("h", vlen)})
					if rapid.Bool().Draw(t, "auth_hdr") {
						op.Headers = append(op.Headers, [2]string{"Authorization", "Bearer zzzzzzzzzzzz"})
					}
				}
				if rapid.IntRange(0, 5).Draw(t, "fault") == 0 {
					op.FaultAt = rapid.IntRange(1, 3).Draw(t, "fault_at")
					op.FaultKind = rapid.SampledFrom([]string{"full", "pressure", "other"}).Draw(t, "fault_kind")
				}
			case "publish":
				op.N = rapid.SampledFrom([]int{1, 2, 3, 4, 7}).Draw(t, "n")
				op.DupID = rapid.IntRange(0, 5).Draw(t, "dup") == 0
			case "lease":
				op.N = rapid.SampledFrom([]int{1, 1, 2, 5}).Draw(t, "n")
			}
			return op
		})
		c.Ops = rapid.SliceOfN(g, 2, 16).Draw(t, "ops")
		return c
	})
}

func activeCount(ms []fMsg) (active, queued int) {
	for _, m := range ms {
		if m.State == "queued" {
			active++
			queued++
		} else if m.State == "leased" {
			active++
		}
	}
	return
}

func runC12(c C12Case, _ bool) *fOutcome {
	out := newFOutcome()
	w, err := newFrontWorld(c12Text(c), worldOpts{backend: c.Backend, faults: true})
	if err != nil {
		out.Failure = ffail("HARNESS", "world", 0, "%v\n%s", err, c12Text(c))
		return out
	}
	defer w.close()
	var leases []string
	pubSeq := 0
	for i, op := range c.Ops {
		before, err := w.dump()
		if err != nil {
			out.Failure = ffail("HARNESS", "dump", i, "%v", err)
			return out
		}
		a, _ := activeCount(before)
		leasedBefore := a > 0 && func() bool {
			for _, m := range before {
				if m.State == "leased" {
					return true
				}
			}
			return false
		}()
		beforeByID := map[string]fMsg{}
		for _, m := range before {
			beforeByID[m.ID] = m
		}
		route := fmt.Sprintf("/r%d", op.Route)
		targets := c12Targets(c, op.Route)
		diff := func() (added, removed []fMsg, after []fMsg) {
			after, _ = w.dump()
			afterIDs := map[string]bool{}
			for _, m := range after {
				afterIDs[m.ID] = true
				if _, was := beforeByID[m.ID]; !was {
					added = append(added, m)
				}
			}
			for _, m := range before {
				if !afterIDs[m.ID] {
					removed = append(removed, m)
				}
			}
			return
		}
		unchanged := func(after []fMsg) bool { return dumpKey(before) == dumpKey(after) }
		switch op.K {
		case "post":
			body := []byte(strings.Repeat("b", op.BodyLen))
			req := FReq{Method: "POST", Path: route, Host: "h", Remote: "203.0.113.9:1", Headers: op.Headers, Body: body, Chunked: op.Chunked}
			faultIdx := 0
			if op.FaultAt > 0 && op.FaultAt <= len(targets) {
				faultIdx = op.FaultAt
				ferr := map[string]error{"full": queue.ErrQueueFull, "pressure": queue.ErrMemoryPressure}[op.FaultKind]
				if ferr == nil {
					ferr = errInjected
				}
				w.faults.arm(map[int]error{faultIdx: ferr})
			}
			rec := serve(w.ingress, req)
			w.faults.arm(nil)
			added, removed, after := diff()
			if faultIdx > 0 && rec.Code != 413 {
				// the store refused the copy for target #faultIdx: the request must be answered 503 and keep
				// exactly the copies for the targets before it (when those were admitted at all)
				out.Labels["injected-enqueue-fault"] = true
				if rec.Code == 202 {
					out.Failure = ffail("C12,C01", "fault-answered-202", i, "POST %s: the store refused the copy for target %d of %d (%s) but the request was answered 202; stored %v", route, faultIdx, len(targets), op.FaultKind, targetsOf(added))
					return out
				}
				if rec.Code == 503 {
					for _, m := range added {
						pos := -1
						for k, t := range targets {
							if t == m.Target {
								pos = k + 1
							}
						}
						if pos >= faultIdx {
							out.Failure = ffail("C12,C01", "fault-not-prefix", i, "POST %s: refused at target %d of %d but a copy for target %d is stored (%v)", route, faultIdx, len(targets), pos, targetsOf(added))
							return out
						}
					}
					if faultIdx > 1 && len(added) > 0 {
						out.NonTriv = true
					}
				}
				_ = removed
				_ = after
				continue
			}
			stored := expectedStored(op.Headers)
			lower := 0
			for k, v := range stored {
				lower += len(k) + len(v)
			}
			upper := 0
			for _, kv := range op.Headers {
				upper += len(kv[0]) + len(kv[1]) + 4
			}
			mustBody413 := op.BodyLen > c.MaxBody
			if op.Chunked {
				out.Labels["undeclared-length"] = true
			}
			mustHdr413 := lower > c.MaxHeaders
			mayHdr413 := upper > c.MaxHeaders
			mk := func(clause, format string, args ...any) bool {
				out.Failure = ffail("C12", clause, i, "POST %s body=%d hdr(lower=%d upper=%d) cfg=%s active=%d: "+format,
					append([]any{route, op.BodyLen, lower, upper, cfgStr(c), a}, args...)...)
				return true
			}
			switch {
			case rec.Code == 413:
				out.Labels["413"] = true
				if !mustBody413 && !mayHdr413 {
					mk("unexpected-413", "answered 413 although body and headers are within the limits")
					return out
				}
				if !unchanged(after) {
					mk("refused-but-changed", "413 but the queue changed")
					return out
				}
				if op.BodyLen == c.MaxBody+1 || (mustHdr413 && lower <= c.MaxHeaders+1) {
					out.NonTriv = true
				}
			case mustBody413 || mustHdr413:
				mk("oversize-accepted", "answered %d, expected 413", rec.Code)
				return out
			case rec.Code == 202:
				out.Labels["202"] = true
				for _, m := range added {
					if m.Route != route || m.State != "queued" || len(m.Payload) != op.BodyLen {
						mk("stored-shape", "stored %+v", m)
						return out
					}
				}
				for _, m := range removed {
					if m.State != "queued" {
						mk("evicted-non-queued", "accepting the request removed %s in state %s", m.ID, m.State)
						return out
					}
				}
				if c.Drop == "reject" {
					if len(removed) != 0 {
						mk("reject-evicted", "reject policy removed %d messages", len(removed))
						return out
					}
					if len(added) != len(targets) {
						mk("accepted-count", "202 stored %d messages for %d targets", len(added), len(targets))
						return out
					}
					if a+len(targets) > c.Depth {
						mk("admitted-above-depth", "202 although active %d + %d targets exceeds max_depth %d", a, len(targets), c.Depth)
						return out
					}
				} else {
					evictions := a + len(targets) - c.Depth
					if evictions < 0 {
						evictions = 0
					}
					if len(removed)+(len(targets)-len(added)) != evictions {
						mk("eviction-count", "202 for %d targets: %d old messages removed, %d own copies missing, expected %d evictions", len(targets), len(removed), len(targets)-len(added), evictions)
						return out
					}
					if len(added) == 0 || !hasTarget(added, targets[len(targets)-1]) {
						mk("last-copy-missing", "202 but the copy for the last target is not stored")
						return out
					}
					if len(removed) > 0 {
						out.Labels["evicted"] = true
						if leasedBefore {
							out.NonTriv = true
						}
					}
				}
				if act, _ := activeCount(after); act > c.Depth {
					mk("above-depth-after", "active %d exceeds max_depth %d after the request", act, c.Depth)
					return out
				}
			case rec.Code == 503:
				out.Labels["503"] = true
				// fan-out refused part-way keeps the copies stored for the earlier targets
				if len(added) >= len(targets) {
					mk("refused-but-all-stored", "503 but %d copies for %d targets are stored", len(added), len(targets))
					return out
				}
				for k, m := range sortByTargetOrder(added, targets) {
					if m.Target != targets[k] {
						mk("fanout-not-prefix", "503 kept copies for targets %v, not a prefix of %v", targetsOf(added), targets)
						return out
					}
				}
				for _, m := range removed {
					if m.State != "queued" || c.Drop == "reject" {
						mk("refusal-removed", "503 removed %s (%s)", m.ID, m.State)
						return out
					}
				}
				actAfter, queuedAfter := activeCount(after)
				if actAfter < c.Depth {
					mk("refused-below-depth", "503 although only %d of max_depth %d are active afterwards", actAfter, c.Depth)
					return out
				}
				if c.Drop == "drop_oldest" && queuedAfter > 0 && c.Backend != "memory" {
					mk("refused-with-droppable", "drop_oldest refused although %d queued messages could be dropped", queuedAfter)
					return out
				}
				if leasedBefore || len(added) > 0 {
					out.NonTriv = true
				}
				if len(added) > 0 {
					out.Labels["fanout-partial"] = true
				}
			default:
				mk("unexpected-status", "answered %d", rec.Code)
				return out
			}
		case "publish":
			var items []map[string]any
			for k := 0; k < op.N; k++ {
				pubSeq++
				id := fmt.Sprintf("pub-%d", pubSeq)
				if op.DupID && k == op.N-1 && len(before) > 0 {
					id = before[0].ID
				}
				items = append(items, map[string]any{"id": id, "route": route, "target": targets[0], "payload_b64": base64.StdEncoding.EncodeToString([]byte("p"))})
			}
			body, _ := json.Marshal(map[string]any{"items": items})
			req := FReq{Method: "POST", Path: "/messages/publish", Host: "a", Remote: "127.0.0.1:1", Body: body,
				Headers: [][2]string{{"Content-Type", "application/json"}, {"X-Hookaido-Audit-Reason", "verif"}}}
			rec := serve(w.adminH, req)
			added, removed, after := diff()
			switch {
			case rec.Code == 200:
				out.Labels["publish-200"] = true
				if len(added) != op.N && !(c.Drop == "drop_oldest" && op.N > c.Depth) {
					out.Failure = ffail("C12,C15", "publish-count", i, "publish of %d answered 200 and stored %d (cfg %s)", op.N, len(added), cfgStr(c))
					return out
				}
				for _, m := range removed {
					if m.State != "queued" || c.Drop != "drop_oldest" {
						out.Failure = ffail("C12", "publish-evicted", i, "publish removed %s (%s) under policy %s", m.ID, m.State, c.Drop)
						return out
					}
				}
				if c.Drop == "reject" && a+op.N > c.Depth {
					out.Failure = ffail("C12", "publish-above-depth", i, "publish of %d admitted with active %d, max_depth %d", op.N, a, c.Depth)
					return out
				}
				if act, _ := activeCount(after); act > c.Depth {
					out.Failure = ffail("C12", "above-depth-after", i, "active %d exceeds max_depth %d after publish", act, c.Depth)
					return out
				}
				if a+op.N > c.Depth {
					out.NonTriv = true
					out.Labels["batch-straddles-capacity"] = true
				}
			default:
				out.Labels[fmt.Sprintf("publish-%d", rec.Code)] = true
				if !unchanged(after) {
					out.Failure = ffail("C12,C15", "publish-refused-but-changed", i, "publish of %d answered %d %s but the queue changed (+%d -%d) cfg %s", op.N, rec.Code, strings.TrimSpace(rec.Body.String()), len(added), len(removed), cfgStr(c))
					return out
				}
				if rec.Code == 503 && a < c.Depth && a+op.N > c.Depth {
					out.NonTriv = true
					out.Labels["batch-straddles-capacity"] = true
				}
			}
		case "lease":
			resp, err := w.store.Dequeue(queue.DequeueRequest{Batch: op.N, LeaseTTL: time.Hour})
			if err == nil {
				for _, it := range resp.Items {
					leases = append(leases, it.LeaseID)
				}
			}
		case "ack":
			if len(leases) > 0 {
				_ = w.store.Ack(leases[0])
				leases = leases[1:]
			}
		}
	}
	return out
}

func hasTarget(ms []fMsg, t string) bool {
	for _, m := range ms {
		if m.Target == t {
			return true
		}
	}
	return false
}

func targetsOf(ms []fMsg) []string {
	var out []string
	for _, m := range ms {
		out = append(out, m.Target)
	}
	return out
}

func sortByTargetOrder(ms []fMsg, targets []string) []fMsg {
	idx := map[string]int{}
	for i, t := range targets {
		idx[t] = i
	}
	out := append([]fMsg(nil), ms...)
	sort.Slice(out, func(i, j int) bool { return idx[out[i].Target] < idx[out[j].Target] })
	return out
}

func cfgStr(c C12Case) string {
	return fmt.Sprintf("{%s depth=%d %s max_body=%d max_headers=%d fanout=%v}", c.Backend, c.Depth, c.Drop, c.MaxBody, c.MaxHeaders, c.Fanout)
}

func TestProp_C12_Ingress(t *testing.T) {
	frontProp(t, "C12", "TestProp_C12_Ingress", genC12Case(), runC12)
}

// ------------------------------------------------------------------------------ rate limit

type RLArrival struct {
	GapNs int64 `json:"gap_ns"`
	Route int   `json:"route"` // 0: /a (may have an override), 1: /b, 2: /c (both on the global limiter)
	G     int   `json:"g"`     // concurrent callers at this instant
}

type C12RLCase struct {
	GlobalRPS   string      `json:"global_rps,omitempty"`
	GlobalBurst int         `json:"global_burst,omitempty"`
	RouteRPS    string      `json:"route_rps,omitempty"`
	RouteBurst  int         `json:"route_burst,omitempty"`
	Arrivals    []RLArrival `json:"arrivals"`
}

func rlText(c C12RLCase) string {
	var b strings.Builder
	b.WriteString("ingress {\n  listen 127.0.0.1:0\n")
	if c.GlobalRPS != "" {
		fmt.Fprintf(&b, "  rate_limit {\n    rps %s\n", c.GlobalRPS)
		if c.GlobalBurst > 0 {
			fmt.Fprintf(&b, "    burst %d\n", c.GlobalBurst)
		}
		b.WriteString("  }\n")
	}
	b.WriteString("}\npull_api {\n  listen localhost:0\n  auth token raw:pulltoken\n}\nadmin_api { listen 0.0.0.0:0 }\n")
	b.WriteString("/a {\n")
	if c.RouteRPS != "" {
		fmt.Fprintf(&b, "  rate_limit {\n    rps %s\n", c.RouteRPS)
		if c.RouteBurst > 0 {
			fmt.Fprintf(&b, "    burst %d\n", c.RouteBurst)
		}
		b.WriteString("  }\n")
	}
	b.WriteString("  pull { path /pull/a }\n}\n/b {\n  pull { path /pull/b }\n}\n/c {\n  pull { path /pull/c }\n}\n")
	return b.String()
}

func effBurst(rps float64, burst int) float64 {
	if burst > 0 {
		return float64(burst)
	}
	b := math.Ceil(rps)
	if b < 1 || math.IsNaN(b) {
		b = 1
	}
	return b
}

func genRLCase() *rapid.Generator[C12RLCase] {
	rpsPool := []string{"0.5", "1", "2", "10", "1000", "0.001", "2.5", "nan", "inf"}
	return rapid.Custom(func(t *rapid.T) C12RLCase {
		var c C12RLCase
		if rapid.IntRange(0, 4).Draw(t, "has_global") > 0 {
			c.GlobalRPS = rapid.SampledFrom(rpsPool).Draw(t, "grps")
			c.GlobalBurst = rapid.SampledFrom([]int{0, 1, 2, 5}).Draw(t, "gburst")
		}
		if rapid.IntRange(0, 2).Draw(t, "has_route") > 0 {
			c.RouteRPS = rapid.SampledFrom(rpsPool).Draw(t, "rrps")
			c.RouteBurst = rapid.SampledFrom([]int{0, 1, 3}).Draw(t, "rburst")
		}
		g := rapid.Custom(func(t *rapid.T) RLArrival {
			return RLArrival{
				// negative gaps: a request that read the clock earlier reaches the bucket later (what concurrency between
				// the clock read and the bucket produces)
				GapNs: rapid.SampledFrom([]int64{0, 0, 1, 1000, 1e6, 1e8, 5e8, 1e9, 2e9, 1e10, 999999999, 1000000001, -1, -1e6, -5e8, -1e9}).Draw(t, "gap"),
				Route: rapid.SampledFrom([]int{0, 0, 1, 2}).Draw(t, "route"),
				G:     rapid.SampledFrom([]int{1, 1, 1, 2, 4, 16}).Draw(t, "g"),
			}
		})
		c.Arrivals = rapid.SliceOfN(g, 3, 40).Draw(t, "arrivals")
		return c
	})
}

func runC12RL(c C12RLCase, tolerate bool) *fOutcome {
	out := newFOutcome()
	src := rlText(c)
	w, err := newFrontWorld(src, worldOpts{})
	if err != nil {
		out.Skipped = "config rejected: " + err.Error()
		out.Labels["config-rejected"] = true
		return out
	}
	defer w.close()
	type lim struct {
		rps, burst float64
		times      []int64 // admission instants
		latest     int64   // newest clock reading this bucket has seen
	}
	parse := func(s string) float64 { f, _ := strconv.ParseFloat(s, 64); return f }
	var global, route *lim
	if c.GlobalRPS != "" {
		r := parse(c.GlobalRPS)
		global = &lim{rps: r, burst: effBurst(r, c.GlobalBurst)}
	}
	if c.RouteRPS != "" {
		r := parse(c.RouteRPS)
		route = &lim{rps: r, burst: effBurst(r, c.RouteBurst)}
	}
	paths := []string{"/a", "/b", "/c"}
	for i, ar := range c.Arrivals {
		w.clk.add(time.Duration(ar.GapNs))
		now := w.clk.since().Nanoseconds()
		l := global
		if ar.Route == 0 && route != nil {
			l = route
		}
		st0, _ := w.store.Stats()
		codes := make([]int, ar.G)
		var wg sync.WaitGroup
		for g := 0; g < ar.G; g++ {
			wg.Add(1)
			go func(g int) {
				defer wg.Done()
				codes[g] = serve(w.ingress, FReq{Method: "POST", Path: paths[ar.Route], Host: "h", Remote: "203.0.113.9:1", Body: []byte("x")}).Code
			}(g)
		}
		wg.Wait()
		admitted := 0
		for _, cd := range codes {
			switch cd {
			case http.StatusAccepted:
				admitted++
			case http.StatusTooManyRequests:
				out.Labels["429"] = true
			default:
				out.Failure = ffail("C12", "rl-unexpected-status", i, "status %d", cd)
				return out
			}
		}
		st1, _ := w.store.Stats()
		if st1.Total-st0.Total != admitted {
			out.Failure = ffail("C12", "rl-rejected-but-stored", i, "%d admitted but %d messages stored", admitted, st1.Total-st0.Total)
			return out
		}
		if l == nil {
			if admitted != ar.G {
				out.Failure = ffail("C12", "rl-limited-without-limiter", i, "route %s has no limiter but %d of %d were refused", paths[ar.Route], ar.G-admitted, ar.G)
				return out
			}
			continue
		}
		// a request admitted with a stale clock reading is admitted no earlier than the newest reading
		// the bucket has already seen: that instant, not the stale reading, is when it was admitted
		if now > l.latest {
			l.latest = now
		}
		for k := 0; k < admitted; k++ {
			l.times = append(l.times, l.latest)
		}
		if ar.G > 1 {
			out.Labels["concurrent-arrivals"] = true
		}
		// window bound over every pair of admitted arrivals (timestamps as read by the requests; they
		// need not arrive in order)
		sorted := append([]int64(nil), l.times...)
		sort.Slice(sorted, func(i, j int) bool { return sorted[i] < sorted[j] })
		n := len(sorted)
		if ar.GapNs < 0 {
			out.Labels["out-of-order-arrival"] = true
		}
		for a := 0; a < n && admitted > 0; a++ {
			for bEnd := a; bEnd < n; bEnd++ {
				if bEnd+1 < n && sorted[bEnd+1] == sorted[bEnd] {
					continue // extend to the end of a group of equal timestamps
				}
				cnt := bEnd - a + 1
				win := float64(sorted[bEnd]-sorted[a]) / 1e9
				rps := l.rps
				if math.IsNaN(rps) {
					rps = 0 // "not a number" is no rate: only the burst may be admitted
				}
				bound := l.burst + rps*win
				if float64(cnt) > bound*(1+1e-9)+1e-9 {
					f := ffail("C12", "rate-bound", i, "limiter rps=%v burst=%v admitted %d requests in a window of %.9fs (bound %.3f); config:\n%s", l.rps, l.burst, cnt, win, bound, src)
					if math.IsNaN(l.rps) {
						f.Sig = "rate-limit-rps-nan"
					}
					if f.Sig != "" && tolerate && verifkit.Known(f.Sig) {
						out.Known = append(out.Known, f.Sig)
						return out
					}
					out.Failure = f
					return out
				}
				if float64(cnt) > l.burst {
					out.Labels["admitted-beyond-burst-by-refill"] = true
				}
			}
		}
		if float64(len(l.times)) >= l.burst+1 || out.Labels["429"] {
			out.NonTriv = true
		}
	}
	return out
}

func TestProp_C12_RateLimit(t *testing.T) {
	frontProp(t, "C12", "TestProp_C12_RateLimit", genRLCase(), runC12RL)
}

// TestProp_C01_FanoutFault: C01's in-process tier. Same machinery as the C12 ingress tier with
// store faults injected into the per-target enqueues; only clauses that belong to C01 (a 202 that
// does not stand for one committed copy per target) are reported here.
func runC01Fault(c C12Case, tolerate bool) *fOutcome {
	out := runC12(c, tolerate)
	if out.Failure != nil && out.Failure.Prop != "HARNESS" {
		keep := false
		for _, p := range strings.Split(out.Failure.Prop, ",") {
			if strings.TrimSpace(p) == "C01" {
				keep = true
			}
		}
		if !keep {
			out.Labels["foreign-clause:"+out.Failure.Clause] = true
			out.Failure = nil
		}
	}
	return out
}

func TestProp_C01_FanoutFault(t *testing.T) {
	frontProp(t, "C01", "TestProp_C01_FanoutFault", genC12Case(), runC01Fault)
}
