//go:build verif

package app

import (
	"encoding/json"
	"fmt"
	"sort"
	"strings"
	"testing"
	"time"

	"github.com/nuetzliches/hookaido/internal/queue"
	"pgregory.net/rapid"
)

// ---------------------------------------------------------------------------------------
// C14, Admin HTTP tier: operator queue mutations through the real Admin handlers.
// ---------------------------------------------------------------------------------------

type C14Msg struct {
	Route   int    `json:"route"` // 0: /a (pull) 1: /b (deliver) 2: /c (pull)
	State   string `json:"state"`
	RecvAgo int    `json:"recv_ago_s"` // received_at = T0 - RecvAgo seconds (ties on purpose)
}

type C14Req struct {
	Op      string   `json:"op"` // cancel | requeue | resume | dlq-requeue | dlq-delete | cancelf | requeuef | resumef
	IDs     []string `json:"ids,omitempty"`
	Route   string   `json:"route,omitempty"`
	Target  string   `json:"target,omitempty"`
	State   string   `json:"state,omitempty"`
	Before  int      `json:"before_ago_s,omitempty"` // 0: none; else T0 - n seconds
	Limit   int      `json:"limit,omitempty"`
	Preview bool     `json:"preview,omitempty"`
	Extra   bool     `json:"extra,omitempty"` // unknown JSON field
}

type C14Case struct {
	Backend string   `json:"backend"`
	Msgs    []C14Msg `json:"msgs"`
	Reqs    []C14Req `json:"reqs"`
}

var (
	c14Routes  = []string{"/a", "/b", "/c"}
	c14Targets = []string{"pull", "https://b.example.org/h", "pull"}
)

func c14Text() string {
	return "ingress { listen 127.0.0.1:0 }\npull_api {\n  listen localhost:0\n  auth token raw:t\n}\nadmin_api { listen 0.0.0.0:0 }\n" +
		"defaults {\n  deliver {\n    retry exponential max 3 base 1h cap 1h jitter 0\n  }\n}\n" +
		"/a {\n  pull { path /pull/a }\n}\n/b {\n  deliver \"https://b.example.org/h\" {\n  }\n}\n/c {\n  pull { path /pull/c }\n}\n"
}

func genC14Case() *rapid.Generator[C14Case] {
	return rapid.Custom(func(t *rapid.T) C14Case {
		c := C14Case{Backend: rapid.SampledFrom([]string{"memory", "sqlite"}).Draw(t, "backend")}
		mg := rapid.Custom(func(t *rapid.T) C14Msg {
			return C14Msg{Route: rapid.IntRange(0, 2).Draw(t, "route"),
				State:   rapid.SampledFrom([]string{"queued", "queued", "leased", "dead", "dead", "canceled", "canceled"}).Draw(t, "state"),
				RecvAgo: rapid.SampledFrom([]int{10, 10, 20, 20, 30, 60}).Draw(t, "recv")}
		})
		c.Msgs = rapid.SliceOfN(mg, 0, 14).Draw(t, "msgs")
		n := len(c.Msgs)
		idg := rapid.Custom(func(t *rapid.T) string {
			switch rapid.IntRange(0, 9).Draw(t, "idk") {
			case 0:
				return "nope"
			case 1:
				return ""
			case 2:
				return fmt.Sprintf(" m%d ", rapid.IntRange(0, 13).Draw(t, "i"))
			}
			if n == 0 {
				return "m0"
			}
			return fmt.Sprintf("m%d", rapid.IntRange(0, n-1).Draw(t, "i"))
		})
		rg := rapid.Custom(func(t *rapid.T) C14Req {
			r := C14Req{Op: rapid.SampledFrom([]string{"cancel", "requeue", "resume", "dlq-requeue", "dlq-delete", "cancelf", "cancelf", "requeuef", "requeuef", "resumef"}).Draw(t, "op")}
			if strings.HasSuffix(r.Op, "f") {
				if rapid.Bool().Draw(t, "has_route") {
					r.Route = rapid.SampledFrom(c14Routes).Draw(t, "route")
				}
				if rapid.IntRange(0, 3).Draw(t, "has_target") == 0 {
					r.Target = rapid.SampledFrom(c14Targets).Draw(t, "target")
				}
				r.State = rapid.SampledFrom([]string{"", "", "queued", "leased", "dead", "canceled", "delivered", "bogus"}).Draw(t, "state")
				r.Before = rapid.SampledFrom([]int{0, 0, 10, 20, 30, 15}).Draw(t, "before")
				r.Limit = rapid.SampledFrom([]int{0, 0, 1, 1, 2, 3, -1, 1000, 1001}).Draw(t, "limit")
				r.Preview = rapid.IntRange(0, 3).Draw(t, "preview") == 0
				r.Extra = rapid.IntRange(0, 9).Draw(t, "extra") == 0
			} else {
				r.IDs = rapid.SliceOfN(idg, 0, 5).Draw(t, "ids")
				if len(r.IDs) >= 2 && rapid.IntRange(0, 3).Draw(t, "dup") == 0 {
					r.IDs[len(r.IDs)-1] = r.IDs[0]
				}
			}
			return r
		})
		c.Reqs = rapid.SliceOfN(rg, 1, 4).Draw(t, "reqs")
		return c
	})
}

var c14Allowed = map[string][]string{
	"cancel": {"queued", "leased", "dead"}, "cancelf": {"queued", "leased", "dead"},
	"requeue": {"dead", "canceled"}, "requeuef": {"dead", "canceled"},
	"resume": {"canceled"}, "resumef": {"canceled"},
	"dlq-requeue": {"dead"}, "dlq-delete": {"dead"},
}

func in(s string, l []string) bool {
	for _, x := range l {
		if x == s {
			return true
		}
	}
	return false
}

func runC14(c C14Case, _ bool) *fOutcome {
	out := newFOutcome()
	w, err := newFrontWorld(c14Text(), worldOpts{backend: c.Backend})
	if err != nil {
		out.Failure = ffail("HARNESS", "world", 0, "%v", err)
		return out
	}
	defer w.close()
	// ---- population: messages that stay queued are parked in the future so that the dequeue used to
	// move another message into leased/dead can only pick that one
	for i, m := range c.Msgs {
		id := fmt.Sprintf("m%d", i)
		env := queue.Envelope{ID: id, Route: c14Routes[m.Route], Target: c14Targets[m.Route], Payload: []byte(id), ReceivedAt: fT0.Add(-time.Duration(m.RecvAgo) * time.Second)}
		if m.State == "queued" {
			env.NextRunAt = fT0.Add(time.Hour)
		} else {
			env.NextRunAt = fT0.Add(-time.Hour)
		}
		if err := w.store.Enqueue(env); err != nil {
			out.Failure = ffail("HARNESS", "populate", i, "%v", err)
			return out
		}
		switch m.State {
		case "leased", "dead":
			resp, err := w.store.Dequeue(queue.DequeueRequest{Route: env.Route, Target: env.Target, Batch: 1, LeaseTTL: time.Hour})
			if err != nil || len(resp.Items) != 1 || resp.Items[0].ID != id {
				out.Failure = ffail("HARNESS", "populate", i, "could not lease %s: %v %v", id, err, resp.Items)
				return out
			}
			if m.State == "dead" {
				_ = w.store.MarkDead(resp.Items[0].LeaseID, "no_retry")
			}
		case "canceled":
			_, _ = w.store.CancelMessages(queue.MessageCancelRequest{IDs: []string{id}})
		}
	}
	hdr := [][2]string{{"Content-Type", "application/json"}, {"X-Hookaido-Audit-Reason", "verif"}}
	paths := map[string]string{"cancel": "/messages/cancel", "requeue": "/messages/requeue", "resume": "/messages/resume", "dlq-requeue": "/dlq/requeue", "dlq-delete": "/dlq/delete",
		"cancelf": "/messages/cancel_by_filter", "requeuef": "/messages/requeue_by_filter", "resumef": "/messages/resume_by_filter"}
	for i, r := range c.Reqs {
		before, err := w.dump()
		if err != nil {
			out.Failure = ffail("HARNESS", "dump", i, "%v", err)
			return out
		}
		byID := map[string]fMsg{}
		for _, m := range before {
			byID[m.ID] = m
		}
		body := map[string]any{}
		byFilter := strings.HasSuffix(r.Op, "f")
		if byFilter {
			if r.Route != "" {
				body["route"] = r.Route
			}
			if r.Target != "" {
				body["target"] = r.Target
			}
			if r.State != "" {
				body["state"] = r.State
			}
			if r.Before != 0 {
				body["before"] = fT0.Add(-time.Duration(r.Before) * time.Second).Format(time.RFC3339)
			}
			if r.Limit != 0 {
				body["limit"] = r.Limit
			}
			if r.Preview {
				body["preview_only"] = true
			}
			if r.Extra {
				body["surprise"] = 1
			}
		} else {
			body["ids"] = r.IDs
		}
		bb, _ := json.Marshal(body)
		rec := serve(w.adminH, FReq{Method: "POST", Path: paths[r.Op], Host: "a", Remote: "127.0.0.1:1", Body: bb, Headers: hdr})
		after, _ := w.dump()
		afterByID := map[string]fMsg{}
		for _, m := range after {
			afterByID[m.ID] = m
		}
		var resp map[string]any
		_ = json.Unmarshal(rec.Body.Bytes(), &resp)
		num := func(k string) int {
			if v, ok := resp[k].(float64); ok {
				return int(v)
			}
			return 0
		}
		desc := fmt.Sprintf("%s %s -> %d %s", r.Op, string(bb), rec.Code, strings.TrimSpace(rec.Body.String()))
		allowed := c14Allowed[r.Op]
		// ---- expected selection
		var cands []fMsg
		otherwise := 0
		invalidReq := false
		if byFilter {
			st := r.State
			if st == "bogus" || (st != "" && !in(st, allowed)) || r.Limit < 0 || r.Extra {
				invalidReq = true
			}
			eff := allowed
			if st != "" {
				eff = []string{st}
			}
			for _, m := range before {
				if r.Route != "" && m.Route != r.Route {
					continue
				}
				if r.Target != "" && m.Target != r.Target {
					continue
				}
				if r.Before != 0 && !(m.Recv < fT0.Add(-time.Duration(r.Before)*time.Second).UnixNano()) {
					continue
				}
				if !in(m.State, eff) {
					otherwise++
					continue
				}
				cands = append(cands, m)
			}
		} else {
			seen := map[string]bool{}
			nonBlank := 0
			for _, raw := range r.IDs {
				id := strings.TrimSpace(raw)
				if id == "" {
					continue
				}
				nonBlank++
				if seen[id] {
					continue
				}
				seen[id] = true
				if m, ok := byID[id]; ok {
					if in(m.State, allowed) {
						cands = append(cands, m)
					} else {
						otherwise++
					}
				}
			}
			if len(r.IDs) == 0 || nonBlank == 0 {
				invalidReq = true
			}
		}
		changed := []fMsg{}
		for _, m := range before {
			a, ok := afterByID[m.ID]
			if !ok || dumpKey([]fMsg{a}) != dumpKey([]fMsg{m}) {
				changed = append(changed, m)
			}
		}
		if rec.Code/100 != 2 {
			out.Labels[fmt.Sprintf("status-%d", rec.Code)] = true
			if len(changed) > 0 {
				out.Failure = ffail("C14", "refused-but-changed", i, "%s changed %d messages", desc, len(changed))
				return out
			}
			if !invalidReq {
				out.Labels["refused-though-wellformed"] = true // the statement does not forbid stricter request validation
			}
			continue
		}
		if invalidReq {
			out.Failure = ffail("C14", "invalid-request-accepted", i, "%s", desc)
			return out
		}
		limit := len(cands)
		if byFilter {
			lim := r.Limit
			if lim == 0 {
				lim = 100
			}
			if lim > 1000 {
				lim = 1000
			}
			if limit > lim {
				limit = lim
			}
		}
		// every changed message must be a candidate and end in the documented state
		candSet := map[string]bool{}
		for _, m := range cands {
			candSet[m.ID] = true
		}
		for _, m := range changed {
			if !candSet[m.ID] {
				out.Failure = ffail("C14", "touched-unselected", i, "%s changed %s (route %s target %s state %s) which the request does not select", desc, m.ID, m.Route, m.Target, m.State)
				return out
			}
			a, present := afterByID[m.ID]
			want := "queued"
			switch r.Op {
			case "cancel", "cancelf":
				want = "canceled"
			case "dlq-delete":
				want = ""
			}
			if (want == "" && present) || (want != "" && (!present || a.State != want || a.Lease != "" || a.Dead != "" || string(a.Payload) != string(m.Payload) || a.Route != m.Route || a.Target != m.Target || a.Attempt != m.Attempt)) {
				out.Failure = ffail("C14", "wrong-result-state", i, "%s: %s %+v -> %+v", desc, m.ID, m, a)
				return out
			}
			if m.State == "leased" {
				out.Labels["canceled-leased"] = true
			}
		}
		if r.Preview {
			if len(changed) > 0 {
				out.Failure = ffail("C14", "preview-mutated", i, "%s changed %d messages", desc, len(changed))
				return out
			}
			if num("matched") != limit || resp["preview_only"] != true {
				out.Failure = ffail("C14", "preview-matched", i, "%s: matched=%d preview_only=%v, a real run would match %d", desc, num("matched"), resp["preview_only"], limit)
				return out
			}
			out.Labels["preview"] = true
			continue
		}
		if len(changed) != limit {
			out.Failure = ffail("C14", "changed-count", i, "%s changed %d messages, the request selects %d (of %d candidates)", desc, len(changed), limit, len(cands))
			return out
		}
		// newest first under a limit (ties free)
		chSet := map[string]bool{}
		for _, m := range changed {
			chSet[m.ID] = true
		}
		for _, u := range cands {
			if chSet[u.ID] {
				continue
			}
			for _, s := range changed {
				if u.Recv > s.Recv {
					out.Failure = ffail("C14", "not-newest-first", i, "%s changed %s but skipped the newer %s", desc, s.ID, u.ID)
					return out
				}
			}
		}
		reported := num("canceled") + num("requeued") + num("resumed") + num("deleted")
		if reported != len(changed) {
			out.Failure = ffail("C14", "reported-count", i, "%s reports %d changed, %d actually changed", desc, reported, len(changed))
			return out
		}
		if byFilter && num("matched") != limit {
			out.Failure = ffail("C14", "matched-count", i, "%s reports matched=%d, selector says %d", desc, num("matched"), limit)
			return out
		}
		out.Labels["applied"] = true
		if len(changed) > 0 && len(changed) < len(before) && otherwise > 0 {
			out.NonTriv = true
		}
		if byFilter && limit < len(cands) {
			out.Labels["limit-cut"] = true
		}
	}
	return out
}

var _ = sort.Strings

func TestProp_C14_HTTP(t *testing.T) {
	frontProp(t, "C14", "TestProp_C14_HTTP", genC14Case(), runC14)
}
