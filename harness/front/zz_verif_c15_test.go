//go:build verif

package app

import (
	"encoding/base64"
	"encoding/json"
	"fmt"
	"sort"
	"strings"
	"testing"
	"time"

	"github.com/nuetzliches/hookaido/internal/queue"
	"pgregory.net/rapid"
)

// ---------------------------------------------------------------------------------------
// C15: Admin publish is validated and all-or-nothing.
// ---------------------------------------------------------------------------------------

type C15Item struct {
	ID      string `json:"id"`
	Route   string `json:"route"` // name of a route of the fixed config (see c15Text)
	Invalid string `json:"invalid,omitempty"`
	PayLen  int    `json:"pay_len,omitempty"`
	Hdr     int    `json:"hdr,omitempty"`
	TS      int    `json:"ts,omitempty"` // 0 none; 1 received_at; 2 received_at+next_run_at
}

type C15Case struct {
	Backend string   `json:"backend"`
	Depth   int      `json:"depth"`
	Drop    string   `json:"drop"`
	MaxBody int      `json:"max_body"`
	Policy  string   `json:"policy,omitempty"` // "", require_actor, require_request_id, direct_off, no_pull, no_deliver
	Scoped  bool     `json:"scoped,omitempty"`
	Audit   string   `json:"audit,omitempty"`   // "", no-reason, no-actor, no-request-id
	Prefill []string `json:"prefill,omitempty"` // ids already queued (route /p)
	// Fault: the store fails the batch enqueue of this request ("" | other | full | pressure)
	Fault string    `json:"fault,omitempty"`
	Items []C15Item `json:"items"`
}

func c15Text(c C15Case) string {
	var b strings.Builder
	b.WriteString("ingress { listen 127.0.0.1:0 }\n")
	b.WriteString("pull_api {\n  listen localhost:0\n  auth token raw:pulltoken\n}\n")
	b.WriteString("admin_api { listen 0.0.0.0:0 }\n")
	fmt.Fprintf(&b, "queue_limits {\n  max_depth %d\n  drop_policy %s\n}\n", c.Depth, c.Drop)
	fmt.Fprintf(&b, "defaults {\n  max_body %db\n  max_headers 120b\n  deliver {\n    retry exponential max 3 base 1h cap 1h jitter 0\n  }\n", c.MaxBody)
	switch c.Policy {
	case "require_actor":
		b.WriteString("  publish_policy {\n    require_actor on\n  }\n")
	case "require_request_id":
		b.WriteString("  publish_policy {\n    require_request_id on\n  }\n")
	case "require_both":
		b.WriteString("  publish_policy {\n    require_actor on\n    require_request_id on\n  }\n")
	case "require_both_no_pull":
		b.WriteString("  publish_policy {\n    require_request_id on\n    allow_pull_routes off\n    require_actor on\n  }\n")
	case "direct_off":
		b.WriteString("  publish_policy {\n    direct off\n  }\n")
	case "no_pull":
		b.WriteString("  publish_policy {\n    allow_pull_routes off\n  }\n")
	case "no_deliver":
		b.WriteString("  publish_policy {\n    allow_deliver_routes off\n  }\n")
	}
	b.WriteString("}\n")
	b.WriteString("/p {\n  pull { path /pull/p }\n}\n")
	b.WriteString("/small {\n  max_body 3b\n  pull { path /pull/small }\n}\n")
	b.WriteString("/d1 {\n  deliver \"https://one.example.org/h\" {\n  }\n}\n")
	b.WriteString("/d2 {\n  deliver \"https://two-a.example.org/h\" {\n  }\n  deliver \"https://two-b.example.org/h\" {\n  }\n}\n")
	b.WriteString("/off {\n  publish off\n  pull { path /pull/off }\n}\n")
	b.WriteString("/nodirect {\n  publish {\n    direct off\n  }\n  pull { path /pull/nodirect }\n}\n")
	b.WriteString("/m {\n  application \"app1\"\n  endpoint_name \"e1\"\n  pull { path /pull/m }\n}\n")
	// a route-level limit on a route the ingress listener never serves: Admin publish must honour it all the same
	// (seed C15-15: the limits lookup copied the "not served by ingress" filter and fell back to the defaults)
	b.WriteString("outbound /out {\n  max_body 3b\n  deliver \"https://out.example.org/h\" {\n  }\n}\n")
	return b.String()
}

var c15Targets = map[string]string{"/small": "pull", "/p": "pull", "/d1": "https://one.example.org/h", "/d2": "https://two-b.example.org/h", "/m": "pull", "/out": "https://out.example.org/h",
	"/off": "pull", "/nodirect": "pull"}

var c15Invalid = []string{"unknown-route", "sub-route", "sub-route", "relative-route", "managed-route", "selector-hint", "target-not-allowed", "target-case", "target-ambiguous", "publish-off", "direct-off",
	"payload-too-large", "bad-base64", "headers-too-large", "bad-header-name", "bad-header-value", "bad-received-at", "bad-next-run-at", "blank-id", "dup-in-batch",
	"dup-in-batch-padded", "id-exists", "empty-route"}

func genC15Case() *rapid.Generator[C15Case] {
	return rapid.Custom(func(t *rapid.T) C15Case {
		c := C15Case{Backend: rapid.SampledFrom([]string{"memory", "sqlite"}).Draw(t, "backend")}
		c.Depth = rapid.SampledFrom([]int{3, 5, 8, 1000}).Draw(t, "depth")
		c.Drop = rapid.SampledFrom([]string{"reject", "reject", "drop_oldest"}).Draw(t, "drop")
		c.MaxBody = rapid.SampledFrom([]int{4, 32, 1024}).Draw(t, "max_body")
		c.Policy = rapid.SampledFrom([]string{"", "", "", "", "require_actor", "require_request_id", "require_both", "require_both", "require_both_no_pull", "direct_off", "no_pull", "no_deliver"}).Draw(t, "policy")
		c.Scoped = rapid.IntRange(0, 4).Draw(t, "scoped") == 0
		c.Audit = rapid.SampledFrom([]string{"", "", "", "", "no-reason", "no-actor", "no-request-id"}).Draw(t, "audit")
		c.Fault = rapid.SampledFrom([]string{"", "", "", "", "", "", "other", "full", "pressure"}).Draw(t, "fault")
		np := rapid.SampledFrom([]int{0, 0, 1, 2, c.Depth - 1, c.Depth}).Draw(t, "nprefill")
		if np > 12 {
			np = 2
		}
		for i := 0; i < np; i++ {
			c.Prefill = append(c.Prefill, fmt.Sprintf("pre-%d", i))
		}
		n := rapid.SampledFrom([]int{1, 2, 3, 3, 4, 6, 12, 12, 300, 520}).Draw(t, "nitems")
		if n >= 300 {
			// big batches: make the capacity boundary fall inside the batch
			c.Depth = rapid.SampledFrom([]int{280, 400, 1000}).Draw(t, "big_depth")
			c.Prefill = nil
			for i := 0; i < rapid.SampledFrom([]int{0, 20}).Draw(t, "big_prefill"); i++ {
				c.Prefill = append(c.Prefill, fmt.Sprintf("pre-%d", i))
			}
		}
		ninv := rapid.SampledFrom([]int{0, 0, 1, 1, 1, 2}).Draw(t, "ninvalid")
		invalidAt := map[int]string{}
		for k := 0; k < ninv; k++ {
			invalidAt[rapid.IntRange(0, n-1).Draw(t, "inv_pos")] = rapid.SampledFrom(c15Invalid).Draw(t, "inv_kind")
		}
		// two items that name different messages already in the queue, the earlier item the lexically later id:
		// the error must name the first offending item of the batch (seed C15-14 named the smallest id)
		if n >= 2 && rapid.IntRange(0, 11).Draw(t, "exists_pair") == 0 {
			for len(c.Prefill) < 2 {
				c.Prefill = append(c.Prefill, fmt.Sprintf("pre-%d", len(c.Prefill)))
			}
			p1 := rapid.IntRange(0, n-2).Draw(t, "exists_p1")
			p2 := rapid.IntRange(p1+1, n-1).Draw(t, "exists_p2")
			invalidAt = map[int]string{p1: "id-exists", p2: "id-exists"}
		}
		for i := 0; i < n; i++ {
			it := C15Item{ID: fmt.Sprintf("it-%d", i)}
			it.Route = rapid.SampledFrom([]string{"/p", "/p", "/d1", "/d2", "/out", "/small", "/small"}).Draw(t, "route")
			if c.Scoped {
				it.Route = "/m"
			}
			limit := c.MaxBody
			if it.Route == "/small" || it.Route == "/out" {
				limit = 3
			}
			it.PayLen = rapid.SampledFrom([]int{0, 1, limit - 1, limit}).Draw(t, "pay_len")
			if it.PayLen < 0 {
				it.PayLen = 0
			}
			if (it.Route == "/small" || it.Route == "/out") && rapid.IntRange(0, 2).Draw(t, "over_route_limit") == 0 && invalidAt[i] == "" {
				// fits the global default but not this route's own max_body
				invalidAt[i] = "payload-over-route-limit"
			}
			it.Hdr = rapid.IntRange(0, 4).Draw(t, "hdr")
			it.TS = rapid.SampledFrom([]int{0, 0, 1, 2}).Draw(t, "ts")
			it.Invalid = invalidAt[i]
			c.Items = append(c.Items, it)
		}
		return c
	})
}

func c15Headers(v int) map[string]string {
	switch v {
	case 1:
		return map[string]string{"Content-Type": "application/json"}
	case 2:
		return map[string]string{"X-A": "1", "x-lower": "v"}
	case 3:
		return map[string]string{"X-Utf8": "héllo"}
	case 4:
		// blanks and tabs are legal anywhere in a field value and are stored as sent
		return map[string]string{"X-Pad": " v\t", "X-Tab": "a\tb"}
	}
	return nil
}

// c15Build renders the items to the JSON the client sends and reports which positions are
// invalid and why (request-level causes are reported separately).
func c15Build(c C15Case) (items []map[string]any, invalid map[int]string) {
	invalid = map[int]string{}
	for i, it := range c.Items {
		m := map[string]any{"id": it.ID}
		payload := []byte(strings.Repeat("x", it.PayLen))
		m["payload_b64"] = base64.StdEncoding.EncodeToString(payload)
		if h := c15Headers(it.Hdr); h != nil {
			m["headers"] = h
		}
		if it.TS >= 1 {
			m["received_at"] = fT0.Add(-time.Hour).Format(time.RFC3339)
		}
		if it.TS >= 2 {
			m["next_run_at"] = fT0.Add(time.Hour).Format(time.RFC3339)
		}
		if !c.Scoped {
			m["route"] = it.Route
			m["target"] = c15Targets[it.Route]
		}
		kind := it.Invalid
		switch kind {
		case "unknown-route":
			if c.Scoped {
				kind = ""
			} else {
				m["route"] = "/nope"
			}
		case "sub-route":
			// a path below a configured route is not a route (ingress matches by prefix, publish names routes)
			if c.Scoped {
				kind = ""
			} else {
				base := []string{"/p", "/off", "/small", "/m", "/d1", "/nodirect"}[(i+it.PayLen+it.Hdr)%6]
				m["route"] = base + []string{"/sub", "/x/y", "/."}[(i+it.TS)%3]
				m["target"] = c15Targets[base]
			}
		case "relative-route":
			if c.Scoped {
				kind = ""
			} else {
				m["route"] = "p"
			}
		case "empty-route":
			if c.Scoped {
				kind = ""
			} else {
				m["route"] = ""
				delete(m, "target")
			}
		case "managed-route":
			if c.Scoped {
				kind = ""
			} else {
				m["route"] = "/m"
				m["target"] = "pull"
			}
		case "selector-hint":
			if c.Scoped {
				// a route hint that contradicts the scoped endpoint
				m["route"] = "/p"
			} else {
				m["application"] = "app1"
				m["endpoint_name"] = "e1"
			}
		case "target-not-allowed":
			m["target"] = "https://evil.example.net/x"
		case "target-case":
			// the route's target in another letter case is not that target (a consumer asking for "pull"
			// would never see a message stored for "PULL")
			tgt := c15Targets[it.Route]
			if c.Scoped {
				tgt = "pull"
			}
			if up := strings.ToUpper(tgt); up != tgt {
				m["target"] = up
			} else {
				kind = ""
			}
		case "target-ambiguous":
			if c.Scoped {
				kind = ""
			} else {
				m["route"] = "/d2"
				delete(m, "target")
			}
		case "publish-off":
			if c.Scoped {
				kind = ""
			} else {
				m["route"] = "/off"
				m["target"] = "pull"
			}
		case "direct-off":
			if c.Scoped {
				kind = ""
			} else {
				m["route"] = "/nodirect"
				m["target"] = "pull"
			}
		case "payload-over-route-limit":
			if r, _ := m["route"].(string); (r == "/small" || r == "/out") && c.MaxBody > 3 {
				m["payload_b64"] = base64.StdEncoding.EncodeToString([]byte(strings.Repeat("x", 4)))
			} else {
				kind = ""
			}
		case "payload-too-large":
			lim := c.MaxBody
			if r, _ := m["route"].(string); r == "/small" || r == "/out" {
				lim = 3
			}
			m["payload_b64"] = base64.StdEncoding.EncodeToString([]byte(strings.Repeat("x", lim+1)))
		case "bad-base64":
			m["payload_b64"] = "!!!not base64!!!"
		case "headers-too-large":
			m["headers"] = map[string]string{"X-Big": strings.Repeat("h", 200)}
		case "bad-header-name":
			// not an HTTP token: a blank inside, a control character, or a non-ASCII letter (also one whose
			// code point ends in the byte of a token character)
			names := []string{"bad name", "X-\x7f", "X-\u4e2d", "\u0141", "\u2030name", "X-\u00e9", "a:b", "(x)"}
			m["headers"] = map[string]string{names[(i+it.PayLen+it.Hdr+it.TS)%len(names)]: "v"}
		case "bad-header-value":
			// CR, LF, DEL and every control byte except HTAB are not allowed in a field value - wherever
			// they stand (seed C15-13 trimmed the value before looking at it)
			vals := []string{"a\r\nInjected: 1", "push\r\n", "\nv", "v\x0b", "\x0cv", "v\x7f", "\x00", "a\x01b", "v\r", "\r", " v\n ", "\x1f"}
			m["headers"] = map[string]string{"X-A": vals[(i+it.PayLen+it.Hdr+it.TS)%len(vals)]}
		case "bad-received-at":
			m["received_at"] = "yesterday"
		case "bad-next-run-at":
			m["next_run_at"] = "12:00"
		case "blank-id":
			m["id"] = "  "
		case "dup-in-batch", "dup-in-batch-padded":
			if i == 0 {
				kind = ""
			} else {
				m["id"] = c.Items[0].ID
				if kind == "dup-in-batch-padded" {
					m["id"] = " " + c.Items[0].ID + " "
				}
			}
		case "id-exists":
			if len(c.Prefill) == 0 {
				kind = ""
			} else {
				m["id"] = c.Prefill[c15ExistsIdx(c, i)]
			}
		}
		if kind != "" {
			invalid[i] = kind
		}
		// policy-level invalidity of otherwise valid items
		if kind == "" {
			r, _ := m["route"].(string)
			if c.Scoped {
				r = "" // on the scoped path the route policy is a request-level cause (see runC15)
			}
			switch {
			case (c.Policy == "no_pull" || c.Policy == "require_both_no_pull") && (r == "/p" || r == "/m" || r == "/small"):
				invalid[i] = "policy-no-pull"
			case c.Policy == "no_deliver" && (r == "/d1" || r == "/d2" || r == "/out"):
				invalid[i] = "policy-no-deliver"
			}
		}
		items = append(items, m)
	}
	return items, invalid
}

func runC15(c C15Case, _ bool) *fOutcome {
	out := newFOutcome()
	w, err := newFrontWorld(c15Text(c), worldOpts{backend: c.Backend, faults: true})
	if err != nil {
		out.Failure = ffail("HARNESS", "world", 0, "%v\n%s", err, c15Text(c))
		return out
	}
	defer w.close()
	for _, id := range c.Prefill {
		if err := w.store.Enqueue(queue.Envelope{ID: id, Route: "/p", Target: "pull", Payload: []byte("pre")}); err != nil {
			break // prefill above depth is simply a smaller prefill
		}
	}
	before, err := w.dump()
	if err != nil {
		out.Failure = ffail("HARNESS", "dump", 0, "%v", err)
		return out
	}
	active, queued := activeCount(before)
	items, invalid := c15Build(c)
	requestLevel := ""
	switch {
	case c.Audit == "no-reason":
		requestLevel = "no-audit-reason"
	case (c.Policy == "require_actor" || strings.HasPrefix(c.Policy, "require_both")) && c.Audit == "no-actor":
		requestLevel = "actor-required"
	case (c.Policy == "require_request_id" || strings.HasPrefix(c.Policy, "require_both")) && c.Audit == "no-request-id":
		requestLevel = "request-id-required"
	case c.Policy == "direct_off" && !c.Scoped:
		requestLevel = "direct-disabled"
	case (c.Policy == "no_pull" || c.Policy == "require_both_no_pull") && c.Scoped:
		requestLevel = "scoped-endpoint-is-pull-route"
	}
	overflow := false
	if len(invalid) == 0 && requestLevel == "" {
		need := active + len(items) - c.Depth
		if need > 0 && (c.Drop == "reject" || need > queued) {
			overflow = true
		}
	}
	body, _ := json.Marshal(map[string]any{"items": items})
	hdrs := [][2]string{{"Content-Type", "application/json"}}
	if c.Audit != "no-reason" {
		hdrs = append(hdrs, [2]string{"X-Hookaido-Audit-Reason", "verif run"})
	}
	if c.Audit != "no-actor" {
		hdrs = append(hdrs, [2]string{"X-Hookaido-Audit-Actor", "ci-bot"})
	}
	if c.Audit != "no-request-id" {
		hdrs = append(hdrs, [2]string{"X-Request-ID", "req-1"})
	}
	p := "/messages/publish"
	if c.Scoped {
		p = "/applications/app1/endpoints/e1/messages/publish"
	}
	if c.Fault != "" {
		ferr := map[string]error{"full": queue.ErrQueueFull, "pressure": queue.ErrMemoryPressure}[c.Fault]
		if ferr == nil {
			ferr = errInjected
		}
		w.faults.mu.Lock()
		w.faults.batchErr = ferr
		w.faults.mu.Unlock()
	}
	rec := serve(w.adminH, FReq{Method: "POST", Path: p, Host: "a", Remote: "127.0.0.1:1", Body: body, Headers: hdrs})
	w.faults.mu.Lock()
	storeFailed := w.faults.batchHits > 0
	w.faults.batchErr = nil
	w.faults.mu.Unlock()
	after, _ := w.dump()
	added := newMsgs(before, after)
	var resp struct {
		Published int    `json:"published"`
		Code      string `json:"code"`
		ItemIndex *int   `json:"item_index"`
	}
	_ = json.Unmarshal(rec.Body.Bytes(), &resp)
	desc := fmt.Sprintf("cfg{%s depth=%d %s max_body=%d policy=%q scoped=%v audit=%q prefill=%d} items=%s invalid=%v request-level=%q -> %d %s",
		c.Backend, c.Depth, c.Drop, c.MaxBody, c.Policy, c.Scoped, c.Audit, len(before), string(body), invalid, requestLevel, rec.Code, strings.TrimSpace(rec.Body.String()))
	out.Labels[fmt.Sprintf("status-%d", rec.Code)] = true
	for _, k := range invalid {
		out.Labels["invalid-"+k] = true
	}
	if requestLevel != "" {
		out.Labels["request-"+requestLevel] = true
	}
	shouldRefuse := len(invalid) > 0 || requestLevel != "" || overflow
	if storeFailed {
		// the store refused the whole batch (nothing stored): the answer cannot be "published"
		out.Labels["store-fault-"+c.Fault] = true
		out.NonTriv = true
		if rec.Code/100 == 2 {
			out.Failure = ffail("C15,C01", "store-failure-answered-published", 0, "the store failed the batch enqueue (%s) but the publish was answered %d; %s", c.Fault, rec.Code, desc)
			return out
		}
		if dumpKey(before) != dumpKey(after) {
			out.Failure = ffail("C15,C12", "refused-but-changed", 0, "publish whose store call failed changed the queue (+%d); %s", len(added), desc)
		}
		return out
	}
	if rec.Code/100 == 2 {
		if shouldRefuse {
			out.Failure = ffail("C15", "invalid-batch-accepted", 0, "%s", desc)
			for _, k := range invalid {
				if k == "target-case" {
					// stored for a target no consumer asks for: ready, and never handed out (C05)
					out.Failure.Prop = "C15,C05"
				}
			}
			return out
		}
		if resp.Published != len(items) || len(added) != len(items) {
			out.Failure = ffail("C15", "published-count", 0, "published=%d stored=%d of %d items; %s", resp.Published, len(added), len(items), desc)
			return out
		}
		byID := map[string]fMsg{}
		for _, m := range added {
			byID[m.ID] = m
		}
		for i, it := range c.Items {
			m, ok := byID[it.ID]
			wantRoute := it.Route
			if !ok || m.State != "queued" || m.Route != wantRoute || m.Target != c15Targets[wantRoute] || len(m.Payload) != it.PayLen || m.Attempt != 0 || m.Lease != "" {
				out.Failure = ffail("C15", "stored-shape", i, "item %d stored as %+v; %s", i, m, desc)
				return out
			}
			if !eqStrMap(m.Headers, c15Headers(it.Hdr)) {
				out.Failure = ffail("C15,C07", "stored-headers", i, "item %d headers %v, sent %v", i, m.Headers, c15Headers(it.Hdr))
				return out
			}
			if it.TS >= 1 && m.Recv != fT0.Add(-time.Hour).UnixNano() {
				out.Failure = ffail("C15", "stored-received-at", i, "item %d received_at not kept", i)
				return out
			}
			if it.TS >= 2 && m.Next != fT0.Add(time.Hour).UnixNano() {
				out.Failure = ffail("C15", "stored-next-run-at", i, "item %d next_run_at not kept", i)
				return out
			}
		}
		if act, _ := activeCount(after); act > c.Depth {
			out.Failure = ffail("C15,C12", "above-depth", 0, "active %d exceeds max_depth %d after publish; %s", act, c.Depth, desc)
			return out
		}
		out.Labels["accepted"] = true
		return out
	}
	// refused
	if dumpKey(before) != dumpKey(after) {
		out.Failure = ffail("C15,C12", "refused-but-changed", 0, "refused publish changed the queue (+%d); %s", len(added), desc)
		return out
	}
	if !shouldRefuse {
		out.Labels["valid-batch-refused"] = true
		out.Failure = ffail("C15", "valid-batch-refused", 0, "%s", desc)
		return out
	}
	if resp.Code == "" {
		out.Failure = ffail("C15", "unstructured-error", 0, "refusal without a structured code; %s", desc)
		return out
	}
	if len(invalid) > 0 && requestLevel == "" {
		if resp.ItemIndex != nil && *resp.ItemIndex >= 0 {
			if _, bad := invalid[*resp.ItemIndex]; !bad {
				out.Failure = ffail("C15", "item-index-not-offending", 0, "item_index %d names a valid item; %s", *resp.ItemIndex, desc)
				return out
			}
		} else if len(invalid) == 1 {
			// a single offending item must be named, unless the cause can only be seen at batch level
			for pos, kind := range invalid {
				if kind != "dup-in-batch" && kind != "dup-in-batch-padded" {
					out.Failure = ffail("C15", "item-index-missing", 0, "the only invalid item is %d (%s) but item_index is absent/-1; %s", pos, kind, desc)
					return out
				}
			}
		}
		firstBad := len(c.Items)
		for pos := range invalid {
			if pos < firstBad {
				firstBad = pos
			}
		}
		// "naming the first offending item": validation runs in phases (per-item fields first, ids against the
		// queue last), so across kinds the first item of the earliest phase is named. Within one kind the order
		// is the batch order: when every offending item names a different message that is already in the queue,
		// the error names the first of them.
		// (only when the refusal is the duplicate-id one: an earlier phase - route policy, size limits - may
		// refuse the same batch for a reason the generator did not plant)
		if resp.ItemIndex != nil && *resp.ItemIndex >= 0 && len(invalid) >= 2 && strings.Contains(resp.Code, "duplicate") {
			allExists, seen := true, map[int]bool{}
			for pos, kind := range invalid {
				if kind != "id-exists" || seen[c15ExistsIdx(c, pos)] {
					allExists = false
				}
				seen[c15ExistsIdx(c, pos)] = true
			}
			if allExists {
				out.Labels["several-existing-ids"] = true
				if *resp.ItemIndex != firstBad {
					out.Failure = ffail("C15", "item-index-not-first-offending", 0, "items %v name messages already in the queue; item_index is %d, the first offending item is %d; %s", keysOf(invalid), *resp.ItemIndex, firstBad, desc)
					return out
				}
			}
		}
		if len(c.Items) >= 3 && firstBad >= 1 {
			out.NonTriv = true
		}
	}
	if overflow && active < c.Depth {
		out.NonTriv = true
		out.Labels["overflow-after-valid-items"] = true
	}
	out.Labels["refused"] = true
	return out
}

func TestProp_C15_Publish(t *testing.T) {
	frontProp(t, "C15", "TestProp_C15_Publish", genC15Case(), runC15)
}

// TestProp_C05_PublishTarget: the publish worlds for C05's share (a message accepted for a target
// spelling no consumer uses is ready and never offered).
func TestProp_C05_PublishTarget(t *testing.T) {
	frontProp(t, "C05", "TestProp_C05_PublishTarget", genC15Case(), func(c C15Case, tol bool) *fOutcome {
		for i := range c.Items {
			if i%3 == 0 && c.Items[i].Invalid == "" {
				c.Items[i].Invalid = "target-case"
			}
		}
		out := runC15(c, tol)
		if f := out.Failure; f != nil && f.Prop != "HARNESS" && !strings.Contains(f.Prop, "C05") {
			out.Failure = nil
			out.Labels["foreign-clause"] = true
		}
		out.NonTriv = out.Labels["invalid-target-case"]
		return out
	})
}

// c15ExistsIdx: which prefilled message an "id-exists" item at position pos names - earlier items name
// lexically later ids, so that batch order and id order disagree.
func c15ExistsIdx(c C15Case, pos int) int {
	if len(c.Prefill) == 0 {
		return 0
	}
	return len(c.Prefill) - 1 - pos%len(c.Prefill)
}

func keysOf(m map[int]string) []int {
	var out []int
	for k := range m {
		out = append(out, k)
	}
	sort.Ints(out)
	return out
}
