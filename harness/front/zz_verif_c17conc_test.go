//go:build verif

package app

import (
	"fmt"
	"sync"
	"testing"
	"time"

	"pgregory.net/rapid"
)

// ---------------------------------------------------------------------------------------
// C17 inbound, concurrent tier: many requests of one rotating-secret route in flight at the
// same time, signed with every configured version at timestamps on both sides of the window
// edges (all inside the tolerance, every one with a nonce of its own, clock fixed). Each verdict
// is independent of the others, so each must equal the sequential oracle's: accepted iff the
// signing version is valid at the signed timestamp. The Go scheduler picks the interleavings.
// ---------------------------------------------------------------------------------------

type C17CCase struct {
	Route   AuthRoute `json:"route"`
	Workers int       `json:"workers"`
	Reqs    []AuthReq `json:"reqs"`
	Procs   int       `json:"procs,omitempty"`
}

func genC17CCase() *rapid.Generator[C17CCase] {
	return rapid.Custom(func(t *rapid.T) C17CCase {
		var c C17CCase
		c.Route = AuthRoute{Kind: "hmac", TolS: 60}
		// rotation: adjacent / overlapping windows around T0
		n := rapid.IntRange(2, 3).Draw(t, "nvers")
		edges := []int{-30, -10, 0, 10, 30}
		for k := 0; k < n; k++ {
			v := SecretVer{ID: fmt.Sprintf("v%d", k), Value: fmt.Sprintf("cver-%d", k)}
			v.FromS = rapid.SampledFrom(edges).Draw(t, "from") - 3600*(n-1-k)
			if k < n-1 || rapid.Bool().Draw(t, "last_closed") {
				v.UntilS = rapid.SampledFrom(edges).Draw(t, "until")
				if v.UntilS <= v.FromS {
					v.UntilS = v.FromS + 3600
				}
				if v.UntilS == 0 {
					v.UntilS = 1
				}
			}
			c.Route.Refs = append(c.Route.Refs, v)
		}
		c.Workers = rapid.SampledFrom([]int{4, 8, 16}).Draw(t, "workers")
		m := rapid.SampledFrom([]int{64, 128, 256}).Draw(t, "nreqs")
		for i := 0; i < m; i++ {
			c.Reqs = append(c.Reqs, AuthReq{Route: 0, Secret: rapid.IntRange(0, n-1).Draw(t, "secret"),
				TsOffS: rapid.SampledFrom([]int{-31, -30, -29, -11, -10, -9, -1, 0, 1, 9, 10, 11, 29, 30, 31}).Draw(t, "ts_off"), Body: []byte("c")})
		}
		c.Procs = rapid.SampledFrom([]int{0, 2, 4}).Draw(t, "procs")
		return c
	})
}

func runC17C(c C17CCase, _ bool) *fOutcome {
	out := newFOutcome()
	defer c08Release()
	routes := []AuthRoute{c.Route}
	w, err := newFrontWorld(authText(routes), worldOpts{})
	if err != nil {
		out.Skipped = "config rejected: " + err.Error()
		out.Labels["config-rejected"] = true
		return out
	}
	defer w.close()
	now := w.clk.Now()
	type job struct {
		req  FReq
		want bool
		desc string
	}
	jobs := make([]job, len(c.Reqs))
	nAcc, nRej := 0, 0
	for i, a := range c.Reqs {
		req := buildAuthReq(routes, a, now, fmt.Sprintf("cn-%d", i))
		ok, _, _ := hmacAuthentic(routes, 0, req, now)
		jobs[i] = job{req: req, want: ok, desc: fmt.Sprintf("request %d signed with version %d at T0%+ds", i, a.Secret, a.TsOffS)}
		if ok {
			nAcc++
		} else {
			nRej++
		}
	}
	if nAcc == 0 || nRej == 0 {
		out.Labels["one-sided-batch"] = true
	} else {
		out.NonTriv = true
	}
	got := make([]int, len(jobs))
	var wg sync.WaitGroup
	start := make(chan struct{})
	for g := 0; g < c.Workers; g++ {
		wg.Add(1)
		go func(g int) {
			defer wg.Done()
			<-start
			for i := g; i < len(jobs); i += c.Workers {
				got[i] = serve(w.ingress, jobs[i].req).Code
			}
		}(g)
	}
	t0 := time.Now()
	close(start)
	wg.Wait()
	_ = t0
	for i, j := range jobs {
		switch {
		case j.want && got[i] != 202:
			out.Failure = ffail("C17", "concurrent-valid-rejected", i, "%s is valid at its signed timestamp but was answered %d while %d other requests of the route were in flight; route %s", j.desc, got[i], len(jobs)-1, routesOne(c.Route))
			return out
		case !j.want && got[i] == 202:
			out.Failure = ffail("C17,C08", "concurrent-invalid-accepted", i, "%s is not valid at its signed timestamp but was accepted while %d other requests of the route were in flight; route %s", j.desc, len(jobs)-1, routesOne(c.Route))
			return out
		}
	}
	return out
}

func TestProp_C17_InboundConcurrent(t *testing.T) {
	frontProp(t, "C17", "TestProp_C17_InboundConcurrent", genC17CCase(), runC17C)
}
