//go:build verif

package app

import (
	"sync"
	"strconv"
	"bytes"
	"encoding/base64"
	"encoding/json"
	"fmt"
	"io"
	"net/http"
	"net/http/httptest"
	"os"
	"os/exec"
	"path/filepath"
	"strings"
	"testing"
	"time"

	"context"
	"github.com/nuetzliches/hookaido/internal/pullapi"
	"github.com/nuetzliches/hookaido/internal/queue"
	"github.com/nuetzliches/hookaido/internal/verifhook"
	"github.com/nuetzliches/hookaido/internal/verifkit"
	"github.com/nuetzliches/hookaido/internal/workerapi"
	workerapipb "github.com/nuetzliches/hookaido/internal/workerapi/proto"
	"google.golang.org/grpc/metadata"
	"google.golang.org/grpc/status"
	"pgregory.net/rapid"
)

// ---------------------------------------------------------------------------------------
// C18: configuration changes apply atomically or not at all.
// ---------------------------------------------------------------------------------------

type RSlot struct {
	On       bool   `json:"on"`
	Auth     string `json:"auth,omitempty"`      // "" | basic1 | basic2 | hmac1 | hmac2
	Pull     string `json:"pull,omitempty"`      // x | y  (pull path suffix)
	RouteTok string `json:"route_tok,omitempty"` // "" | rt1 | rt2
	Methods  string `json:"methods,omitempty"`   // "" | GET
	MaxBody  int    `json:"max_body,omitempty"`  // 0: default | route-level max_body in bytes
}

type CfgSpec struct {
	Slots  [3]RSlot `json:"slots"`
	Global string   `json:"global"` // g1 | g2
	Admin  string   `json:"admin,omitempty"`
	Order  int      `json:"order,omitempty"` // rotation of the route order
}

var slotPaths = [3]string{"/a", "/a/b", "/c"}

func (c CfgSpec) text(extra string) string {
	var b strings.Builder
	b.WriteString("ingress { listen 127.0.0.1:0 }\n")
	fmt.Fprintf(&b, "pull_api {\n  listen localhost:0\n  auth token raw:%s\n}\n", c.Global)
	b.WriteString("admin_api {\n  listen 0.0.0.0:0\n")
	if c.Admin != "" {
		fmt.Fprintf(&b, "  auth token raw:%s\n", c.Admin)
	}
	b.WriteString("}\n")
	b.WriteString(extra)
	// an always-present pull route keeps HasPullRoutes stable across reloads
	b.WriteString("/keep {\n  pull { path /pull/keep }\n}\n")
	for k := 0; k < 3; k++ {
		i := (k + c.Order) % 3
		s := c.Slots[i]
		if !s.On {
			continue
		}
		fmt.Fprintf(&b, "%s {\n", slotPaths[i])
		if s.MaxBody > 0 {
			fmt.Fprintf(&b, "  max_body %db\n", s.MaxBody)
		}
		if s.Methods != "" {
			fmt.Fprintf(&b, "  match {\n    method %s\n    method POST\n  }\n", s.Methods)
		}
		switch s.Auth {
		case "basic1":
			b.WriteString("  auth basic \"u\" \"p1\"\n")
		case "basic2":
			b.WriteString("  auth basic \"u\" \"p2\"\n")
		case "hmac1":
			b.WriteString("  auth hmac raw:k1\n")
		case "hmac2":
			b.WriteString("  auth hmac raw:k2\n")
		case "fwd200", "fwd401":
			live, _ := fwdServer()
			fmt.Fprintf(&b, "  auth forward %s {\n    timeout 5s\n  }\n", q(live+"/b/"+strings.TrimPrefix(s.Auth, "fwd")))
		}
		pp := s.Pull
		if pp == "" {
			pp = "x"
		}
		fmt.Fprintf(&b, "  pull {\n    path /pull/s%d%s\n", i, pp)
		if s.RouteTok != "" {
			fmt.Fprintf(&b, "    auth token raw:%s\n", s.RouteTok)
		}
		b.WriteString("  }\n}\n")
	}
	return b.String()
}

func genCfgSpec(t *rapid.T, label string) CfgSpec {
	var c CfgSpec
	for i := 0; i < 3; i++ {
		c.Slots[i] = RSlot{
			On:       rapid.IntRange(0, 3).Draw(t, label+"on") > 0,
			Auth:     rapid.SampledFrom([]string{"", "", "basic1", "basic2", "hmac1", "hmac2", "fwd200", "fwd401"}).Draw(t, label+"auth"),
			Pull:     rapid.SampledFrom([]string{"x", "x", "y"}).Draw(t, label+"pull"),
			RouteTok: rapid.SampledFrom([]string{"", "", "rt1", "rt2"}).Draw(t, label+"rtok"),
			Methods:  rapid.SampledFrom([]string{"", "", "", "GET"}).Draw(t, label+"methods"),
			MaxBody:  rapid.SampledFrom([]int{0, 0, 4}).Draw(t, label+"max_body"),
		}
	}
	c.Global = rapid.SampledFrom([]string{"g1", "g1", "g2"}).Draw(t, label+"global")
	c.Admin = rapid.SampledFrom([]string{"", "a1", "a2"}).Draw(t, label+"admin")
	c.Order = rapid.IntRange(0, 2).Draw(t, label+"order")
	return c
}

// battery issues the fixed probe set; every probe is an independent request with nonces
// unique to (tag). It returns one answer string per probe.
type probe struct {
	name string
	api  string // ingress | pull | admin
	req  FReq
}

func buildBattery(w *frontWorld, tag string) []probe {
	var ps []probe
	now := w.clk.Now()
	for i, p := range slotPaths {
		base := FReq{Method: "POST", Path: p, Host: "h", Remote: "203.0.113.9:1", Body: []byte("b")}
		add := func(name string, mod func(r *FReq)) {
			r := base
			r.Headers = nil
			mod(&r)
			ps = append(ps, probe{name: fmt.Sprintf("%s %s", p, name), api: "ingress", req: r})
		}
		add("anon", func(r *FReq) {})
		add("anon-big", func(r *FReq) { r.Body = []byte("bbbbbbbb") })
		add("get", func(r *FReq) { r.Method = "GET" })
		for _, pw := range []string{"p1", "p2"} {
			pw := pw
			add("basic-"+pw, func(r *FReq) {
				r.Headers = [][2]string{{"Authorization", "Basic " + b64("u:"+pw)}}
			})
		}
		for _, k := range []string{"k1", "k2"} {
			k := k
			add("hmac-"+k, func(r *FReq) {
				ts := fmt.Sprint(now.Unix())
				r.Headers = [][2]string{{"X-Timestamp", ts}, {"X-Nonce", fmt.Sprintf("%s-%d-%s", tag, i, k)}, {"X-Signature", signHex(k, ts, "POST", p, r.Body)}}
			})
			add("hmac-"+k+"-big", func(r *FReq) {
				ts := fmt.Sprint(now.Unix())
				r.Body = []byte("bbbbbbbb")
				r.Headers = [][2]string{{"X-Timestamp", ts}, {"X-Nonce", fmt.Sprintf("%s-%d-%s-big", tag, i, k)}, {"X-Signature", signHex(k, ts, "POST", p, r.Body)}}
			})
		}
	}
	for i := range slotPaths {
		for _, suf := range []string{"x", "y"} {
			for _, tok := range []string{"", "g1", "g2", "rt1", "rt2"} {
				r := FReq{Method: "POST", Path: fmt.Sprintf("/pull/s%d%s/dequeue", i, suf), Host: "p", Remote: "127.0.0.1:1", Body: []byte(`{"batch":1,"lease_ttl":"1s"}`),
					Headers: [][2]string{{"Content-Type", "application/json"}}}
				if tok != "" {
					r.Headers = append(r.Headers, [2]string{"Authorization", "Bearer " + tok})
				}
				ps = append(ps, probe{name: fmt.Sprintf("pull s%d%s tok=%s", i, suf, tok), api: "pull", req: r})
			}
		}
	}
	// Admin publish to every slot route, a payload below and one above the 4-byte route limit a slot may carry
	for i, p := range slotPaths {
		for _, size := range []string{"small", "big"} {
			for _, tok := range []string{"", "a1"} {
				payload := "eA=="
				if size == "big" {
					payload = "YmJiYmJiYmI="
				}
				body, _ := json.Marshal(map[string]any{"items": []map[string]any{{"id": fmt.Sprintf("pub-%s-%d-%s-%s", tag, i, size, tok), "route": p, "target": "pull", "payload_b64": payload}}})
				r := FReq{Method: "POST", Path: "/messages/publish", Host: "a", Remote: "127.0.0.1:1", Body: body,
					Headers: [][2]string{{"Content-Type", "application/json"}, {"X-Hookaido-Audit-Reason", "verif"}}}
				if tok != "" {
					r.Headers = append(r.Headers, [2]string{"Authorization", "Bearer " + tok})
				}
				ps = append(ps, probe{name: fmt.Sprintf("publish %s %s tok=%s", p, size, tok), api: "admin", req: r})
			}
		}
	}
	for _, tok := range []string{"", "a1", "a2"} {
		r := FReq{Method: "GET", Path: "/healthz", Host: "a", Remote: "127.0.0.1:1"}
		if tok != "" {
			r.Headers = [][2]string{{"Authorization", "Bearer " + tok}}
		}
		ps = append(ps, probe{name: "admin tok=" + tok, api: "admin", req: r})
	}
	return ps
}

func b64(s string) string { return base64.StdEncoding.EncodeToString([]byte(s)) }

func runProbe(w *frontWorld, p probe) string {
	var h http.Handler
	switch p.api {
	case "ingress":
		h = w.ingress
	case "pull":
		h = w.pull
	default:
		h = w.adminH
	}
	if h == nil {
		return "no-handler"
	}
	before, _ := w.store.Stats()
	rec := serve(h, p.req)
	ans := fmt.Sprint(rec.Code)
	if p.api == "pull" && rec.Code == 200 {
		// whose messages were handed out (every slot route holds a stock of messages, see c18Stock)
		var m struct {
			Items []struct {
				Route string `json:"route"`
			} `json:"items"`
		}
		if json.Unmarshal(rec.Body.Bytes(), &m) == nil && len(m.Items) > 0 {
			ans += ":" + m.Items[0].Route
		}
	}
	if p.api == "ingress" && rec.Code == 202 {
		// which route took it: newest message
		after, _ := w.store.Stats()
		ans += fmt.Sprintf("+%d", after.Total-before.Total)
		if ms, err := w.dump(); err == nil && len(ms) > 0 {
			var newest fMsg
			for _, m := range ms {
				if m.Recv >= newest.Recv {
					newest = m
				}
			}
			ans += "@" + newest.Route
		}
	}
	return ans
}

func runBattery(w *frontWorld, tag string) []string {
	ps := buildBattery(w, tag)
	out := make([]string, len(ps))
	for i, p := range ps {
		// distinct receive times so that "newest message" is well defined
		w.clk.add(time.Millisecond)
		out[i] = runProbe(w, p)
	}
	return out
}

type C18Case struct {
	Old   CfgSpec `json:"old"`
	New   CfgSpec `json:"new"`
	Mode  string  `json:"mode"`            // pause | body-read | forward-callout | failed
	Pause string  `json:"pause,omitempty"` // hook label for mode pause
	Fail  string  `json:"fail,omitempty"`  // kind of failing new content
	// Warm: the whole battery has already been answered once under the old configuration when the
	// reload arrives (whatever the process remembers from serving requests is then in place).
	Warm bool `json:"warm,omitempty"`
}

func genC18Case() *rapid.Generator[C18Case] {
	return rapid.Custom(func(t *rapid.T) C18Case {
		c := C18Case{Old: genCfgSpec(t, "old_")}
		c.New = c.Old
		// new = old with 1-3 edits (keeps the pair close, so differences are attributable)
		n := rapid.IntRange(1, 4).Draw(t, "nedits")
		i := 0
		for k := 0; k < n; k++ {
			// consecutive edits mostly stay on one slot: a request sees two things change at once
			if k == 0 || rapid.IntRange(0, 2).Draw(t, "move") == 0 {
				i = rapid.IntRange(0, 2).Draw(t, "slot")
			}
			switch rapid.IntRange(0, 8).Draw(t, "edit") {
			case 0:
				c.New.Slots[i].On = !c.New.Slots[i].On
			case 1:
				c.New.Slots[i].Auth = rapid.SampledFrom([]string{"", "basic1", "basic2", "hmac1", "hmac2", "fwd200", "fwd401"}).Draw(t, "nauth")
			case 2:
				c.New.Slots[i].Pull = rapid.SampledFrom([]string{"x", "y"}).Draw(t, "npull")
			case 3:
				c.New.Slots[i].RouteTok = rapid.SampledFrom([]string{"", "rt1", "rt2"}).Draw(t, "nrtok")
			case 4:
				c.New.Global = rapid.SampledFrom([]string{"g1", "g2"}).Draw(t, "nglobal")
			case 5:
				c.New.Admin = rapid.SampledFrom([]string{"", "a1", "a2"}).Draw(t, "nadmin")
			case 6:
				c.New.Order = rapid.IntRange(0, 2).Draw(t, "norder")
			case 7:
				c.New.Slots[i].Methods = rapid.SampledFrom([]string{"", "GET"}).Draw(t, "nmethods")
			case 8:
				c.New.Slots[i].MaxBody = 4 - c.New.Slots[i].MaxBody
			}
		}
		c.Mode = rapid.SampledFrom([]string{"pause", "pause", "body-read", "body-read", "failed", "pull-in-flight", "publish-in-flight", "publish-3-party"}).Draw(t, "mode")
		c.Pause = rapid.SampledFrom([]string{"state.write-unlocked", "state.write-unlocked", "reload.after-loadauth", "reload.after-updateall"}).Draw(t, "pause")
		c.Warm = rapid.Bool().Draw(t, "warm")
		c.Fail = rapid.SampledFrom([]string{"removed", "directory", "garbage", "uncompilable", "secret-missing", "secret-missing-adaptive", "secret-missing-ratelimit", "restart-listen", "restart-max-body", "restart-prefix", "truncated", "restart-pair", "restart-pair"}).Draw(t, "fail")
		if c.Fail == "restart-pair" {
			c.Fail = fmt.Sprintf("restart-pair-%d", rapid.IntRange(0, len(c18RestartPairs)-1).Draw(t, "restart_pair"))
		}
		return c
	})
}

func usesForward(specs ...CfgSpec) bool {
	for _, c := range specs {
		for _, sl := range c.Slots {
			if sl.On && strings.HasPrefix(sl.Auth, "fwd") {
				return true
			}
		}
	}
	return false
}

func answersDiff(a, b []string) int {
	n := 0
	for i := range a {
		if a[i] != b[i] {
			n++
		}
	}
	return n
}

// c18Stock gives every slot route a stock of queued messages, so that an authorized dequeue always
// hands out a message and its route shows whose messages a pull endpoint serves.
func c18Stock(w *frontWorld) {
	for _, p := range slotPaths {
		for k := 0; k < 64; k++ {
			_ = w.store.Enqueue(queue.Envelope{ID: fmt.Sprintf("stock-%s-%d", p, k), Route: p, Target: "pull", Payload: []byte("s")})
		}
	}
	w.clk.add(time.Millisecond)
}

// c18SameAnswer: equal, or two successful dequeues of which one found nothing to hand out.
func c18SameAnswer(name, a, b string) bool {
	if a == b {
		return true
	}
	if strings.HasPrefix(name, "pull ") && (a == "204" || b == "204") && (strings.HasPrefix(a, "20") && strings.HasPrefix(b, "20")) {
		return true
	}
	return false
}

func runC18(c C18Case, tolerate bool) *fOutcome {
	out := newFOutcome()
	verifhook.Reset()
	defer verifhook.Reset()
	oldText, newText := c.Old.text(""), c.New.text("")
	restartPair := -1
	if c.Mode == "failed" && strings.HasPrefix(c.Fail, "restart-pair-") {
		if k, err := strconv.Atoi(strings.TrimPrefix(c.Fail, "restart-pair-")); err == nil && k >= 0 && k < len(c18RestartPairs) {
			restartPair = k
			oldText = c.Old.text(c18RestartPairs[k][0]) // the running process and the untouched reference start with this
		}
	}
	mkWorld := func(src string) *frontWorld {
		w, err := newFrontWorld(src, worldOpts{withFile: true})
		if err != nil {
			out.Failure = ffail("HARNESS", "world", 0, "%v\n%s", err, src)
			return nil
		}
		c18Stock(w)
		return w
	}
	refOld := mkWorld(oldText)
	if refOld == nil {
		return out
	}
	defer refOld.close()
	refNew := mkWorld(newText)
	if refNew == nil {
		return out
	}
	defer refNew.close()
	w := mkWorld(oldText)
	if w == nil {
		return out
	}
	defer w.close()
	names := func() []string {
		var n []string
		for _, p := range buildBattery(w, "names") {
			n = append(n, p.name)
		}
		return n
	}()
	out.Labels["mode-"+c.Mode] = true

	switch c.Mode {
	case "failed":
		vBefore := runBattery(w, "t1")
		runningBefore := fmt.Sprintf("%+v", w.running.PathToRoute)
		var content []byte
		switch c.Fail {
		case "removed":
			_ = os.Remove(w.cfgPath)
		case "directory":
			_ = os.Remove(w.cfgPath)
			_ = os.Mkdir(w.cfgPath, 0o755)
		case "garbage":
			content = []byte(newText + "\n}}} {{{ \"unterminated\n")
		case "truncated":
			content = []byte(newText[:len(newText)/2])
		case "uncompilable":
			content = []byte(newText + "\n/broken {\n}\n")
		case "secret-missing":
			_ = os.Unsetenv("VERIF_C18_MISSING")
			content = []byte(newText + "\n/needs-secret {\n  auth hmac env:VERIF_C18_MISSING\n  pull { path /pull/needs }\n}\n")
		case "secret-missing-adaptive":
			// the secret cannot be loaded, and the same file tightens the admission guardrail to
			// "refuse as soon as anything is queued": none of it may take effect
			_ = os.Unsetenv("VERIF_C18_MISSING")
			content = []byte(c.New.text("defaults {\n  adaptive_backpressure {\n    enabled on\n    min_total 1\n    queued_percent 1\n    ready_lag 10m\n    oldest_queued_age 10m\n    sustained_growth off\n  }\n}\n") +
				"\n/needs-secret {\n  auth hmac env:VERIF_C18_MISSING\n  pull { path /pull/needs }\n}\n")
		case "secret-missing-ratelimit":
			_ = os.Unsetenv("VERIF_C18_MISSING")
			content = []byte(strings.Replace(newText, "ingress { listen 127.0.0.1:0 }", "ingress {\n  listen 127.0.0.1:0\n  rate_limit {\n    rps 0.001\n    burst 1\n  }\n}", 1) +
				"\n/needs-secret {\n  auth hmac env:VERIF_C18_MISSING\n  pull { path /pull/needs }\n}\n")
		case "restart-listen":
			content = []byte(strings.Replace(newText, "ingress { listen 127.0.0.1:0 }", "ingress { listen 127.0.0.1:1 }", 1))
		case "restart-max-body":
			content = []byte(c.New.text("defaults {\n  max_body 1kb\n}\n"))
		case "restart-prefix":
			content = []byte(strings.Replace(newText, "  listen 0.0.0.0:0\n", "  listen 0.0.0.0:0\n  prefix /adm\n", 1))
		default:
			if restartPair >= 0 {
				content = []byte(c.New.text(c18RestartPairs[restartPair][1]))
			}
		}
		if content != nil {
			if err := os.WriteFile(w.cfgPath, content, 0o600); err != nil {
				out.Failure = ffail("HARNESS", "write", 0, "%v", err)
				return out
			}
		}
		ok := w.reload()
		out.Labels["fail-"+c.Fail] = true
		if ok {
			if c.Fail == "truncated" {
				// half a file may happen to be a valid config: not a failed reload then
				out.Labels["truncated-still-valid"] = true
				return out
			}
			out.Failure = ffail("C18", "bad-reload-accepted", 0, "reload of %s content reported success", c.Fail)
			return out
		}
		if got := fmt.Sprintf("%+v", w.running.PathToRoute); got != runningBefore {
			out.Failure = ffail("C18", "running-config-changed", 0, "failed reload changed the running config")
			return out
		}
		// same probes again (fresh nonces): identical answers, except that battery 1's side effects
		// are mirrored by running the same two batteries on the untouched reference world
		_ = runBattery(refOld, "t1")
		vRef2 := runBattery(refOld, "t2")
		vAfter := runBattery(w, "t2")
		for i := range vAfter {
			if (vAfter[i] == "503" || vRef2[i] == "503") && usesForward(c.Old, c.New) {
				out.Labels["forward-callout-timed-out"] = true
				continue
			}
			if !c18SameAnswer(names[i], vAfter[i], vRef2[i]) {
				out.Failure = ffail("C18", "failed-reload-changed-behaviour", i, "after a failed reload (%s) probe %q answers %s, an untouched process answers %s (before: %s)", c.Fail, names[i], vAfter[i], vRef2[i], vBefore[i])
				return out
			}
		}
		out.NonTriv = answersDiff(runBatteryFresh(oldText, out), runBatteryFresh(newText, out)) > 0
		return out

	case "pause":
		if c.Warm {
			_ = runBattery(w, "t0")
			out.Labels["warm-before-reload"] = true
		}
		vOld := runBattery(refOld, "t1")
		vNew := runBattery(refNew, "t1")
		ndiff := answersDiff(vOld, vNew)
		if err := os.WriteFile(w.cfgPath, []byte(newText), 0o600); err != nil {
			out.Failure = ffail("HARNESS", "write", 0, "%v", err)
			return out
		}
		var vMid []string
		verifhook.On(c.Pause, func() {
			verifhook.On(c.Pause, nil)
			w.injectClock()
			vMid = runBattery(w, "t1")
		})
		// reload() holds reloadMu; the callback runs on this goroutine inside reloadConfig
		if !w.reload() {
			out.Failure = ffail("HARNESS", "reload-failed", 0, "reload of a valid config failed:\n%s", newText)
			return out
		}
		if vMid == nil {
			out.Failure = ffail("HARNESS", "pause-point-not-hit", 0, "hook %s was not reached", c.Pause)
			return out
		}
		out.Labels["pause-"+c.Pause] = true
		if ndiff > 0 {
			out.NonTriv = true
			out.Labels["configs-differ-in-battery"] = true
		}
		for i := range vMid {
			if (vMid[i] == "503" || vOld[i] == "503" || vNew[i] == "503") && usesForward(c.Old, c.New) {
				out.Labels["forward-callout-timed-out"] = true
				continue
			}
			if !c18SameAnswer(names[i], vMid[i], vOld[i]) && !c18SameAnswer(names[i], vMid[i], vNew[i]) {
				f := ffail("C18", "mixed-configuration", i, "at %s probe %q answers %s; entirely-old answers %s, entirely-new answers %s\nold:\n%s\nnew:\n%s", c.Pause, names[i], vMid[i], vOld[i], vNew[i], oldText, newText)
				if strings.HasPrefix(vMid[i], "202") && !strings.HasPrefix(vOld[i], "202") && !strings.HasPrefix(vNew[i], "202") {
					f.Prop = "C18,C08" // accepted under a mixture although neither configuration accepts it: an authentication bypass
				}
				if c.Pause == "reload.after-loadauth" || c.Pause == "state.write-unlocked" {
					f.Sig = "reload-two-phase-swap"
				}
				if f.Sig != "" && tolerate && verifkit.Known(f.Sig) {
					out.Known = append(out.Known, f.Sig)
					return out
				}
				out.Failure = f
				return out
			}
		}
		// after the reload has finished: behaves like the new configuration
		vAfter := runBattery(w, "t2")
		vNew2 := runBattery(refNew, "t2")
		for i := range vAfter {
			if (vAfter[i] == "503" || vNew2[i] == "503") && usesForward(c.Old, c.New) {
				out.Labels["forward-callout-timed-out"] = true
				continue
			}
			if !c18SameAnswer(names[i], vAfter[i], vNew2[i]) {
				f := ffail("C18", "after-reload-not-new", i, "after the reload (battery answered once before it: %v) probe %q answers %s, a process started on the new config answers %s\nold:\n%s\nnew:\n%s", c.Warm, names[i], vAfter[i], vNew2[i], oldText, newText)
				if strings.HasPrefix(names[i], "pull ") && strings.HasPrefix(vAfter[i], "200") {
					// messages were handed out to a caller, or from a route, the configuration in force does not allow
					f.Prop = "C18,C11"
				}
				if strings.HasPrefix(names[i], "publish ") && vAfter[i] == "200" {
					// a publish the configuration in force refuses (size limit, authorization) was stored
					f.Prop = "C18,C15,C12"
					if vNew2[i] == "401" || vNew2[i] == "403" {
						f.Prop = "C18,C11"
					}
				}
				if strings.HasPrefix(names[i], "/") && strings.Contains(names[i], "-big") && strings.HasPrefix(vAfter[i], "202") && vNew2[i] == "413" {
					f.Prop = "C18,C12"
				}
				out.Failure = f
				return out
			}
		}
		return out

	case "publish-in-flight":
		// an Admin publish of two items is in flight across the reload: item 0 has been validated, the
		// reload is carried out (verif hook before each item), then item 1 is validated
		if err := os.WriteFile(w.cfgPath, []byte(newText), 0o600); err != nil {
			out.Failure = ffail("HARNESS", "write", 0, "%v", err)
			return out
		}
		publish := func(rw *frontWorld, tag string, i, j int, tok string, hook func()) string {
			items := []map[string]any{
				{"id": fmt.Sprintf("pif-%s-%d-0", tag, i), "route": slotPaths[i], "target": "pull", "payload_b64": "eA=="},
				{"id": fmt.Sprintf("pif-%s-%d-1", tag, j), "route": slotPaths[j], "target": "pull", "payload_b64": "eQ=="},
			}
			body, _ := json.Marshal(map[string]any{"items": items})
			r := FReq{Method: "POST", Path: "/messages/publish", Host: "a", Remote: "127.0.0.1:1", Body: body,
				Headers: [][2]string{{"Content-Type", "application/json"}, {"X-Hookaido-Audit-Reason", "verif"}}}
			if tok != "" {
				r.Headers = append(r.Headers, [2]string{"Authorization", "Bearer " + tok})
			}
			before, _ := rw.store.Stats()
			if hook != nil {
				hits := 0
				verifhook.On("admin.publish.item", func() {
					hits++
					if hits == 2 {
						hook()
					}
				})
				defer verifhook.On("admin.publish.item", nil)
			}
			rec := serve(rw.adminH, r)
			after, _ := rw.store.Stats()
			return fmt.Sprintf("%d stored=%d", rec.Code, after.Total-before.Total)
		}
		for i := range slotPaths {
			for j := range slotPaths {
				if i == j {
					continue
				}
				tag := fmt.Sprintf("%d%d", i, j)
				vOld, vNew := publish(refOld, tag, i, j, c.Old.Admin, nil), publish(refNew, tag, i, j, c.Old.Admin, nil)
				if vOld != vNew {
					out.NonTriv = true
					out.Labels["configs-differ-in-battery"] = true
				}
				wi := mkWorld(oldText)
				if wi == nil {
					return out
				}
				_ = os.WriteFile(wi.cfgPath, []byte(newText), 0o600)
				fired := false
				reloaded := make(chan struct{})
				ans := publish(wi, tag, i, j, c.Old.Admin, func() {
					fired = true
					// the reload comes from another goroutine (a signal, the file watcher); it either lands
					// here, between the two items, or has to wait for the request
					go func() { wi.reload(); close(reloaded) }()
					select {
					case <-reloaded:
					case <-time.After(40 * time.Millisecond):
						out.Labels["reload-waited-for-the-request"] = true
					}
				})
				if fired {
					select {
					case <-reloaded:
					case <-time.After(10 * time.Second):
						wi.close()
						out.Skipped = "the reload did not finish within 10s of the request"
						out.Labels["inconclusive-time-budget"] = true
						return out
					}
				}
				wi.close()
				if !fired {
					out.Labels["reload-not-reached-in-request"] = true
					continue
				}
				out.Labels["reload-inside-publish-request"] = true
				if ans != vOld && ans != vNew {
					f := ffail("C18,C15", "request-mixed-configuration", i*3+j, "a publish of two items (routes %s, %s) whose first item was validated before the reload and whose second after it answers %q; entirely-old answers %q, entirely-new answers %q\nold:\n%s\nnew:\n%s", slotPaths[i], slotPaths[j], ans, vOld, vNew, oldText, newText)
					f.Sig = "publish-batch-spans-reload"
					if tolerate && verifkit.Known(f.Sig) {
						out.Known = append(out.Known, f.Sig)
						return out
					}
					out.Failure = f
					return out
				}
			}
		}
		return out

	case "publish-3-party":
		// three parties at the configuration gate: publish A is between its two items (it holds the gate), a reload
		// queues behind A, publish B arrives exactly then. B must be served entirely under the old or entirely under
		// the new configuration - whether it waits behind the queued reload or not. (Seed C18-15 let B run without
		// the gate when it could not get it at once: first item under the old, second under the new configuration.)
		if err := os.WriteFile(w.cfgPath, []byte(newText), 0o600); err != nil {
			out.Failure = ffail("HARNESS", "write", 0, "%v", err)
			return out
		}
		mkReq := func(tag string, i, j int, tok string) (FReq, [2]string) {
			ids := [2]string{fmt.Sprintf("p3-%s-0", tag), fmt.Sprintf("p3-%s-1", tag)}
			items := []map[string]any{
				{"id": ids[0], "route": slotPaths[i], "target": "pull", "payload_b64": "eA=="},
				{"id": ids[1], "route": slotPaths[j], "target": "pull", "payload_b64": "eQ=="},
			}
			body, _ := json.Marshal(map[string]any{"items": items})
			r := FReq{Method: "POST", Path: "/messages/publish", Host: "a", Remote: "127.0.0.1:1", Body: body,
				Headers: [][2]string{{"Content-Type", "application/json"}, {"X-Hookaido-Audit-Reason", "verif"}}}
			if tok != "" {
				r.Headers = append(r.Headers, [2]string{"Authorization", "Bearer " + tok})
			}
			return r, ids
		}
		answer := func(rw *frontWorld, code int, ids [2]string) string {
			n := 0
			if msgs, err := rw.dump(); err == nil {
				for _, m := range msgs {
					if m.ID == ids[0] || m.ID == ids[1] {
						n++
					}
				}
			}
			return fmt.Sprintf("%d stored=%d", code, n)
		}
		for i := range slotPaths {
			for j := range slotPaths {
				if i == j {
					continue
				}
				tag := fmt.Sprintf("%d%d", i, j)
				reqB, idsB := mkReq("b"+tag, i, j, c.Old.Admin)
				vOld := answer(refOld, serve(refOld.adminH, reqB).Code, idsB)
				vNew := answer(refNew, serve(refNew.adminH, reqB).Code, idsB)
				if vOld != vNew {
					out.NonTriv = true
					out.Labels["configs-differ-in-battery"] = true
				}
				wi := mkWorld(oldText)
				if wi == nil {
					return out
				}
				_ = os.WriteFile(wi.cfgPath, []byte(newText), 0o600)
				reqA, _ := mkReq("a"+tag, i, j, c.Old.Admin)
				var mu sync.Mutex
				hits := 0
				var once sync.Once
				bAt2, reloaded, bDone := make(chan struct{}), make(chan struct{}), make(chan int, 1)
				started := false
				verifhook.On("admin.publish.item", func() {
					mu.Lock()
					hits++
					h := hits
					mu.Unlock()
					switch h {
					case 2: // A between its items, holding the gate
						started = true
						go func() { wi.reload(); close(reloaded) }()
						time.Sleep(30 * time.Millisecond) // the reload is now queued behind A (or has already landed)
						go func() { bDone <- serve(wi.adminH, reqB).Code }()
						select {
						case <-bAt2:
							out.Labels["b-between-its-items-while-reload-queued"] = true
						case <-time.After(60 * time.Millisecond):
						}
					case 4: // B between its items
						once.Do(func() { close(bAt2) })
						select {
						case <-reloaded:
						case <-time.After(2 * time.Second):
						}
					}
				})
				_ = serve(wi.adminH, reqA)
				codeB := -1
				if started {
					select {
					case <-reloaded:
					case <-time.After(10 * time.Second):
					}
					select {
					case codeB = <-bDone:
					case <-time.After(10 * time.Second):
					}
				}
				verifhook.On("admin.publish.item", nil)
				if !started {
					wi.close()
					out.Labels["reload-not-reached-in-request"] = true
					continue
				}
				if codeB < 0 {
					wi.close()
					out.Skipped = "publish B did not finish within 10s"
					out.Labels["inconclusive-time-budget"] = true
					return out
				}
				ansB := answer(wi, codeB, idsB)
				wi.close()
				out.Labels["three-parties-at-the-gate"] = true
				if ansB != vOld && ansB != vNew {
					f3 := ffail("C18,C15", "request-mixed-configuration", i*3+j, "publish B (routes %s, %s) arrived while publish A held the configuration gate and a reload was queued behind A; B answers %q; entirely-old answers %q, entirely-new answers %q\nold:\n%s\nnew:\n%s", slotPaths[i], slotPaths[j], ansB, vOld, vNew, oldText, newText)
					// known finding 25: Admin requests are authorized (one read of the runtime state) before the
					// publish handler takes the configuration gate; a request that waits at the gate behind a queued
					// reload is authorized under the old and validated under the new configuration. Signature: the
					// reload changes who is authorized (entirely-new refuses the caller with 401).
					if strings.HasPrefix(vNew, "401") {
						f3.Sig = "publish-authorized-before-config-gate"
						if tolerate && verifkit.Known(f3.Sig) {
							out.Known = append(out.Known, f3.Sig)
							return out
						}
					}
					out.Failure = f3
					return out
				}
			}
		}
		return out

	case "pull-in-flight":
		// a pull request is in flight across the reload: it has been authorized, the reload is carried
		// out, then its endpoint is resolved (verif hook between the two reads of the runtime state)
		if err := os.WriteFile(w.cfgPath, []byte(newText), 0o600); err != nil {
			out.Failure = ffail("HARNESS", "write", 0, "%v", err)
			return out
		}
		var pulls []probe
		for _, p := range buildBattery(w, "t1") {
			if p.api == "pull" {
				pulls = append(pulls, p)
			}
		}
		refAns := func(rw *frontWorld) []string {
			var a []string
			for _, p := range pulls {
				rw.clk.add(time.Millisecond)
				a = append(a, runProbe(rw, p))
			}
			return a
		}
		vOld, vNew := refAns(refOld), refAns(refNew)
		if answersDiff(vOld, vNew) > 0 {
			out.NonTriv = true
			out.Labels["configs-differ-in-battery"] = true
		}
		for i, p := range pulls {
			if vOld[i] == vNew[i] && !strings.HasPrefix(vOld[i], "200") {
				continue // refused alike before the state is read a second time
			}
			wi := mkWorld(oldText)
			if wi == nil {
				return out
			}
			_ = os.WriteFile(wi.cfgPath, []byte(newText), 0o600)
			fired := false
			verifhook.On("pull.after-authorize", func() {
				if !fired {
					fired = true
					wi.reload()
				}
			})
			ans := runProbe(wi, p)
			verifhook.On("pull.after-authorize", nil)
			wi.close()
			if !fired {
				out.Labels["reload-not-reached-in-request"] = true
				continue
			}
			out.Labels["reload-inside-pull-request"] = true
			if !c18SameAnswer(p.name, ans, vOld[i]) && !c18SameAnswer(p.name, ans, vNew[i]) {
				f := ffail("C18", "request-mixed-configuration", i, "pull request %q, authorized before the reload and resolved after it, answers %s; entirely-old answers %s, entirely-new answers %s\nold:\n%s\nnew:\n%s", p.name, ans, vOld[i], vNew[i], oldText, newText)
				if strings.HasPrefix(ans, "200") {
					f.Prop = "C18,C11" // messages handed out to a caller neither configuration allows on that endpoint
				}
				out.Failure = f
				return out
			}
		}
		// the same for the Worker gRPC transport (wired as startServers wires it): authorized, reload, resolved
		workerAns := func(rw *frontWorld, endpoint, tok string) string {
			ph := pullapi.NewServer(rw.store)
			ph.ResolveRoute = rw.state.resolvePull
			ph.Authorize = rw.state.authorizePull
			wk := workerapi.NewServer(ph)
			wk.ResolveRoute = rw.state.resolvePull
			wk.Authorize = rw.state.authorizeWorker
			wk.PlanRequest = rw.state.planWorker
			md := metadata.MD{}
			if tok != "" {
				md.Set("authorization", "Bearer "+tok)
			}
			resp, err := wk.Dequeue(metadata.NewIncomingContext(context.Background(), md), &workerapipb.DequeueRequest{Endpoint: endpoint, Batch: 1})
			if err != nil {
				return status.Code(err).String()
			}
			if len(resp.GetItems()) > 0 {
				return "OK:" + resp.GetItems()[0].GetRoute()
			}
			return "OK"
		}
		for i := range slotPaths {
			for _, suf := range []string{"x", "y"} {
				for _, tok := range []string{"g1", "g2", "rt1", "rt2"} {
					ep := fmt.Sprintf("/pull/s%d%s", i, suf)
					name := fmt.Sprintf("worker s%d%s tok=%s", i, suf, tok)
					vo, vn := workerAns(refOld, ep, tok), workerAns(refNew, ep, tok)
					if vo == vn && !strings.HasPrefix(vo, "OK") {
						continue
					}
					wi := mkWorld(oldText)
					if wi == nil {
						return out
					}
					_ = os.WriteFile(wi.cfgPath, []byte(newText), 0o600)
					fired := false
					verifhook.On("worker.after-authorize", func() {
						if !fired {
							fired = true
							wi.reload()
						}
					})
					ans := workerAns(wi, ep, tok)
					verifhook.On("worker.after-authorize", nil)
					wi.close()
					if !fired {
						continue
					}
					out.Labels["reload-inside-worker-request"] = true
					same := func(a, b string) bool {
						return a == b || (strings.HasPrefix(a, "OK") && strings.HasPrefix(b, "OK") && (a == "OK" || b == "OK"))
					}
					if !same(ans, vo) && !same(ans, vn) {
						f := ffail("C18", "request-mixed-configuration", i, "worker request %q, authorized before the reload and resolved after it, answers %s; entirely-old answers %s, entirely-new answers %s\nold:\n%s\nnew:\n%s", name, ans, vo, vn, oldText, newText)
						if strings.HasPrefix(ans, "OK") {
							f.Prop = "C18,C11"
						}
						out.Failure = f
						return out
					}
				}
			}
		}
		return out

	case "body-read":
		// an in-flight ingress request whose body upload spans the reload
		if err := os.WriteFile(w.cfgPath, []byte(newText), 0o600); err != nil {
			out.Failure = ffail("HARNESS", "write", 0, "%v", err)
			return out
		}
		ps := buildBattery(w, "t1")
		var ing []probe
		for _, p := range ps {
			if p.api == "ingress" && p.req.Method == "POST" {
				ing = append(ing, p)
			}
		}
		// reference answers per probe on untouched worlds
		refAns := func(rw *frontWorld) []string {
			var a []string
			for _, p := range ing {
				rw.clk.add(time.Millisecond)
				a = append(a, runProbe(rw, p))
			}
			return a
		}
		vOld, vNew := refAns(refOld), refAns(refNew)
		if answersDiff(vOld, vNew) > 0 {
			out.NonTriv = true
		}
		for i, p := range ing {
			// fresh world per probe: each probe needs its own reload moment
			wi, err := newFrontWorld(oldText, worldOpts{withFile: true})
			if err != nil {
				out.Failure = ffail("HARNESS", "world", 0, "%v\n%s", err, oldText)
				return out
			}
			_ = os.WriteFile(wi.cfgPath, []byte(newText), 0o600)
			req := p.req.build()
			fired := false
			req.Body = io.NopCloser(&triggerReader{data: p.req.Body, fire: func() {
				if !fired {
					fired = true
					wi.reload()
				}
			}})
			rec := httptest.NewRecorder()
			wi.ingress.ServeHTTP(rec, req)
			ans := fmt.Sprint(rec.Code)
			wi.close()
			if !fired {
				out.Labels["reload-not-reached-in-request"] = true
				continue
			}
			out.Labels["reload-inside-request"] = true
			o, n := strings.SplitN(vOld[i], "+", 2)[0], strings.SplitN(vNew[i], "+", 2)[0]
			if ans == "503" && usesForward(c.Old, c.New) {
				// a forward-auth callout that did not answer in time fails closed: load, not a mixture
				out.Labels["forward-callout-timed-out"] = true
				continue
			}
			if ans != o && ans != n {
				f := ffail("C18", "request-mixed-configuration", i, "request %q whose body read spans the reload answers %s; entirely-old answers %s, entirely-new answers %s\nold:\n%s\nnew:\n%s", p.name, ans, o, n, oldText, newText)
				f.Sig = "request-spans-reload-mixture"
				if tolerate && verifkit.Known(f.Sig) {
					out.Known = append(out.Known, f.Sig)
					return out
				}
				out.Failure = f
				return out
			}
		}
		return out
	}
	return out
}

func runBatteryFresh(src string, out *fOutcome) []string {
	w, err := newFrontWorld(src, worldOpts{withFile: true})
	if err != nil {
		return nil
	}
	defer w.close()
	return runBattery(w, "fresh")
}

type triggerReader struct {
	data []byte
	off  int
	fire func()
}

func (t *triggerReader) Read(p []byte) (int, error) {
	t.fire()
	if t.off >= len(t.data) {
		return 0, io.EOF
	}
	n := copy(p, t.data[t.off:])
	t.off += n
	return n, nil
}

func TestProp_C18_Reload(t *testing.T) {
	frontProp(t, "C18", "TestProp_C18_Reload", genC18Case(), runC18)
}

// ------------------------------------------------------------------ file replacement: crash tier

type C18FileCase struct {
	OldLen int    `json:"old_len"`
	NewLen int    `json:"new_len"`
	Label  string `json:"label"`
	Exists bool   `json:"exists"`
}

var wfaLabels = []string{"app.wfa.created", "app.wfa.chmod", "app.wfa.written", "app.wfa.synced", "app.wfa.closed", "app.wfa.renamed", "none"}

func fileContent(tag string, n int) []byte {
	var b bytes.Buffer
	for b.Len() < n {
		fmt.Fprintf(&b, "# %s line %d\n", tag, b.Len())
	}
	return b.Bytes()[:n]
}

// TestChild_C18_WriteFile is the child process body: it calls the real writeFileAtomic and is
// killed by the verif hook at the label named in VERIF_CRASH.
func TestChild_C18_WriteFile(t *testing.T) {
	p := os.Getenv("VERIF_CHILD_PATH")
	if p == "" {
		t.Skip("child only")
	}
	data, err := os.ReadFile(os.Getenv("VERIF_CHILD_DATA"))
	if err != nil {
		os.Exit(3)
	}
	if err := writeFileAtomic(p, data); err != nil {
		os.Exit(4)
	}
	os.Exit(0)
}

func runC18File(c C18FileCase, _ bool) *fOutcome {
	out := newFOutcome()
	dir := filepath.Join(fScratch(), fmt.Sprintf("wfa%d", fSeq.Add(1)))
	_ = os.MkdirAll(dir, 0o755)
	defer os.RemoveAll(dir)
	target := filepath.Join(dir, "conf", "Hookaidofile")
	_ = os.MkdirAll(filepath.Dir(target), 0o755)
	oldB, newB := fileContent("old", c.OldLen), fileContent("new", c.NewLen)
	if c.Exists {
		_ = os.WriteFile(target, oldB, 0o640)
	}
	dataPath := filepath.Join(dir, "new.bin")
	_ = os.WriteFile(dataPath, newB, 0o600)
	cmd := exec.Command(os.Args[0], "-test.run", "^TestChild_C18_WriteFile$")
	cmd.Env = append(os.Environ(), "VERIF_CHILD_PATH="+target, "VERIF_CHILD_DATA="+dataPath)
	if c.Label != "none" {
		cmd.Env = append(cmd.Env, "VERIF_CRASH="+c.Label+":1", "VERIF_CRASH_MARK="+filepath.Join(dir, "mark"))
	}
	err := cmd.Run()
	_, crashed := os.Stat(filepath.Join(dir, "mark"))
	got, rerr := os.ReadFile(target)
	out.Labels["label-"+c.Label] = true
	if c.Label == "none" {
		if err != nil {
			out.Failure = ffail("HARNESS", "child", 0, "child failed without a crash point: %v", err)
			return out
		}
		if rerr != nil || !bytes.Equal(got, newB) {
			out.Failure = ffail("C18", "write-not-applied", 0, "writeFileAtomic returned nil but the file does not hold the new content")
		}
		return out
	}
	if crashed != nil {
		out.Failure = ffail("HARNESS", "crash-point-not-hit", 0, "label %s was not reached (child: %v)", c.Label, err)
		return out
	}
	out.NonTriv = true
	switch {
	case rerr != nil:
		if c.Exists {
			out.Failure = ffail("C18", "file-lost", 0, "crash at %s: the config file is gone (%v)", c.Label, rerr)
		}
	case bytes.Equal(got, newB):
		out.Labels["holds-new"] = true
	case c.Exists && bytes.Equal(got, oldB):
		out.Labels["holds-old"] = true
	default:
		out.Failure = ffail("C18", "partial-file", 0, "crash at %s: file holds %d bytes that are neither the old (%d) nor the new (%d) content", c.Label, len(got), len(oldB), len(newB))
	}
	if out.Failure != nil {
		return out
	}
	// the next rewrite after the crash (shorter content) must again leave exactly its own bytes
	next := bytes.Repeat([]byte("n"), len(newB)/3+1)
	if err := writeFileAtomic(target, next); err != nil {
		out.Failure = ffail("C18", "rewrite-after-crash-failed", 0, "crash at %s, then a normal rewrite: %v", c.Label, err)
		return out
	}
	if got2, err := os.ReadFile(target); err != nil || !bytes.Equal(got2, next) {
		out.Failure = ffail("C18", "rewrite-after-crash-corrupt", 0, "crash at %s, then a normal rewrite of %d bytes: the file holds %d bytes (err %v) that are not the submitted content", c.Label, len(next), len(got2), err)
		return out
	}
	out.Labels["rewrite-after-crash-ok"] = true
	return out
}

func TestProp_C18_FileCrash(t *testing.T) {
	gen := rapid.Custom(func(t *rapid.T) C18FileCase {
		return C18FileCase{
			OldLen: rapid.SampledFrom([]int{0, 1, 100, 4096, 4097, 70000}).Draw(t, "old_len"),
			NewLen: rapid.SampledFrom([]int{0, 1, 100, 4096, 8192, 70000, 300000}).Draw(t, "new_len"),
			Label:  rapid.SampledFrom(wfaLabels).Draw(t, "label"),
			Exists: rapid.IntRange(0, 4).Draw(t, "exists") > 0,
		}
	})
	frontProp(t, "C18", "TestProp_C18_FileCrash", gen, runC18File)
}

// ------------------------------------------------------------ management mutation: rollback tier

type C18MgmtCase struct {
	Fault string `json:"fault"` // none | reload-fails | backlog-after-write
	Op    string `json:"op"`    // upsert | delete
}

func mgmtText(secretEnv bool) string {
	var b strings.Builder
	b.WriteString("ingress { listen 127.0.0.1:0 }\npull_api {\n  listen localhost:0\n  auth token raw:g1\n}\nadmin_api { listen 0.0.0.0:0 }\n")
	b.WriteString("# operator comment that formatting may move\n")
	b.WriteString("/keep {\n  pull { path /pull/keep }\n}\n")
	b.WriteString("/hm {\n  auth hmac env:VERIF_C18_SECRET\n  pull { path /pull/hm }\n}\n")
	b.WriteString("/managed {\n  application \"app1\"\n  endpoint_name \"e1\"\n  pull { path /pull/managed }\n}\n")
	b.WriteString("/free {\n  pull { path /pull/free }\n}\n")
	return b.String()
}

func runC18Mgmt(c C18MgmtCase, _ bool) *fOutcome {
	out := newFOutcome()
	verifhook.Reset()
	defer verifhook.Reset()
	_ = os.Setenv("VERIF_C18_SECRET", "s3cret")
	defer os.Unsetenv("VERIF_C18_SECRET")
	src := mgmtText(true)
	w, err := newFrontWorld(src, worldOpts{withFile: true})
	if err != nil {
		out.Failure = ffail("HARNESS", "world", 0, "%v", err)
		return out
	}
	defer w.close()
	before, _ := os.ReadFile(w.cfgPath)
	probeSet := func() []string {
		var a []string
		for _, p := range []FReq{
			{Method: "POST", Path: "/keep", Host: "h", Remote: "1.2.3.4:1", Body: []byte("x")},
			{Method: "POST", Path: "/hm", Host: "h", Remote: "1.2.3.4:1", Body: []byte("x")},
			{Method: "POST", Path: "/free", Host: "h", Remote: "1.2.3.4:1", Body: []byte("x")},
			{Method: "POST", Path: "/managed", Host: "h", Remote: "1.2.3.4:1", Body: []byte("x")},
		} {
			a = append(a, fmt.Sprint(serve(w.ingress, p).Code))
		}
		for _, p := range []string{"/applications/app1/endpoints/e1", "/applications/app1/endpoints/e2", "/management/model"} {
			rec := serve(w.adminH, FReq{Method: "GET", Path: p, Host: "a", Remote: "127.0.0.1:1"})
			a = append(a, fmt.Sprintf("%d:%s", rec.Code, strings.TrimSpace(rec.Body.String())))
		}
		return a
	}
	vBefore := probeSet()
	// a reader that opens the file between the write and the reload keeps that very file (hard link):
	// nothing that happens afterwards (reload, roll-back) may change what it holds, and the original
	// file (hard link taken before the call) must never be written in place either
	linkBefore, linkMid := filepath.Join(filepath.Dir(w.cfgPath), "link-before"), filepath.Join(filepath.Dir(w.cfgPath), "link-mid")
	_ = os.Link(w.cfgPath, linkBefore)
	var midContent []byte
	midTaken := false
	takeMid := func() {
		if b, err := os.ReadFile(w.cfgPath); err == nil && os.Link(w.cfgPath, linkMid) == nil {
			midContent, midTaken = b, true
		}
	}
	switch c.Fault {
	case "none":
		verifhook.On("mgmt.after-write", takeMid)
	case "reload-fails":
		verifhook.On("mgmt.after-write", func() { takeMid(); _ = os.Unsetenv("VERIF_C18_SECRET") })
	case "backlog-after-write":
		verifhook.On("mgmt.after-write", func() {
			// a message arrives on the route being (re)assigned between the write and the reload
			serve(w.ingress, FReq{Method: "POST", Path: "/free", Host: "h", Remote: "1.2.3.4:1", Body: []byte("late")})
			serve(w.ingress, FReq{Method: "POST", Path: "/managed", Host: "h", Remote: "1.2.3.4:1", Body: []byte("late")})
		})
	}
	var rec *httptest.ResponseRecorder
	hdr := [][2]string{{"Content-Type", "application/json"}, {"X-Hookaido-Audit-Reason", "verif"}}
	switch c.Op {
	case "upsert":
		rec = serve(w.adminH, FReq{Method: "PUT", Path: "/applications/app1/endpoints/e2", Host: "a", Remote: "127.0.0.1:1", Body: []byte(`{"route":"/free"}`), Headers: hdr})
	default:
		rec = serve(w.adminH, FReq{Method: "DELETE", Path: "/applications/app1/endpoints/e1", Host: "a", Remote: "127.0.0.1:1", Headers: hdr})
	}
	_ = os.Setenv("VERIF_C18_SECRET", "s3cret")
	after, rerr := os.ReadFile(w.cfgPath)
	out.Labels["fault-"+c.Fault] = true
	out.Labels[fmt.Sprintf("status-%d", rec.Code)] = true
	if b, err := os.ReadFile(linkBefore); err != nil || !bytes.Equal(b, before) {
		out.Failure = ffail("C18", "file-written-in-place", 0, "the file that was the config before the mutation was overwritten in place (%d -> %d bytes, err %v): the replacement is not atomic", len(before), len(b), err)
		return out
	}
	if midTaken {
		out.Labels["mid-link-taken"] = true
		if b, err := os.ReadFile(linkMid); err != nil || !bytes.Equal(b, midContent) {
			out.Failure = ffail("C18", "file-written-in-place", 0, "the file a reader opened between write and reload was overwritten in place (%d -> %d bytes, err %v): the roll-back is not atomic", len(midContent), len(b), err)
			return out
		}
	}
	if rerr != nil {
		out.Failure = ffail("C18", "config-file-lost", 0, "config file unreadable after the mutation: %v", rerr)
		return out
	}
	if rec.Code/100 == 2 {
		out.Labels["mutation-applied"] = true
		if c.Fault == "reload-fails" {
			out.Failure = ffail("C18", "mutation-ok-though-reload-failed", 0, "mutation answered %d although the reload could not load its secret", rec.Code)
			return out
		}
		// the rewritten file must parse and compile
		_, res, perr := compileSrc(string(after))
		if perr != nil || !res.OK {
			out.Failure = ffail("C18,C19", "written-config-invalid", 0, "the management API wrote a config that does not compile: %v %v", perr, res.Errors)
			return out
		}
		if bytes.Equal(before, after) {
			out.Failure = ffail("C18", "applied-but-file-unchanged", 0, "mutation answered %d but the file is unchanged", rec.Code)
		}
		return out
	}
	out.NonTriv = c.Fault != "none"
	if !bytes.Equal(before, after) {
		out.Failure = ffail("C18", "no-rollback", 0, "mutation answered %d (%s) but the config file differs from the previous content:\n--- before\n%s\n--- after\n%s", rec.Code, strings.TrimSpace(rec.Body.String()), before, after)
		return out
	}
	vAfter := probeSet()
	for i := range vAfter {
		if vAfter[i] != vBefore[i] {
			out.Failure = ffail("C18", "failed-mutation-changed-behaviour", i, "after the failed mutation probe %d answers %s, before %s", i, vAfter[i], vBefore[i])
			return out
		}
	}
	return out
}

func TestProp_C18_MgmtRollback(t *testing.T) {
	gen := rapid.Custom(func(t *rapid.T) C18MgmtCase {
		return C18MgmtCase{Fault: rapid.SampledFrom([]string{"none", "reload-fails", "backlog-after-write"}).Draw(t, "fault"),
			Op: rapid.SampledFrom([]string{"upsert", "delete"}).Draw(t, "op")}
	})
	frontProp(t, "C18", "TestProp_C18_MgmtRollback", gen, runC18Mgmt)
}

var _ = json.Marshal

// The reload pairs for other properties' share: after a reload, with everything the process remembers
// from the requests it served before (the battery is answered once under the old configuration), it
// behaves like a process started on the new configuration - no pull endpoint hands out messages to a
// caller or from a route the configuration in force does not allow (C11), no publish or ingress
// request above the size limit in force is stored (C15, C12).
func c18AfterReload(t *testing.T, prop, test string) {
	gen := rapid.Custom(func(t *rapid.T) C18Case {
		c := genC18Case().Draw(t, "case")
		c.Mode, c.Warm = "pause", true
		return c
	})
	frontProp(t, prop, test, gen, func(c C18Case, tol bool) *fOutcome {
		out := runC18(c, tol)
		if f := out.Failure; f != nil && f.Prop != "HARNESS" && !strings.Contains(f.Prop, prop) {
			out.Failure = nil
			out.Labels["foreign-clause"] = true
		}
		return out
	})
}

func TestProp_C11_AfterReload(t *testing.T) { c18AfterReload(t, "C11", "TestProp_C11_AfterReload") }
func TestProp_C15_AfterReload(t *testing.T) { c18AfterReload(t, "C15", "TestProp_C15_AfterReload") }
func TestProp_C12_AfterReload(t *testing.T) { c18AfterReload(t, "C12", "TestProp_C12_AfterReload") }

// TestProp_C08_ReloadWindow: the reload pairs for C08's share - no request is accepted inside a
// reload that neither the old nor the new configuration would accept.
func TestProp_C08_ReloadWindow(t *testing.T) {
	gen := rapid.Custom(func(t *rapid.T) C18Case {
		c := genC18Case().Draw(t, "case")
		c.Mode = "pause"
		return c
	})
	frontProp(t, "C08", "TestProp_C08_ReloadWindow", gen, func(c C18Case, tol bool) *fOutcome {
		out := runC18(c, tol)
		if f := out.Failure; f != nil && f.Prop != "HARNESS" && !strings.Contains(f.Prop, "C08") {
			out.Failure = nil
			out.Labels["foreign-clause"] = true
		}
		return out
	})
}

// c18RestartPairs: (settings the process was started with, the same settings as edited in the reloaded file). Every
// edit is one the documentation lists under "Restart Required" (queue limits / retention / DLQ retention, global
// defaults): the reload must be refused and nothing of the new file - its routes, tokens, limits - may take effect.
// Seed C18-14: a changed prune_interval was no longer noticed while queue_retention.max_age is off, although the
// interval also drives the DLQ and delivered-retention sweeps.
var c18RestartPairs = [][2]string{
	{"queue_retention {\n  max_age off\n  prune_interval 30s\n}\n", "queue_retention {\n  max_age off\n  prune_interval 10s\n}\n"},
	{"queue_retention {\n  max_age 1h\n  prune_interval 30s\n}\n", "queue_retention {\n  max_age 2h\n  prune_interval 30s\n}\n"},
	{"queue_retention {\n  max_age 1h\n  prune_interval 30s\n}\n", "queue_retention {\n  max_age 1h\n  prune_interval 31s\n}\n"},
	{"dlq_retention {\n  max_age 1h\n  max_depth 100\n}\n", "dlq_retention {\n  max_age 1h\n  max_depth 101\n}\n"},
	{"dlq_retention {\n  max_age 1h\n  max_depth 100\n}\n", "dlq_retention {\n  max_age 2h\n  max_depth 100\n}\n"},
	{"delivered_retention {\n  max_age 1h\n}\n", "delivered_retention {\n  max_age 2h\n}\n"},
	{"", "delivered_retention {\n  max_age 1h\n}\n"},
	{"queue_limits {\n  max_depth 100\n  drop_policy reject\n}\n", "queue_limits {\n  max_depth 101\n  drop_policy reject\n}\n"},
	{"queue_limits {\n  max_depth 100\n  drop_policy reject\n}\n", "queue_limits {\n  max_depth 100\n  drop_policy drop_oldest\n}\n"},
	{"defaults {\n  max_headers 8kb\n}\n", "defaults {\n  max_headers 9kb\n}\n"},
}
