//go:build verif

package app

import (
	"fmt"
	"os"
	"strings"
	"sync/atomic"
	"testing"
	"time"

	"github.com/nuetzliches/hookaido/internal/queue"
	"pgregory.net/rapid"
)

// ---------------------------------------------------------------------------------------
// C18, derived state across a reload: the adaptive backpressure decision of the ingress
// ("limits" of the statement) is taken from the configured thresholds *and* from signals the
// controller derives from the backlog history and caches (trend signals for 1 s, statistics
// for 250 ms). A reload that is reported as applied must not leave a decision to signals that
// were derived under the old thresholds.
//
// Case: a generated backlog history (4-9 trend samples a minute apart: the harness enqueues or
// cancels messages on the world's store and calls the store's own CaptureBacklogTrendSample),
// old and new `trend_signals` / `adaptive_backpressure` settings (the new ones 1-2 edits away,
// sometimes invalid), 1-3 ingress requests before the reload (they fill the caches) and 1-4
// after it at generated clock offsets (0 ms .. 2.5 s, around both cache lifetimes).
//
// Oracle (metamorphic, fresh process): a second world is started on the configuration that is
// in force after the reload (the new one if the reload was applied, the old one if it was
// refused), is given the same backlog history and the same stored messages, and receives the
// post-reload requests at the same instants with cold caches; every status must agree. The
// statistics-based criteria are configured far away from anything the case can reach (one
// message stays leased, ages are minutes against thresholds of a day), so the 250 ms statistics
// cache - facts about the queue, not about the configuration - cannot make the two differ, and
// sample instants keep 20 s distance from every window / staleness boundary.
// Non-trivial = the old and the new configuration answer the post-reload requests differently.
// ---------------------------------------------------------------------------------------

type BPSpec struct {
	Enabled     bool   `json:"enabled"`
	Growth      bool   `json:"growth"` // adaptive_backpressure.sustained_growth
	MinTotal    int    `json:"min_total"`
	Window      string `json:"window"`
	Consecutive int    `json:"consecutive"`
	MinSamples  int    `json:"min_samples"`
	MinDelta    int    `json:"min_delta"`
	Invalid     bool   `json:"invalid,omitempty"` // a value the compiler refuses
	ExtraRoute  bool   `json:"extra_route,omitempty"`
}

type C18BPCase struct {
	Old    BPSpec `json:"old"`
	New    BPSpec `json:"new"`
	Deltas []int  `json:"deltas"`  // change of the number of queued messages before each sample
	LastS  int    `json:"last_s"`  // age of the newest sample at the first request, seconds
	PreMs  []int  `json:"pre_ms"`  // clock steps before each pre-reload request
	PostMs []int  `json:"post_ms"` // clock steps before each post-reload request
	// Hold: the background refresh of the trend signals that the last pre-reload request starts
	// (if it starts one: warm, stale cache) is held inside the store's ListBacklogTrend until the
	// reload has been carried out, and completes before the first post-reload request.
	Hold bool `json:"hold,omitempty"`
	// InFlight: no request precedes the reload; instead the first request of the process is in flight
	// across it - it waits inside the controller's first (synchronous) Stats call while the reload is
	// carried out. Its answer must be the old configuration's or the new one's.
	InFlight bool `json:"in_flight,omitempty"`
}

// bpHoldStore is the world's memory store with a gate in front of the trend listing.
type bpHoldStore struct {
	*queue.MemoryStore
	hold    atomic.Bool
	entered chan struct{}
	release chan struct{}
	listed  chan struct{}

	holdStats    atomic.Bool
	enteredStats chan struct{}
	releaseStats chan struct{}
}

func (s *bpHoldStore) Stats() (queue.Stats, error) {
	if s.holdStats.CompareAndSwap(true, false) {
		s.enteredStats <- struct{}{}
		<-s.releaseStats
	}
	return s.MemoryStore.Stats()
}

func (s *bpHoldStore) ListBacklogTrend(req queue.BacklogTrendListRequest) (queue.BacklogTrendListResponse, error) {
	if s.hold.CompareAndSwap(true, false) {
		s.entered <- struct{}{}
		<-s.release
		defer close(s.listed)
	}
	return s.MemoryStore.ListBacklogTrend(req)
}

// bpQuiesce waits until no background refresh of the controller is running.
func bpQuiesce(w *frontWorld) bool {
	c := w.state.adaptiveController
	for i := 0; i < 2000; i++ {
		c.trend.mu.Lock()
		t := c.trend.refreshing
		c.trend.mu.Unlock()
		c.stats.mu.Lock()
		s := c.stats.refreshing
		c.stats.mu.Unlock()
		if !t && !s {
			return true
		}
		time.Sleep(time.Millisecond)
	}
	return false
}

func (s BPSpec) text() string {
	var b strings.Builder
	onoff := func(v bool) string {
		if v {
			return "on"
		}
		return "off"
	}
	b.WriteString("ingress { listen 127.0.0.1:0 }\npull_api {\n  listen localhost:0\n  auth token raw:t\n}\nadmin_api { listen 0.0.0.0:0 }\n")
	b.WriteString("defaults {\n  trend_signals {\n")
	fmt.Fprintf(&b, "    window %s\n    expected_capture_interval 1m\n    stale_grace_factor 3\n", s.Window)
	cons := fmt.Sprint(s.Consecutive)
	if s.Invalid {
		cons = "0"
	}
	fmt.Fprintf(&b, "    sustained_growth_consecutive %s\n    sustained_growth_min_samples %d\n    sustained_growth_min_delta %d\n  }\n", cons, s.MinSamples, s.MinDelta)
	fmt.Fprintf(&b, "  adaptive_backpressure {\n    enabled %s\n    min_total %d\n    queued_percent 100\n    ready_lag 24h\n    oldest_queued_age 24h\n    sustained_growth %s\n  }\n}\n",
		onoff(s.Enabled), s.MinTotal, onoff(s.Growth))
	b.WriteString("/in {\n  pull { path /pull/in }\n}\n")
	if s.ExtraRoute {
		b.WriteString("/in2 {\n  pull { path /pull/in2 }\n}\n")
	}
	return b.String()
}

func genBPSpec(t *rapid.T) BPSpec {
	return BPSpec{
		Enabled:     rapid.IntRange(0, 7).Draw(t, "enabled") != 0,
		Growth:      rapid.IntRange(0, 5).Draw(t, "growth") != 0,
		MinTotal:    rapid.SampledFrom([]int{1, 1, 1, 100000}).Draw(t, "min_total"),
		Window:      rapid.SampledFrom([]string{"3m", "15m", "15m"}).Draw(t, "window"),
		Consecutive: rapid.SampledFrom([]int{1, 2, 3, 5, 50}).Draw(t, "consecutive"),
		MinSamples:  rapid.SampledFrom([]int{2, 3, 5, 100}).Draw(t, "min_samples"),
		MinDelta:    rapid.SampledFrom([]int{1, 3, 10, 100000}).Draw(t, "min_delta"),
	}
}

func genC18BPCase() *rapid.Generator[C18BPCase] {
	return rapid.Custom(func(t *rapid.T) C18BPCase {
		c := C18BPCase{Old: genBPSpec(t)}
		c.New = c.Old
		for k, n := 0, rapid.IntRange(1, 2).Draw(t, "nedits"); k < n; k++ {
			switch rapid.IntRange(0, 8).Draw(t, "edit") {
			case 0:
				c.New.Enabled = !c.New.Enabled
			case 1:
				c.New.Growth = !c.New.Growth
			case 2:
				c.New.MinTotal = 100001 - c.New.MinTotal
			case 3:
				c.New.Window = rapid.SampledFrom([]string{"3m", "15m"}).Draw(t, "nwindow")
			case 4:
				c.New.Consecutive = rapid.SampledFrom([]int{1, 2, 3, 5, 50}).Draw(t, "nconsecutive")
			case 5:
				c.New.MinSamples = rapid.SampledFrom([]int{2, 3, 5, 100}).Draw(t, "nmin_samples")
			case 6:
				c.New.MinDelta = rapid.SampledFrom([]int{1, 3, 10, 100000}).Draw(t, "nmin_delta")
			case 7:
				c.New.ExtraRoute = !c.New.ExtraRoute
			case 8:
				c.New.Invalid = rapid.IntRange(0, 2).Draw(t, "invalid") == 0
			}
		}
		n := rapid.IntRange(4, 9).Draw(t, "samples")
		for i := 0; i < n; i++ {
			c.Deltas = append(c.Deltas, rapid.SampledFrom([]int{1, 1, 2, 3, 5, 0, -1, 12}).Draw(t, "delta"))
		}
		c.LastS = rapid.SampledFrom([]int{20, 30, 40}).Draw(t, "last_s")
		steps := []int{0, 10, 300, 900, 1100, 2500}
		for i, k := 0, rapid.IntRange(1, 3).Draw(t, "npre"); i < k; i++ {
			c.PreMs = append(c.PreMs, rapid.SampledFrom(steps).Draw(t, "pre_ms"))
		}
		for i, k := 0, rapid.IntRange(1, 4).Draw(t, "npost"); i < k; i++ {
			c.PostMs = append(c.PostMs, rapid.SampledFrom(steps).Draw(t, "post_ms"))
		}
		c.Hold = rapid.IntRange(0, 2).Draw(t, "hold") == 0
		if c.Hold {
			// the last pre-reload request meets a warm cache that is older than a second
			c.PreMs = append(c.PreMs, rapid.SampledFrom([]int{1100, 2500}).Draw(t, "hold_ms"))
		}
		if !c.Hold && rapid.IntRange(0, 3).Draw(t, "in_flight") == 0 {
			c.InFlight, c.PreMs = true, nil
			if rapid.Bool().Draw(t, "switch_off") {
				// the controller is switched off by the reload while other values of its block change too
				c.Old.Enabled, c.New.Enabled = true, false
				c.Old.MinTotal, c.New.MinTotal = 100000, 1
				c.New.Invalid = false
			}
		}
		return c
	})
}

// bpWorld starts a world on src and gives it the case's backlog history.
func bpWorld(c C18BPCase, src string) (*frontWorld, error) {
	w, err := newFrontWorld(src, worldOpts{withFile: true})
	if err != nil {
		return nil, err
	}
	w.state.adaptiveController.now = w.clk.Now
	w.state.setQueueStore(&bpHoldStore{MemoryStore: w.mem, entered: make(chan struct{}, 1), release: make(chan struct{}), listed: make(chan struct{}),
		enteredStats: make(chan struct{}, 1), releaseStats: make(chan struct{})})
	seq := 0
	enq := func() error {
		seq++
		return w.mem.Enqueue(queue.Envelope{ID: fmt.Sprintf("h%03d", seq), Route: "/in", Target: "pull", Payload: []byte("h")})
	}
	// one message stays leased for the whole case: the queued share never reaches 100 percent
	if err := enq(); err != nil {
		return nil, err
	}
	if _, err := w.mem.Dequeue(queue.DequeueRequest{Route: "/in", Target: "pull", Batch: 1, LeaseTTL: 48 * time.Hour}); err != nil {
		return nil, err
	}
	for _, d := range c.Deltas {
		for ; d > 0; d-- {
			if err := enq(); err != nil {
				return nil, err
			}
		}
		if d < 0 {
			_, _ = w.mem.CancelMessagesByFilter(queue.MessageManageFilterRequest{Route: "/in", State: queue.StateQueued, Limit: -d})
		}
		if err := w.mem.CaptureBacklogTrendSample(w.clk.Now()); err != nil {
			return nil, err
		}
		w.clk.add(time.Minute)
	}
	w.clk.add(-time.Minute + time.Duration(c.LastS)*time.Second)
	return w, nil
}

// bpRequests sends one ingress request per clock step and lets background refreshes finish after
// each (the caches are then in a state that depends on the case alone). With holdLast, the refresh
// the last request starts in the background is held; the caller releases it.
func bpRequests(w *frontWorld, steps []int, prefix string, holdLast bool) (answers []string, held *bpHoldStore) {
	c := w.state.adaptiveController
	for i, ms := range steps {
		w.clk.add(time.Duration(ms) * time.Millisecond)
		if holdLast && i == len(steps)-1 {
			// only a warm, stale cache refreshes in the background; a cold one would make the request itself wait
			c.trend.mu.Lock()
			warmStale := c.trend.cachedOK && !c.trend.refreshing && w.clk.Now().Sub(c.trend.cachedAt) > c.trend.ttl
			c.trend.mu.Unlock()
			if hs, ok := c.store.(*bpHoldStore); ok && warmStale {
				hs.hold.Store(true)
				held = hs
			}
		}
		rec := serve(w.ingress, FReq{Method: "POST", Path: "/in", Host: "h", Remote: "203.0.113.9:1", Body: []byte("b")})
		answers = append(answers, fmt.Sprintf("%s#%d +%dms: %d %s", prefix, i, ms, rec.Code, strings.TrimSpace(rec.Body.String())))
		if held != nil {
			select {
			case <-held.entered:
				return answers, held
			case <-time.After(300 * time.Millisecond):
				// the request did not consult the trend signals (disabled, below min_total, ...)
				held.hold.Store(false)
				held = nil
			}
		}
		bpQuiesce(w)
	}
	return answers, held
}

func runC18BP(c C18BPCase, _ bool) *fOutcome {
	out := newFOutcome()
	oldText, newText := c.Old.text(), c.New.text()
	w, err := bpWorld(c, oldText)
	if err != nil {
		out.Failure = ffail("HARNESS", "world", 0, "%v\n%s", err, oldText)
		return out
	}
	defer w.close()
	pre, held := bpRequests(w, c.PreMs, "pre", c.Hold)
	var inFlight chan string
	var hs *bpHoldStore
	if c.InFlight {
		hs, _ = w.state.adaptiveController.store.(*bpHoldStore)
		if hs != nil {
			hs.holdStats.Store(true)
			inFlight = make(chan string, 1)
			go func() {
				rec := serve(w.ingress, FReq{Method: "POST", Path: "/in", Host: "h", Remote: "203.0.113.9:1", Body: []byte("b")})
				inFlight <- fmt.Sprintf("in-flight: %d %s", rec.Code, strings.TrimSpace(rec.Body.String()))
			}()
			select {
			case <-hs.enteredStats:
				out.Labels["request-in-flight-across-reload"] = true
			case a := <-inFlight:
				// the request did not consult the statistics (controller off): it simply came first
				hs.holdStats.Store(false)
				pre, inFlight = append(pre, a), nil
			case <-time.After(5 * time.Second):
				out.Skipped = "in-flight request neither finished nor reached the statistics call"
				out.Labels["inconclusive-time-budget"] = true
				hs.holdStats.Store(false)
				return out
			}
		}
	}
	admitted := 0
	for _, a := range pre {
		if strings.Contains(a, ": 202") {
			admitted++
		}
	}
	if err := os.WriteFile(w.cfgPath, []byte(newText), 0o600); err != nil {
		out.Failure = ffail("HARNESS", "write", 0, "%v", err)
		return out
	}
	applied := w.reload()
	if inFlight != nil {
		close(hs.releaseStats)
		var got string
		select {
		case got = <-inFlight:
		case <-time.After(5 * time.Second):
			out.Skipped = "in-flight request did not finish within 5s of its release"
			out.Labels["inconclusive-time-budget"] = true
			return out
		}
		one := func(src string) (string, error) {
			r, err := bpWorld(c, src)
			if err != nil {
				return "", err
			}
			defer r.close()
			rec := serve(r.ingress, FReq{Method: "POST", Path: "/in", Host: "h", Remote: "203.0.113.9:1", Body: []byte("b")})
			return fmt.Sprintf("in-flight: %d %s", rec.Code, strings.TrimSpace(rec.Body.String())), nil
		}
		vOld, err1 := one(oldText)
		vNew, err2 := vOld, error(nil)
		if applied {
			vNew, err2 = one(newText)
		}
		if err1 != nil || err2 != nil {
			out.Failure = ffail("HARNESS", "reference", 0, "%v %v", err1, err2)
			return out
		}
		if got != vOld && got != vNew {
			out.Failure = ffail("C18", "request-mixed-configuration", 0, "a request whose admission decision was waiting for the queue statistics while the reload (applied=%v) was carried out answers %q; a process entirely on the old configuration answers %q, entirely on the new one %q\nold:\n%s\nnew:\n%s", applied, got, vOld, vNew, oldText, newText)
			return out
		}
		if vOld != vNew {
			out.NonTriv = true
		}
		pre = append(pre, got)
		bpQuiesce(w)
	}
	if held != nil {
		// the refresh that started before the reload finishes after it
		close(held.release)
		select {
		case <-held.listed:
			time.Sleep(5 * time.Millisecond) // the refresh only has to interpret the samples and store the result
		case <-time.After(2 * time.Second):
		}
		out.Labels["refresh-in-flight-across-reload"] = true
	}
	if !bpQuiesce(w) {
		out.Skipped = "background refresh still running after 2s"
		out.Labels["inconclusive-time-budget"] = true
		return out
	}
	if applied == c.New.Invalid {
		out.Failure = ffail("C18", "reload-outcome", 0, "new configuration invalid=%v but the reload reported applied=%v\n%s", c.New.Invalid, applied, newText)
		return out
	}
	at := w.clk.since()
	post, _ := bpRequests(w, c.PostMs, "post", false)

	// reference: a process started on the configuration now in force, same history, same stored
	// messages, cold caches, the same requests at the same instants
	reference := func(src string) ([]string, error) {
		r, err := bpWorld(c, src)
		if err != nil {
			return nil, err
		}
		defer r.close()
		for i := 0; i < admitted; i++ {
			// what the admitted pre-reload requests left in the queue
			if err := r.mem.Enqueue(queue.Envelope{ID: fmt.Sprintf("pre%03d", i), Route: "/in", Target: "pull", Payload: []byte("b")}); err != nil {
				return nil, err
			}
		}
		r.clk.set(at)
		answers, _ := bpRequests(r, c.PostMs, "post", false)
		return answers, nil
	}
	inForce, what := oldText, "refused: every decision must still be the old configuration's"
	if applied {
		inForce, what = newText, "reported as applied: every decision must be that of a process started on the new configuration"
		out.Labels["reload-applied"] = true
	} else {
		out.Labels["reload-refused"] = true
	}
	want, err := reference(inForce)
	if err != nil {
		out.Failure = ffail("HARNESS", "reference", 0, "%v", err)
		return out
	}
	other := oldText
	if !applied {
		other = newText
	}
	if !c.New.Invalid {
		if alt, err := reference(other); err == nil && answersDiff(want, alt) > 0 {
			out.NonTriv = true
			out.Labels["configs-decide-differently"] = true
		}
	}
	for _, a := range append(append([]string{}, pre...), post...) {
		switch {
		case strings.Contains(a, ": 503"):
			// the statistics criteria are out of reach here: a refusal is the sustained-growth signal
			out.Labels["refused-sustained-growth"] = true
		case strings.Contains(a, ": 202"):
			out.Labels["admitted"] = true
		}
	}
	for i := range post {
		if post[i] != want[i] {
			out.Failure = ffail("C18", "decision-from-stale-derived-state", i, "the reload was %s; request %q, a fresh process answers %q\nbefore the reload: %v\nafter: %v\nfresh: %v\nold:\n%s\nnew:\n%s",
				what, post[i], want[i], pre, post, want, oldText, newText)
			return out
		}
	}
	return out
}

func TestProp_C18_BackpressureReload(t *testing.T) {
	frontProp(t, "C18", "TestProp_C18_BackpressureReload", genC18BPCase(), runC18BP)
}
