//go:build verif

package app

import (
	"encoding/json"
	"fmt"
	"os"
	"strings"
	"testing"

	"pgregory.net/rapid"
)

// ---------------------------------------------------------------------------------------
// C18, global settings: a reload that changes a process-wide setting (publish policy, pull
// batch cap, queue depth, default body limit) is either refused as a whole - then every probe
// answers as on the old configuration - or applied as a whole - then every probe answers as a
// process started on the new configuration. "Reported as reloaded, but one component kept the
// old setting" is the mixture this tier looks for.
// ---------------------------------------------------------------------------------------

type GSpec struct {
	NoPull    bool `json:"no_pull,omitempty"`    // publish_policy allow_pull_routes off
	DirectOff bool `json:"direct_off,omitempty"` // publish_policy direct off
	MaxBatch  int  `json:"max_batch,omitempty"`  // pull_api max_batch (0: default)
	Depth     int  `json:"depth,omitempty"`      // queue_limits max_depth (0: default)
	MaxBody   int  `json:"max_body,omitempty"`   // defaults max_body bytes (0: default)
	RouteTok  bool `json:"route_tok,omitempty"`  // an ordinary, reloadable difference
}

type C18GCase struct {
	Old GSpec `json:"old"`
	New GSpec `json:"new"`
}

func (g GSpec) text() string {
	var b strings.Builder
	b.WriteString("ingress { listen 127.0.0.1:0 }\npull_api {\n  listen localhost:0\n  auth token raw:g1\n")
	if g.MaxBatch > 0 {
		fmt.Fprintf(&b, "  max_batch %d\n", g.MaxBatch)
	}
	b.WriteString("}\nadmin_api { listen 0.0.0.0:0 }\n")
	if g.Depth > 0 {
		fmt.Fprintf(&b, "queue_limits {\n  max_depth %d\n  drop_policy reject\n}\n", g.Depth)
	}
	if g.NoPull || g.DirectOff || g.MaxBody > 0 {
		b.WriteString("defaults {\n")
		if g.MaxBody > 0 {
			fmt.Fprintf(&b, "  max_body %db\n", g.MaxBody)
		}
		if g.NoPull || g.DirectOff {
			b.WriteString("  publish_policy {\n")
			if g.NoPull {
				b.WriteString("    allow_pull_routes off\n")
			}
			if g.DirectOff {
				b.WriteString("    direct off\n")
			}
			b.WriteString("  }\n")
		}
		b.WriteString("}\n")
	}
	b.WriteString("/in {\n  pull {\n    path /pull/in\n")
	if g.RouteTok {
		b.WriteString("    auth token raw:rt1\n")
	}
	b.WriteString("  }\n}\n")
	return b.String()
}

func genGSpec(t *rapid.T, label string) GSpec {
	return GSpec{
		NoPull:    rapid.IntRange(0, 3).Draw(t, label+"no_pull") == 0,
		DirectOff: rapid.IntRange(0, 5).Draw(t, label+"direct_off") == 0,
		MaxBatch:  rapid.SampledFrom([]int{0, 0, 1, 2}).Draw(t, label+"max_batch"),
		Depth:     rapid.SampledFrom([]int{0, 0, 2, 3}).Draw(t, label+"depth"),
		MaxBody:   rapid.SampledFrom([]int{0, 0, 4}).Draw(t, label+"max_body"),
		RouteTok:  rapid.Bool().Draw(t, label+"route_tok"),
	}
}

func genC18GCase() *rapid.Generator[C18GCase] {
	return rapid.Custom(func(t *rapid.T) C18GCase {
		c := C18GCase{Old: genGSpec(t, "old_")}
		c.New = c.Old
		// 1-2 single-field edits keep differences attributable
		for k, n := 0, rapid.IntRange(1, 2).Draw(t, "nedits"); k < n; k++ {
			switch rapid.IntRange(0, 5).Draw(t, "edit") {
			case 0:
				c.New.NoPull = !c.New.NoPull
			case 1:
				c.New.DirectOff = !c.New.DirectOff
			case 2:
				c.New.MaxBatch = rapid.SampledFrom([]int{0, 1, 2}).Draw(t, "nmax_batch")
			case 3:
				c.New.Depth = rapid.SampledFrom([]int{0, 2, 3}).Draw(t, "ndepth")
			case 4:
				c.New.MaxBody = 4 - c.New.MaxBody
			case 5:
				c.New.RouteTok = !c.New.RouteTok
			}
		}
		return c
	})
}

// gBattery: one fixed sequence of requests whose answers depend on the global settings.
func gBattery(w *frontWorld) []string {
	var out []string
	hdr := [][2]string{{"Content-Type", "application/json"}, {"X-Hookaido-Audit-Reason", "verif"}}
	pub := func(id string) {
		body, _ := json.Marshal(map[string]any{"items": []map[string]any{{"id": id, "route": "/in", "target": "pull", "payload_b64": "eA=="}}})
		rec := serve(w.adminH, FReq{Method: "POST", Path: "/messages/publish", Host: "a", Remote: "127.0.0.1:1", Body: body, Headers: hdr})
		out = append(out, fmt.Sprintf("publish %s: %d", id, rec.Code))
	}
	pub("p1")
	for i := 0; i < 4; i++ {
		rec := serve(w.ingress, FReq{Method: "POST", Path: "/in", Host: "h", Remote: "203.0.113.9:1", Body: []byte("b")})
		out = append(out, fmt.Sprintf("ingress #%d: %d", i, rec.Code))
	}
	rec := serve(w.ingress, FReq{Method: "POST", Path: "/in", Host: "h", Remote: "203.0.113.9:1", Body: []byte("bbbbbbbb")})
	out = append(out, fmt.Sprintf("ingress big: %d", rec.Code))
	for _, tok := range []string{"g1", "rt1"} {
		rec = serve(w.pull, FReq{Method: "POST", Path: "/pull/in/dequeue", Host: "p", Remote: "127.0.0.1:1", Body: []byte(`{"batch":5,"lease_ttl":"1s"}`),
			Headers: [][2]string{{"Content-Type", "application/json"}, {"Authorization", "Bearer " + tok}}})
		var m struct {
			Items []json.RawMessage `json:"items"`
		}
		_ = json.Unmarshal(rec.Body.Bytes(), &m)
		out = append(out, fmt.Sprintf("dequeue tok=%s batch 5: %d items=%d", tok, rec.Code, len(m.Items)))
	}
	pub("p2")
	return out
}

func runC18G(c C18GCase, _ bool) *fOutcome {
	out := newFOutcome()
	oldText, newText := c.Old.text(), c.New.text()
	fresh := func(src string) []string {
		w, err := newFrontWorld(src, worldOpts{withFile: true})
		if err != nil {
			out.Failure = ffail("HARNESS", "world", 0, "%v\n%s", err, src)
			return nil
		}
		defer w.close()
		return gBattery(w)
	}
	vOld := fresh(oldText)
	if vOld == nil {
		return out
	}
	vNew := fresh(newText)
	if vNew == nil {
		return out
	}
	w, err := newFrontWorld(oldText, worldOpts{withFile: true})
	if err != nil {
		out.Failure = ffail("HARNESS", "world", 0, "%v", err)
		return out
	}
	defer w.close()
	if err := os.WriteFile(w.cfgPath, []byte(newText), 0o600); err != nil {
		out.Failure = ffail("HARNESS", "write", 0, "%v", err)
		return out
	}
	ok := w.reload()
	vAfter := gBattery(w)
	want, what := vOld, "refused, so every answer must be the old configuration's"
	if ok {
		want, what = vNew, "reported as applied, so every answer must be that of a process started on the new configuration"
		out.Labels["reload-applied"] = true
	} else {
		out.Labels["reload-refused"] = true
	}
	if answersDiff(vOld, vNew) > 0 {
		out.NonTriv = true
		out.Labels["configs-differ-in-battery"] = true
	}
	for i := range vAfter {
		if vAfter[i] != want[i] {
			tag := "C18"
			if strings.HasPrefix(vAfter[i], "publish ") {
				tag = "C18,C15" // a publish judged under a policy that is not the one in force
			}
			out.Failure = ffail(tag, "global-setting-mixture", i, "the reload was %s; probe answers %q, want %q (old %q, new %q)\nold:\n%s\nnew:\n%s", what, vAfter[i], want[i], vOld[i], vNew[i], oldText, newText)
			return out
		}
	}
	return out
}

func TestProp_C18_GlobalReload(t *testing.T) {
	frontProp(t, "C18", "TestProp_C18_GlobalReload", genC18GCase(), runC18G)
}

// TestProp_C15_PolicyReload: the same worlds for C15's share (is a publish judged by the global
// policy in force after a reload?); clauses that belong to C18 alone are not this test's.
func TestProp_C15_PolicyReload(t *testing.T) {
	frontProp(t, "C15", "TestProp_C15_PolicyReload", genC18GCase(), func(c C18GCase, tol bool) *fOutcome {
		out := runC18G(c, tol)
		if f := out.Failure; f != nil && f.Prop != "HARNESS" && !strings.Contains(f.Prop, "C15") {
			out.Failure = nil
			out.Labels["foreign-clause"] = true
		}
		out.NonTriv = out.NonTriv && (c.Old.NoPull != c.New.NoPull || c.Old.DirectOff != c.New.DirectOff)
		return out
	})
}
