//go:build verif

package app

import (
	"fmt"
	"os"
	"strings"
	"testing"
	"time"

	"pgregory.net/rapid"
)

// ---------------------------------------------------------------------------------------
// C18, limits: after a successful reload the ingress rate limits in force are the new file's.
// Whatever a limiter carried over, after an hour without traffic its bucket is full, so a burst
// sent at one instant is admitted exactly `burst` times under the limit that applies to the
// route (its own override, else the global one), and completely when no limit applies.
// ---------------------------------------------------------------------------------------

type RLim struct {
	RPS   int `json:"rps,omitempty"` // 0: no limit
	Burst int `json:"burst,omitempty"`
}

type RSpec struct {
	Global RLim `json:"global"`
	A      RLim `json:"a"` // override on /a
	B      RLim `json:"b"` // override on /b
}

type C18RCase struct {
	Old RSpec `json:"old"`
	New RSpec `json:"new"`
}

func (l RLim) block(ind string) string {
	if l.RPS == 0 {
		return ""
	}
	return fmt.Sprintf("%srate_limit {\n%s  rps %d\n%s  burst %d\n%s}\n", ind, ind, l.RPS, ind, l.Burst, ind)
}

func (r RSpec) text() string {
	var b strings.Builder
	b.WriteString("ingress {\n  listen 127.0.0.1:0\n" + r.Global.block("  ") + "}\n")
	b.WriteString("pull_api {\n  listen localhost:0\n  auth token raw:g1\n}\nadmin_api { listen 0.0.0.0:0 }\n")
	b.WriteString("/a {\n" + r.A.block("  ") + "  pull { path /pull/a }\n}\n")
	b.WriteString("/b {\n" + r.B.block("  ") + "  pull { path /pull/b }\n}\n")
	return b.String()
}

func genRLim(t *rapid.T, label string) RLim {
	if rapid.IntRange(0, 2).Draw(t, label+"off") == 0 {
		return RLim{}
	}
	return RLim{RPS: rapid.SampledFrom([]int{1, 2}).Draw(t, label+"rps"), Burst: rapid.SampledFrom([]int{1, 2, 5}).Draw(t, label+"burst")}
}

func genC18RCase() *rapid.Generator[C18RCase] {
	return rapid.Custom(func(t *rapid.T) C18RCase {
		c := C18RCase{Old: RSpec{Global: genRLim(t, "g_"), A: genRLim(t, "a_"), B: genRLim(t, "b_")}}
		c.New = c.Old
		for k, n := 0, rapid.IntRange(1, 2).Draw(t, "nedits"); k < n; k++ {
			l := []*RLim{&c.New.Global, &c.New.A, &c.New.B}[rapid.IntRange(0, 2).Draw(t, "which")]
			switch rapid.IntRange(0, 3).Draw(t, "edit") {
			case 0: // only the burst
				if l.RPS == 0 {
					*l = RLim{RPS: 1, Burst: 2}
				} else {
					l.Burst = map[int]int{1: 5, 2: 1, 5: 2}[l.Burst]
				}
			case 1: // only the rate
				if l.RPS == 0 {
					*l = RLim{RPS: 2, Burst: 1}
				} else {
					l.RPS = 3 - l.RPS
				}
			case 2:
				*l = RLim{}
			case 3:
				*l = genRLim(t, "n_")
			}
		}
		return c
	})
}

func runC18R(c C18RCase, _ bool) *fOutcome {
	out := newFOutcome()
	w, err := newFrontWorld(c.Old.text(), worldOpts{withFile: true})
	if err != nil {
		out.Failure = ffail("HARNESS", "world", 0, "%v\n%s", err, c.Old.text())
		return out
	}
	defer w.close()
	burstAt := func(route string) int {
		n := 0
		for i := 0; i < 12; i++ {
			if serve(w.ingress, FReq{Method: "POST", Path: route, Host: "h", Remote: "203.0.113.9:1", Body: []byte("x")}).Code == 202 {
				n++
			}
		}
		return n
	}
	judge := func(phase string, s RSpec) bool {
		for _, rt := range []struct {
			path string
			own  RLim
		}{{"/a", s.A}, {"/b", s.B}} {
			// the global limiter is one bucket for all routes without an override: let every bucket fill up
			w.clk.add(time.Hour)
			eff := rt.own
			if eff.RPS == 0 {
				eff = s.Global
			}
			want := 12
			if eff.RPS > 0 {
				want = eff.Burst
			}
			if got := burstAt(rt.path); got != want {
				out.Failure = ffail("C18,C12", "rate-limit-not-in-force", 0, "%s: a burst of 12 requests at one instant (an hour after the last traffic) on %s was admitted %d times, the limit in force (%+v) admits %d\nconfig:\n%s", phase, rt.path, got, eff, want, s.text())
				return false
			}
		}
		return true
	}
	if !judge("before the reload", c.Old) {
		out.Failure.Prop = "C12" // not a reload matter
		return out
	}
	if err := os.WriteFile(w.cfgPath, []byte(c.New.text()), 0o600); err != nil {
		out.Failure = ffail("HARNESS", "write", 0, "%v", err)
		return out
	}
	if !w.reload() {
		out.Failure = ffail("HARNESS", "reload-failed", 0, "reload of a valid config failed:\n%s", c.New.text())
		return out
	}
	if !judge("after the reload", c.New) {
		return out
	}
	out.NonTriv = c.Old != c.New
	if c.Old.A.RPS == c.New.A.RPS && c.Old.A.Burst != c.New.A.Burst && c.Old.A.RPS > 0 {
		out.Labels["only-burst-changed"] = true
	}
	return out
}

func TestProp_C18_RateReload(t *testing.T) {
	frontProp(t, "C18", "TestProp_C18_RateReload", genC18RCase(), runC18R)
}
