//go:build verif

package app

import (
	"errors"
	"sync"
	"time"

	"github.com/nuetzliches/hookaido/internal/queue"
)

// faultStore wraps the real store and fails selected Enqueue calls (fault injection at the
// store boundary: a transient busy / full / pressure answer for one target of a fan-out).
type faultStore struct {
	queue.Store
	mu       sync.Mutex
	enqCalls int
	failAt   map[int]error // 1-based index of the Enqueue call (since the last arm) -> error to return
	// batchErr, when set, is returned by the next EnqueueBatch instead of calling the store (one shot)
	batchErr  error
	batchHits int
}

var errInjected = errors.New("injected store fault")

func (f *faultStore) arm(failAt map[int]error) {
	f.mu.Lock()
	f.enqCalls = 0
	f.failAt = failAt
	f.mu.Unlock()
}

func (f *faultStore) Enqueue(env queue.Envelope) error {
	f.mu.Lock()
	f.enqCalls++
	err := f.failAt[f.enqCalls]
	f.mu.Unlock()
	if err != nil {
		return err
	}
	return f.Store.Enqueue(env)
}

func (f *faultStore) EnqueueBatch(items []queue.Envelope) (int, error) {
	f.mu.Lock()
	if err := f.batchErr; err != nil {
		f.batchErr = nil
		f.batchHits++
		f.mu.Unlock()
		return 0, err
	}
	f.mu.Unlock()
	if b, ok := f.Store.(queue.BatchEnqueuer); ok {
		return b.EnqueueBatch(items)
	}
	n := 0
	for _, it := range items {
		if err := f.Store.Enqueue(it); err != nil {
			return n, err
		}
		n++
	}
	return n, nil
}

func (f *faultStore) AckBatch(ids []string) (queue.LeaseBatchResult, error) {
	return f.Store.(queue.LeaseBatchStore).AckBatch(ids)
}

func (f *faultStore) NackBatch(ids []string, d time.Duration) (queue.LeaseBatchResult, error) {
	return f.Store.(queue.LeaseBatchStore).NackBatch(ids, d)
}

func (f *faultStore) MarkDeadBatch(ids []string, reason string) (queue.LeaseBatchResult, error) {
	return f.Store.(queue.LeaseBatchStore).MarkDeadBatch(ids, reason)
}

func (f *faultStore) RuntimeMetrics() queue.StoreRuntimeMetrics {
	if p, ok := f.Store.(queue.RuntimeMetricsProvider); ok {
		return p.RuntimeMetrics()
	}
	return queue.StoreRuntimeMetrics{}
}

func (f *faultStore) Close() error {
	if c, ok := f.Store.(interface{ Close() error }); ok {
		return c.Close()
	}
	return nil
}
