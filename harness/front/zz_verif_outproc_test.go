//go:build verif

package app

import (
	"bytes"
	"crypto/hmac"
	"crypto/sha256"
	"encoding/hex"
	"encoding/json"
	"fmt"
	"io"
	"net"
	"net/http"
	"net/netip"
	"os"
	"os/exec"
	"path/filepath"
	"sort"
	"strconv"
	"strings"
	"sync"
	"syscall"
	"testing"
	"time"

	"pgregory.net/rapid"
)

// ---------------------------------------------------------------------------------------
// Outbound wiring tier (C06, C16, C17): the real `hookaido run` process on a generated config
// (egress allow/deny lists, per-target retry overrides next to inherited defaults, signing with
// several secret versions per target) delivers to a capture server on loopback addresses.
// Everything between the config text and the bytes on the wire is the product's own wiring
// (compile, defaults inheritance, the translation into dispatcher routes and egress rules, the
// command line); the oracles are the statements' own rules, computed here from the case.
//
// Time is the wall clock: validity windows are days away from now, so no boundary is near.
// ---------------------------------------------------------------------------------------

type OPVersion struct {
	ID     string `json:"id"`
	FromD  int    `json:"from_d"`            // valid_from = now + FromD days
	UntilD int    `json:"until_d,omitempty"` // 0: open-ended
}

type OPTarget struct {
	Host     string   `json:"host"`                // 127.0.0.1 | 127.0.0.2 | 127.0.0.3
	Behave   int      `json:"behave"`              // status the target always answers
	RetryMax int      `json:"retry_max"`           // -1: no retry block (inherits the defaults)
	Sign     string   `json:"sign,omitempty"`      // "" | inline | refs
	Refs     []string `json:"refs,omitempty"`      // secret ids
	Select   string   `json:"select,omitempty"`    // "" | newest_valid | oldest_valid
	SigH     string   `json:"sig_h,omitempty"`     // custom signature header
	TsH      string   `json:"ts_h,omitempty"`      // custom timestamp header
	Partial  bool     `json:"partial,omitempty"`   // a deliver block with a timeout but no retry line
	PathTail string   `json:"path_tail,omitempty"` // extra path segment (escaping)
	// Route: 0 = /fan, 1 = /fan2. ShareURL: a target of /fan2 that has the very URL of target 0 (of /fan),
	// with settings of its own
	Route    int  `json:"route,omitempty"`
	ShareURL bool `json:"share_url,omitempty"`
}

type OPCase struct {
	DefMax  int         `json:"def_max"`
	Allow   []string    `json:"allow,omitempty"`
	Deny    []string    `json:"deny,omitempty"`
	Secrets []OPVersion `json:"secrets,omitempty"`
	Targets []OPTarget  `json:"targets"`
	Body    []byte      `json:"body"`
	// Reload: after the first round the config file is rewritten and the process gets SIGHUP:
	// "add-route" only adds a pull route; "expire-secret" also moves the valid_until of ExpireID into
	// the past. Then a second round is delivered and judged by whichever configuration is in force.
	// "edit-outbound" changes something only the dispatcher reads - the prefix length of an egress CIDR
	// rule (NewDeny), the name of a signature or timestamp header (NewTargets) - which a reload may apply
	// only if the running dispatcher follows; otherwise it has to be refused as needing a restart.
	Reload     string     `json:"reload,omitempty"`
	ExpireID   string     `json:"expire_id,omitempty"`
	NewDeny    []string   `json:"new_deny,omitempty"`
	NewTargets []OPTarget `json:"new_targets,omitempty"`
}

var (
	opSrvOnce sync.Once
	opSrvPort int
	opMu      sync.Mutex
	opSeen    = map[string][]opReq{} // path -> requests
	opBehave  = map[string]int{}     // path -> status
	opSeq     int
)

type opReq struct {
	Header http.Header
	Body   []byte
	Path   string // escaped path as received
}

func opServer() int {
	opSrvOnce.Do(func() {
		ln, err := net.Listen("tcp", "0.0.0.0:0")
		if err != nil {
			return
		}
		opSrvPort = ln.Addr().(*net.TCPAddr).Port
		go func() {
			_ = http.Serve(ln, http.HandlerFunc(func(w http.ResponseWriter, r *http.Request) {
				b, _ := io.ReadAll(r.Body)
				p := r.URL.Path
				opMu.Lock()
				opSeen[p] = append(opSeen[p], opReq{Header: r.Header.Clone(), Body: b, Path: r.URL.EscapedPath()})
				code := opBehave[p]
				opMu.Unlock()
				if code == 0 {
					code = 200
				}
				w.WriteHeader(code)
			}))
		}()
	})
	return opSrvPort
}

var opRulePool = []string{"127.0.0.1", "127.0.0.2", "127.0.0.3", "127.0.0.2/31", "127.0.0.0/8", "127.0.0.0/30", "10.0.0.0/8", "192.168.0.0/16", "203.0.113.7",
	"example.org", "*.example.org", "internal.test"}

func genOPCase(focus string) *rapid.Generator[OPCase] {
	return rapid.Custom(func(t *rapid.T) OPCase {
		var c OPCase
		c.DefMax = rapid.IntRange(1, 3).Draw(t, "def_max")
		nrules := []int{0, 0, 1, 2, 3}
		if focus == "C16" {
			nrules = []int{0, 1, 2, 2, 3, 4}
		}
		for i, n := 0, rapid.SampledFrom(nrules).Draw(t, "ndeny"); i < n; i++ {
			c.Deny = append(c.Deny, rapid.SampledFrom(opRulePool).Draw(t, "deny"))
		}
		for i, n := 0, rapid.SampledFrom(nrules).Draw(t, "nallow"); i < n; i++ {
			c.Allow = append(c.Allow, rapid.SampledFrom(opRulePool).Draw(t, "allow"))
		}
		// secret versions: windows days away from now
		ns := rapid.IntRange(0, 5).Draw(t, "nsecrets")
		if focus == "C17" || focus == "C18" {
			ns = rapid.IntRange(2, 6).Draw(t, "nsecrets17")
		}
		usedFrom := map[int]bool{}
		for i := 0; i < ns; i++ {
			v := OPVersion{ID: fmt.Sprintf("S%d", i+1)}
			v.FromD = rapid.SampledFrom([]int{-400, -300, -200, -100, -50, -10, -2, 3, 30}).Draw(t, "from")
			for usedFrom[v.FromD] {
				v.FromD-- // distinct valid_from: no ties in "newest"/"oldest"
			}
			usedFrom[v.FromD] = true
			switch rapid.IntRange(0, 2).Draw(t, "until_kind") {
			case 1:
				v.UntilD = v.FromD + rapid.SampledFrom([]int{1, 5, 40, 500}).Draw(t, "until_len")
				if v.UntilD == 0 {
					v.UntilD = 1
				}
			}
			c.Secrets = append(c.Secrets, v)
		}
		nt := rapid.IntRange(1, 3).Draw(t, "ntargets")
		for k := 0; k < nt; k++ {
			tg := OPTarget{Host: rapid.SampledFrom([]string{"127.0.0.1", "127.0.0.2", "127.0.0.3"}).Draw(t, "host")}
			behaves := []int{200, 200, 200, 500, 404}
			if focus == "C06" {
				behaves = []int{200, 500, 500, 503, 404, 429, 302}
			}
			tg.Behave = rapid.SampledFrom(behaves).Draw(t, "behave")
			tg.RetryMax = rapid.SampledFrom([]int{-1, -1, 1, 2, 4, 5}).Draw(t, "retry_max")
			tg.Partial = tg.RetryMax == -1 && rapid.Bool().Draw(t, "partial")
			signKinds := []string{"", "", "inline", "refs"}
			if focus == "C17" || focus == "C18" {
				signKinds = []string{"", "inline", "refs", "refs", "refs"}
			}
			tg.Sign = rapid.SampledFrom(signKinds).Draw(t, "sign")
			if tg.Sign == "refs" {
				if len(c.Secrets) == 0 {
					tg.Sign = "inline"
				} else {
					n := rapid.IntRange(1, len(c.Secrets)).Draw(t, "nrefs")
					perm := rapid.Permutation(c.Secrets).Draw(t, "perm")
					for _, v := range perm[:n] {
						tg.Refs = append(tg.Refs, v.ID)
					}
					tg.Select = rapid.SampledFrom([]string{"", "newest_valid", "oldest_valid"}).Draw(t, "select")
				}
			}
			if tg.Sign != "" && rapid.IntRange(0, 3).Draw(t, "custom_hdr") == 0 {
				tg.SigH = "X-Webhook-Signature"
			}
			tg.PathTail = rapid.SampledFrom([]string{"", "", "a b", "x%2Fy", "é"}).Draw(t, "path_tail")
			if k > 0 && rapid.IntRange(0, 2).Draw(t, "second_route") == 0 {
				tg.Route = 1
				if c.Targets[0].Route == 0 && rapid.Bool().Draw(t, "share_url") {
					// same URL as target 0, other route, own settings (the capture server answers one way per URL)
					tg.ShareURL, tg.Host, tg.PathTail, tg.Behave = true, c.Targets[0].Host, c.Targets[0].PathTail, c.Targets[0].Behave
				}
			}
			c.Targets = append(c.Targets, tg)
		}
		reloadDraw := rapid.IntRange(0, 15).Draw(t, "reload")
		if focus == "C18" {
			reloadDraw %= 3
		}
		if focus == "C17" {
			reloadDraw %= 4 // rotation is about what happens when windows move: every other case reloads
		}
		switch reloadDraw {
		case 0:
			c.Reload = "add-route"
		case 1, 2:
			// only meaningful when some signing target references a version
			var refs []string
			for _, tg := range c.Targets {
				refs = append(refs, tg.Refs...)
			}
			if len(refs) > 0 {
				c.Reload, c.ExpireID = "expire-secret", rapid.SampledFrom(refs).Draw(t, "expire_id")
				// half of the time the reload differs from the first file in nothing but the *value* of a
				// valid_until that was already there: the version starts in the past and is valid now
				if rapid.Bool().Draw(t, "only_until_moves") {
					for i := range c.Secrets {
						if c.Secrets[i].ID == c.ExpireID {
							if c.Secrets[i].FromD > -2 {
								c.Secrets[i].FromD = -20 - i
							}
							c.Secrets[i].UntilD = rapid.SampledFrom([]int{1, 5, 40}).Draw(t, "until_now")
						}
					}
				}
			}
		}
		if c.Reload == "" && rapid.IntRange(0, 7).Draw(t, "edit_outbound") == 0 || (focus == "C16" || focus == "C17" || focus == "C18") && c.Reload == "" && rapid.IntRange(0, 3).Draw(t, "edit_outbound2") == 0 {
			c.Reload = "edit-outbound"
			kind := rapid.IntRange(0, 2).Draw(t, "edit_kind")
			if focus == "C16" {
				kind = 0
			}
			if focus == "C17" && kind == 0 {
				kind = 1
			}
			signing := -1
			for k, tg := range c.Targets {
				if tg.Sign != "" {
					signing = k
				}
			}
			if kind > 0 && signing < 0 {
				kind = 0
			}
			switch kind {
			case 0: // the prefix length of a deny rule on 127.0.0.0 changes (the loopback targets are .1 .2 .3)
				widths := []string{"127.0.0.0/32", "127.0.0.0/30", "127.0.0.0/8"}
				from := rapid.SampledFrom(widths).Draw(t, "width_old")
				to := rapid.SampledFrom(widths).Draw(t, "width_new")
				if to == from {
					to = widths[(rapid.IntRange(0, 1).Draw(t, "width_shift")+1+indexOf(widths, from))%3]
				}
				c.Deny = append([]string{from}, c.Deny...)
				c.NewDeny = append([]string{to}, c.Deny[1:]...)
			case 1:
				c.NewTargets = append([]OPTarget(nil), c.Targets...)
				c.NewTargets[signing].TsH = "X-Ts-New"
			case 2:
				c.NewTargets = append([]OPTarget(nil), c.Targets...)
				c.NewTargets[signing].SigH = "X-Sig-New"
			}
		}
		c.Body = []byte(rapid.SampledFrom([]string{"{}", "{\"k\":1}", "", "\x00\xff binary"}).Draw(t, "body"))
		return c
	})
}

func indexOf(l []string, s string) int {
	for i, x := range l {
		if x == s {
			return i
		}
	}
	return 0
}

func opRetryLine(max int) string {
	return fmt.Sprintf("retry exponential max %d base 5ms cap 10ms jitter 0", max)
}

// opMatch: does rule r (as written in the config) match the literal-IP host h?
func opMatch(r, h string) bool {
	a := netip.MustParseAddr(h)
	if pfx, err := netip.ParsePrefix(r); err == nil {
		return pfx.Contains(a)
	}
	if ra, err := netip.ParseAddr(r); err == nil {
		return ra == a
	}
	return false // host-name rules never match an IP-literal host
}

func runOutboundProcess(c OPCase, prop string) *fOutcome {
	out := newFOutcome()
	bin := os.Getenv("VERIF_BIN_HOOKAIDO")
	if bin == "" {
		out.Failure = ffail("HARNESS", "no-binary", 0, "VERIF_BIN_HOOKAIDO is not set")
		return out
	}
	port := opServer()
	if port == 0 {
		out.Skipped = "capture server could not listen"
		out.Labels["inconclusive-environment"] = true
		return out
	}
	opMu.Lock()
	opSeq++
	caseNo := opSeq
	opMu.Unlock()
	dir := filepath.Join(fScratch(), fmt.Sprintf("outp%d-%d", os.Getpid(), caseNo))
	_ = os.MkdirAll(dir, 0o755)
	defer os.RemoveAll(dir)
	now := time.Now().UTC()
	day := func(d int) string { return now.Add(time.Duration(d) * 24 * time.Hour).Format(time.RFC3339) }

	paths := make([]string, len(c.Targets))
	urls := make([]string, len(c.Targets))
	for k, tg := range c.Targets {
		if tg.ShareURL && k > 0 {
			paths[k], urls[k] = paths[0], urls[0]
			continue
		}
		p := fmt.Sprintf("/c%d-%d/t%d", os.Getpid(), caseNo, k)
		rawTail := ""
		switch tg.PathTail {
		case "a b":
			rawTail, p = "/a%20b", p+"/a b"
		case "x%2Fy":
			rawTail, p = "/x%2Fy", p+"/x/y"
		case "é":
			rawTail, p = "/%C3%A9", p+"/é"
		}
		paths[k] = p
		urls[k] = fmt.Sprintf("http://%s:%d/c%d-%d/t%d%s", tg.Host, port, os.Getpid(), caseNo, k, rawTail)
		opMu.Lock()
		opBehave[p] = tg.Behave
		delete(opSeen, p)
		opMu.Unlock()
	}
	defer func() {
		opMu.Lock()
		for _, p := range paths {
			delete(opBehave, p)
			delete(opSeen, p)
		}
		opMu.Unlock()
	}()
	routeNames := []string{"/fan", "/fan2"}
	hasRoute2 := false
	for _, tg := range c.Targets {
		if tg.Route == 1 {
			hasRoute2 = true
		}
	}

	view := c // the settings the texts are written from and the deliveries are judged by
	var cfg strings.Builder
	build := func(pIn, pAdmin, pPull int, secrets []OPVersion, extraRoute bool) {
		cfg.Reset()
		fmt.Fprintf(&cfg, "ingress { listen 127.0.0.1:%d }\nadmin_api { listen 127.0.0.1:%d }\npull_api {\n  listen 127.0.0.1:%d\n  auth token raw:t\n}\n", pIn, pAdmin, pPull)
		if len(secrets) > 0 {
			cfg.WriteString("secrets {\n")
			for _, v := range secrets {
				fmt.Fprintf(&cfg, "  secret %s {\n    value %s\n    valid_from %s\n", q(v.ID), q("raw:key-of-"+v.ID), q(day(v.FromD)))
				if v.UntilD != 0 {
					fmt.Fprintf(&cfg, "    valid_until %s\n", q(day(v.UntilD)))
				}
				cfg.WriteString("  }\n")
			}
			cfg.WriteString("}\n")
		}
		cfg.WriteString("defaults {\n  egress {\n    https_only off\n    dns_rebind_protection off\n")
		for _, r := range view.Allow {
			fmt.Fprintf(&cfg, "    allow %s\n", q(r))
		}
		for _, r := range view.Deny {
			fmt.Fprintf(&cfg, "    deny %s\n", q(r))
		}
		fmt.Fprintf(&cfg, "  }\n  deliver {\n    %s\n    timeout 20s\n  }\n}\n", opRetryLine(c.DefMax))
		for ri, rn := range routeNames {
			if ri == 1 && !hasRoute2 {
				continue
			}
			fmt.Fprintf(&cfg, "%s {\n", rn)
			for k, tg := range view.Targets {
				if tg.Route != ri {
					continue
				}
				fmt.Fprintf(&cfg, "  deliver %s {\n", q(urls[k]))
				if tg.RetryMax >= 0 {
					fmt.Fprintf(&cfg, "    %s\n", opRetryLine(tg.RetryMax))
				}
				if tg.Partial {
					cfg.WriteString("    timeout 21s\n")
				}
				switch tg.Sign {
				case "inline":
					fmt.Fprintf(&cfg, "    sign hmac %s\n", q(fmt.Sprintf("raw:inline-%d", k)))
				case "refs":
					for _, id := range tg.Refs {
						fmt.Fprintf(&cfg, "    sign hmac secret_ref %s\n", q(id))
					}
					if tg.Select != "" {
						fmt.Fprintf(&cfg, "    sign secret_selection %s\n", tg.Select)
					}
				}
				if tg.SigH != "" {
					fmt.Fprintf(&cfg, "    sign signature_header %s\n", q(tg.SigH))
				}
				if tg.TsH != "" {
					fmt.Fprintf(&cfg, "    sign timestamp_header %s\n", q(tg.TsH))
				}
				cfg.WriteString("  }\n")
			}
			cfg.WriteString("}\n")
		}
		// an always-present pull route keeps "has pull routes" stable; the reload adds another one
		cfg.WriteString("/keep {\n  pull { path /pull/keep }\n}\n")
		if extraRoute {
			cfg.WriteString("/new {\n  pull { path /pull/new }\n}\n")
		}
	}
	cfgPath := filepath.Join(dir, "Hookaidofile")
	dbPath := filepath.Join(dir, "q.db")

	var cmd *exec.Cmd
	var errb bytes.Buffer
	var pIn, pAdmin, pPull int
	started := false
	for try := 0; try < 3 && !started; try++ {
		ports := freePorts(3)
		if len(ports) < 3 {
			break
		}
		pIn, pAdmin, pPull = ports[0], ports[1], ports[2]
		build(pIn, pAdmin, pPull, c.Secrets, false)
		_ = os.WriteFile(cfgPath, []byte(cfg.String()), 0o600)
		errb.Reset()
		cmd = exec.Command(bin, "run", "--config", cfgPath, "--db", dbPath, "--log-level", "error")
		cmd.Env = append(os.Environ(), "VERIF_STATS=", "VERIF_FAILDIR=", "VERIF_CRASH=")
		cmd.Stderr = &errb
		cmd.Stdout = io.Discard
		if err := cmd.Start(); err != nil {
			out.Skipped = "start: " + err.Error()
			out.Labels["inconclusive-environment"] = true
			return out
		}
		deadline := time.Now().Add(20 * time.Second)
		ok := true
		for _, p := range []int{pIn, pAdmin, pPull} {
			for !(waitPort(p, 50*time.Millisecond) && ownsPort(cmd.Process.Pid, p)) {
				if exited(cmd.Process.Pid) || time.Now().After(deadline) {
					ok = false
					break
				}
			}
			if !ok {
				break
			}
		}
		if ok {
			started = true
			break
		}
		gone := exited(cmd.Process.Pid)
		_ = cmd.Process.Kill()
		_, _ = cmd.Process.Wait()
		if gone && !strings.Contains(errb.String(), "address already in use") {
			// the generated config was refused (e.g. no valid combination): not this tier's business
			out.Skipped = "config refused: " + strings.TrimSpace(errb.String())
			out.Labels["config-rejected"] = true
			return out
		}
	}
	if !started {
		out.Skipped = "process did not start listening (environment)"
		out.Labels["inconclusive-environment"] = true
		return out
	}
	firstCfg := cfg.String()
	stop := func() {
		_ = cmd.Process.Signal(syscall.SIGTERM)
		done := make(chan struct{})
		go func() { _, _ = cmd.Process.Wait(); close(done) }()
		select {
		case <-done:
		case <-time.After(20 * time.Second):
			_ = cmd.Process.Kill()
			<-done
		}
	}
	defer stop()
	client := &http.Client{Timeout: 5 * time.Second, Transport: &http.Transport{DisableKeepAlives: true}}
	get := func(u string) (int, []byte) {
		resp, err := client.Get(u)
		if err != nil {
			return 0, nil
		}
		defer resp.Body.Close()
		b, _ := io.ReadAll(resp.Body)
		return resp.StatusCode, b
	}
	post := func(path string, body []byte) int {
		resp, err := client.Post(fmt.Sprintf("http://127.0.0.1:%d%s", pIn, path), "application/octet-stream", bytes.NewReader(body))
		if err != nil {
			return 0
		}
		_, _ = io.Copy(io.Discard, resp.Body)
		resp.Body.Close()
		return resp.StatusCode
	}
	type item struct {
		ID     string `json:"id"`
		Route  string `json:"route"`
		Target string `json:"target"`
		State  string `json:"state"`
		Reason string `json:"dead_reason"`
	}
	seenDead := map[string]bool{} // ids judged in an earlier round
	bodyOf := func(route int, round string) []byte {
		b := append([]byte(nil), c.Body...)
		if route == 1 {
			b = append(b, "#2"...)
		}
		return append(b, round...)
	}

	// round sends one request per route and judges what reached the targets under the given secret set
	round := func(tag string, secrets []OPVersion) bool {
		for ri, rn := range routeNames {
			if ri == 1 && !hasRoute2 {
				continue
			}
			switch code := post(rn, bodyOf(ri, tag)); {
			case code == 0:
				out.Skipped = "ingress request went unanswered (machine load)"
				out.Labels["inconclusive-environment"] = true
				return false
			case code != 202:
				out.Failure = ffail("HARNESS", "ingress", 0, "POST %s answered %d\n%s", rn, code, cfg.String())
				return false
			}
		}
		// ---- wait until nothing is queued or leased any more
		var dead []item
		settled := false
		deadline := time.Now().Add(30 * time.Second)
		for time.Now().Before(deadline) {
			code, b := get(fmt.Sprintf("http://127.0.0.1:%d/messages?limit=200", pAdmin))
			if code != 200 {
				time.Sleep(20 * time.Millisecond)
				continue
			}
			var l struct {
				Items []item `json:"items"`
			}
			_ = json.Unmarshal(b, &l)
			active := 0
			dead = dead[:0]
			for _, it := range l.Items {
				if it.Route != "/fan" && it.Route != "/fan2" {
					continue // the probe of the reloaded pull route waits for a consumer that never comes
				}
				switch it.State {
				case "queued", "leased":
					active++
				case "dead":
					if !seenDead[it.ID] {
						dead = append(dead, it)
					}
				}
			}
			if active == 0 {
				settled = true
				break
			}
			time.Sleep(20 * time.Millisecond)
		}
		if !settled {
			out.Skipped = "deliveries did not settle within 30s (machine load)"
			out.Labels["inconclusive-time-budget"] = true
			return false
		}
		// a late duplicate would arrive within a few backoff periods (<= 10 ms each)
		time.Sleep(60 * time.Millisecond)
		deadBy := map[string]item{}
		for _, d := range dead {
			deadBy[d.Route+"|"+d.Target] = d
		}
		// dead reasons are listed by /dlq when /messages does not carry them
		if len(dead) > 0 && dead[0].Reason == "" {
			if code, b := get(fmt.Sprintf("http://127.0.0.1:%d/dlq?limit=200", pAdmin)); code == 200 {
				var l struct {
					Items []item `json:"items"`
				}
				_ = json.Unmarshal(b, &l)
				for _, it := range l.Items {
					if !seenDead[it.ID] {
						it.State = "dead"
						deadBy[it.Route+"|"+it.Target] = it
					}
				}
			}
		}
		for _, d := range deadBy {
			seenDead[d.ID] = true
		}

		verByID := map[string]OPVersion{}
		for _, v := range secrets {
			verByID[v.ID] = v
		}
		for k, tg := range view.Targets {
			body := bodyOf(tg.Route, tag)
			opMu.Lock()
			var reqs []opReq
			for _, r := range opSeen[paths[k]] {
				if bytes.Equal(r.Body, body) {
					reqs = append(reqs, r)
				}
			}
			opMu.Unlock()
			d, isDead := deadBy[routeNames[tg.Route]+"|"+urls[k]]
			desc := fmt.Sprintf("round %q target %d of %s %s (answers %d, retry %d, defaults %d, sign %s %v %s): %d request(s), dead=%v reason=%q\n%s",
				tag, k, routeNames[tg.Route], urls[k], tg.Behave, tg.RetryMax, c.DefMax, tg.Sign, tg.Refs, tg.Select, len(reqs), isDead, d.Reason, cfg.String())
			if tg.ShareURL {
				out.Labels["url-shared-between-routes"] = true
			}

			// ---- C16: egress policy
			denied := false
			for _, r := range view.Deny {
				if opMatch(r, tg.Host) {
					denied = true
				}
			}
			if !denied && len(view.Allow) > 0 {
				denied = true
				for _, r := range view.Allow {
					if r == "*" || opMatch(r, tg.Host) {
						denied = false
					}
				}
			}
			if denied {
				out.Labels["policy-denied-target"] = true
				if len(view.Deny)+len(view.Allow) >= 2 {
					out.Labels["policy-several-rules"] = true
					if prop == "C16" {
						out.NonTriv = true
					}
				}
				if len(reqs) > 0 {
					out.Failure = ffail("C16", "request-to-denied-target", k, "the egress policy (allow %v deny %v) denies %s but %s", view.Allow, view.Deny, tg.Host, desc)
					return false
				}
				if !isDead || d.Reason != "policy_denied" {
					out.Failure = ffail("C16,C06", "denied-not-dead-lettered", k, "the egress policy (allow %v deny %v) denies %s: want dead:policy_denied; %s", view.Allow, view.Deny, tg.Host, desc)
					return false
				}
				continue
			}
			// ---- C17: which secret signs
			wantSecret, signing, noneValid := "", tg.Sign != "", false
			switch tg.Sign {
			case "inline":
				wantSecret = fmt.Sprintf("inline-%d", k)
			case "refs":
				var valid []OPVersion
				for _, id := range tg.Refs {
					v := verByID[id]
					if v.FromD <= 0 && v.UntilD >= 0 { // UntilD 0: open-ended
						valid = append(valid, v)
					}
				}
				if len(valid) == 0 {
					noneValid = true
				} else {
					sort.Slice(valid, func(i, j int) bool { return valid[i].FromD < valid[j].FromD })
					pick := valid[len(valid)-1] // newest valid_from (default rule)
					if tg.Select == "oldest_valid" {
						pick = valid[0]
					}
					wantSecret = "key-of-" + pick.ID
					if len(valid) >= 2 || len(valid) < len(tg.Refs) {
						out.Labels["signing-choice-among-versions"] = true
						if prop == "C17" {
							out.NonTriv = true
						}
					}
				}
			}
			if noneValid {
				out.Labels["signing-no-valid-version"] = true
				if len(reqs) > 0 {
					out.Failure = ffail("C17", "sent-without-valid-secret", k, "no referenced secret version is valid now, yet %s", desc)
					return false
				}
				if !isDead {
					out.Failure = ffail("C17,C06", "unsignable-not-dead-lettered", k, "no referenced secret version is valid now: the message must end in the DLQ; %s", desc)
					return false
				}
				continue
			}
			// ---- C06: how often, how it ends
			effMax := c.DefMax
			if tg.RetryMax >= 0 {
				effMax = tg.RetryMax
			}
			wantReqs, wantEnd := 1, "delivered"
			switch {
			case tg.Behave >= 200 && tg.Behave <= 299:
			case tg.Behave == 408 || tg.Behave == 429 || tg.Behave >= 500:
				wantReqs, wantEnd = effMax+1, "dead:max_retries"
				if tg.RetryMax < 0 && len(view.Targets) > 1 {
					out.Labels["retry-inherited-next-to-override"] = true
				}
				if prop == "C06" {
					out.NonTriv = true
				}
			case tg.Behave >= 400:
				wantEnd = "dead:no_retry"
			default: // 1xx/3xx: never a success; the statement does not say which failure
				wantReqs, wantEnd = -1, "dead:*"
			}
			gotEnd := "delivered"
			if isDead {
				gotEnd = "dead:" + d.Reason
			}
			if wantEnd == "dead:*" {
				if !isDead {
					out.Failure = ffail("C06", "non-success-acked", k, "a %d answer was treated as success; %s", tg.Behave, desc)
					return false
				}
			} else if gotEnd != wantEnd || len(reqs) != wantReqs {
				out.Failure = ffail("C06", "process-settlement", k, "want %d request(s) and end %s (effective retry.max %d); got end %s; %s", wantReqs, wantEnd, effMax, gotEnd, desc)
				return false
			}
			out.Labels["end-"+strings.SplitN(gotEnd, ":", 2)[0]] = true
			// ---- C17: every request that was sent carries the right signature over what was sent
			sigH, tsH := "X-Hookaido-Signature", "X-Hookaido-Timestamp"
			if tg.SigH != "" {
				sigH = tg.SigH
			}
			if tg.TsH != "" {
				tsH = tg.TsH
			}
			for i, r := range reqs {
				tsv, sigv := r.Header.Values(tsH), r.Header.Values(sigH)
				if !signing {
					if len(sigv) > 0 && tg.ShareURL {
						out.Failure = ffail("C17", "signed-though-unconfigured", k, "request %d carries a signature although this route's target has no signing configured; %s", i, desc)
						return false
					}
					continue
				}
				if len(tsv) != 1 || len(sigv) != 1 {
					out.Failure = ffail("C17", "signature-headers", k, "request %d carries timestamp header(s) %v and signature header(s) %v, want exactly one each; %s", i, tsv, sigv, desc)
					return false
				}
				ts, err := strconv.ParseInt(tsv[0], 10, 64)
				if err != nil || ts < now.Unix()-5 || ts > time.Now().Unix()+5 {
					out.Failure = ffail("C17", "timestamp", k, "request %d timestamp %q is not the signing time (case started %d); %s", i, tsv[0], now.Unix(), desc)
					return false
				}
				sum := sha256.Sum256(r.Body)
				mac := hmac.New(sha256.New, []byte(wantSecret))
				fmt.Fprintf(mac, "POST\n%s\n%d\n%s", r.Path, ts, hex.EncodeToString(sum[:]))
				if want := hex.EncodeToString(mac.Sum(nil)); !strings.EqualFold(want, sigv[0]) {
					out.Failure = ffail("C17", "process-signature", k, "request %d is not signed with %q over (POST, %s, %d, body): got %s; %s", i, wantSecret, r.Path, ts, sigv[0], desc)
					return false
				}
				out.Labels["signature-verified"] = true
			}
		}
		return true
	}

	if !round("", c.Secrets) {
		return out
	}
	if c.Reload == "" {
		return out
	}
	// ---- reload: rewrite the file, SIGHUP, find out which configuration is in force, deliver again
	newSecrets := append([]OPVersion(nil), c.Secrets...)
	if c.Reload == "expire-secret" {
		for i := range newSecrets {
			if newSecrets[i].ID == c.ExpireID {
				if newSecrets[i].FromD > -2 {
					newSecrets[i].FromD = -2 // keep valid_from before valid_until
				}
				newSecrets[i].UntilD = -1
			}
		}
	}
	if c.Reload == "edit-outbound" {
		if c.NewDeny != nil {
			view.Deny = c.NewDeny
		}
		if len(c.NewTargets) == len(c.Targets) {
			view.Targets = c.NewTargets
		}
	}
	build(pIn, pAdmin, pPull, newSecrets, true)
	if err := os.WriteFile(cfgPath, []byte(cfg.String()), 0o600); err != nil {
		out.Failure = ffail("HARNESS", "write", 0, "%v", err)
		return out
	}
	_ = cmd.Process.Signal(syscall.SIGHUP)
	applied := false
	for deadline := time.Now().Add(1500 * time.Millisecond); time.Now().Before(deadline); {
		if post("/new", []byte("probe")) == 202 {
			applied = true
			break
		}
		time.Sleep(40 * time.Millisecond)
	}
	inForce := c.Secrets
	if applied {
		inForce = newSecrets
		out.Labels["reload-applied"] = true
	} else {
		// refused (or never happened): everything is as the first file said
		out.Labels["reload-not-applied"] = true
		cfg.Reset()
		cfg.WriteString(firstCfg)
		view = c
	}
	out.Labels["reload-"+c.Reload] = true
	ok2 := round("@2", inForce)
	if !applied && post("/new", []byte("probe")) == 202 {
		// the reload was applied after all, later than the budget allowed (saturated machine): the second
		// round ran across the switch and proves nothing
		out.Failure = nil
		out.Skipped = "the reload took effect later than 1.5s"
		out.Labels["inconclusive-time-budget"] = true
		return out
	}
	if !ok2 {
		if f := out.Failure; f != nil && f.Prop != "HARNESS" {
			f.Prop += ",C18"
			f.Detail = fmt.Sprintf("after a reload (%s) that was %s: %s", c.Reload, map[bool]string{true: "applied (the new route answers)", false: "not applied (the new route does not exist)"}[applied], f.Detail)
		}
		return out
	}
	if prop == "C18" {
		out.NonTriv = true
	}
	return out
}

// opRun keeps only the clauses that belong to the property whose check is running.
func opRun(prop string) func(OPCase, bool) *fOutcome {
	return func(c OPCase, _ bool) *fOutcome {
		out := runOutboundProcess(c, prop)
		if f := out.Failure; f != nil && f.Prop != "HARNESS" {
			mine := false
			for _, p := range strings.Split(f.Prop, ",") {
				if p == prop {
					mine = true
				}
			}
			if !mine {
				out.Failure = nil
				out.Labels["foreign-clause"] = true
			}
		}
		return out
	}
}

func TestProp_C06_OutboundProcess(t *testing.T) {
	frontProp(t, "C06", "TestProp_C06_OutboundProcess", genOPCase("C06"), opRun("C06"))
}

func TestProp_C16_OutboundProcess(t *testing.T) {
	frontProp(t, "C16", "TestProp_C16_OutboundProcess", genOPCase("C16"), opRun("C16"))
}

func TestProp_C17_OutboundProcess(t *testing.T) {
	frontProp(t, "C17", "TestProp_C17_OutboundProcess", genOPCase("C17"), opRun("C17"))
}

// TestProp_C18_OutboundReload: the same tier for C18's share - after SIGHUP the dispatcher signs,
// retries and filters by the configuration that is in force for everything else.
func TestProp_C18_OutboundReload(t *testing.T) {
	gen := rapid.Custom(func(t *rapid.T) OPCase {
		c := genOPCase("C18").Draw(t, "case")
		if c.Reload == "" {
			c.Reload = "add-route"
		}
		return c
	})
	frontProp(t, "C18", "TestProp_C18_OutboundReload", gen, opRun("C18"))
}
