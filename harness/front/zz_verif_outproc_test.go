//go:build verif

package app

import (
	"bytes"
	"crypto/hmac"
	"crypto/sha256"
	"encoding/hex"
	"encoding/json"
	"fmt"
	"io"
	"net"
	"net/http"
	"net/netip"
	"os"
	"os/exec"
	"path/filepath"
	"sort"
	"strconv"
	"strings"
	"sync"
	"syscall"
	"testing"
	"time"

	"pgregory.net/rapid"
)

// ---------------------------------------------------------------------------------------
// Outbound wiring tier (C06, C16, C17): the real `hookaido run` process on a generated config
// (egress allow/deny lists, per-target retry overrides next to inherited defaults, signing with
// several secret versions per target) delivers to a capture server on loopback addresses.
// Everything between the config text and the bytes on the wire is the product's own wiring
// (compile, defaults inheritance, the translation into dispatcher routes and egress rules, the
// command line); the oracles are the statements' own rules, computed here from the case.
//
// Time is the wall clock: validity windows are days away from now, so no boundary is near.
// ---------------------------------------------------------------------------------------

type OPVersion struct {
	ID     string `json:"id"`
	FromD  int    `json:"from_d"`            // valid_from = now + FromD days
	UntilD int    `json:"until_d,omitempty"` // 0: open-ended
}

type OPTarget struct {
	Host     string   `json:"host"`                // 127.0.0.1 | 127.0.0.2 | 127.0.0.3
	Behave   int      `json:"behave"`              // status the target always answers
	RetryMax int      `json:"retry_max"`           // -1: no retry block (inherits the defaults)
	Sign     string   `json:"sign,omitempty"`      // "" | inline | refs
	Refs     []string `json:"refs,omitempty"`      // secret ids
	Select   string   `json:"select,omitempty"`    // "" | newest_valid | oldest_valid
	SigH     string   `json:"sig_h,omitempty"`     // custom signature header
	Partial  bool     `json:"partial,omitempty"`   // a deliver block with a timeout but no retry line
	PathTail string   `json:"path_tail,omitempty"` // extra path segment (escaping)
}

type OPCase struct {
	DefMax  int         `json:"def_max"`
	Allow   []string    `json:"allow,omitempty"`
	Deny    []string    `json:"deny,omitempty"`
	Secrets []OPVersion `json:"secrets,omitempty"`
	Targets []OPTarget  `json:"targets"`
	Body    []byte      `json:"body"`
}

var (
	opSrvOnce sync.Once
	opSrvPort int
	opMu      sync.Mutex
	opSeen    = map[string][]opReq{} // path -> requests
	opBehave  = map[string]int{}     // path -> status
	opSeq     int
)

type opReq struct {
	Header http.Header
	Body   []byte
	Path   string // escaped path as received
}

func opServer() int {
	opSrvOnce.Do(func() {
		ln, err := net.Listen("tcp", "0.0.0.0:0")
		if err != nil {
			return
		}
		opSrvPort = ln.Addr().(*net.TCPAddr).Port
		go func() {
			_ = http.Serve(ln, http.HandlerFunc(func(w http.ResponseWriter, r *http.Request) {
				b, _ := io.ReadAll(r.Body)
				p := r.URL.Path
				opMu.Lock()
				opSeen[p] = append(opSeen[p], opReq{Header: r.Header.Clone(), Body: b, Path: r.URL.EscapedPath()})
				code := opBehave[p]
				opMu.Unlock()
				if code == 0 {
					code = 200
				}
				w.WriteHeader(code)
			}))
		}()
	})
	return opSrvPort
}

var opRulePool = []string{"127.0.0.1", "127.0.0.2", "127.0.0.3", "127.0.0.2/31", "127.0.0.0/8", "127.0.0.0/30", "10.0.0.0/8", "192.168.0.0/16", "203.0.113.7",
	"example.org", "*.example.org", "internal.test"}

func genOPCase(focus string) *rapid.Generator[OPCase] {
	return rapid.Custom(func(t *rapid.T) OPCase {
		var c OPCase
		c.DefMax = rapid.IntRange(1, 3).Draw(t, "def_max")
		nrules := []int{0, 0, 1, 2, 3}
		if focus == "C16" {
			nrules = []int{0, 1, 2, 2, 3, 4}
		}
		for i, n := 0, rapid.SampledFrom(nrules).Draw(t, "ndeny"); i < n; i++ {
			c.Deny = append(c.Deny, rapid.SampledFrom(opRulePool).Draw(t, "deny"))
		}
		for i, n := 0, rapid.SampledFrom(nrules).Draw(t, "nallow"); i < n; i++ {
			c.Allow = append(c.Allow, rapid.SampledFrom(opRulePool).Draw(t, "allow"))
		}
		// secret versions: windows days away from now
		ns := rapid.IntRange(0, 5).Draw(t, "nsecrets")
		if focus == "C17" {
			ns = rapid.IntRange(2, 6).Draw(t, "nsecrets17")
		}
		usedFrom := map[int]bool{}
		for i := 0; i < ns; i++ {
			v := OPVersion{ID: fmt.Sprintf("S%d", i+1)}
			v.FromD = rapid.SampledFrom([]int{-400, -300, -200, -100, -50, -10, -2, 3, 30}).Draw(t, "from")
			for usedFrom[v.FromD] {
				v.FromD-- // distinct valid_from: no ties in "newest"/"oldest"
			}
			usedFrom[v.FromD] = true
			switch rapid.IntRange(0, 2).Draw(t, "until_kind") {
			case 1:
				v.UntilD = v.FromD + rapid.SampledFrom([]int{1, 5, 40, 500}).Draw(t, "until_len")
				if v.UntilD == 0 {
					v.UntilD = 1
				}
			}
			c.Secrets = append(c.Secrets, v)
		}
		nt := rapid.IntRange(1, 3).Draw(t, "ntargets")
		for k := 0; k < nt; k++ {
			tg := OPTarget{Host: rapid.SampledFrom([]string{"127.0.0.1", "127.0.0.2", "127.0.0.3"}).Draw(t, "host")}
			behaves := []int{200, 200, 200, 500, 404}
			if focus == "C06" {
				behaves = []int{200, 500, 500, 503, 404, 429, 302}
			}
			tg.Behave = rapid.SampledFrom(behaves).Draw(t, "behave")
			tg.RetryMax = rapid.SampledFrom([]int{-1, -1, 1, 2, 4, 5}).Draw(t, "retry_max")
			tg.Partial = tg.RetryMax == -1 && rapid.Bool().Draw(t, "partial")
			signKinds := []string{"", "", "inline", "refs"}
			if focus == "C17" {
				signKinds = []string{"", "inline", "refs", "refs", "refs"}
			}
			tg.Sign = rapid.SampledFrom(signKinds).Draw(t, "sign")
			if tg.Sign == "refs" {
				if len(c.Secrets) == 0 {
					tg.Sign = "inline"
				} else {
					n := rapid.IntRange(1, len(c.Secrets)).Draw(t, "nrefs")
					perm := rapid.Permutation(c.Secrets).Draw(t, "perm")
					for _, v := range perm[:n] {
						tg.Refs = append(tg.Refs, v.ID)
					}
					tg.Select = rapid.SampledFrom([]string{"", "newest_valid", "oldest_valid"}).Draw(t, "select")
				}
			}
			if tg.Sign != "" && rapid.IntRange(0, 3).Draw(t, "custom_hdr") == 0 {
				tg.SigH = "X-Webhook-Signature"
			}
			tg.PathTail = rapid.SampledFrom([]string{"", "", "a b", "x%2Fy", "é"}).Draw(t, "path_tail")
			c.Targets = append(c.Targets, tg)
		}
		c.Body = []byte(rapid.SampledFrom([]string{"{}", "{\"k\":1}", "", "\x00\xff binary"}).Draw(t, "body"))
		return c
	})
}

func opRetryLine(max int) string {
	return fmt.Sprintf("retry exponential max %d base 5ms cap 10ms jitter 0", max)
}

// opMatch: does rule r (as written in the config) match the literal-IP host h?
func opMatch(r, h string) bool {
	a := netip.MustParseAddr(h)
	if pfx, err := netip.ParsePrefix(r); err == nil {
		return pfx.Contains(a)
	}
	if ra, err := netip.ParseAddr(r); err == nil {
		return ra == a
	}
	return false // host-name rules never match an IP-literal host
}

func runOutboundProcess(c OPCase, prop string) *fOutcome {
	out := newFOutcome()
	bin := os.Getenv("VERIF_BIN_HOOKAIDO")
	if bin == "" {
		out.Failure = ffail("HARNESS", "no-binary", 0, "VERIF_BIN_HOOKAIDO is not set")
		return out
	}
	port := opServer()
	if port == 0 {
		out.Skipped = "capture server could not listen"
		out.Labels["inconclusive-environment"] = true
		return out
	}
	opMu.Lock()
	opSeq++
	caseNo := opSeq
	opMu.Unlock()
	dir := filepath.Join(fScratch(), fmt.Sprintf("outp%d-%d", os.Getpid(), caseNo))
	_ = os.MkdirAll(dir, 0o755)
	defer os.RemoveAll(dir)
	now := time.Now().UTC()
	day := func(d int) string { return now.Add(time.Duration(d) * 24 * time.Hour).Format(time.RFC3339) }

	paths := make([]string, len(c.Targets))
	urls := make([]string, len(c.Targets))
	for k, tg := range c.Targets {
		p := fmt.Sprintf("/c%d-%d/t%d", os.Getpid(), caseNo, k)
		rawTail := ""
		if tg.PathTail != "" {
			// the config carries the URL as a client would write it
			switch tg.PathTail {
			case "a b":
				rawTail, p = "/a%20b", p+"/a b"
			case "x%2Fy":
				rawTail, p = "/x%2Fy", p+"/x/y"
			case "é":
				rawTail, p = "/%C3%A9", p+"/é"
			}
		}
		paths[k] = p
		urls[k] = fmt.Sprintf("http://%s:%d/c%d-%d/t%d%s", tg.Host, port, os.Getpid(), caseNo, k, rawTail)
		opMu.Lock()
		opBehave[p] = tg.Behave
		delete(opSeen, p)
		opMu.Unlock()
	}
	defer func() {
		opMu.Lock()
		for _, p := range paths {
			delete(opBehave, p)
			delete(opSeen, p)
		}
		opMu.Unlock()
	}()

	var cfg strings.Builder
	build := func(pIn, pAdmin int) {
		cfg.Reset()
		fmt.Fprintf(&cfg, "ingress { listen 127.0.0.1:%d }\nadmin_api { listen 127.0.0.1:%d }\n", pIn, pAdmin)
		if len(c.Secrets) > 0 {
			cfg.WriteString("secrets {\n")
			for _, v := range c.Secrets {
				fmt.Fprintf(&cfg, "  secret %s {\n    value %s\n    valid_from %s\n", q(v.ID), q("raw:key-of-"+v.ID), q(day(v.FromD)))
				if v.UntilD != 0 {
					fmt.Fprintf(&cfg, "    valid_until %s\n", q(day(v.UntilD)))
				}
				cfg.WriteString("  }\n")
			}
			cfg.WriteString("}\n")
		}
		cfg.WriteString("defaults {\n  egress {\n    https_only off\n    dns_rebind_protection off\n")
		for _, r := range c.Allow {
			fmt.Fprintf(&cfg, "    allow %s\n", q(r))
		}
		for _, r := range c.Deny {
			fmt.Fprintf(&cfg, "    deny %s\n", q(r))
		}
		fmt.Fprintf(&cfg, "  }\n  deliver {\n    %s\n    timeout 20s\n  }\n}\n", opRetryLine(c.DefMax))
		cfg.WriteString("/fan {\n")
		for k, tg := range c.Targets {
			fmt.Fprintf(&cfg, "  deliver %s {\n", q(urls[k]))
			if tg.RetryMax >= 0 {
				fmt.Fprintf(&cfg, "    %s\n", opRetryLine(tg.RetryMax))
			}
			if tg.Partial {
				cfg.WriteString("    timeout 21s\n")
			}
			switch tg.Sign {
			case "inline":
				fmt.Fprintf(&cfg, "    sign hmac %s\n", q(fmt.Sprintf("raw:inline-%d", k)))
			case "refs":
				for _, id := range tg.Refs {
					fmt.Fprintf(&cfg, "    sign hmac secret_ref %s\n", q(id))
				}
				if tg.Select != "" {
					fmt.Fprintf(&cfg, "    sign secret_selection %s\n", tg.Select)
				}
			}
			if tg.SigH != "" {
				fmt.Fprintf(&cfg, "    sign signature_header %s\n", q(tg.SigH))
			}
			cfg.WriteString("  }\n")
		}
		cfg.WriteString("}\n")
	}
	cfgPath := filepath.Join(dir, "Hookaidofile")
	dbPath := filepath.Join(dir, "q.db")

	var cmd *exec.Cmd
	var errb bytes.Buffer
	var pIn, pAdmin int
	started := false
	for try := 0; try < 3 && !started; try++ {
		ports := freePorts(2)
		if len(ports) < 2 {
			break
		}
		pIn, pAdmin = ports[0], ports[1]
		build(pIn, pAdmin)
		_ = os.WriteFile(cfgPath, []byte(cfg.String()), 0o600)
		errb.Reset()
		cmd = exec.Command(bin, "run", "--config", cfgPath, "--db", dbPath, "--log-level", "error")
		cmd.Env = append(os.Environ(), "VERIF_STATS=", "VERIF_FAILDIR=", "VERIF_CRASH=")
		cmd.Stderr = &errb
		cmd.Stdout = io.Discard
		if err := cmd.Start(); err != nil {
			out.Skipped = "start: " + err.Error()
			out.Labels["inconclusive-environment"] = true
			return out
		}
		deadline := time.Now().Add(20 * time.Second)
		ok := true
		for _, p := range []int{pIn, pAdmin} {
			for !(waitPort(p, 50*time.Millisecond) && ownsPort(cmd.Process.Pid, p)) {
				if exited(cmd.Process.Pid) || time.Now().After(deadline) {
					ok = false
					break
				}
			}
			if !ok {
				break
			}
		}
		if ok {
			started = true
			break
		}
		gone := exited(cmd.Process.Pid)
		_ = cmd.Process.Kill()
		_, _ = cmd.Process.Wait()
		if gone && !strings.Contains(errb.String(), "address already in use") {
			// the generated config was refused (e.g. no valid combination): not this tier's business
			out.Skipped = "config refused: " + strings.TrimSpace(errb.String())
			out.Labels["config-rejected"] = true
			return out
		}
	}
	if !started {
		out.Skipped = "process did not start listening (environment)"
		out.Labels["inconclusive-environment"] = true
		return out
	}
	stop := func() {
		_ = cmd.Process.Signal(syscall.SIGTERM)
		done := make(chan struct{})
		go func() { _, _ = cmd.Process.Wait(); close(done) }()
		select {
		case <-done:
		case <-time.After(20 * time.Second):
			_ = cmd.Process.Kill()
			<-done
		}
	}
	defer stop()
	client := &http.Client{Timeout: 5 * time.Second, Transport: &http.Transport{DisableKeepAlives: true}}
	get := func(u string) (int, []byte) {
		resp, err := client.Get(u)
		if err != nil {
			return 0, nil
		}
		defer resp.Body.Close()
		b, _ := io.ReadAll(resp.Body)
		return resp.StatusCode, b
	}
	resp, err := client.Post(fmt.Sprintf("http://127.0.0.1:%d/fan", pIn), "application/octet-stream", bytes.NewReader(c.Body))
	if err != nil {
		out.Skipped = "ingress request failed: " + err.Error()
		out.Labels["inconclusive-environment"] = true
		return out
	}
	_, _ = io.Copy(io.Discard, resp.Body)
	resp.Body.Close()
	if resp.StatusCode != 202 {
		out.Failure = ffail("HARNESS", "ingress", 0, "POST /fan answered %d\n%s", resp.StatusCode, cfg.String())
		return out
	}
	// ---- wait until nothing is queued or leased any more
	type item struct {
		ID     string `json:"id"`
		Target string `json:"target"`
		State  string `json:"state"`
		Reason string `json:"dead_reason"`
	}
	var dead []item
	settled := false
	deadline := time.Now().Add(30 * time.Second)
	for time.Now().Before(deadline) {
		code, b := get(fmt.Sprintf("http://127.0.0.1:%d/messages?route=/fan&limit=100", pAdmin))
		if code != 200 {
			time.Sleep(20 * time.Millisecond)
			continue
		}
		var l struct {
			Items []item `json:"items"`
		}
		_ = json.Unmarshal(b, &l)
		active := 0
		dead = dead[:0]
		for _, it := range l.Items {
			switch it.State {
			case "queued", "leased":
				active++
			case "dead":
				dead = append(dead, it)
			}
		}
		if active == 0 {
			settled = true
			break
		}
		time.Sleep(20 * time.Millisecond)
	}
	if !settled {
		out.Skipped = "deliveries did not settle within 30s (machine load)"
		out.Labels["inconclusive-time-budget"] = true
		return out
	}
	// a late duplicate would arrive within a few backoff periods (<= 10 ms each)
	time.Sleep(60 * time.Millisecond)
	deadBy := map[string]item{}
	for _, d := range dead {
		deadBy[d.Target] = d
	}
	// dead reasons are listed by /dlq when /messages does not carry them
	if len(dead) > 0 && dead[0].Reason == "" {
		if code, b := get(fmt.Sprintf("http://127.0.0.1:%d/dlq?route=/fan&limit=100", pAdmin)); code == 200 {
			var l struct {
				Items []item `json:"items"`
			}
			_ = json.Unmarshal(b, &l)
			for _, it := range l.Items {
				it.State = "dead"
				deadBy[it.Target] = it
			}
		}
	}

	verByID := map[string]OPVersion{}
	for _, v := range c.Secrets {
		verByID[v.ID] = v
	}
	for k, tg := range c.Targets {
		opMu.Lock()
		reqs := append([]opReq(nil), opSeen[paths[k]]...)
		opMu.Unlock()
		d, isDead := deadBy[urls[k]]
		desc := fmt.Sprintf("target %d %s (answers %d, retry %d, defaults %d, sign %s %v %s): %d request(s), dead=%v reason=%q\n%s",
			k, urls[k], tg.Behave, tg.RetryMax, c.DefMax, tg.Sign, tg.Refs, tg.Select, len(reqs), isDead, d.Reason, cfg.String())

		// ---- C16: egress policy
		denied := false
		for _, r := range c.Deny {
			if opMatch(r, tg.Host) {
				denied = true
			}
		}
		if !denied && len(c.Allow) > 0 {
			denied = true
			for _, r := range c.Allow {
				if r == "*" || opMatch(r, tg.Host) {
					denied = false
				}
			}
		}
		if denied {
			out.Labels["policy-denied-target"] = true
			if len(c.Deny)+len(c.Allow) >= 2 {
				out.Labels["policy-several-rules"] = true
				if prop == "C16" {
					out.NonTriv = true
				}
			}
			if len(reqs) > 0 {
				out.Failure = ffail("C16", "request-to-denied-target", k, "the egress policy (allow %v deny %v) denies %s but %s", c.Allow, c.Deny, tg.Host, desc)
				return out
			}
			if !isDead || d.Reason != "policy_denied" {
				out.Failure = ffail("C16,C06", "denied-not-dead-lettered", k, "the egress policy (allow %v deny %v) denies %s: want dead:policy_denied; %s", c.Allow, c.Deny, tg.Host, desc)
				return out
			}
			continue
		}
		// ---- C17: which secret signs
		wantSecret, signing, noneValid := "", tg.Sign != "", false
		switch tg.Sign {
		case "inline":
			wantSecret = fmt.Sprintf("inline-%d", k)
		case "refs":
			var valid []OPVersion
			for _, id := range tg.Refs {
				v := verByID[id]
				if v.FromD <= 0 && (v.UntilD == 0 || v.UntilD > 0) {
					valid = append(valid, v)
				}
			}
			if len(valid) == 0 {
				noneValid = true
			} else {
				sort.Slice(valid, func(i, j int) bool { return valid[i].FromD < valid[j].FromD })
				pick := valid[len(valid)-1] // newest valid_from (default rule)
				if tg.Select == "oldest_valid" {
					pick = valid[0]
				}
				wantSecret = "key-of-" + pick.ID
				if len(valid) >= 2 || len(valid) < len(tg.Refs) {
					out.Labels["signing-choice-among-versions"] = true
					if prop == "C17" {
						out.NonTriv = true
					}
				}
			}
		}
		if noneValid {
			out.Labels["signing-no-valid-version"] = true
			if len(reqs) > 0 {
				out.Failure = ffail("C17", "sent-without-valid-secret", k, "no referenced secret version is valid now, yet %s", desc)
				return out
			}
			if !isDead {
				out.Failure = ffail("C17,C06", "unsignable-not-dead-lettered", k, "no referenced secret version is valid now: the message must end in the DLQ; %s", desc)
			}
			continue
		}
		// ---- C06: how often, how it ends
		effMax := c.DefMax
		if tg.RetryMax >= 0 {
			effMax = tg.RetryMax
		}
		wantReqs, wantEnd := 1, "delivered"
		switch {
		case tg.Behave >= 200 && tg.Behave <= 299:
		case tg.Behave == 408 || tg.Behave == 429 || tg.Behave >= 500:
			wantReqs, wantEnd = effMax+1, "dead:max_retries"
			if tg.RetryMax < 0 && len(c.Targets) > 1 {
				out.Labels["retry-inherited-next-to-override"] = true
			}
			if prop == "C06" {
				out.NonTriv = true
			}
		case tg.Behave >= 400:
			wantEnd = "dead:no_retry"
		default: // 1xx/3xx: never a success; the statement does not say which failure
			wantReqs, wantEnd = -1, "dead:*"
		}
		gotEnd := "delivered"
		if isDead {
			gotEnd = "dead:" + d.Reason
		}
		if wantEnd == "dead:*" {
			if !isDead {
				out.Failure = ffail("C06", "non-success-acked", k, "a %d answer was treated as success; %s", tg.Behave, desc)
				return out
			}
		} else if gotEnd != wantEnd || len(reqs) != wantReqs {
			out.Failure = ffail("C06", "process-settlement", k, "want %d request(s) and end %s (effective retry.max %d); got end %s; %s", wantReqs, wantEnd, effMax, gotEnd, desc)
			return out
		}
		out.Labels["end-"+strings.SplitN(gotEnd, ":", 2)[0]] = true
		// ---- C17: every request that was sent carries the right signature over what was sent
		sigH := "X-Hookaido-Signature"
		if tg.SigH != "" {
			sigH = tg.SigH
		}
		for i, r := range reqs {
			if !bytes.Equal(r.Body, c.Body) {
				out.Failure = ffail("C07,C17", "body-differs", k, "request %d carried %q, accepted %q; %s", i, r.Body, c.Body, desc)
				return out
			}
			if !signing {
				continue
			}
			tsv, sigv := r.Header.Values("X-Hookaido-Timestamp"), r.Header.Values(sigH)
			if len(tsv) != 1 || len(sigv) != 1 {
				out.Failure = ffail("C17", "signature-headers", k, "request %d carries timestamp header(s) %v and signature header(s) %v, want exactly one each; %s", i, tsv, sigv, desc)
				return out
			}
			ts, err := strconv.ParseInt(tsv[0], 10, 64)
			if err != nil || ts < now.Unix()-5 || ts > time.Now().Unix()+5 {
				out.Failure = ffail("C17", "timestamp", k, "request %d timestamp %q is not the signing time (case started %d); %s", i, tsv[0], now.Unix(), desc)
				return out
			}
			sum := sha256.Sum256(r.Body)
			mac := hmac.New(sha256.New, []byte(wantSecret))
			fmt.Fprintf(mac, "POST\n%s\n%d\n%s", r.Path, ts, hex.EncodeToString(sum[:]))
			if want := hex.EncodeToString(mac.Sum(nil)); !strings.EqualFold(want, sigv[0]) {
				out.Failure = ffail("C17", "process-signature", k, "request %d is not signed with %q over (POST, %s, %d, body): got %s; %s", i, wantSecret, r.Path, ts, sigv[0], desc)
				return out
			}
			out.Labels["signature-verified"] = true
		}
	}
	return out
}

// opRun keeps only the clauses that belong to the property whose check is running.
func opRun(prop string) func(OPCase, bool) *fOutcome {
	return func(c OPCase, _ bool) *fOutcome {
		out := runOutboundProcess(c, prop)
		if f := out.Failure; f != nil && f.Prop != "HARNESS" {
			mine := false
			for _, p := range strings.Split(f.Prop, ",") {
				if p == prop {
					mine = true
				}
			}
			if !mine {
				out.Failure = nil
				out.Labels["foreign-clause"] = true
			}
		}
		return out
	}
}

func TestProp_C06_OutboundProcess(t *testing.T) {
	frontProp(t, "C06", "TestProp_C06_OutboundProcess", genOPCase("C06"), opRun("C06"))
}

func TestProp_C16_OutboundProcess(t *testing.T) {
	frontProp(t, "C16", "TestProp_C16_OutboundProcess", genOPCase("C16"), opRun("C16"))
}

func TestProp_C17_OutboundProcess(t *testing.T) {
	frontProp(t, "C17", "TestProp_C17_OutboundProcess", genOPCase("C17"), opRun("C17"))
}
