//go:build verif

package app

import (
	"context"
	"encoding/json"
	"fmt"
	"strings"
	"testing"
	"time"

	"github.com/nuetzliches/hookaido/internal/pullapi"
	"github.com/nuetzliches/hookaido/internal/queue"
	"github.com/nuetzliches/hookaido/internal/workerapi"
	workerapipb "github.com/nuetzliches/hookaido/internal/workerapi/proto"
	"google.golang.org/grpc/codes"
	"google.golang.org/grpc/metadata"
	"google.golang.org/grpc/status"
	"google.golang.org/protobuf/types/known/durationpb"
	"pgregory.net/rapid"
)

// ---------------------------------------------------------------------------------------
// Transport parity (C04, C05): the properties speak of "pull workers over HTTP or gRPC" as one
// thing. One generated history of lease operations is run twice on identical worlds, once
// through the Pull HTTP handler and once through the Worker gRPC service methods, on equal fake
// clocks, with durations that are not whole seconds, zero or negative. After every step the
// answer class and the queue contents (state, attempt, next_run_at, which doubles as the lease
// deadline while leased) must agree; additionally each world is judged against the statement's
// own timing rule (nack delay d => ready at now+d, lease ttl t => deadline now+t).
// ---------------------------------------------------------------------------------------

type TPOp struct {
	K    string `json:"k"` // enq | deq | ack | nack | ext | adv
	N    int    `json:"n,omitempty"`
	Ms   int    `json:"ms,omitempty"` // ttl / delay / extend_by / advance, in milliseconds
	Ns   int    `json:"ns,omitempty"` // plus this many nanoseconds (durations below one millisecond, ragged values)
	Ref  int    `json:"ref,omitempty"`
	Dead bool   `json:"dead,omitempty"`
	Bad  string `json:"bad,omitempty"` // "" | unknown (a lease id nobody was given)
	// Batch: the lease_ids form, naming the lease of Ref and - when Ref2 != 0 - a second one;
	// Pad: the ids are sent with surrounding white space (a trailing newline, blanks)
	Batch bool `json:"batch,omitempty"`
	Ref2  int  `json:"ref2,omitempty"`
	Pad   bool `json:"pad,omitempty"`
}

type TPCase struct {
	Backend string `json:"backend"`
	Ops     []TPOp `json:"ops"`
}

var tpDur = []int{0, 1, 400, 900, 999, 1000, 1001, 1500, 2500, 30000}

func genTPCase() *rapid.Generator[TPCase] {
	return rapid.Custom(func(t *rapid.T) TPCase {
		c := TPCase{Backend: rapid.SampledFrom([]string{"memory", "sqlite"}).Draw(t, "backend")}
		g := rapid.Custom(func(t *rapid.T) TPOp {
			op := TPOp{K: rapid.SampledFrom([]string{"enq", "deq", "deq", "deq", "ack", "nack", "nack", "nack", "ext", "ext", "ext", "adv", "adv"}).Draw(t, "k")}
			switch op.K {
			case "deq":
				op.N = rapid.SampledFrom([]int{1, 1, 2, 5}).Draw(t, "n")
				op.Ms = rapid.SampledFrom(tpDur).Draw(t, "ttl")
			case "ack":
				op.Ref = rapid.IntRange(-3, 5).Draw(t, "ref")
			case "nack":
				op.Ref = rapid.IntRange(-3, 5).Draw(t, "ref")
				op.Ms = rapid.SampledFrom(tpDur).Draw(t, "delay")
				op.Dead = rapid.IntRange(0, 4).Draw(t, "dead") == 0
			case "ext":
				op.Ref = rapid.IntRange(-3, 5).Draw(t, "ref")
				op.Ms = rapid.SampledFrom(append([]int{-500, -1}, tpDur...)).Draw(t, "by")
			case "adv":
				op.Ms = rapid.SampledFrom([]int{1, 399, 400, 401, 500, 999, 1000, 1001, 1500, 31000}).Draw(t, "ms")
			}
			if op.K == "ack" || op.K == "nack" || op.K == "ext" {
				if rapid.IntRange(0, 7).Draw(t, "bad") == 0 {
					op.Bad = "unknown"
				}
			}
			if (op.K == "nack" || op.K == "ext" || op.K == "deq") && op.Ms >= 0 && rapid.IntRange(0, 3).Draw(t, "ragged") == 0 {
				op.Ns = rapid.SampledFrom([]int{1, 999, 500000, 999999}).Draw(t, "ns")
				if rapid.Bool().Draw(t, "sub_ms") && op.K != "deq" {
					op.Ms = 0 // strictly between 0 and 1 ms
				}
			}
			if op.K == "ack" || op.K == "nack" {
				if rapid.IntRange(0, 2).Draw(t, "batch") == 0 {
					op.Batch = true
					op.Ref2 = rapid.SampledFrom([]int{0, 0, -1, -2, 1, 3}).Draw(t, "ref2")
				}
				op.Pad = rapid.IntRange(0, 3).Draw(t, "pad") == 0
			}
			return op
		})
		c.Ops = append(c.Ops, TPOp{K: "enq"}, TPOp{K: "enq"}, TPOp{K: "enq"})
		c.Ops = append(c.Ops, rapid.SliceOfN(g, 3, 25).Draw(t, "ops")...)
		return c
	})
}

const tpText = "ingress { listen 127.0.0.1:0 }\npull_api {\n  listen localhost:0\n  auth token raw:tok\n}\nadmin_api { listen 0.0.0.0:0 }\n/p {\n  pull { path /pull/p }\n}\n"

type tpWorld struct {
	w      *frontWorld
	wk     *workerapi.Server
	grpc   bool
	wallet []string // lease ids in grant order (grants of one dequeue ordered by message id)
	owner  map[string]tpGrant
}

type tpGrant struct {
	id      string
	attempt int
}

func tpClass(httpCode int, err error, grpc bool) string {
	if grpc {
		switch status.Code(err) {
		case codes.OK:
			return "ok"
		case codes.FailedPrecondition:
			return "conflict"
		case codes.InvalidArgument:
			return "invalid"
		case codes.NotFound:
			return "notfound"
		}
		return "other:" + status.Code(err).String()
	}
	switch {
	case httpCode/100 == 2:
		return "ok"
	case httpCode == 409:
		return "conflict"
	case httpCode == 400:
		return "invalid"
	case httpCode == 404:
		return "notfound"
	}
	return fmt.Sprintf("other:%d", httpCode)
}

// batch answers: how many were done, how many were refused as conflicts (the HTTP status of a batch
// with conflicts is 409, the gRPC call itself succeeds: the counts are what both transports report)
func tpBatchClass(class string, done, conflicts int) string {
	if class != "ok" && class != "conflict" {
		return class
	}
	return fmt.Sprintf("batch done=%d conflicts=%d", done, conflicts)
}

func tpBatchHTTP(code int, m map[string]any, key string) string {
	class := tpClass(code, nil, false)
	if class != "ok" && class != "conflict" {
		return class
	}
	done := 0
	if v, ok := m[key].(float64); ok {
		done = int(v)
	}
	conflicts := 0
	if cl, ok := m["conflicts"].([]any); ok {
		conflicts = len(cl)
	}
	return tpBatchClass("ok", done, conflicts)
}

func (t *tpWorld) lease(op TPOp) string {
	if op.Bad == "unknown" || len(t.wallet) == 0 {
		return "lease_00000000deadbeef"
	}
	k := op.Ref
	if k < 0 {
		k = len(t.wallet) + k
		if k < 0 {
			k = 0
		}
	} else {
		k %= len(t.wallet)
	}
	return t.wallet[k]
}

// leases returns the ids an op presents (one for the single form).
func (t *tpWorld) leases(op TPOp) []string {
	ids := []string{t.lease(op)}
	if op.Batch && op.Ref2 != 0 {
		o2 := op
		o2.Ref, o2.Bad = op.Ref2, ""
		if l := t.lease(o2); l != ids[0] {
			ids = append(ids, l)
		}
	}
	if op.Pad {
		for i := range ids {
			ids[i] = []string{" %s", "%s\n", "\t%s  "}[i%3]
			ids[i] = fmt.Sprintf(ids[i], append([]any(nil), t.leasePlain(op, i))...)
		}
	}
	return ids
}

func (t *tpWorld) leasePlain(op TPOp, i int) string {
	if i == 0 {
		return t.lease(op)
	}
	o2 := op
	o2.Ref, o2.Bad = op.Ref2, ""
	return t.lease(o2)
}

func (t *tpWorld) do(op TPOp) (class string, granted []string) {
	d := time.Duration(op.Ms)*time.Millisecond + time.Duration(op.Ns)
	if t.grpc {
		ctx := metadata.NewIncomingContext(context.Background(), metadata.Pairs("authorization", "Bearer tok"))
		switch op.K {
		case "deq":
			req := &workerapipb.DequeueRequest{Endpoint: "/pull/p", Batch: uint32(op.N)}
			if d > 0 {
				req.LeaseTtl = durationpb.New(d)
			}
			resp, err := t.wk.Dequeue(ctx, req)
			type g struct {
				id, lease string
				att       int
			}
			var gs []g
			for _, it := range resp.GetItems() {
				gs = append(gs, g{it.GetId(), it.GetLeaseId(), int(it.GetAttempt())})
			}
			for i := range gs {
				for j := i + 1; j < len(gs); j++ {
					if gs[j].id < gs[i].id {
						gs[i], gs[j] = gs[j], gs[i]
					}
				}
			}
			for _, x := range gs {
				granted = append(granted, x.id)
				t.wallet = append(t.wallet, x.lease)
				t.owner[x.lease] = tpGrant{x.id, x.att}
			}
			return tpClass(0, err, true), granted
		case "ack":
			if op.Batch {
				resp, err := t.wk.Ack(ctx, &workerapipb.AckRequest{Endpoint: "/pull/p", LeaseIds: t.leases(op)})
				return tpBatchClass(tpClass(0, err, true), int(resp.GetAcked()), len(resp.GetConflicts())), nil
			}
			_, err := t.wk.Ack(ctx, &workerapipb.AckRequest{Endpoint: "/pull/p", LeaseId: t.leases(op)[0]})
			return tpClass(0, err, true), nil
		case "nack":
			if op.Batch {
				resp, err := t.wk.Nack(ctx, &workerapipb.NackRequest{Endpoint: "/pull/p", LeaseIds: t.leases(op), Delay: durationpb.New(d), Dead: op.Dead, Reason: "no_retry"})
				return tpBatchClass(tpClass(0, err, true), int(resp.GetSucceeded()), len(resp.GetConflicts())), nil
			}
			_, err := t.wk.Nack(ctx, &workerapipb.NackRequest{Endpoint: "/pull/p", LeaseId: t.leases(op)[0], Delay: durationpb.New(d), Dead: op.Dead, Reason: "no_retry"})
			return tpClass(0, err, true), nil
		case "ext":
			_, err := t.wk.Extend(ctx, &workerapipb.ExtendRequest{Endpoint: "/pull/p", LeaseId: t.lease(op), ExtendBy: durationpb.New(d)})
			return tpClass(0, err, true), nil
		}
		return "other:op", nil
	}
	call := func(name string, body map[string]any) (int, map[string]any) {
		b, _ := json.Marshal(body)
		rec := serve(t.w.pull, FReq{Method: "POST", Path: "/pull/p/" + name, Host: "p", Remote: "127.0.0.1:1", Body: b,
			Headers: [][2]string{{"Content-Type", "application/json"}, {"Authorization", "Bearer tok"}}})
		var m map[string]any
		_ = json.Unmarshal(rec.Body.Bytes(), &m)
		return rec.Code, m
	}
	ms := fmt.Sprintf("%dns", d.Nanoseconds())
	switch op.K {
	case "deq":
		body := map[string]any{"batch": op.N}
		if d > 0 {
			body["lease_ttl"] = ms
		}
		code, m := call("dequeue", body)
		type g struct {
			id, lease string
			att       int
		}
		var gs []g
		if items, ok := m["items"].([]any); ok {
			for _, it := range items {
				im, _ := it.(map[string]any)
				id, _ := im["id"].(string)
				l, _ := im["lease_id"].(string)
				att, _ := im["attempt"].(float64)
				gs = append(gs, g{id, l, int(att)})
			}
		}
		for i := range gs {
			for j := i + 1; j < len(gs); j++ {
				if gs[j].id < gs[i].id {
					gs[i], gs[j] = gs[j], gs[i]
				}
			}
		}
		for _, x := range gs {
			granted = append(granted, x.id)
			t.wallet = append(t.wallet, x.lease)
			t.owner[x.lease] = tpGrant{x.id, x.att}
		}
		return tpClass(code, nil, false), granted
	case "ack":
		if op.Batch {
			code, m := call("ack", map[string]any{"lease_ids": t.leases(op)})
			return tpBatchHTTP(code, m, "acked"), nil
		}
		code, _ := call("ack", map[string]any{"lease_id": t.leases(op)[0]})
		return tpClass(code, nil, false), nil
	case "nack":
		body := map[string]any{"delay": ms}
		if op.Batch {
			body["lease_ids"] = t.leases(op)
		} else {
			body["lease_id"] = t.leases(op)[0]
		}
		if op.Dead {
			body["dead"], body["reason"] = true, "no_retry"
		}
		code, m := call("nack", body)
		if op.Batch {
			return tpBatchHTTP(code, m, "succeeded"), nil
		}
		return tpClass(code, nil, false), nil
	case "ext":
		code, _ := call("extend", map[string]any{"lease_id": t.lease(op), "extend_by": ms})
		return tpClass(code, nil, false), nil
	}
	return "other:op", nil
}

// tpView: what both transports must agree on (lease ids differ by construction).
func tpView(ms []fMsg) string {
	var b strings.Builder
	for _, m := range ms {
		fmt.Fprintf(&b, "%s %s att=%d next=%+dms dead=%q\n", m.ID, m.State, m.Attempt, (m.Next-fT0.UnixNano())/1e6, m.Dead)
	}
	return b.String()
}

func runTP(c TPCase, _ bool) *fOutcome {
	out := newFOutcome()
	mk := func(grpc bool) *tpWorld {
		w, err := newFrontWorld(tpText, worldOpts{backend: c.Backend})
		if err != nil {
			out.Failure = ffail("HARNESS", "world", 0, "%v", err)
			return nil
		}
		t := &tpWorld{w: w, grpc: grpc, owner: map[string]tpGrant{}}
		if grpc {
			ph := pullapi.NewServer(w.store)
			ph.ResolveRoute = w.state.resolvePull
			ph.Authorize = w.state.authorizePull
			t.wk = workerapi.NewServer(ph)
			t.wk.ResolveRoute = w.state.resolvePull
			t.wk.Authorize = w.state.authorizeWorker
			t.wk.PlanRequest = w.state.planWorker // as startServers wires it
		}
		return t
	}
	h := mk(false)
	if h == nil {
		return out
	}
	defer h.w.close()
	g := mk(true)
	if g == nil {
		return out
	}
	defer g.w.close()
	enq := 0
	for i, op := range c.Ops {
		switch op.K {
		case "enq":
			enq++
			for _, t := range []*tpWorld{h, g} {
				if err := t.w.store.Enqueue(queue.Envelope{ID: fmt.Sprintf("m%02d", enq), Route: "/p", Target: "pull", Payload: []byte("p")}); err != nil {
					out.Failure = ffail("HARNESS", "enqueue", i, "%v", err)
					return out
				}
			}
			continue
		case "adv":
			h.w.clk.add(time.Duration(op.Ms) * time.Millisecond)
			g.w.clk.add(time.Duration(op.Ms) * time.Millisecond)
			continue
		}
		beforeG, _ := g.w.dump()
		now := g.w.clk.Now().UnixNano()
		// which message does the presented lease stand for (gRPC world), and is that grant still current?
		// (each dequeue increments attempt: same attempt and still leased <=> same lease)
		var holder *fMsg
		if op.K != "deq" && op.Bad == "" && len(g.wallet) > 0 {
			gr := g.owner[g.lease(op)]
			for k := range beforeG {
				if beforeG[k].ID == gr.id && beforeG[k].State == "leased" && beforeG[k].Attempt == gr.attempt {
					holder = &beforeG[k]
				}
			}
		}
		ch, grantedH := h.do(op)
		cg, grantedG := g.do(op)
		afterH, _ := h.w.dump()
		afterG, _ := g.w.dump()
		desc := fmt.Sprintf("step %d %+v at +%dms (%s)", i, op, (now-fT0.UnixNano())/1e6, c.Backend)
		if strings.HasPrefix(ch, "other") || strings.HasPrefix(cg, "other") {
			out.Failure = ffail("HARNESS", "answer", i, "%s: http %s grpc %s", desc, ch, cg)
			return out
		}
		if ch != cg {
			out.Failure = ffail("C04,C05", "transport-answer-differs", i, "%s: Pull HTTP answers %s, Worker gRPC answers %s", desc, ch, cg)
			return out
		}
		if strings.Join(grantedH, ",") != strings.Join(grantedG, ",") && len(grantedH) == len(grantedG) {
			// a free choice among equally ready messages: stop comparing here
			out.Labels["cut-dequeue-choice"] = true
			return out
		}
		if vh, vg := tpView(afterH), tpView(afterG); vh != vg {
			tag := "C04,C05"
			out.Failure = ffail(tag, "transport-effect-differs", i, "%s: after the same call the queue differs\nPull HTTP:\n%sWorker gRPC:\n%s", desc, vh, vg)
			return out
		}
		// the statement's own timing rules, judged on the gRPC world (the HTTP world has its own tier)
		if ch == "ok" {
			find := func(ms []fMsg, id string) *fMsg {
				for k := range ms {
					if ms[k].ID == id {
						return &ms[k]
					}
				}
				return nil
			}
			d := int64(time.Duration(op.Ms)*time.Millisecond + time.Duration(op.Ns))
			switch op.K {
			case "deq":
				ttl := d
				if d <= 0 {
					ttl = int64(30 * time.Second) // documented default lease ttl
				}
				for _, id := range grantedG {
					if m := find(afterG, id); m == nil || m.State != "leased" || m.Next != now+ttl {
						out.Failure = ffail("C03,C05", "lease-deadline", i, "%s: %s is %+v after the dequeue, want leased until now+ttl = %+dms", desc, id, m, (now+ttl-fT0.UnixNano())/1e6)
						return out
					}
				}
				if len(grantedG) > 0 {
					out.Labels["granted"] = true
				}
			case "nack":
				if holder != nil && !op.Dead {
					if m := find(afterG, holder.ID); m != nil && m.State == "queued" && m.Next != now+d && holder.Next > now {
						out.Failure = ffail("C05", "nack-delay", i, "%s: %s is ready at %+dms, want now+delay = %+dms", desc, holder.ID, (m.Next-fT0.UnixNano())/1e6, (now+d-fT0.UnixNano())/1e6)
						return out
					}
					if op.Ms%1000 != 0 || op.Ns != 0 {
						out.Labels["sub-second-nack-delay"] = true
						out.NonTriv = true
					}
				}
			case "ext":
				if holder != nil && holder.Next > now && d > 0 {
					if m := find(afterG, holder.ID); m == nil || m.State != "leased" || m.Next != holder.Next+d {
						out.Failure = ffail("C04,C03", "extend-deadline", i, "%s: %s is %+v after the extend, want leased until old deadline + extend_by = %+dms", desc, holder.ID, m, (holder.Next+d-fT0.UnixNano())/1e6)
						return out
					}
					if op.Ms%1000 != 0 || op.Ns != 0 {
						out.Labels["sub-second-extend"] = true
						out.NonTriv = true
					}
				}
			}
		}
		if ch == "conflict" {
			out.Labels["conflict"] = true
		}
		if holder == nil && ch == "ok" && op.K == "ext" && (op.Ms > 0 || (op.Ms == 0 && op.Ns > 0)) {
			// a positive extend with a lease that is not current must be a conflict (C04)
			out.Failure = ffail("C04", "stale-extend-accepted", i, "%s: positive extend with a lease that is not current answered success on both transports", desc)
			return out
		}
	}
	return out
}

func TestProp_C04_TransportParity(t *testing.T) {
	frontProp(t, "C04", "TestProp_C04_TransportParity", genTPCase(), tpRun("C04"))
}

func TestProp_C05_TransportParity(t *testing.T) {
	frontProp(t, "C05", "TestProp_C05_TransportParity", genTPCase(), tpRun("C05"))
}

func tpRun(prop string) func(TPCase, bool) *fOutcome {
	return func(c TPCase, tol bool) *fOutcome {
		out := runTP(c, tol)
		if f := out.Failure; f != nil && f.Prop != "HARNESS" {
			mine := false
			for _, p := range strings.Split(f.Prop, ",") {
				if p == prop {
					mine = true
				}
			}
			if !mine {
				out.Failure = nil
				out.Labels["foreign-clause"] = true
			}
		}
		return out
	}
}
