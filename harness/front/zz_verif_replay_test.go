//go:build verif

package app

import "testing"

// TestReplay_Front re-executes saved cases of every front-engine check without rapid.
func TestReplay_Front(t *testing.T) {
	frontReplay("TestProp_C10_Routing", runC10)
	frontReplay("TestProp_C08_Auth", runC08)
	frontReplay("TestProp_C09_Replay", runC09)
	frontReplay("TestProp_C11_Authz", runC11)
	frontReplay("TestProp_C07_Fidelity", runC07)
	frontReplay("TestProp_C12_Ingress", runC12)
	frontReplay("TestProp_C15_Publish", runC15)
	frontReplay("TestProp_C18_Reload", runC18)
	frontReplay("TestProp_C01_ProcessCrash", runC01Proc)
	frontReplay("TestProp_C01_FanoutFault", runC01Fault)
	frontReplay("TestProp_C03_Concurrent", runC03C)
	frontReplay("TestProp_C14_HTTP", runC14)
	frontReplay("TestProp_C18_FileCrash", runC18File)
	frontReplay("TestProp_C18_MgmtRollback", runC18Mgmt)
	frontReplay("TestProp_C12_RateLimit", runC12RL)
	frontReplay("TestProp_C17_Inbound", runC17In)
	frontReplay("TestProp_C09_ManyNonces", runC09)
	frontReplay("TestProp_C17_InboundConcurrent", runC17C)
	frontReplay("TestProp_C08_ReloadWindow", runC18)
	frontReplay("TestProp_C11_AfterReload", runC18)
	frontReplay("TestProp_C15_AfterReload", runC18)
	frontReplay("TestProp_C12_AfterReload", runC18)
	frontReplay("TestProp_C05_PublishTarget", runC15)
	frontReplay("TestProp_C02_StoreWiring", swRun("C02"))
	frontReplay("TestProp_C01_StoreWiring", swRun("C01"))
	frontReplay("TestProp_C12_StoreWiring", swRun("C12"))
	frontReplay("TestProp_C18_GlobalReload", runC18G)
	frontReplay("TestProp_C18_BackpressureReload", runC18BP)
	frontReplay("TestProp_C18_RateReload", runC18R)
	frontReplay("TestProp_C15_PolicyReload", runC18G)
	frontReplay("TestProp_C04_TransportParity", tpRun("C04"))
	frontReplay("TestProp_C05_TransportParity", tpRun("C05"))
	frontReplay("TestProp_C06_OutboundProcess", opRun("C06"))
	frontReplay("TestProp_C16_OutboundProcess", opRun("C16"))
	frontReplay("TestProp_C17_OutboundProcess", opRun("C17"))
	frontReplay("TestProp_C18_OutboundReload", opRun("C18"))
}
