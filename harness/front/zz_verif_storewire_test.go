//go:build verif

package app

import (
	"errors"
	"fmt"
	"os"
	"path/filepath"
	"strings"
	"testing"
	"time"

	"github.com/nuetzliches/hookaido/internal/config"
	"github.com/nuetzliches/hookaido/internal/queue"
	"pgregory.net/rapid"
)

// ---------------------------------------------------------------------------------------
// Store wiring tier (C02, C12): the queue the process runs on is built by newQueueStore from
// the compiled configuration. The other tiers construct their stores themselves (they need to
// inject a clock); this one takes the product's own constructor and the wall clock, with
// retention ages of one second against one hour, so each setting is seen to reach the part of
// the store it is meant for: a message disappears only through the prune that is due for its
// state (C02), and the depth limit and drop policy in force are the configured ones (C12).
// ---------------------------------------------------------------------------------------

type SWCase struct {
	Backend   string `json:"backend"`
	QueueAgeS int    `json:"queue_age_s"`     // queue_retention.max_age: 1 | 3600 | 0 (off)
	DelivAgeS int    `json:"delivered_age_s"` // delivered_retention.max_age: 0 (off) | 1 | 3600
	DLQAgeS   int    `json:"dlq_age_s"`       // dlq_retention.max_age: 1 | 3600 | 0 (off)
	DLQDepth  int    `json:"dlq_depth"`       // dlq_retention.max_depth: 0 (default) | 1
	Depth     int    `json:"depth"`           // queue_limits.max_depth: 0 (default) | 4
	Drop      string `json:"drop"`            // reject | drop_oldest
}

func swAge(s int) string {
	switch s {
	case 0:
		return "off"
	case 3600:
		return "1h"
	}
	return fmt.Sprintf("%ds", s)
}

func (c SWCase) text() string {
	var b strings.Builder
	b.WriteString("ingress { listen 127.0.0.1:0 }\npull_api {\n  listen localhost:0\n  auth token raw:t\n}\nadmin_api { listen 0.0.0.0:0 }\n")
	if c.Depth > 0 {
		fmt.Fprintf(&b, "queue_limits {\n  max_depth %d\n  drop_policy %s\n}\n", c.Depth, c.Drop)
	}
	fmt.Fprintf(&b, "queue_retention {\n  max_age %s\n  prune_interval 1s\n}\n", swAge(c.QueueAgeS))
	if c.DelivAgeS > 0 {
		fmt.Fprintf(&b, "delivered_retention {\n  max_age %s\n}\n", swAge(c.DelivAgeS))
	}
	fmt.Fprintf(&b, "dlq_retention {\n  max_age %s\n", swAge(c.DLQAgeS))
	if c.DLQDepth > 0 {
		fmt.Fprintf(&b, "  max_depth %d\n", c.DLQDepth)
	}
	b.WriteString("}\n")
	fmt.Fprintf(&b, "/p {\n  queue { backend %s }\n  pull { path /pull/p }\n}\n", c.Backend)
	return b.String()
}

func genSWCase() *rapid.Generator[SWCase] {
	return rapid.Custom(func(t *rapid.T) SWCase {
		return SWCase{
			Backend:   rapid.SampledFrom([]string{"memory", "sqlite"}).Draw(t, "backend"),
			QueueAgeS: rapid.SampledFrom([]int{1, 3600, 3600, 0}).Draw(t, "queue_age"),
			DelivAgeS: rapid.SampledFrom([]int{0, 1, 3600}).Draw(t, "delivered_age"),
			DLQAgeS:   rapid.SampledFrom([]int{1, 3600, 3600, 0}).Draw(t, "dlq_age"),
			DLQDepth:  rapid.SampledFrom([]int{0, 0, 1}).Draw(t, "dlq_depth"),
			Depth:     rapid.SampledFrom([]int{0, 4}).Draw(t, "depth"),
			Drop:      rapid.SampledFrom([]string{"reject", "drop_oldest"}).Draw(t, "drop"),
		}
	})
}

func runSW(c SWCase, _ bool) *fOutcome {
	out := newFOutcome()
	src := c.text()
	cfg, err := config.Parse([]byte(src))
	if err != nil {
		out.Failure = ffail("HARNESS", "parse", 0, "%v\n%s", err, src)
		return out
	}
	compiled, res := config.Compile(cfg)
	if !res.OK {
		out.Skipped = "config rejected: " + strings.Join(res.Errors, "; ")
		out.Labels["config-rejected"] = true
		return out
	}
	dir := filepath.Join(fScratch(), fmt.Sprintf("sw-%d-%d", os.Getpid(), fSeq.Add(1)))
	_ = os.MkdirAll(dir, 0o755)
	defer os.RemoveAll(dir)
	st, backend, closeFn, err := newQueueStore(compiled, filepath.Join(dir, "q.db"), "")
	if err != nil {
		out.Failure = ffail("HARNESS", "open", 0, "%v", err)
		return out
	}
	defer func() { _ = closeFn() }()
	if backend != c.Backend {
		out.Failure = ffail("C13,C02", "backend-not-as-configured", 0, "configured backend %s, running on %s", c.Backend, backend)
		return out
	}
	desc := fmt.Sprintf("%+v", c)
	enq := func(id string) error {
		return st.Enqueue(queue.Envelope{ID: id, Route: "/p", Target: "pull", Payload: []byte("p")})
	}
	for _, id := range []string{"dead1", "dead2", "deliv", "waits"} {
		if err := enq(id); err != nil {
			out.Failure = ffail("HARNESS", "enqueue", 0, "%s: %v", id, err)
			return out
		}
	}
	// settle three of them: two dead-lettered (dead1 first), one acked
	for _, id := range []string{"dead1", "dead2", "deliv"} {
		r, err := st.Dequeue(queue.DequeueRequest{Route: "/p", Target: "pull", Batch: 1, LeaseTTL: time.Minute})
		if err != nil || len(r.Items) != 1 || r.Items[0].ID != id {
			out.Failure = ffail("HARNESS", "dequeue", 0, "want %s: %v %+v", id, err, r.Items)
			return out
		}
		if id == "deliv" {
			err = st.Ack(r.Items[0].LeaseID)
		} else {
			err = st.MarkDead(r.Items[0].LeaseID, "no_retry")
		}
		if err != nil {
			out.Failure = ffail("HARNESS", "settle", 0, "%s: %v", id, err)
			return out
		}
	}
	state := func() map[string]string {
		m := map[string]string{}
		if l, err := st.ListMessages(queue.MessageListRequest{Limit: 100}); err == nil {
			for _, it := range l.Items {
				m[it.ID] = string(it.State)
			}
		}
		return m
	}
	// ---- C12: depth limit and drop policy as configured ("waits" is the only active message)
	if c.Depth > 0 {
		var lastErr error
		stored := 0
		for i := 0; i < c.Depth+1; i++ {
			if lastErr = enq(fmt.Sprintf("fill%d", i)); lastErr == nil {
				stored++
			}
		}
		now := state()
		switch c.Drop {
		case "reject":
			// memory with delivered retention also counts delivered items against the limit (documented)
			min := c.Depth - 1
			if c.Backend == "memory" && c.DelivAgeS > 0 {
				min = c.Depth - 2
			}
			if !errors.Is(lastErr, queue.ErrQueueFull) || stored < min || stored > c.Depth-1 || now["waits"] != "queued" {
				out.Failure = ffail("C12", "depth-limit-not-as-configured", 0, "%s: %d of %d enqueues stored next to one queued message, last error %v, waits=%q", desc, stored, c.Depth+1, lastErr, now["waits"])
				return out
			}
		case "drop_oldest":
			if lastErr != nil || now["waits"] != "" {
				out.Failure = ffail("C12", "drop-policy-not-as-configured", 0, "%s: last error %v, the oldest queued message is %q (want evicted)", desc, lastErr, now["waits"])
				return out
			}
		}
		out.Labels["depth-limit-judged"] = true
	}
	before := state()
	time.Sleep(1300 * time.Millisecond)
	// any store call gives the pruner its opportunity (twice: the interval is 1s as well)
	_, _ = st.Stats()
	_, _ = st.Dequeue(queue.DequeueRequest{Route: "/nothing", Batch: 1})
	time.Sleep(50 * time.Millisecond)
	_, _ = st.Dequeue(queue.DequeueRequest{Route: "/nothing", Batch: 1})
	after := state()
	expect := func(id, what string, ageS int, applies bool) bool {
		if !applies {
			return true
		}
		was, is := before[id], after[id]
		if was == "" {
			return true // gone before the wait (evicted by the fill above)
		}
		switch {
		case ageS == 1 && is != "":
			out.Failure = ffail("C02", "retention-not-applied", 0, "%s: %s is 1s but %s (%s) is still stored 1.3s later", desc, what, id, is)
			return false
		case ageS != 1 && is == "":
			out.Failure = ffail("C02,C01", "pruned-by-foreign-retention", 0, "%s: %s is %s, yet %s (%s) disappeared after 1.3s - no prune for its state was due", desc, what, swAge(ageS), id, was)
			return false
		}
		return true
	}
	// the second dead message (the newer one) survives a dlq max_depth of 1; the older one may go
	if !expect("waits", "queue_retention.max_age", c.QueueAgeS, true) ||
		!expect("dead2", "dlq_retention.max_age", c.DLQAgeS, true) ||
		!expect("dead1", "dlq_retention.max_age", c.DLQAgeS, c.DLQDepth == 0) ||
		!expect("deliv", "delivered_retention.max_age", c.DelivAgeS, c.DelivAgeS > 0) {
		return out
	}
	if c.DLQDepth == 1 && c.DLQAgeS != 1 && after["dead1"] != "" && after["dead2"] != "" {
		out.Failure = ffail("C02", "dlq-depth-not-applied", 0, "%s: dlq max_depth 1 but both dead messages are still stored after a prune opportunity", desc)
		return out
	}
	if c.DelivAgeS == 0 && before["deliv"] != "" {
		out.Failure = ffail("C02", "acked-kept-without-retention", 0, "%s: delivered retention is off but the acked message is stored as %s", desc, before["deliv"])
		return out
	}
	out.NonTriv = c.QueueAgeS != c.DLQAgeS || (c.DelivAgeS > 0 && c.DelivAgeS != c.QueueAgeS)
	return out
}

func swRun(prop string) func(SWCase, bool) *fOutcome {
	return func(c SWCase, tol bool) *fOutcome {
		out := runSW(c, tol)
		if f := out.Failure; f != nil && f.Prop != "HARNESS" {
			mine := false
			for _, p := range strings.Split(f.Prop, ",") {
				if p == prop {
					mine = true
				}
			}
			if !mine {
				out.Failure = nil
				out.Labels["foreign-clause"] = true
			}
		}
		return out
	}
}

func TestProp_C02_StoreWiring(t *testing.T) {
	frontProp(t, "C02", "TestProp_C02_StoreWiring", genSWCase(), swRun("C02"))
}

func TestProp_C01_StoreWiring(t *testing.T) {
	frontProp(t, "C01", "TestProp_C01_StoreWiring", genSWCase(), swRun("C01"))
}

func TestProp_C12_StoreWiring(t *testing.T) {
	frontProp(t, "C12", "TestProp_C12_StoreWiring", genSWCase(), swRun("C12"))
}
