//go:build verif

package app

import (
	"bytes"
	"context"
	"fmt"
	"io"
	"log/slog"
	"net/http"
	"net/http/httptest"
	"os"
	"path/filepath"
	"sort"
	"strings"
	"sync"
	"sync/atomic"
	"time"

	"github.com/nuetzliches/hookaido/internal/admin"
	"github.com/nuetzliches/hookaido/internal/config"
	"github.com/nuetzliches/hookaido/internal/queue"
	"github.com/nuetzliches/hookaido/internal/verifkit"
)

// fClock is the fake clock shared by runtime state, HMAC authenticators and the store.
type fClock struct{ ns atomic.Int64 }

var fT0 = time.Date(2026, 3, 1, 12, 0, 0, 0, time.UTC)

func (c *fClock) Now() time.Time       { return fT0.Add(time.Duration(c.ns.Load())) }
func (c *fClock) add(d time.Duration)  { c.ns.Add(int64(d)) }
func (c *fClock) set(d time.Duration)  { c.ns.Store(int64(d)) }
func (c *fClock) since() time.Duration { return time.Duration(c.ns.Load()) }

// frontWorld is a complete in-process hookaido front end built exactly like run(): real
// Parse/Compile, newRuntimeState, loadAuth, startServers; the HTTP handlers are taken from the
// servers startServers returns (listeners are on port 0 and closed again at the end).
type frontWorld struct {
	src      string
	compiled config.Compiled
	running  config.Compiled
	state    *runtimeState
	store    queue.Store
	mem      *queue.MemoryStore
	clk      *fClock
	ingress  http.Handler
	pull     http.Handler
	adminH   http.Handler
	servers  []shutdownServer
	cfgPath  string
	dir      string
	logBuf   *bytes.Buffer
	reloadMu sync.Mutex
	faults   *faultStore
}

var discardLogger = slog.New(slog.NewTextHandler(io.Discard, nil))

var fScratchOnce sync.Once
var fScratchRoot string
var fSeq atomic.Int64

func fScratch() string {
	fScratchOnce.Do(func() {
		root := os.Getenv("VERIF_SCRATCH")
		if root == "" {
			if st, err := os.Stat("/dev/shm"); err == nil && st.IsDir() {
				root = "/dev/shm"
			} else {
				root = os.TempDir()
			}
		}
		_ = os.MkdirAll(root, 0o755)
		d, err := os.MkdirTemp(root, "verif-f-")
		if err != nil {
			panic(err)
		}
		fScratchRoot = d
	})
	return fScratchRoot
}

// listeners: Compile insists on distinct listen addresses; these three spellings all bind an
// ephemeral loopback/any port.
const fListenHeader = `
ingress { listen 127.0.0.1:0 }
`

type worldOpts struct {
	backend  string // memory (default) | sqlite
	withFile bool   // write the config to a file (needed for reload / management)
	memOpts  []queue.MemoryOption
	faults   bool // wrap the store in a faultStore (w.faults)
}

func compileSrc(src string) (config.Compiled, config.ValidationResult, error) {
	cfg, err := config.Parse([]byte(src))
	if err != nil {
		return config.Compiled{}, config.ValidationResult{}, err
	}
	compiled, res := config.Compile(cfg)
	return compiled, res, nil
}

var tracingOnce sync.Once

func newFrontWorld(src string, o worldOpts) (*frontWorld, error) {
	compiled, res, err := compileSrc(src)
	if err != nil {
		return nil, fmt.Errorf("parse: %w", err)
	}
	if !res.OK {
		return nil, fmt.Errorf("compile: %s", config.FormatValidationText(res))
	}
	if compiled.Observability.TracingEnabled {
		// as `hookaido run` does before it starts the servers (the collector is unreachable here:
		// export errors are swallowed; the tracer provider and propagator stay installed)
		tracingOnce.Do(func() {
			_, _ = initTracing(context.Background(), compiled.Observability, func(error) {})
		})
	}
	w := &frontWorld{src: src, compiled: compiled, running: compiled, clk: &fClock{}}
	w.state = newRuntimeState(compiled)
	w.state.now = w.clk.Now
	// newRuntimeState armed the limiters with time.Now before the clock was injected: re-arm
	w.state.mu.Lock()
	w.state.configureIngressRateLimits(compiled)
	w.state.mu.Unlock()
	if err := w.state.loadAuth(compiled); err != nil {
		return nil, fmt.Errorf("loadAuth: %w", err)
	}
	w.injectClock()
	switch o.backend {
	case "", "memory":
		opts := []queue.MemoryOption{queue.WithNowFunc(w.clk.Now), queue.WithQueueLimits(compiled.QueueLimits.MaxDepth, compiled.QueueLimits.DropPolicy)}
		opts = append(opts, o.memOpts...)
		w.mem = queue.NewMemoryStore(opts...)
		w.store = w.mem
	case "sqlite":
		w.dir = filepath.Join(fScratch(), fmt.Sprintf("w%d", fSeq.Add(1)))
		_ = os.MkdirAll(w.dir, 0o755)
		s, err := queue.NewSQLiteStore(filepath.Join(w.dir, "q.db"), queue.WithSQLiteNowFunc(w.clk.Now),
			queue.WithSQLiteQueueLimits(compiled.QueueLimits.MaxDepth, compiled.QueueLimits.DropPolicy), queue.WithSQLiteCheckpointInterval(0))
		if err != nil {
			return nil, err
		}
		w.store = s
	}
	if o.faults {
		w.faults = &faultStore{Store: w.store}
		w.store = w.faults
	}
	if o.withFile {
		if w.dir == "" {
			w.dir = filepath.Join(fScratch(), fmt.Sprintf("w%d", fSeq.Add(1)))
			_ = os.MkdirAll(w.dir, 0o755)
		}
		w.cfgPath = filepath.Join(w.dir, "Hookaidofile")
		if err := os.WriteFile(w.cfgPath, []byte(src), 0o600); err != nil {
			return nil, err
		}
	}
	upsert := func(req admin.ManagementEndpointUpsertRequest) (admin.ManagementEndpointMutationResult, error) {
		w.reloadMu.Lock()
		defer w.reloadMu.Unlock()
		result, updated, err := mutateManagedEndpointConfig(w.cfgPath, w.running, w.state, discardLogger, func(cfg *config.Config, compiled config.Compiled) (admin.ManagementEndpointMutationResult, error) {
			return applyManagedEndpointUpsert(cfg, compiled, req, w.store)
		}, "admin_management_upsert")
		if err != nil {
			return admin.ManagementEndpointMutationResult{}, err
		}
		w.running = updated
		w.injectClock()
		return result, nil
	}
	del := func(req admin.ManagementEndpointDeleteRequest) (admin.ManagementEndpointMutationResult, error) {
		w.reloadMu.Lock()
		defer w.reloadMu.Unlock()
		result, updated, err := mutateManagedEndpointConfig(w.cfgPath, w.running, w.state, discardLogger, func(cfg *config.Config, compiled config.Compiled) (admin.ManagementEndpointMutationResult, error) {
			return applyManagedEndpointDelete(cfg, compiled, req, w.store)
		}, "admin_management_delete")
		if err != nil {
			return admin.ManagementEndpointMutationResult{}, err
		}
		w.running = updated
		w.injectClock()
		return result, nil
	}
	servers, err := startServers(w.store, compiled, w.state, discardLogger, nil, newRuntimeMetrics(), upsert, del, func() {})
	if err != nil {
		w.close()
		return nil, fmt.Errorf("startServers: %w", err)
	}
	w.servers = servers
	idx := 0
	take := func() http.Handler {
		if idx >= len(servers) {
			return nil
		}
		h, ok := servers[idx].(*http.Server)
		idx++
		if !ok {
			return nil
		}
		return h.Handler
	}
	w.ingress = take()
	if compiled.SharedListener {
		shared := take()
		if compiled.HasPullRoutes {
			w.pull = shared
		}
		w.adminH = shared
	} else {
		if compiled.HasPullRoutes {
			w.pull = take()
		}
		w.adminH = take()
	}
	return w, nil
}

// injectClock points every HMAC authenticator built by loadAuth at the fake clock.
func (w *frontWorld) injectClock() {
	w.state.mu.Lock()
	defer w.state.mu.Unlock()
	for _, a := range w.state.hmacByRoute {
		if a != nil {
			a.Now = w.clk.Now
		}
	}
}

// reload runs the real reloadConfig against the world's config file.
func (w *frontWorld) reload() bool {
	w.reloadMu.Lock()
	defer w.reloadMu.Unlock()
	updated, ok := reloadConfig(w.cfgPath, w.running, w.state, discardLogger, "verif")
	if ok {
		w.running = updated
	}
	w.injectClock()
	return ok
}

func (w *frontWorld) close() {
	ctx, cancel := context.WithTimeout(context.Background(), 2*time.Second)
	defer cancel()
	for _, s := range w.servers {
		_ = s.Shutdown(ctx)
	}
	if c, ok := w.store.(interface{ Close() error }); ok {
		_ = c.Close()
	}
	if w.dir != "" {
		_ = os.RemoveAll(w.dir)
	}
}

// FReq is a JSON-serialisable HTTP request description.
type FReq struct {
	Method  string      `json:"method"`
	Path    string      `json:"path"`            // raw request target path (may contain dot segments)
	Query   string      `json:"query,omitempty"` // raw query
	Host    string      `json:"host,omitempty"`
	Remote  string      `json:"remote,omitempty"`
	Headers [][2]string `json:"headers,omitempty"` // ordered list of header fields as sent
	Body    []byte      `json:"body,omitempty"`
	// Chunked: the body arrives without a declared length (HTTP/1.1 chunked transfer coding or an
	// HTTP/2 stream without content-length), as net/http's server presents it: ContentLength -1.
	Chunked bool `json:"chunked,omitempty"`
}

// undeclaredBody hides the concrete reader type so http.NewRequest cannot infer a length.
type undeclaredBody struct{ io.Reader }

func (q FReq) build() *http.Request {
	target := q.Path
	if target == "" {
		target = "/"
	}
	if q.Query != "" {
		target += "?" + q.Query
	}
	method := q.Method
	r, err := http.NewRequest(method, "http://placeholder"+target, bytes.NewReader(q.Body))
	if err != nil {
		// fall back to a syntactically safe request; the caller labels it
		r, _ = http.NewRequest("POST", "http://placeholder/", bytes.NewReader(q.Body))
	}
	r.Method = method
	if q.Chunked {
		r.Body = io.NopCloser(undeclaredBody{bytes.NewReader(q.Body)})
		r.ContentLength = -1
		r.TransferEncoding = []string{"chunked"}
		r.GetBody = nil
	}
	r.Host = q.Host
	r.RemoteAddr = q.Remote
	r.RequestURI = target
	for _, kv := range q.Headers {
		// exactly as net/http's server would present them: canonical MIME key, values appended
		r.Header[http.CanonicalHeaderKey(kv[0])] = append(r.Header[http.CanonicalHeaderKey(kv[0])], kv[1])
	}
	return r
}

func serve(h http.Handler, q FReq) *httptest.ResponseRecorder {
	rec := httptest.NewRecorder()
	h.ServeHTTP(rec, q.build())
	return rec
}

// storeDump lists the complete queue contents through the Store API (memory never prunes here:
// the worlds are built without retention).
type fMsg struct {
	ID      string            `json:"id"`
	Route   string            `json:"route"`
	Target  string            `json:"target"`
	State   string            `json:"state"`
	Attempt int               `json:"attempt"`
	Payload []byte            `json:"payload,omitempty"`
	Headers map[string]string `json:"headers,omitempty"`
	Trace   map[string]string `json:"trace,omitempty"`
	Lease   string            `json:"lease,omitempty"`
	Dead    string            `json:"dead,omitempty"`
	Recv    int64             `json:"recv"`
	Next    int64             `json:"next"`
}

func (w *frontWorld) dump() ([]fMsg, error) {
	resp, err := w.store.ListMessages(queue.MessageListRequest{Limit: 1000, Order: queue.MessageOrderAsc, IncludePayload: true, IncludeHeaders: true, IncludeTrace: true})
	if err != nil {
		return nil, err
	}
	out := make([]fMsg, 0, len(resp.Items))
	for _, e := range resp.Items {
		out = append(out, fMsg{ID: e.ID, Route: e.Route, Target: e.Target, State: string(e.State), Attempt: e.Attempt, Payload: append([]byte(nil), e.Payload...),
			Headers: e.Headers, Trace: e.Trace, Lease: e.LeaseID, Dead: e.DeadReason, Recv: e.ReceivedAt.UnixNano(), Next: e.NextRunAt.UnixNano()})
	}
	sort.Slice(out, func(i, j int) bool { return out[i].ID < out[j].ID })
	return out, nil
}

func dumpKey(ms []fMsg) string {
	var b strings.Builder
	for _, m := range ms {
		fmt.Fprintf(&b, "%s|%s|%s|%s|%d|%x|%v|%s|%s|%d|%d\n", m.ID, m.Route, m.Target, m.State, m.Attempt, m.Payload, sortedKV(m.Headers), m.Lease, m.Dead, m.Recv, m.Next)
	}
	return b.String()
}

func sortedKV(m map[string]string) string {
	keys := make([]string, 0, len(m))
	for k := range m {
		keys = append(keys, k)
	}
	sort.Strings(keys)
	var b strings.Builder
	for _, k := range keys {
		fmt.Fprintf(&b, "%q=%q;", k, m[k])
	}
	return b.String()
}

// newMsgs returns the messages present in after but not in before.
func newMsgs(before, after []fMsg) []fMsg {
	seen := map[string]bool{}
	for _, m := range before {
		seen[m.ID] = true
	}
	var out []fMsg
	for _, m := range after {
		if !seen[m.ID] {
			out = append(out, m)
		}
	}
	return out
}

func ffail(props, clause string, step int, format string, args ...any) *verifkit.Failure {
	return &verifkit.Failure{Prop: props, Clause: clause, Step: step, Detail: fmt.Sprintf(format, args...)}
}
