//go:build verif

// Package verifkit is overlaid into the hookaido module by /verif/check. It carries the
// plumbing every harness engine shares: per-case statistics, failing-case files, the
// known-finding allowlist and replay-file loading. It never touches an RNG or the wall clock
// for decisions; all randomness lives in the rapid generators of the engines.
package verifkit

import (
	"crypto/sha256"
	"encoding/hex"
	"encoding/json"
	"fmt"
	"os"
	"path/filepath"
	"sort"
	"strconv"
	"strings"
	"sync"
)

// Record is one executed case as seen by the driver.
type Record struct {
	Prop       string          `json:"prop"`
	Test       string          `json:"test"`
	Hash       string          `json:"hash"`
	NonTrivial bool            `json:"nt"`
	Labels     []string        `json:"labels,omitempty"`
	Known      []string        `json:"known,omitempty"`
	Foreign    []string        `json:"foreign,omitempty"`
	Skipped    string          `json:"skipped,omitempty"`
	Sample     json.RawMessage `json:"sample,omitempty"`
}

var (
	mu          sync.Mutex
	statsFile   *os.File
	statsOpened bool
	sampleCount = map[string]int{}
	knownSet    map[string]bool
)

func maxSamples() int {
	if v := os.Getenv("VERIF_SAMPLES"); v != "" {
		if n, err := strconv.Atoi(v); err == nil {
			return n
		}
	}
	return 4
}

// Hash returns a stable hash of a JSON-serialisable case.
func Hash(v any) string {
	b, err := json.Marshal(v)
	if err != nil {
		return "unhashable:" + err.Error()
	}
	s := sha256.Sum256(b)
	return hex.EncodeToString(s[:12])
}

// Emit appends a record to $VERIF_STATS (if set). The first few cases of each test (and the
// first few non-trivial ones) carry the full case JSON as a sample.
func Emit(rec Record, c any) {
	mu.Lock()
	defer mu.Unlock()
	if !statsOpened {
		statsOpened = true
		if p := os.Getenv("VERIF_STATS"); p != "" {
			f, err := os.OpenFile(p, os.O_CREATE|os.O_WRONLY|os.O_APPEND, 0o644)
			if err == nil {
				statsFile = f
			}
		}
	}
	if statsFile == nil {
		return
	}
	key := rec.Test
	if rec.NonTrivial {
		key += "/nt"
	}
	if c != nil && sampleCount[key] < maxSamples() {
		if b, err := json.Marshal(c); err == nil && len(b) < 64*1024 {
			rec.Sample = b
			sampleCount[key]++
		}
	}
	sort.Strings(rec.Labels)
	b, err := json.Marshal(rec)
	if err != nil {
		return
	}
	statsFile.Write(append(b, '\n'))
}

// Failure describes an oracle clause that did not hold.
type Failure struct {
	Prop   string `json:"prop"`   // property id the failing clause belongs to
	Clause string `json:"clause"` // short clause tag
	Step   int    `json:"step"`
	Detail string `json:"detail"`
	Sig    string `json:"sig,omitempty"` // known-finding signature id matched, if any
}

func (f *Failure) Error() string {
	if f == nil {
		return "<nil>"
	}
	return fmt.Sprintf("property=%s clause=%s step=%d: %s", f.Prop, f.Clause, f.Step, f.Detail)
}

// SaveFailing writes the failing case (overwriting: rapid re-runs the minimal case last, so
// the file left behind is the shrunk one) to $VERIF_FAILDIR/<test>.json.
func SaveFailing(test string, c any, f *Failure) string {
	dir := os.Getenv("VERIF_FAILDIR")
	if dir == "" {
		return ""
	}
	_ = os.MkdirAll(dir, 0o755)
	out := map[string]any{"test": test, "failure": f, "case": c}
	b, err := json.MarshalIndent(out, "", " ")
	if err != nil {
		return ""
	}
	p := filepath.Join(dir, test+".json")
	_ = os.WriteFile(p, b, 0o644)
	return p
}

// Known reports whether signature id sig is listed as a known (unrepaired) finding for this
// run. The driver passes the list in $VERIF_KNOWN; nothing is ever added at run time.
func Known(sig string) bool {
	mu.Lock()
	defer mu.Unlock()
	if knownSet == nil {
		knownSet = map[string]bool{}
		for _, s := range strings.Split(os.Getenv("VERIF_KNOWN"), ",") {
			s = strings.TrimSpace(s)
			if s != "" {
				knownSet[s] = true
			}
		}
	}
	return knownSet[sig]
}

// ReplayFile is the on-disk form of a saved case.
type ReplayFile struct {
	Test    string          `json:"test"`
	Failure *Failure        `json:"failure,omitempty"`
	Case    json.RawMessage `json:"case"`
	Path    string          `json:"-"`
}

// ReplayFiles loads the files named in $VERIF_REPLAY (path-list separated by ':') whose
// "test" field equals test.
func ReplayFiles(test string) []ReplayFile {
	var out []ReplayFile
	for _, p := range strings.Split(os.Getenv("VERIF_REPLAY"), ":") {
		p = strings.TrimSpace(p)
		if p == "" {
			continue
		}
		b, err := os.ReadFile(p)
		if err != nil {
			fmt.Printf("REPLAY-ERROR file=%s err=%v\n", p, err)
			continue
		}
		var rf ReplayFile
		if err := json.Unmarshal(b, &rf); err != nil {
			fmt.Printf("REPLAY-ERROR file=%s err=%v\n", p, err)
			continue
		}
		if rf.Test != test {
			continue
		}
		rf.Path = p
		out = append(out, rf)
	}
	return out
}

// ReportReplay prints the line format the driver parses.
func ReportReplay(rf ReplayFile, f *Failure) {
	if f == nil {
		fmt.Printf("REPLAY-OK file=%s test=%s\n", rf.Path, rf.Test)
		return
	}
	fmt.Printf("REPLAY-FAIL file=%s test=%s prop=%s clause=%s sig=%s detail=%q\n", rf.Path, rf.Test, f.Prop, f.Clause, f.Sig, f.Detail)
}

// EnvInt reads an integer environment variable.
func EnvInt(name string, def int) int {
	if v := os.Getenv(name); v != "" {
		if n, err := strconv.Atoi(v); err == nil {
			return n
		}
	}
	return def
}

// ScratchDir returns a per-process scratch directory (tmpfs when available).
func ScratchDir() string {
	if d := os.Getenv("VERIF_SCRATCH"); d != "" {
		_ = os.MkdirAll(d, 0o755)
		return d
	}
	d, err := os.MkdirTemp("", "verif-scratch-")
	if err != nil {
		panic(err)
	}
	return d
}
