ENGINES = {"lease": {"pkg": "internal/pullapi", "dir": "harness/lease", "replay": "TestReplay_Lease"}}

PROPS = {
    "C01": {
        "rule": "settle-call tier (engine lease): the C04 transport histories with a store fault on every second ack/nack; a settle call that was answered as done "
                "(204/200) must have been applied, also when an earlier attempt failed in the store and the consumer retried inside the idempotency window",
        "assumptions": [],
        "guards": [],
        "parts": [{"engine": "lease", "test": "TestProp_C01_AckFault", "quick": 2000, "thorough": 100000}],
    },
    "C04": {
        "rule": "transport tier: every lease id ever granted over the Pull HTTP handler is kept and presented again through ack/nack(dead)/extend, single "
                "and lease_ids batches (duplicates, padded/unknown/blank ids), interleaved with clock moves on store and handler (1 ms .. beyond the 2-minute "
                "idempotency window), operator cancel/requeue and re-dequeues; a 2xx is legal only for a current unexpired lease (and must take effect) or for "
                "a repeat of an ack/nack that already succeeded (and must have no effect); everything else is 409 and changes nothing but the release of an "
                "expired lease; batch accounting must equal the oracle's. One request in six has a store fault injected: the n-th lease mutation the handler asks "
                "the store for fails (store offered with or without the batch forms); then the answer must not be a success, whatever was applied before the "
                "failure must be a legal effect of a valid lease, and a later repeat is judged as usual (an 'idempotent' success for something that was never "
                "applied is a violation); non-trivial = a stale id presented while its message is leased under a newer "
                "id, an idempotent repeat, a batch mixing stale and valid ids, or a request with a store fault",
        "assumptions": [SAMPLED],
        "guards": ["op-ok", "409", "idempotent-repeat", "stale-vs-newer-epoch", "store-fault"],
        "parts": [{"engine": "lease", "test": "TestProp_C04_Transport", "quick": 3000, "thorough": 300000}],
    },
    "C05": {
        "rule": "transport tier: enqueue (now / future next_run_at), Pull HTTP dequeue with batch 0..1000 against a generated max_batch (1..100), nack with delay, "
                "clock moves around due instants and the 100ms lease expiry on two routes; the handler must return exactly min(batch capped at max_batch, "
                "ready messages of that route) and only ready ones; non-trivial = a request above max_batch with more ready messages than max_batch",
        "assumptions": [SAMPLED],
        "guards": ["capped-by-max-batch", "returned"],
        "parts": [{"engine": "lease", "test": "TestProp_C05_Transport", "quick": 2000, "thorough": 200000}],
    },
}
