ENGINES = {"lease": {"pkg": "internal/pullapi", "dir": "harness/lease", "replay": "TestReplay_Lease"}}

PROPS = {
    "C04": {
        "rule": "transport tier: every lease id ever granted over the Pull HTTP handler is kept and presented again through ack/nack(dead)/extend, single "
                "and lease_ids batches (duplicates, padded/unknown/blank ids), interleaved with clock moves on store and handler (1 ms .. beyond the 2-minute "
                "idempotency window), operator cancel/requeue and re-dequeues; a 2xx is legal only for a current unexpired lease (and must take effect) or for "
                "a repeat of an ack/nack that already succeeded (and must have no effect); everything else is 409 and changes nothing but the release of an "
                "expired lease; batch accounting must equal the oracle's; non-trivial = a stale id presented while its message is leased under a newer "
                "id, an idempotent repeat, or a batch mixing stale and valid ids",
        "assumptions": [SAMPLED],
        "guards": ["op-ok", "409", "idempotent-repeat", "stale-vs-newer-epoch"],
        "parts": [{"engine": "lease", "test": "TestProp_C04_Transport", "quick": 3000, "thorough": 300000}],
    },
    "C05": {
        "rule": "transport tier: enqueue (now / future next_run_at), Pull HTTP dequeue with batch 0..1000 against a generated max_batch (1..100), nack with delay, "
                "clock moves around due instants and the 100ms lease expiry on two routes; the handler must return exactly min(batch capped at max_batch, "
                "ready messages of that route) and only ready ones; non-trivial = a request above max_batch with more ready messages than max_batch",
        "assumptions": [SAMPLED],
        "guards": ["capped-by-max-batch", "returned"],
        "parts": [{"engine": "lease", "test": "TestProp_C05_Transport", "quick": 2000, "thorough": 200000}],
    },
}
