//go:build verif

package pullapi

import (
	"bytes"
	"encoding/json"
	"errors"
	"fmt"
	"net/http"
	"net/http/httptest"
	"sort"
	"strings"
	"sync/atomic"
	"testing"
	"time"

	"github.com/nuetzliches/hookaido/internal/queue"
	"github.com/nuetzliches/hookaido/internal/verifkit"
	"pgregory.net/rapid"
)

// ---------------------------------------------------------------------------------------
// C04, transport tier: stale / foreign / duplicate lease ids presented through the Pull HTTP
// handler, with a fake clock on both the store and the handler so that the 2-minute
// idempotency window is crossed.
// ---------------------------------------------------------------------------------------

type LOp struct {
	K     string `json:"k"` // enq | deq | ack | nack | ext | adv | cancel | requeue
	N     int    `json:"n,omitempty"`
	TTLMs int    `json:"ttl_ms,omitempty"`
	L     []int  `json:"l,omitempty"` // lease refs (index into the wallet; negative: from the end)
	Batch bool   `json:"batch,omitempty"`
	Dead  bool   `json:"dead,omitempty"`
	Ms    int    `json:"ms,omitempty"`
	Mode  string `json:"mode,omitempty"` // "" | pad | unknown | blank
	// Fault > 0: the Fault-th lease mutation the store is asked for during this request fails with a
	// transient error (nothing is applied by that call)
	Fault int `json:"fault,omitempty"`
}

type LCase struct {
	Backend string `json:"backend"`
	// NoBatch: the store offered to the handler has no batch lease mutations (the handler then loops
	// over the single forms)
	NoBatch bool  `json:"no_batch,omitempty"`
	Ops     []LOp `json:"ops"`
}

var errLInjected = errors.New("verif: injected store failure")

// lFaultStore fails the n-th lease mutation after arm(n); every other call goes to the real store.
type lFaultStore struct {
	queue.Store
	countdown int
	hits      int
}

func (f *lFaultStore) arm(n int) { f.countdown = n }
func (f *lFaultStore) disarm()   { f.countdown = 0 }
func (f *lFaultStore) trip() bool {
	if f.countdown > 0 {
		f.countdown--
		if f.countdown == 0 {
			f.hits++
			return true
		}
	}
	return false
}
func (f *lFaultStore) Ack(l string) error {
	if f.trip() {
		return errLInjected
	}
	return f.Store.Ack(l)
}
func (f *lFaultStore) Nack(l string, d time.Duration) error {
	if f.trip() {
		return errLInjected
	}
	return f.Store.Nack(l, d)
}
func (f *lFaultStore) Extend(l string, d time.Duration) error {
	if f.trip() {
		return errLInjected
	}
	return f.Store.Extend(l, d)
}
func (f *lFaultStore) MarkDead(l string, r string) error {
	if f.trip() {
		return errLInjected
	}
	return f.Store.MarkDead(l, r)
}

// lFaultBatchStore adds the batch forms (what the real backends offer).
type lFaultBatchStore struct{ *lFaultStore }

func (f lFaultBatchStore) AckBatch(ids []string) (queue.LeaseBatchResult, error) {
	if f.trip() {
		return queue.LeaseBatchResult{}, errLInjected
	}
	return f.Store.(queue.LeaseBatchStore).AckBatch(ids)
}
func (f lFaultBatchStore) NackBatch(ids []string, d time.Duration) (queue.LeaseBatchResult, error) {
	if f.trip() {
		return queue.LeaseBatchResult{}, errLInjected
	}
	return f.Store.(queue.LeaseBatchStore).NackBatch(ids, d)
}
func (f lFaultBatchStore) MarkDeadBatch(ids []string, r string) (queue.LeaseBatchResult, error) {
	if f.trip() {
		return queue.LeaseBatchResult{}, errLInjected
	}
	return f.Store.(queue.LeaseBatchStore).MarkDeadBatch(ids, r)
}

type lClock struct{ ns atomic.Int64 }

var lT0 = time.Date(2026, 2, 1, 0, 0, 0, 0, time.UTC)

func (c *lClock) Now() time.Time { return lT0.Add(time.Duration(c.ns.Load())) }

type lMsg struct {
	ID, State, Lease string
	Attempt          int
	Until, Next      int64
	Dead             string
}

func lSnapshot(st queue.Store) (map[string]lMsg, error) {
	resp, err := st.ListMessages(queue.MessageListRequest{Limit: 1000, Order: queue.MessageOrderAsc})
	if err != nil {
		return nil, err
	}
	out := map[string]lMsg{}
	for _, e := range resp.Items {
		m := lMsg{ID: e.ID, State: string(e.State), Attempt: e.Attempt, Next: e.NextRunAt.UnixNano(), Dead: e.DeadReason}
		if m.State == "leased" {
			m.Next = 0 // parked at lease_until while leased; judged through the grant bookkeeping
		}
		out[e.ID] = m
	}
	return out, nil
}

func genLCase() *rapid.Generator[LCase] {
	return rapid.Custom(func(t *rapid.T) LCase {
		c := LCase{Backend: rapid.SampledFrom([]string{"memory", "sqlite"}).Draw(t, "backend")}
		c.NoBatch = rapid.IntRange(0, 3).Draw(t, "no_batch") == 0
		ref := rapid.Custom(func(t *rapid.T) int {
			if rapid.Bool().Draw(t, "recent") {
				return -1 - rapid.IntRange(0, 2).Draw(t, "back")
			}
			return rapid.IntRange(0, 6).Draw(t, "idx")
		})
		g := rapid.Custom(func(t *rapid.T) LOp {
			op := LOp{K: rapid.SampledFrom([]string{"enq", "deq", "deq", "deq", "ack", "ack", "nack", "nack", "ext", "adv", "adv", "cancel", "requeue"}).Draw(t, "k")}
			switch op.K {
			case "deq":
				op.N = rapid.SampledFrom([]int{1, 1, 2, 5}).Draw(t, "n")
				op.TTLMs = rapid.SampledFrom([]int{1000, 1000, 30000, 200000}).Draw(t, "ttl")
			case "ack", "nack", "ext":
				op.Batch = op.K != "ext" && rapid.IntRange(0, 2).Draw(t, "batch") == 0
				n := 1
				if op.Batch {
					n = rapid.IntRange(1, 4).Draw(t, "nl")
				}
				op.L = rapid.SliceOfN(ref, n, n).Draw(t, "l")
				if op.Batch && n >= 2 && rapid.IntRange(0, 3).Draw(t, "dup") == 0 {
					op.L[n-1] = op.L[0]
				}
				op.Dead = op.K == "nack" && rapid.IntRange(0, 3).Draw(t, "dead") == 0
				op.Ms = rapid.SampledFrom([]int{0, 0, 1000, 5000}).Draw(t, "ms")
				op.Mode = rapid.SampledFrom([]string{"", "", "", "", "", "pad", "unknown", "blank"}).Draw(t, "mode")
				if rapid.IntRange(0, 5).Draw(t, "fault") == 0 {
					op.Fault = rapid.IntRange(1, 3).Draw(t, "fault_at")
				}
			case "adv":
				op.Ms = rapid.SampledFrom([]int{1, 500, 999, 1000, 1001, 30000, 119999, 120000, 120001, 400000}).Draw(t, "ms")
			case "cancel", "requeue":
				op.N = rapid.IntRange(0, 5).Draw(t, "id")
			}
			return op
		})
		c.Ops = append(c.Ops, LOp{K: "enq"}, LOp{K: "enq"}, LOp{K: "enq"})
		if rapid.IntRange(0, 3).Draw(t, "mixed_batch_motif") == 0 {
			// one batch presents a live lease and an expired, not yet released one (either order)
			order := []int{-1, -2}
			if rapid.Bool().Draw(t, "expired_first") {
				order = []int{-2, -1}
			}
			c.Ops = append(c.Ops, LOp{K: "deq", N: 1, TTLMs: 1000}, LOp{K: "deq", N: 1, TTLMs: 200000}, LOp{K: "adv", Ms: 1001},
				LOp{K: rapid.SampledFrom([]string{"ack", "nack"}).Draw(t, "motif_k"), Batch: true, L: order})
		}
		c.Ops = append(c.Ops, rapid.SliceOfN(g, 3, 30).Draw(t, "ops")...)
		return c
	})
}

type lOutcome struct {
	Failure *verifkit.Failure
	Labels  map[string]bool
	NonTriv bool
}

func lfail(clause string, step int, format string, args ...any) *verifkit.Failure {
	return &verifkit.Failure{Prop: "C04", Clause: clause, Step: step, Detail: fmt.Sprintf(format, args...)}
}

func runLCase(c LCase) *lOutcome {
	out := &lOutcome{Labels: map[string]bool{}}
	clk := &lClock{}
	var st queue.Store
	switch c.Backend {
	case "sqlite":
		dir := verifkit.ScratchDir()
		s, err := queue.NewSQLiteStore(fmt.Sprintf("%s/l%d.db", dir, time.Now().UnixNano()), queue.WithSQLiteNowFunc(clk.Now), queue.WithSQLiteCheckpointInterval(0))
		if err != nil {
			out.Failure = &verifkit.Failure{Prop: "HARNESS", Clause: "open", Detail: err.Error()}
			return out
		}
		defer s.Close()
		st = s
	default:
		st = queue.NewMemoryStore(queue.WithNowFunc(clk.Now))
	}
	fs := &lFaultStore{Store: st}
	var offered queue.Store = lFaultBatchStore{fs}
	if c.NoBatch {
		offered = fs
		out.Labels["store-without-batch-forms"] = true
	}
	srv := NewServer(offered)
	srv.now = clk.Now
	srv.ResolveRoute = func(ep string) (string, bool) { return "/r", ep == "/pull/r" }
	call := func(op string, body any) (*httptest.ResponseRecorder, map[string]any) {
		b, _ := json.Marshal(body)
		req := httptest.NewRequest(http.MethodPost, "/pull/r/"+op, bytes.NewReader(b))
		req.Header.Set("Content-Type", "application/json")
		rec := httptest.NewRecorder()
		srv.ServeHTTP(rec, req)
		var m map[string]any
		_ = json.Unmarshal(rec.Body.Bytes(), &m)
		return rec, m
	}
	var wallet []string
	type grant struct {
		id      string
		attempt int
		until   int64
	}
	owner := map[string]*grant{}   // lease -> the grant it stands for (listings do not expose lease ids on every backend)
	succeeded := map[string]bool{} // lease+"/"+class already succeeded
	enqSeq := 0
	for i, op := range c.Ops {
		before, err := lSnapshot(st)
		if err != nil {
			out.Failure = &verifkit.Failure{Prop: "HARNESS", Clause: "snapshot", Detail: err.Error()}
			return out
		}
		now := clk.Now().UnixNano()
		resolve := func(k int) string {
			switch op.Mode {
			case "unknown":
				return "lease_00000000deadbeef"
			case "blank":
				return "  "
			}
			if len(wallet) == 0 {
				return "lease_0000000000000000"
			}
			if k < 0 {
				k = len(wallet) + k
				if k < 0 {
					k = 0
				}
			} else {
				k %= len(wallet)
			}
			if op.Mode == "pad" {
				return " " + wallet[k] + " "
			}
			return wallet[k]
		}
		holder := func(lease string) (lMsg, bool) {
			g := owner[lease]
			if g == nil {
				return lMsg{}, false
			}
			// each dequeue increments attempt: same attempt and still leased <=> same lease epoch
			if m, ok := before[g.id]; ok && m.State == "leased" && m.Attempt == g.attempt {
				m.Until = g.until
				m.Lease = lease
				return m, true
			}
			return lMsg{}, false
		}
		switch op.K {
		case "enq":
			enqSeq++
			_ = st.Enqueue(queue.Envelope{ID: fmt.Sprintf("m%d", enqSeq), Route: "/r", Target: "pull", Payload: []byte("p")})
			continue
		case "adv":
			clk.ns.Add(int64(time.Duration(op.Ms) * time.Millisecond))
			continue
		case "cancel":
			_, _ = st.CancelMessages(queue.MessageCancelRequest{IDs: []string{fmt.Sprintf("m%d", op.N+1)}})
			continue
		case "requeue":
			_, _ = st.RequeueMessages(queue.MessageRequeueRequest{IDs: []string{fmt.Sprintf("m%d", op.N+1)}})
			continue
		case "deq":
			rec, m := call("dequeue", map[string]any{"batch": op.N, "lease_ttl": fmt.Sprintf("%dms", op.TTLMs)})
			if rec.Code != 200 {
				// no fault is ever injected into a dequeue here: a dequeue that fails hands out nothing
				// although capacity was requested (and whatever broke the store is still broken)
				out.Failure = &verifkit.Failure{Prop: "C05,C04,C01", Clause: "dequeue-internal-error", Step: i, Detail: fmt.Sprintf("dequeue answered %d %s", rec.Code, strings.TrimSpace(rec.Body.String()))}
				return out
			}
			if items, ok := m["items"].([]any); ok {
				for _, it := range items {
					im := it.(map[string]any)
					l, _ := im["lease_id"].(string)
					id, _ := im["id"].(string)
					att, _ := im["attempt"].(float64)
					wallet = append(wallet, l)
					owner[l] = &grant{id: id, attempt: int(att), until: now + int64(time.Duration(op.TTLMs)*time.Millisecond)}
				}
			}
			continue
		}
		// ---- lease operation through the transport
		class := map[string]string{"ack": "ack", "nack": "nack", "ext": "extend"}[op.K]
		var leases []string
		for _, k := range op.L {
			leases = append(leases, resolve(k))
		}
		body := map[string]any{}
		if op.Batch {
			body["lease_ids"] = leases
		} else {
			body["lease_id"] = leases[0]
		}
		switch op.K {
		case "nack":
			body["delay"] = fmt.Sprintf("%dms", op.Ms)
			if op.Dead {
				body["dead"] = true
				body["reason"] = "no_retry"
			}
		case "ext":
			body["extend_by"] = fmt.Sprintf("%dms", op.Ms+1000)
		}
		opName := map[string]string{"ack": "ack", "nack": "nack", "ext": "extend"}[op.K]
		hitsBefore := fs.hits
		if op.Fault > 0 {
			fs.arm(op.Fault)
		}
		rec, respBody := call(opName, body)
		fs.disarm()
		faulted := fs.hits > hitsBefore
		after, _ := lSnapshot(st)
		desc := fmt.Sprintf("%s %v at +%dms -> %d %s", opName, leases, (now-lT0.UnixNano())/1e6, rec.Code, strings.TrimSpace(rec.Body.String()))
		if rec.Code == 400 {
			// blank lease ids are a malformed request: must not change anything
			if fmt.Sprint(before) != fmt.Sprint(after) {
				out.Failure = lfail("bad-request-changed", i, "%s changed the queue", desc)
				return out
			}
			out.Labels["400"] = true
			continue
		}
		// expected per lease
		type exp struct {
			lease    string
			valid    bool
			holder   lMsg
			idem     bool
			expired  bool
			dupInReq bool
		}
		var exps []exp
		seen := map[string]bool{}
		for _, raw := range leases {
			l := strings.TrimSpace(raw)
			e := exp{lease: l}
			if seen[l] {
				e.dupInReq = true
			}
			seen[l] = true
			if h, ok := holder(l); ok {
				e.holder = h
				if h.Until > now {
					e.valid = true
				} else {
					e.expired = true
				}
			}
			e.idem = succeeded[l+"/"+class] && class != "extend"
			exps = append(exps, e)
		}
		// which messages may change, and how
		changedOK := func(id string, b, a lMsg, present bool) bool {
			if present && b == a {
				// unchanged in the listing; a successful extend is only visible in the bookkeeping
				return true
			}
			for _, e := range exps {
				if e.holder.ID != id {
					continue
				}
				if e.expired && present && a.State == "queued" && a.Lease == "" && a.Attempt == b.Attempt {
					return true // expired lease returned to the queue
				}
				if e.valid && !e.dupInReq || e.valid {
					switch class {
					case "ack":
						if !present {
							return true
						}
					case "nack":
						if present && a.Lease == "" && a.Attempt == b.Attempt && ((op.Dead && a.State == "dead") || (!op.Dead && a.State == "queued" && a.Next == now+int64(time.Duration(op.Ms)*time.Millisecond))) {
							return true
						}
					case "extend":
						if present && a.State == "leased" && a.Attempt == b.Attempt {
							return true
						}
					}
				}
			}
			return false
		}
		ids := map[string]bool{}
		for id := range before {
			ids[id] = true
		}
		for id := range after {
			ids[id] = true
		}
		var idList []string
		for id := range ids {
			idList = append(idList, id)
		}
		sort.Strings(idList)
		for _, id := range idList {
			b, inB := before[id]
			a, inA := after[id]
			if !inB {
				out.Failure = lfail("message-from-nowhere", i, "%s: message %s appeared", desc, id)
				return out
			}
			if !changedOK(id, b, a, inA) {
				defer func() {
					// a message that vanished without a live lease of it having been acked is lost (C01)
					if f := out.Failure; f != nil && f.Clause == "stale-lease-changed-message" && !inA && !strings.Contains(f.Prop, "C01") {
						f.Prop += ",C01"
					}
				}()
				out.Failure = lfail("stale-lease-changed-message", i, "%s: message %s changed %+v -> %+v (present=%v) although no valid lease of it was presented", desc, id, b, a, inA)
				return out
			}
		}
		if faulted {
			// one store call of this request failed: the consumer must not be told that everything
			// went well, and whatever the request did apply before the failure counts as done
			out.Labels["store-fault"] = true
			out.NonTriv = true
			if rec.Code/100 == 2 {
				f := lfail("store-failure-answered-success", i, "%s: the store failed a lease mutation of this request, the answer is a success", desc)
				f.Prop = "C04,C01"
				out.Failure = f
				return out
			}
			for _, e := range exps {
				if !e.valid {
					continue
				}
				b := before[e.holder.ID]
				if a, inA := after[e.holder.ID]; !inA || a != b {
					succeeded[e.lease+"/"+class] = true
					out.Labels["store-fault-partial"] = true
				}
			}
			continue
		}
		// status
		if !op.Batch {
			e := exps[0]
			switch {
			case rec.Code/100 == 2:
				if !e.valid && !e.idem {
					out.Failure = lfail("stale-accepted", i, "%s: answered success although the lease is not current (expired=%v) and no earlier %s of it succeeded", desc, e.expired, class)
					return out
				}
				if e.valid {
					// success with a valid lease must have taken effect
					a, inA := after[e.holder.ID]
					if class != "extend" && inA && a.State == "leased" {
						f := lfail("success-without-effect", i, "%s: answered success with a valid lease but the message is still leased", desc)
						f.Prop = "C04,C01" // an ack / nack acknowledged to the consumer that never happened
						out.Failure = f
						return out
					}
					if class == "extend" {
						owner[e.lease].until += int64(time.Duration(op.Ms+1000) * time.Millisecond)
					}
					succeeded[e.lease+"/"+class] = true
					out.Labels["op-ok"] = true
				} else {
					out.Labels["idempotent-repeat"] = true
					out.NonTriv = true
					if g := owner[e.lease]; g != nil {
						if m, ok := before[g.id]; ok && m.State == "leased" && m.Attempt > g.attempt {
							out.Labels["idempotent-repeat-while-newer-lease"] = true
						}
					}
				}
			case rec.Code == 409:
				out.Labels["409"] = true
				if e.valid {
					out.Labels["valid-refused"] = true
				}
				if g := owner[e.lease]; g != nil && !e.valid {
					if m, ok := before[g.id]; ok && m.State == "leased" && m.Attempt > g.attempt {
						out.Labels["stale-vs-newer-epoch"] = true
						out.NonTriv = true
					}
				}
			default:
				out.Failure = lfail("unexpected-status", i, "%s", desc)
				return out
			}
			continue
		}
		// batch: conflicts = leases that are neither valid (first occurrence) nor idempotent repeats
		wantConf := 0
		wantOK := 0
		anyValid, anyStale := false, false
		dups, idems := 0, 0
		for _, e := range exps {
			switch {
			case e.dupInReq:
				dups++ // a repeated id inside one request may be dropped by the transport or reported as a conflict
			case e.valid:
				wantOK++
				anyValid = true
			case e.idem:
				idems++ // the idempotent answer is allowed (inside the handler's window), never required
			default:
				wantConf++
				anyStale = true
			}
		}
		gotConf := 0
		if cl, ok := respBody["conflicts"].([]any); ok {
			gotConf = len(cl)
		}
		gotOK := -1
		for _, k := range []string{"acked", "succeeded"} {
			if v, ok := respBody[k].(float64); ok {
				gotOK = int(v)
			}
		}
		if gotConf < wantConf || gotConf > wantConf+dups+idems || (gotOK >= 0 && (gotOK < wantOK || gotOK > wantOK+idems)) {
			out.Failure = lfail("batch-accounting", i, "%s: reported ok=%d conflicts=%d, oracle ok=%d conflicts=%d", desc, gotOK, gotConf, wantOK, wantConf)
			return out
		}
		if (gotConf > 0) != (rec.Code == 409) {
			out.Failure = lfail("batch-status", i, "%s: %d conflicts expected but status %d", desc, wantConf, rec.Code)
			return out
		}
		// a live lease that the answer does not list as a conflict was settled: its message must show it
		reported := map[string]bool{}
		if cl, ok := respBody["conflicts"].([]any); ok {
			for _, x := range cl {
				if m, ok := x.(map[string]any); ok {
					if l, ok := m["lease_id"].(string); ok {
						reported[strings.TrimSpace(l)] = true
					}
				}
			}
		}
		for _, e := range exps {
			if !e.valid || e.dupInReq || reported[e.lease] {
				continue
			}
			if a, inA := after[e.holder.ID]; inA && a.State == "leased" && a.Attempt == e.holder.Attempt {
				f := lfail("success-without-effect", i, "%s: lease %s is live and not among the reported conflicts, but message %s is still leased", desc, e.lease, e.holder.ID)
				f.Prop = "C04,C01"
				out.Failure = f
				return out
			}
		}
		for _, e := range exps {
			if e.valid && !e.dupInReq {
				succeeded[e.lease+"/"+class] = true
			}
		}
		if anyValid && anyStale {
			out.Labels["stale-in-batch-with-valid"] = true
			out.NonTriv = true
		}
	}
	return out
}

func (o *lOutcome) labelList() []string {
	var l []string
	for k := range o.Labels {
		l = append(l, k)
	}
	sort.Strings(l)
	return l
}

func TestProp_C04_Transport(t *testing.T) {
	gen := genLCase()
	rapid.Check(t, func(rt *rapid.T) {
		c := gen.Draw(rt, "case")
		out := runLCase(c)
		verifkit.Emit(verifkit.Record{Prop: "C04", Test: "TestProp_C04_Transport", Hash: verifkit.Hash(c), NonTrivial: out.NonTriv, Labels: out.labelList()}, c)
		if out.Failure != nil {
			verifkit.SaveFailing("TestProp_C04_Transport", c, out.Failure)
			rt.Fatalf("%v", out.Failure)
		}
	})
}

// TestProp_C01_AckFault: the same histories for C01's share - a settle call that was answered
// as done must be done (also when the store failed on the way and the consumer retried).
func TestProp_C01_AckFault(t *testing.T) {
	gen := genLCase()
	rapid.Check(t, func(rt *rapid.T) {
		c := gen.Draw(rt, "case")
		// every second lease call of the case meets a store fault
		for i := range c.Ops {
			if k := c.Ops[i].K; (k == "ack" || k == "nack") && i%2 == 0 && c.Ops[i].Fault == 0 {
				c.Ops[i].Fault = 1
			}
		}
		out := runLCase(c)
		if f := out.Failure; f != nil && f.Prop != "HARNESS" && !strings.Contains(f.Prop, "C01") {
			out.Failure = nil
			out.Labels["foreign-clause"] = true
		}
		out.NonTriv = out.Labels["store-fault"]
		verifkit.Emit(verifkit.Record{Prop: "C01", Test: "TestProp_C01_AckFault", Hash: verifkit.Hash(c), NonTrivial: out.NonTriv, Labels: out.labelList()}, c)
		if out.Failure != nil {
			verifkit.SaveFailing("TestProp_C01_AckFault", c, out.Failure)
			rt.Fatalf("%v", out.Failure)
		}
	})
}

func TestReplay_Lease(t *testing.T) {
	for _, rf := range append(verifkit.ReplayFiles("TestProp_C04_Transport"), verifkit.ReplayFiles("TestProp_C01_AckFault")...) {
		var c LCase
		if err := json.Unmarshal(rf.Case, &c); err != nil {
			fmt.Printf("REPLAY-ERROR file=%s err=%v\n", rf.Path, err)
			continue
		}
		verifkit.ReportReplay(rf, runLCase(c).Failure)
	}
	for _, rf := range verifkit.ReplayFiles("TestProp_C05_Transport") {
		var c L5Case
		if err := json.Unmarshal(rf.Case, &c); err != nil {
			fmt.Printf("REPLAY-ERROR file=%s err=%v\n", rf.Path, err)
			continue
		}
		verifkit.ReportReplay(rf, runL5Case(c).Failure)
	}
}

// ---------------------------------------------------------------------------------------
// C05, transport tier: a Pull dequeue returns exactly min(batch capped at max_batch, ready).
// ---------------------------------------------------------------------------------------

type L5Op struct {
	K     string `json:"k"` // enq | deq | nack | adv
	N     int    `json:"n,omitempty"`
	Ms    int    `json:"ms,omitempty"`
	Route int    `json:"route,omitempty"`
}

type L5Case struct {
	Backend  string `json:"backend"`
	MaxBatch int    `json:"max_batch"`
	Ops      []L5Op `json:"ops"`
}

func genL5Case() *rapid.Generator[L5Case] {
	return rapid.Custom(func(t *rapid.T) L5Case {
		c := L5Case{Backend: rapid.SampledFrom([]string{"memory", "sqlite"}).Draw(t, "backend"), MaxBatch: rapid.SampledFrom([]int{1, 2, 3, 5, 100}).Draw(t, "max_batch")}
		g := rapid.Custom(func(t *rapid.T) L5Op {
			op := L5Op{K: rapid.SampledFrom([]string{"enq", "enq", "enq", "deq", "deq", "nack", "adv"}).Draw(t, "k"), Route: rapid.IntRange(0, 1).Draw(t, "route")}
			switch op.K {
			case "enq":
				op.Ms = rapid.SampledFrom([]int{0, 0, 0, 50, 1000}).Draw(t, "future_ms")
			case "deq":
				op.N = rapid.SampledFrom([]int{0, 1, 2, 3, 4, 6, 100, 101, 1000}).Draw(t, "batch")
			case "nack":
				op.Ms = rapid.SampledFrom([]int{0, 10, 50, 1000}).Draw(t, "delay")
			case "adv":
				op.Ms = rapid.SampledFrom([]int{0, 10, 49, 50, 51, 999, 1000, 1001}).Draw(t, "ms")
			}
			return op
		})
		c.Ops = rapid.SliceOfN(g, 4, 40).Draw(t, "ops")
		return c
	})
}

func runL5Case(c L5Case) *lOutcome {
	out := &lOutcome{Labels: map[string]bool{}}
	clk := &lClock{}
	var st queue.Store
	switch c.Backend {
	case "sqlite":
		s, err := queue.NewSQLiteStore(fmt.Sprintf("%s/l5-%d.db", verifkit.ScratchDir(), time.Now().UnixNano()), queue.WithSQLiteNowFunc(clk.Now), queue.WithSQLiteCheckpointInterval(0))
		if err != nil {
			out.Failure = &verifkit.Failure{Prop: "HARNESS", Clause: "open", Detail: err.Error()}
			return out
		}
		defer s.Close()
		st = s
	default:
		st = queue.NewMemoryStore(queue.WithNowFunc(clk.Now))
	}
	srv := NewServer(st)
	srv.now = clk.Now
	srv.MaxBatch = c.MaxBatch
	routes := []string{"/r0", "/r1"}
	srv.ResolveRoute = func(ep string) (string, bool) {
		for _, r := range routes {
			if ep == "/pull"+r {
				return r, true
			}
		}
		return "", false
	}
	type held struct {
		lease, id string
		until     int64
	}
	var leases []held
	dueAt := map[string]int64{}    // id -> instant from which it is ready (queued)
	leasedTo := map[string]int64{} // id -> lease_until (leased)
	routeOf := map[string]string{}
	seq := 0
	for i, op := range c.Ops {
		now := clk.Now().UnixNano()
		route := routes[op.Route]
		switch op.K {
		case "enq":
			seq++
			id := fmt.Sprintf("m%d", seq)
			env := queue.Envelope{ID: id, Route: route, Target: "pull", Payload: []byte("p")}
			due := now
			if op.Ms > 0 {
				env.NextRunAt = clk.Now().Add(time.Duration(op.Ms) * time.Millisecond)
				due = env.NextRunAt.UnixNano()
			}
			if err := st.Enqueue(env); err == nil {
				dueAt[id] = due
				routeOf[id] = route
			}
		case "adv":
			clk.ns.Add(int64(time.Duration(op.Ms) * time.Millisecond))
		case "nack":
			if len(leases) == 0 {
				continue
			}
			h := leases[0]
			leases = leases[1:]
			b, _ := json.Marshal(map[string]any{"lease_id": h.lease, "delay": fmt.Sprintf("%dms", op.Ms)})
			req := httptest.NewRequest(http.MethodPost, "/pull"+routeOf[h.id]+"/nack", bytes.NewReader(b))
			rec := httptest.NewRecorder()
			srv.ServeHTTP(rec, req)
			if rec.Code/100 == 2 {
				delete(leasedTo, h.id)
				dueAt[h.id] = now + int64(time.Duration(op.Ms)*time.Millisecond)
			} else if leasedTo[h.id] <= now {
				// expired lease: released to the queue at this instant
				if _, ok := leasedTo[h.id]; ok {
					delete(leasedTo, h.id)
					dueAt[h.id] = now
				}
			}
		case "deq":
			b, _ := json.Marshal(map[string]any{"batch": op.N, "lease_ttl": "100ms"})
			req := httptest.NewRequest(http.MethodPost, "/pull"+route+"/dequeue", bytes.NewReader(b))
			rec := httptest.NewRecorder()
			srv.ServeHTTP(rec, req)
			if rec.Code == 400 {
				out.Labels["deq-400"] = true
				continue
			}
			var resp struct {
				Items []struct {
					ID      string `json:"id"`
					LeaseID string `json:"lease_id"`
				} `json:"items"`
			}
			if rec.Code != 200 || json.Unmarshal(rec.Body.Bytes(), &resp) != nil {
				out.Failure = &verifkit.Failure{Prop: "HARNESS", Clause: "dequeue", Detail: fmt.Sprintf("%d %s", rec.Code, rec.Body.String())}
				return out
			}
			ready := 0
			for id, due := range dueAt {
				if routeOf[id] == route && due <= now {
					ready++
				}
			}
			for id, until := range leasedTo {
				if routeOf[id] == route && until <= now {
					ready++
				}
			}
			want := op.N
			if want <= 0 {
				want = 1
			}
			if want > c.MaxBatch {
				want = c.MaxBatch
			}
			if want > ready {
				want = ready
			}
			got := len(resp.Items)
			for _, it := range resp.Items {
				due, q := dueAt[it.ID]
				until, l := leasedTo[it.ID]
				if routeOf[it.ID] != route || !((q && due <= now) || (l && until <= now)) {
					out.Failure = &verifkit.Failure{Prop: "C05,C03", Clause: "not-ready-returned", Step: i, Detail: fmt.Sprintf("dequeue %s at +%dms returned %s which is not ready (due=%d until=%d)", route, (now-lT0.UnixNano())/1e6, it.ID, due, until)}
					return out
				}
				delete(dueAt, it.ID)
				leasedTo[it.ID] = now + int64(100*time.Millisecond)
				leases = append(leases, held{lease: it.LeaseID, id: it.ID, until: leasedTo[it.ID]})
			}
			if got != want {
				out.Failure = &verifkit.Failure{Prop: "C05", Clause: "dequeue-count", Step: i, Detail: fmt.Sprintf("dequeue %s batch=%d max_batch=%d at +%dms returned %d items, %d ready => expected %d", route, op.N, c.MaxBatch, (now-lT0.UnixNano())/1e6, got, ready, want)}
				return out
			}
			// expired leases of this route not returned were released by the sweep
			for id, until := range leasedTo {
				if until <= now {
					delete(leasedTo, id)
					dueAt[id] = now
				}
			}
			if op.N > c.MaxBatch && ready > c.MaxBatch {
				out.Labels["capped-by-max-batch"] = true
				out.NonTriv = true
			}
			if ready > 0 && want < ready {
				out.Labels["batch<ready"] = true
			}
			if got > 0 {
				out.Labels["returned"] = true
			}
		}
	}
	return out
}

func TestProp_C05_Transport(t *testing.T) {
	gen := genL5Case()
	rapid.Check(t, func(rt *rapid.T) {
		c := gen.Draw(rt, "case")
		out := runL5Case(c)
		verifkit.Emit(verifkit.Record{Prop: "C05", Test: "TestProp_C05_Transport", Hash: verifkit.Hash(c), NonTrivial: out.NonTriv, Labels: out.labelList()}, c)
		if out.Failure != nil {
			verifkit.SaveFailing("TestProp_C05_Transport", c, out.Failure)
			rt.Fatalf("%v", out.Failure)
		}
	})
}
