"""Table fragment of engine mcpgate (merged by checks_table._merge_fragments)."""

ENGINES = {
    "mcpgate": {"pkg": "internal/mcp", "dir": "harness/mcpgate", "replay": "TestReplay_MCP", "extra_bins": {"hookaido": "./cmd/hookaido"}},
}

PROPS = {
    "C20": {
        "rule": "complete gating table: 31 documented tool names + 13 undocumented/near-miss names x role {read, operate, admin, a non-role string} x "
                "--enable-mutations x --enable-runtime-control x principal {absent, present, blank} = 2112 rows, judged by a role/flag/mutating table "
                "transcribed from docs/mcp.md and internal/mcp/spec.md; each case builds a real server like `hookaido mcp serve` over a fresh temp root "
                "(valid config, populated SQLite queue, dead pid file, marker-writing stub binary) and sends tools/list + tools/call through Serve. "
                "TestProp_C20_Exhaustive walks every row with 3 fixed shapes (the tool's minimal valid arguments; + a foreign actor; + a foreign path/pid_file carrying the configured base name; thorough: 5 shapes, + empty arguments, + an unknown key); "
                "TestProp_C20_Table draws a row index (tool class weighted to config writers and queue mutations, then 45% allowed / 35% single-gate / 20% any row of the class) + a generated argument shape (no/empty/minimal arguments plus up to 3 "
                "mutators: unknown keys, wrong types, dropped keys, actor equal/different/case/padded, reason, path and pid_file exact/alias/symlink/inside/"
                "dot-dot/absolute foreign/free-form, mode, content valid/invalid/arbitrary, ids, filters, items). "
                "non-trivial = exactly one gate fails, or an allowed mutating call, or an allowed config-writing call with a foreign path; distinct by SHA-256 of the case JSON. "
                "input-hash tier (TestProp_C20_InputHash): the same id-mutation call (ids with and without surrounding blanks, reason / actor / request_id) is sent to a server that runs it, one that denies it "
                "because mutations are off and one that denies it because of its role, each on a copy of one queue; the three audit records must carry the same input hash (what was supplied does not depend on what became "
                "of the call) and another id list another hash; non-trivial = an id with surrounding blanks. "
                "command-line tier (TestProp_C20_CLI): one real `hookaido mcp serve` process per case, started with generated flags (--role absent/read/operate/admin/"
                "non-role, --enable-mutations, --enable-runtime-control, --principal absent/present/blank) over the same fixture; tools/list and 1-5 tools/call (minimal valid "
                "arguments) are sent over stdin and judged by the same table; a session in which no mutating call is allowed must leave the fixture tree untouched; "
                "non-trivial there = a call with exactly one failing gate",
        "assumptions": [
            "runtime-control tools never start or stop a real process: --run-binary is a stub that only appends to a marker file, the pid file names a pid above pid_max, "
            "waits are clamped to 1ms; for those tools 'runs' is observed as 'not refused by gating'",
            "gating refusals are told from post-gating argument/execution errors by the fixed message texts of toolAccessError (and JSON-RPC errors for blank names)",
            "a padded actor (blanks around the principal), a blank/null actor and path spellings that resolve to the configured file are labelled, not judged: the text leaves them open",
            "argument values beyond the generated pools (ids, labels, routes of the fixture; free-form path segments; arbitrary config content) are sampled, the gating table itself is exhaustive",
            "Admin-proxy mode (memory/postgres queue backend) is not exercised: the fixture config uses the sqlite backend",
        ],
        "exhaustive": True,
        "guards": ["row:allowed", "single-gate:role", "single-gate:mutations", "single-gate:runtime", "single-gate:principal", "unknown-tool",
                   "config-path-foreign", "actor:mismatch", "effect:queue", "effect:config", "wrote-config-valid", "audit:1"],
        "parts": [
            {"engine": "mcpgate", "test": "TestProp_C20_Exhaustive", "quick": 6336, "thorough": 10560, "native": True,
             "shards": {"quick": 2, "thorough": 2}, "env": {"VERIF_NSHARDS": 2}},
            {"engine": "mcpgate", "test": "TestProp_C20_Table", "quick": 10000, "thorough": 400000},
            {"engine": "mcpgate", "test": "TestProp_C20_InputHash", "quick": 400, "thorough": 20000, "shards": {"quick": 4}},
            {"engine": "mcpgate", "test": "TestProp_C20_CLI", "quick": 400, "thorough": 20000, "shards": {"quick": 8, "thorough": 16}, "needs_bins": ["hookaido"]},
        ],
    },
    "C14": {
        "rule": "MCP tier: the queue mutation tools (messages_cancel/requeue/resume, dlq_requeue/delete, the three *_by_filter tools) of a real MCP server in "
                "direct mode (SQLite file) and admin-proxy mode (memory store behind a real Admin API server on loopback), endpoint selected by route or by "
                "application+endpoint_name, with target/state/before/limit/preview_only criteria on a two-target managed route and an unmanaged route; "
                "independent selector as in the store and HTTP tiers; non-trivial = a change with an otherwise-matching message left alone, or a target "
                "criterion that selected something",
        "assumptions": [SAMPLED],
        "guards": ["mode-direct", "mode-proxy", "applied", "preview", "scoped-selector", "target-criterion-applied"],
        "parts": [{"engine": "mcpgate", "test": "TestProp_C14_MCP", "quick": 1600, "thorough": 60000, "shards": {"quick": 8}}],
    },
    "C18": {
        "rule": "MCP tier: config_apply in preview_only / write_only / write_and_reload with valid, commented, identical, unparsable, uncompilable and empty content, "
                "against a running-instance health endpoint that is up, down or refuses the token, with and without an existing file; the file must hold "
                "exactly the previous or the submitted bytes, submitted bytes only if they compile, and the previous bytes again when the reload cannot be "
                "verified | mcp.writeFileAtomic SIGKILLed in a child process at each of its six step labels",
        "assumptions": [SAMPLED],
        "guards": ["rolled-back", "applied"],
        "parts": [{"engine": "mcpgate", "test": "TestProp_C18_MCPApply", "quick": 60, "thorough": 1500, "shards": {"quick": 4}},
                  {"engine": "mcpgate", "test": "TestProp_C18_MCPFileCrash", "quick": 100, "thorough": 2000, "shards": {"quick": 4}}],
    },
}
