//go:build verif

package mcp

import (
	"bytes"
	"encoding/json"
	"fmt"
	"net"
	"net/http"
	"net/http/httptest"
	"os"
	"path/filepath"
	"sort"
	"strings"
	"sync/atomic"
	"testing"
	"time"

	"github.com/nuetzliches/hookaido/internal/admin"
	"github.com/nuetzliches/hookaido/internal/queue"
	"github.com/nuetzliches/hookaido/internal/verifkit"
	"pgregory.net/rapid"
)

// ---------------------------------------------------------------------------------------
// C14, MCP tier: the queue mutation tools of the MCP server in both of its modes -
// direct (SQLite file) and admin-proxy (memory backend behind a real Admin API server) -
// judged by the same independent selector as the store and Admin HTTP tiers.
// ---------------------------------------------------------------------------------------

type M14Msg struct {
	Route   int    `json:"route"`  // 0: /r (managed, targets A and B)  1: /other (unmanaged, target A)
	Target  int    `json:"target"` // 0: A 1: B (route /other always A)
	State   string `json:"state"`
	RecvAgo int    `json:"recv_ago_s"`
}

type M14Req struct {
	Tool    string   `json:"tool"`
	IDs     []string `json:"ids,omitempty"`
	Scoped  bool     `json:"scoped,omitempty"` // select the endpoint by application+endpoint_name instead of route
	Route   int      `json:"route"`
	Target  string   `json:"target,omitempty"` // "" | A | B
	State   string   `json:"state,omitempty"`
	Before  int      `json:"before_ago_s,omitempty"`
	Limit   int      `json:"limit,omitempty"`
	Preview bool     `json:"preview,omitempty"`
	// LoseResponse (proxy mode): the Admin API applies the request, then the connection drops before
	// the answer is written - the tool sees a transport error
	LoseResponse bool `json:"lose_response,omitempty"`
}

type M14Case struct {
	Mode string   `json:"mode"` // direct | proxy
	Msgs []M14Msg `json:"msgs"`
	Reqs []M14Req `json:"reqs"`
	// MoveAt (direct mode): before request number MoveAt (1-based; 0: never) the operator edits the
	// configuration file - the managed endpoint billing/invoice.created moves from /r to /other. The
	// edit keeps the file size and the file keeps its modification time (same second), so only reading
	// the file shows the change.
	MoveAt int `json:"move_at,omitempty"`
}

const (
	m14A = "https://a.example.org/hook"
	m14B = "https://b.example.org/hook"
)

var (
	m14Routes = []string{"/r", "/other"}
	m14T0     = time.Date(2026, 1, 1, 0, 0, 0, 0, time.UTC)
	m14Allow  = map[string][]string{
		"messages_cancel": {"queued", "leased", "dead"}, "messages_cancel_by_filter": {"queued", "leased", "dead"},
		"messages_requeue": {"dead", "canceled"}, "messages_requeue_by_filter": {"dead", "canceled"},
		"messages_resume": {"canceled"}, "messages_resume_by_filter": {"canceled"},
		"dlq_requeue": {"dead"}, "dlq_delete": {"dead"},
	}
)

func genM14Case() *rapid.Generator[M14Case] {
	return rapid.Custom(func(t *rapid.T) M14Case {
		c := M14Case{Mode: rapid.SampledFrom([]string{"direct", "proxy"}).Draw(t, "mode")}
		mg := rapid.Custom(func(t *rapid.T) M14Msg {
			m := M14Msg{Route: rapid.SampledFrom([]int{0, 0, 0, 1}).Draw(t, "route"), Target: rapid.IntRange(0, 1).Draw(t, "target"),
				State:   rapid.SampledFrom([]string{"queued", "queued", "queued", "leased", "dead", "dead", "canceled", "canceled"}).Draw(t, "state"),
				RecvAgo: rapid.SampledFrom([]int{600, 600, 1200, 1800}).Draw(t, "recv")}
			if m.Route == 1 {
				m.Target = 0
			}
			return m
		})
		c.Msgs = rapid.SliceOfN(mg, 1, 12).Draw(t, "msgs")
		n := len(c.Msgs)
		rg := rapid.Custom(func(t *rapid.T) M14Req {
			r := M14Req{Tool: rapid.SampledFrom([]string{"messages_cancel", "messages_requeue", "messages_resume", "dlq_requeue", "dlq_delete",
				"messages_cancel_by_filter", "messages_cancel_by_filter", "messages_requeue_by_filter", "messages_requeue_by_filter", "messages_resume_by_filter"}).Draw(t, "tool")}
			if strings.HasSuffix(r.Tool, "_by_filter") {
				r.Route = rapid.SampledFrom([]int{0, 0, 1}).Draw(t, "route")
				r.Scoped = r.Route == 0 && rapid.Bool().Draw(t, "scoped")
				r.Target = rapid.SampledFrom([]string{"", "", "A", "B"}).Draw(t, "target")
				r.State = rapid.SampledFrom([]string{"", "", "queued", "leased", "dead", "canceled"}).Draw(t, "state")
				r.Before = rapid.SampledFrom([]int{0, 0, 600, 1200, 900}).Draw(t, "before")
				r.Limit = rapid.SampledFrom([]int{0, 0, 1, 2, 3, 1000}).Draw(t, "limit")
				r.Preview = rapid.IntRange(0, 3).Draw(t, "preview") == 0
				r.LoseResponse = rapid.IntRange(0, 2).Draw(t, "lose_response") == 0
			} else {
				k := rapid.IntRange(1, 4).Draw(t, "nids")
				for i := 0; i < k; i++ {
					switch rapid.IntRange(0, 7).Draw(t, "idk") {
					case 0:
						r.IDs = append(r.IDs, "nope")
					case 1:
						r.IDs = append(r.IDs, fmt.Sprintf(" m%d ", rapid.IntRange(0, n-1).Draw(t, "i")))
					default:
						r.IDs = append(r.IDs, fmt.Sprintf("m%d", rapid.IntRange(0, n-1).Draw(t, "i")))
					}
				}
			}
			return r
		})
		c.Reqs = rapid.SliceOfN(rg, 1, 4).Draw(t, "reqs")
		if c.Mode == "direct" && len(c.Reqs) > 1 && rapid.IntRange(0, 2).Draw(t, "move") == 0 {
			c.MoveAt = rapid.IntRange(2, len(c.Reqs)).Draw(t, "move_at")
			// the requests after the edit select by endpoint name more often
			for k := c.MoveAt - 1; k < len(c.Reqs); k++ {
				if strings.HasSuffix(c.Reqs[k].Tool, "_by_filter") && rapid.Bool().Draw(t, "scoped_after") {
					c.Reqs[k].Route, c.Reqs[k].Scoped = 0, true
				}
			}
		}
		return c
	})
}

type m14Row struct {
	ID, Route, Target, State string
	Recv                     int64
	Attempt                  int
	Payload                  string
}

func m14Dump(st queue.Store) (map[string]m14Row, error) {
	resp, err := st.ListMessages(queue.MessageListRequest{Limit: 1000, Order: queue.MessageOrderAsc, IncludePayload: true})
	if err != nil {
		return nil, err
	}
	out := map[string]m14Row{}
	for _, e := range resp.Items {
		out[e.ID] = m14Row{ID: e.ID, Route: e.Route, Target: e.Target, State: string(e.State), Recv: e.ReceivedAt.UnixNano(), Attempt: e.Attempt, Payload: string(e.Payload)}
	}
	return out, nil
}

func m14In(s string, l []string) bool {
	for _, x := range l {
		if x == s {
			return true
		}
	}
	return false
}

func runM14(c M14Case) *mOutcome {
	var loseNext atomic.Bool
	var lost atomic.Int32
	out := &mOutcome{}
	labels := map[string]bool{}
	defer func() {
		for l := range labels {
			out.Labels = append(out.Labels, l)
		}
		sort.Strings(out.Labels)
	}()
	dir, err := os.MkdirTemp(verifkit.ScratchDir(), "m14-")
	if err != nil {
		out.Failure = mfail("HARNESS", "tmp", "", "%v", err)
		return out
	}
	defer os.RemoveAll(dir)
	now := m14T0
	clock := func() time.Time { return now }
	var store queue.Store
	var sq *queue.SQLiteStore
	dbPath := ""
	cfgPath := filepath.Join(dir, "Hookaidofile")
	var cfg string
	switch c.Mode {
	case "direct":
		dbPath = filepath.Join(dir, "q.db")
		s, err := queue.NewSQLiteStore(dbPath, queue.WithSQLiteNowFunc(clock), queue.WithSQLiteCheckpointInterval(0))
		if err != nil {
			out.Failure = mfail("HARNESS", "open", "", "%v", err)
			return out
		}
		sq = s
		store = s
		cfg = fmt.Sprintf("pull_api {\n  auth token raw:t\n}\n\"/r\" {\n  application \"billing\"\n  endpoint_name \"invoice.created\"\n  deliver %q {\n  }\n  deliver %q {\n  }\n}\n\"/other\" {\n  deliver %q {\n  }\n}\n", m14A, m14B, m14A)
	default:
		store = queue.NewMemoryStore(queue.WithNowFunc(clock))
		adminSrv := admin.NewServer(store)
		adminSrv.ResolveManaged = func(application, endpointName string) (string, []string, bool) {
			if application == "billing" && endpointName == "invoice.created" {
				return "/r", []string{m14A, m14B}, true
			}
			return "", nil, false
		}
		adminSrv.ManagedRouteInfoForRoute = func(route string) (string, string, bool, bool) {
			if route == "/r" {
				return "billing", "invoice.created", true, true
			}
			return "", "", false, true
		}
		ln, err := net.Listen("tcp", "127.0.0.1:0")
		if err != nil {
			out.Failure = mfail("HARNESS", "listen", "", "%v", err)
			return out
		}
		inner := http.StripPrefix("/admin", adminSrv)
		httpSrv := &http.Server{Handler: http.HandlerFunc(func(w http.ResponseWriter, r *http.Request) {
			if loseNext.Load() && r.Method == http.MethodPost {
				loseNext.Store(false)
				lost.Add(1)
				inner.ServeHTTP(httptest.NewRecorder(), r) // applied ...
				if hj, ok := w.(http.Hijacker); ok {
					if conn, _, err := hj.Hijack(); err == nil {
						_ = conn.Close() // ... and never answered
						return
					}
				}
				w.WriteHeader(http.StatusBadGateway)
				return
			}
			inner.ServeHTTP(w, r)
		})}
		done := make(chan struct{})
		go func() { _ = httpSrv.Serve(ln); close(done) }()
		defer func() { _ = httpSrv.Close(); <-done }()
		cfg = fmt.Sprintf("admin_api {\n  listen %q\n  prefix \"/admin\"\n  auth token \"raw:admintoken\"\n}\n\"/r\" {\n  queue { backend \"memory\" }\n  application \"billing\"\n  endpoint_name \"invoice.created\"\n  deliver %q {\n  }\n  deliver %q {\n  }\n}\n\"/other\" {\n  queue { backend \"memory\" }\n  deliver %q {\n  }\n}\n",
			ln.Addr().String(), m14A, m14B, m14A)
	}
	if err := os.WriteFile(cfgPath, []byte(cfg), 0o600); err != nil {
		out.Failure = mfail("HARNESS", "cfg", "", "%v", err)
		return out
	}
	if err := compileOK([]byte(cfg)); err != nil {
		out.Failure = mfail("HARNESS", "cfg", "", "config does not compile: %v\n%s", err, cfg)
		return out
	}
	// ---- population
	targets := []string{m14A, m14B}
	for i, m := range c.Msgs {
		id := fmt.Sprintf("m%d", i)
		env := queue.Envelope{ID: id, Route: m14Routes[m.Route], Target: targets[m.Target], Payload: []byte(id), ReceivedAt: m14T0.Add(-time.Duration(m.RecvAgo) * time.Second)}
		if m.State == "queued" {
			env.NextRunAt = m14T0.Add(time.Hour)
		} else {
			env.NextRunAt = m14T0.Add(-time.Hour)
		}
		if err := store.Enqueue(env); err != nil {
			out.Failure = mfail("HARNESS", "populate", "", "%v", err)
			return out
		}
		switch m.State {
		case "leased", "dead":
			resp, err := store.Dequeue(queue.DequeueRequest{Route: env.Route, Target: env.Target, Batch: 1, LeaseTTL: time.Hour})
			if err != nil || len(resp.Items) != 1 || resp.Items[0].ID != id {
				out.Failure = mfail("HARNESS", "populate", "", "could not lease %s", id)
				return out
			}
			if m.State == "dead" {
				_ = store.MarkDead(resp.Items[0].LeaseID, "no_retry")
			}
		case "canceled":
			_, _ = store.CancelMessages(queue.MessageCancelRequest{IDs: []string{id}})
		}
	}
	if sq != nil {
		// the MCP server opens the file itself
		_ = sq.Close()
	}
	reopen := func() (queue.Store, func(), error) {
		if c.Mode != "direct" {
			return store, func() {}, nil
		}
		s, err := queue.NewSQLiteStore(dbPath, queue.WithSQLiteNowFunc(clock), queue.WithSQLiteCheckpointInterval(0))
		if err != nil {
			return nil, nil, err
		}
		return s, func() { _ = s.Close() }, nil
	}
	var audit bytes.Buffer
	srv := NewServer(strings.NewReader(""), &bytes.Buffer{}, cfgPath, dbPath, WithRole(RoleAdmin), WithPrincipal("op"), WithAuditWriter(&audit), WithMutationsEnabled(true))
	labels["mode-"+c.Mode] = true
	scopedRoute := 0 // the route billing/invoice.created names
	for i, r := range c.Reqs {
		if c.MoveAt == i+1 && c.Mode == "direct" {
			fi, err := os.Stat(cfgPath)
			if err != nil {
				out.Failure = mfail("HARNESS", "stat", "", "%v", err)
				return out
			}
			moved := fmt.Sprintf("pull_api {\n  auth token raw:t\n}\n\"/r\" {\n  deliver %q {\n  }\n  deliver %q {\n  }\n}\n\"/other\" {\n  application \"billing\"\n  endpoint_name \"invoice.created\"\n  deliver %q {\n  }\n}\n", m14A, m14B, m14A)
			if len(moved) != len(cfg) || compileOK([]byte(moved)) != nil {
				out.Failure = mfail("HARNESS", "cfg", "", "edited config: size %d vs %d, compile: %v", len(moved), len(cfg), compileOK([]byte(moved)))
				return out
			}
			if err := os.WriteFile(cfgPath, []byte(moved), 0o600); err != nil {
				out.Failure = mfail("HARNESS", "cfg", "", "%v", err)
				return out
			}
			_ = os.Chtimes(cfgPath, fi.ModTime(), fi.ModTime())
			scopedRoute = 1
			labels["endpoint-moved-between-calls"] = true
		}
		st, closeSt, err := reopen()
		if err != nil {
			out.Failure = mfail("HARNESS", "reopen", "", "%v", err)
			return out
		}
		before, err := m14Dump(st)
		closeSt()
		if err != nil {
			out.Failure = mfail("HARNESS", "dump", "", "%v", err)
			return out
		}
		args := map[string]any{"reason": "verif"}
		byFilter := strings.HasSuffix(r.Tool, "_by_filter")
		tgt := map[string]string{"A": m14A, "B": m14B}[r.Target]
		if byFilter {
			if r.Scoped {
				args["application"], args["endpoint_name"] = "billing", "invoice.created"
			} else {
				args["route"] = m14Routes[r.Route]
			}
			if tgt != "" {
				args["target"] = tgt
			}
			if r.State != "" {
				args["state"] = r.State
			}
			if r.Before != 0 {
				args["before"] = m14T0.Add(-time.Duration(r.Before) * time.Second).Format(time.RFC3339)
			}
			if r.Limit != 0 {
				args["limit"] = r.Limit
			}
			if r.Preview {
				args["preview_only"] = true
			}
		} else {
			args["ids"] = r.IDs
		}
		lostBefore := lost.Load()
		if r.LoseResponse && c.Mode == "proxy" && !r.Preview {
			loseNext.Store(true)
		}
		res, err := rpcExchange(srv, "tools/call", map[string]any{"name": r.Tool, "arguments": args})
		loseNext.Store(false)
		responseLost := lost.Load() > lostBefore
		if err != nil {
			out.Failure = mfail("HARNESS", "rpc", "", "%v", err)
			return out
		}
		st, closeSt, err = reopen()
		if err != nil {
			out.Failure = mfail("HARNESS", "reopen", "", "%v", err)
			return out
		}
		after, _ := m14Dump(st)
		closeSt()
		isErr, _ := res.Result["isError"].(bool)
		sc, _ := res.Result["structuredContent"].(map[string]any)
		num := func(k string) int {
			if v, ok := sc[k].(float64); ok {
				return int(v)
			}
			return 0
		}
		ab, _ := json.Marshal(args)
		rb, _ := json.Marshal(res.Result)
		desc := fmt.Sprintf("[%s] %s %s -> %.400s", c.Mode, r.Tool, ab, rb)
		var changed []m14Row
		for id, b := range before {
			if a, ok := after[id]; !ok || a != b {
				changed = append(changed, b)
			}
		}
		for id := range after {
			if _, ok := before[id]; !ok {
				out.Failure = mfail("C14", "message-from-nowhere", "", "step %d %s: %s appeared", i, desc, id)
				return out
			}
		}
		if res.HasRPCErr || isErr {
			labels["tool-error"] = true
			if responseLost {
				// the Admin API applied the call once and the answer was lost: what changed is judged below
				// (one application's worth, not more); the tool rightly reports a failure
				labels["response-lost-after-apply"] = true
			} else if len(changed) > 0 {
				out.Failure = mfail("C14", "refused-but-changed", "", "step %d %s changed %d messages", i, desc, len(changed))
				return out
			}
			if !responseLost {
				continue
			}
		}
		// ---- independent selection
		allowed := m14Allow[r.Tool]
		var cands []m14Row
		otherwise := 0
		if byFilter {
			eff := allowed
			if r.State != "" {
				if !m14In(r.State, allowed) {
					eff = nil
				} else {
					eff = []string{r.State}
				}
			}
			route := m14Routes[r.Route]
			if r.Scoped {
				route = m14Routes[scopedRoute]
			}
			for _, m := range before {
				if m.Route != route {
					continue
				}
				if tgt != "" && m.Target != tgt {
					continue
				}
				if r.Before != 0 && !(m.Recv < m14T0.Add(-time.Duration(r.Before)*time.Second).UnixNano()) {
					continue
				}
				if !m14In(m.State, eff) {
					otherwise++
					continue
				}
				cands = append(cands, m)
			}
		} else {
			seen := map[string]bool{}
			for _, raw := range r.IDs {
				id := strings.TrimSpace(raw)
				if id == "" || seen[id] {
					continue
				}
				seen[id] = true
				if m, ok := before[id]; ok {
					if m14In(m.State, allowed) {
						cands = append(cands, m)
					} else {
						otherwise++
					}
				}
			}
		}
		want := len(cands)
		if byFilter {
			lim := r.Limit
			if lim == 0 {
				lim = 100
			}
			if want > lim {
				want = lim
			}
		}
		candSet := map[string]bool{}
		for _, m := range cands {
			candSet[m.ID] = true
		}
		for _, m := range changed {
			if !candSet[m.ID] {
				out.Failure = mfail("C14", "touched-unselected", "", "step %d %s changed %s (route %s target %s state %s) which the call does not select", i, desc, m.ID, m.Route, m.Target, m.State)
				return out
			}
			a, present := after[m.ID]
			wantState := "queued"
			switch r.Tool {
			case "messages_cancel", "messages_cancel_by_filter":
				wantState = "canceled"
			case "dlq_delete":
				wantState = ""
			}
			if (wantState == "" && present) || (wantState != "" && (!present || a.State != wantState || a.Payload != m.Payload || a.Route != m.Route || a.Target != m.Target || a.Attempt != m.Attempt)) {
				out.Failure = mfail("C14", "wrong-result-state", "", "step %d %s: %s %+v -> %+v", i, desc, m.ID, m, a)
				return out
			}
		}
		if r.Preview {
			if len(changed) > 0 {
				out.Failure = mfail("C14", "preview-mutated", "", "step %d %s changed %d messages", i, desc, len(changed))
				return out
			}
			if num("matched") != want {
				out.Failure = mfail("C14", "preview-matched", "", "step %d %s: matched=%d, a real run selects %d", i, desc, num("matched"), want)
				return out
			}
			labels["preview"] = true
			continue
		}
		if responseLost {
			// exactly what one application changes: never more (a blind re-send applies a limited by-filter call
			// to the NEXT messages as well); the reported counts are not judged (the tool reported a failure)
			if len(changed) > want {
				out.Failure = mfail("C14", "applied-more-than-once", "", "step %d %s: the answer of the Admin API was lost after it had applied the call; %d messages changed, one application selects %d", i, desc, len(changed), want)
				return out
			}
			out.NonTriv = true
			continue
		}
		if len(changed) != want {
			out.Failure = mfail("C14", "changed-count", "", "step %d %s changed %d messages, the call selects %d (of %d candidates)", i, desc, len(changed), want, len(cands))
			return out
		}
		chSet := map[string]bool{}
		for _, m := range changed {
			chSet[m.ID] = true
		}
		for _, u := range cands {
			if chSet[u.ID] {
				continue
			}
			for _, s := range changed {
				if u.Recv > s.Recv {
					out.Failure = mfail("C14", "not-newest-first", "", "step %d %s changed %s but skipped the newer %s", i, desc, s.ID, u.ID)
					return out
				}
			}
		}
		reported := num("canceled") + num("requeued") + num("resumed") + num("deleted")
		if reported != len(changed) {
			out.Failure = mfail("C14", "reported-count", "", "step %d %s reports %d changed, %d actually changed", i, desc, reported, len(changed))
			return out
		}
		if byFilter && num("matched") != want {
			out.Failure = mfail("C14", "matched-count", "", "step %d %s reports matched=%d, selector says %d", i, desc, num("matched"), want)
			return out
		}
		labels["applied"] = true
		if r.Scoped {
			labels["scoped-selector"] = true
		}
		if len(changed) > 0 && otherwise > 0 {
			out.NonTriv = true
		}
		if byFilter && tgt != "" && len(changed) > 0 {
			labels["target-criterion-applied"] = true
			out.NonTriv = true
		}
	}
	return out
}

func TestProp_C14_MCP(t *testing.T) {
	gen := genM14Case()
	rapid.Check(t, func(rt *rapid.T) {
		c := gen.Draw(rt, "case")
		out := runM14(c)
		verifkit.Emit(verifkit.Record{Prop: "C14", Test: "TestProp_C14_MCP", Hash: verifkit.Hash(c), NonTrivial: out.NonTriv, Labels: out.Labels}, c)
		if out.Failure != nil {
			verifkit.SaveFailing("TestProp_C14_MCP", c, out.Failure)
			rt.Fatalf("%v", out.Failure)
		}
	})
}
