//go:build verif

package mcp

import (
	"bytes"
	"encoding/json"
	"fmt"
	"net"
	"net/http"
	"os"
	"os/exec"
	"path/filepath"
	"sort"
	"strings"
	"sync"
	"testing"

	"github.com/nuetzliches/hookaido/internal/verifkit"
	"pgregory.net/rapid"
)

// ---------------------------------------------------------------------------------------
// C18, MCP tier: config_apply replaces the file atomically, only with content that compiles, and
// puts the previous content back when the reload cannot be verified; mcp.writeFileAtomic is
// SIGKILLed at every step label in a child process.
// ---------------------------------------------------------------------------------------

type M18Case struct {
	Mode    string `json:"mode"`    // preview_only | write_only | write_and_reload
	Content string `json:"content"` // valid | valid-comments | same | parse-error | compile-error | empty
	Health  string `json:"health"`  // up | down | wrong-token
	Existed bool   `json:"existed"`
}

func m18Config(port int, variant string) string {
	base := fmt.Sprintf("admin_api {\n  listen \"127.0.0.1:%d\"\n  auth token \"raw:adm\"\n}\npull_api {\n  auth token \"raw:t\"\n}\n", port)
	switch variant {
	case "old":
		return base + "\"/old\" {\n  pull { path /pull/old }\n}\n"
	case "valid":
		return base + "\"/new\" {\n  auth hmac \"raw:k\"\n  pull { path /pull/new }\n}\n"
	case "valid-comments":
		return "# operator comment\n" + base + "\"/new\" {\n  # inner\n  pull { path /pull/new }\n}\n"
	case "parse-error":
		return base + "\"/new\" {\n  pull { path /pull/new \n"
	case "compile-error":
		return base + "\"/new\" {\n}\n"
	case "empty":
		return ""
	}
	return base
}

func runM18(c M18Case) *mOutcome {
	out := &mOutcome{}
	labels := map[string]bool{"mode-" + c.Mode: true, "content-" + c.Content: true, "health-" + c.Health: true}
	defer func() {
		for l := range labels {
			out.Labels = append(out.Labels, l)
		}
		sort.Strings(out.Labels)
	}()
	dir, err := os.MkdirTemp(verifkit.ScratchDir(), "m18-")
	if err != nil {
		out.Failure = mfail("HARNESS", "tmp", "", "%v", err)
		return out
	}
	defer os.RemoveAll(dir)
	// health endpoint of the "running instance"
	var probeOnce sync.Once
	var probeContent []byte
	probed := false
	probeCfg, probeLink := filepath.Join(dir, "Hookaidofile"), filepath.Join(dir, "probe-link")
	port := 1
	if c.Health != "down" {
		ln, err := net.Listen("tcp", "127.0.0.1:0")
		if err != nil {
			out.Failure = mfail("HARNESS", "listen", "", "%v", err)
			return out
		}
		port = ln.Addr().(*net.TCPAddr).Port
		want := "Bearer adm"
		if c.Health == "wrong-token" {
			want = "Bearer other"
		}
		srv := &http.Server{Handler: http.HandlerFunc(func(w http.ResponseWriter, r *http.Request) {
			// a reader that opened the config file while the instance is being probed: a hard link
			// keeps that very file; whatever happens later must not change what it holds
			probeOnce.Do(func() {
				if b, err := os.ReadFile(probeCfg); err == nil {
					if os.Link(probeCfg, probeLink) == nil {
						probeContent, probed = b, true
					}
				}
			})
			if r.Header.Get("Authorization") != want {
				w.WriteHeader(401)
				return
			}
			w.Header().Set("Content-Type", "application/json")
			_, _ = w.Write([]byte(`{"ok":true}`))
		})}
		done := make(chan struct{})
		go func() { _ = srv.Serve(ln); close(done) }()
		defer func() { _ = srv.Close(); <-done }()
	}
	cfgPath := filepath.Join(dir, "Hookaidofile")
	old := m18Config(port, "old")
	if c.Existed {
		_ = os.WriteFile(cfgPath, []byte(old), 0o600)
	}
	content := m18Config(port, c.Content)
	if c.Content == "same" {
		content = old
	}
	var audit bytes.Buffer
	srv := NewServer(strings.NewReader(""), &bytes.Buffer{}, cfgPath, filepath.Join(dir, "q.db"), WithRole(RoleAdmin), WithPrincipal("op"), WithAuditWriter(&audit), WithMutationsEnabled(true))
	args := map[string]any{"content": content, "mode": c.Mode}
	if c.Mode == "write_and_reload" {
		args["reload_timeout"] = "300ms"
		if c.Health == "up" {
			args["reload_timeout"] = "5s" // answered at once; the budget only matters on a saturated machine
		}
	}
	res, err := rpcExchange(srv, "tools/call", map[string]any{"name": "config_apply", "arguments": args})
	if err != nil {
		out.Failure = mfail("HARNESS", "rpc", "", "%v", err)
		return out
	}
	after, rerr := os.ReadFile(cfgPath)
	if probed {
		out.Labels = append(out.Labels, "probe-link-taken")
		if now, err := os.ReadFile(probeLink); err != nil || !bytes.Equal(now, probeContent) {
			out.Failure = mfail("C18", "file-written-in-place", "", "config_apply mode=%s content=%s health=%s: the file a reader had open during the health probe (%d bytes) was overwritten in place (now %d bytes, err %v): the replacement is not atomic",
				c.Mode, c.Content, c.Health, len(probeContent), len(now), err)
			return out
		}
	}
	isErr, _ := res.Result["isError"].(bool)
	sc, _ := res.Result["structuredContent"].(map[string]any)
	ok, _ := sc["ok"].(bool)
	rb, _ := json.Marshal(res.Result)
	desc := fmt.Sprintf("config_apply mode=%s content=%s health=%s existed=%v -> %.300s", c.Mode, c.Content, c.Health, c.Existed, rb)
	unchanged := func() bool {
		if c.Existed {
			return rerr == nil && string(after) == old
		}
		return os.IsNotExist(rerr)
	}
	valid := c.Content == "valid" || c.Content == "valid-comments" || c.Content == "same"
	// whatever happened: the file holds the complete old or the complete new content, and new content compiles
	if rerr == nil && string(after) != old && string(after) != content {
		out.Failure = mfail("C18", "file-neither-old-nor-new", "", "%s: file holds %d bytes that are neither the previous nor the submitted content", desc, len(after))
		return out
	}
	if rerr == nil && string(after) != old {
		if err := compileOK(after); err != nil {
			out.Failure = mfail("C18,C20", "wrote-invalid-config", "", "%s: the file now holds content that does not compile: %v", desc, err)
			return out
		}
	}
	switch {
	case !valid || c.Mode == "preview_only":
		if !unchanged() {
			out.Failure = mfail("C18", "file-touched", "", "%s: the file changed although nothing may be applied", desc)
			return out
		}
		if !valid && ok && !isErr {
			out.Failure = mfail("C18", "invalid-reported-ok", "", "%s", desc)
			return out
		}
	case c.Mode == "write_only":
		if isErr || !ok || rerr != nil || string(after) != content {
			out.Failure = mfail("C18", "write-only-not-applied", "", "%s: file does not hold the submitted content", desc)
			return out
		}
		labels["applied"] = true
	case c.Mode == "write_and_reload":
		if c.Health == "up" {
			switch {
			case !isErr && ok && rerr == nil && string(after) == content:
				labels["applied"] = true
			case unchanged() && (isErr || !ok):
				// the probe of a healthy instance did not finish inside the budget (machine load): rolled back and said so
				labels["healthy-but-rolled-back"] = true
			default:
				out.Failure = mfail("C18", "reload-outcome-inconsistent", "", "%s: neither applied-and-reported-ok nor rolled-back-and-reported-failed", desc)
				return out
			}
		} else {
			// the reload could not be verified: previous content back, and the result must say so
			if !unchanged() {
				out.Failure = mfail("C18", "no-rollback", "", "%s: reload verification failed but the file was not put back (existed=%v, now: err=%v, %d bytes)", desc, c.Existed, rerr, len(after))
				return out
			}
			if ok && !isErr {
				out.Failure = mfail("C18", "failed-reload-reported-ok", "", "%s", desc)
				return out
			}
			labels["rolled-back"] = true
			out.NonTriv = true
		}
	}
	// no stray files next to the config (temp files of the atomic write must be cleaned up on the normal path)
	ents, _ := os.ReadDir(dir)
	for _, e := range ents {
		if strings.Contains(e.Name(), ".tmp-") {
			out.Failure = mfail("C18", "temp-file-left", "", "%s: %s left behind", desc, e.Name())
			return out
		}
	}
	return out
}

func TestProp_C18_MCPApply(t *testing.T) {
	gen := rapid.Custom(func(t *rapid.T) M18Case {
		return M18Case{Mode: rapid.SampledFrom([]string{"preview_only", "write_only", "write_and_reload", "write_and_reload"}).Draw(t, "mode"),
			Content: rapid.SampledFrom([]string{"valid", "valid", "valid-comments", "same", "parse-error", "compile-error", "empty"}).Draw(t, "content"),
			Health:  rapid.SampledFrom([]string{"up", "down", "down", "wrong-token"}).Draw(t, "health"),
			Existed: rapid.IntRange(0, 3).Draw(t, "existed") > 0}
	})
	rapid.Check(t, func(rt *rapid.T) {
		c := gen.Draw(rt, "case")
		out := runM18(c)
		verifkit.Emit(verifkit.Record{Prop: "C18", Test: "TestProp_C18_MCPApply", Hash: verifkit.Hash(c), NonTrivial: out.NonTriv, Labels: out.Labels}, c)
		if out.Failure != nil {
			verifkit.SaveFailing("TestProp_C18_MCPApply", c, out.Failure)
			rt.Fatalf("%v", out.Failure)
		}
	})
}

// ---- file crash tier for mcp.writeFileAtomic

type M18FileCase struct {
	OldLen int    `json:"old_len"`
	NewLen int    `json:"new_len"`
	Label  string `json:"label"`
	Exists bool   `json:"exists"`
}

func m18Bytes(tag string, n int) []byte {
	var b bytes.Buffer
	for b.Len() < n {
		fmt.Fprintf(&b, "# %s line %d\n", tag, b.Len())
	}
	return b.Bytes()[:n]
}

func TestChild_C18_MCPWriteFile(t *testing.T) {
	p := os.Getenv("VERIF_CHILD_PATH")
	if p == "" {
		t.Skip("child only")
	}
	data, err := os.ReadFile(os.Getenv("VERIF_CHILD_DATA"))
	if err != nil {
		os.Exit(3)
	}
	if err := writeFileAtomic(p, data); err != nil {
		os.Exit(4)
	}
	os.Exit(0)
}

func runM18File(c M18FileCase) *mOutcome {
	out := &mOutcome{}
	out.Labels = []string{"label-" + c.Label}
	dir, err := os.MkdirTemp(verifkit.ScratchDir(), "m18f-")
	if err != nil {
		out.Failure = mfail("HARNESS", "tmp", "", "%v", err)
		return out
	}
	defer os.RemoveAll(dir)
	target := filepath.Join(dir, "conf", "Hookaidofile")
	_ = os.MkdirAll(filepath.Dir(target), 0o755)
	oldB, newB := m18Bytes("old", c.OldLen), m18Bytes("new", c.NewLen)
	if c.Exists {
		_ = os.WriteFile(target, oldB, 0o640)
	}
	dataPath := filepath.Join(dir, "new.bin")
	_ = os.WriteFile(dataPath, newB, 0o600)
	cmd := exec.Command(os.Args[0], "-test.run", "^TestChild_C18_MCPWriteFile$")
	cmd.Env = append(os.Environ(), "VERIF_CHILD_PATH="+target, "VERIF_CHILD_DATA="+dataPath, "VERIF_STATS=", "VERIF_FAILDIR=")
	if c.Label != "none" {
		cmd.Env = append(cmd.Env, "VERIF_CRASH="+c.Label+":1", "VERIF_CRASH_MARK="+filepath.Join(dir, "mark"))
	}
	runErr := cmd.Run()
	_, merr := os.Stat(filepath.Join(dir, "mark"))
	got, rerr := os.ReadFile(target)
	if c.Label == "none" {
		if runErr != nil || rerr != nil || !bytes.Equal(got, newB) {
			out.Failure = mfail("C18", "write-not-applied", "", "writeFileAtomic without a crash: child=%v read=%v", runErr, rerr)
		}
		return out
	}
	if merr != nil {
		out.Failure = mfail("HARNESS", "crash-point-not-hit", "", "label %s was not reached (child: %v)", c.Label, runErr)
		return out
	}
	out.NonTriv = true
	switch {
	case rerr != nil:
		if c.Exists {
			out.Failure = mfail("C18", "file-lost", "", "crash at %s: the config file is gone (%v)", c.Label, rerr)
		}
	case bytes.Equal(got, newB):
		out.Labels = append(out.Labels, "holds-new")
	case c.Exists && bytes.Equal(got, oldB):
		out.Labels = append(out.Labels, "holds-old")
	default:
		out.Failure = mfail("C18", "partial-file", "", "crash at %s: file holds %d bytes that are neither the old (%d) nor the new (%d) content", c.Label, len(got), len(oldB), len(newB))
	}
	if out.Failure != nil {
		return out
	}
	// life goes on after the crash: the next rewrite (shorter content, whatever the crashed one left lying
	// around) must again leave exactly its own bytes
	next := m18Bytes("next", c.NewLen/3+1)
	if err := writeFileAtomic(target, next); err != nil {
		out.Failure = mfail("C18", "rewrite-after-crash-failed", "", "crash at %s, then a normal rewrite: %v", c.Label, err)
		return out
	}
	if got2, err := os.ReadFile(target); err != nil || !bytes.Equal(got2, next) {
		out.Failure = mfail("C18", "rewrite-after-crash-corrupt", "", "crash at %s, then a normal rewrite of %d bytes: the file holds %d bytes (err %v) that are not the submitted content", c.Label, len(next), len(got2), err)
		return out
	}
	out.Labels = append(out.Labels, "rewrite-after-crash-ok")
	return out
}

func TestProp_C18_MCPFileCrash(t *testing.T) {
	labels := []string{"mcp.wfa.created", "mcp.wfa.chmod", "mcp.wfa.written", "mcp.wfa.synced", "mcp.wfa.closed", "mcp.wfa.renamed", "none"}
	gen := rapid.Custom(func(t *rapid.T) M18FileCase {
		return M18FileCase{OldLen: rapid.SampledFrom([]int{0, 1, 100, 4096, 70000}).Draw(t, "old_len"), NewLen: rapid.SampledFrom([]int{0, 1, 100, 4097, 8192, 300000}).Draw(t, "new_len"),
			Label: rapid.SampledFrom(labels).Draw(t, "label"), Exists: rapid.IntRange(0, 4).Draw(t, "exists") > 0}
	})
	rapid.Check(t, func(rt *rapid.T) {
		c := gen.Draw(rt, "case")
		out := runM18File(c)
		verifkit.Emit(verifkit.Record{Prop: "C18", Test: "TestProp_C18_MCPFileCrash", Hash: verifkit.Hash(c), NonTrivial: out.NonTriv, Labels: out.Labels}, c)
		if out.Failure != nil {
			verifkit.SaveFailing("TestProp_C18_MCPFileCrash", c, out.Failure)
			rt.Fatalf("%v", out.Failure)
		}
	})
}
