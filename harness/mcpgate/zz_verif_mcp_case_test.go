//go:build verif

package mcp

import (
	"fmt"
	"sort"
	"strings"

	"pgregory.net/rapid"
)

// ---------------------------------------------------------------------------------------
// Case: a plain JSON value. Strings inside Args may carry the placeholders ${ROOT} (temp
// root = cwd of the call), ${OUT} (sibling directory outside the root), ${CONFIG} (configured
// config path) and ${PID} (configured pid file); they are substituted when the case runs, so a
// saved case is independent of the scratch directory it was found in.
// ---------------------------------------------------------------------------------------

type MCase struct {
	Tool      string         `json:"tool"`
	Role      string         `json:"role"`
	Mutations bool           `json:"mutations"`
	Runtime   bool           `json:"runtime"`
	Principal string         `json:"principal"`
	Args      map[string]any `json:"args"` // null: the request carries no "arguments" member
	// ArgsRaw, when set, is sent verbatim as the "arguments" member instead of Args (JSON text
	// that is not an object: the request is malformed at the protocol level).
	ArgsRaw string   `json:"args_raw,omitempty"`
	Shape   []string `json:"shape,omitempty"`
	// NoCfg: the server is started without a configured config path (--config ""): then no path at
	// all is "the configured config path" and config-writing tools may touch nothing.
	NoCfg bool `json:"no_cfg,omitempty"`
}

// Contents used by the fixture and by generated config_apply / config_diff calls.
const (
	mCfgBase = `admin_api {
  listen 127.0.0.1:1
}
"/r_a" {
  application "billing"
  endpoint_name "invoice.created"
  deliver "https://example.org/a" {}
}
"/r_b" {
  deliver "https://example.org/a" {}
}
"/r_c" {
  deliver "https://example.org/a" {}
}
`
	mCfgAlt = `admin_api {
  listen 127.0.0.1:1
}
"/r_a" {
  application "billing"
  endpoint_name "invoice.created"
  deliver "https://example.org/a" {}
}
"/r_b" {
  deliver "https://example.org/a" {}
}
"/r_c" {
  deliver "https://example.org/a" {}
}
"/r_d" {
  deliver "https://example.org/d" {}
}
`
	mCfgOther      = "\"/other\" {\n  deliver \"https://example.org/other\" {}\n}\n"
	mCfgParseErr   = "\"/x\" {\n  deliver \"https://example.org/x\" {\n"
	mCfgCompileErr = "\"/dup\" {\n  deliver \"https://example.org/a\" {}\n}\n\"/dup\" {\n  deliver \"https://example.org/b\" {}\n}\n"
)

func cloneArgs(in map[string]any) map[string]any {
	if in == nil {
		return nil
	}
	out := make(map[string]any, len(in))
	for k, v := range in {
		out[k] = v
	}
	return out
}

// minimalArgs returns the smallest argument object with which the tool does real work on the
// fixture (schemas: toolDescriptors in server.go; fixture: zz_verif_mcp_run_test.go).
func minimalArgs(tool string) map[string]any {
	switch tool {
	case "config_diff":
		return map[string]any{"content": mCfgAlt}
	case "config_apply":
		return map[string]any{"content": mCfgAlt, "mode": "write_only"}
	case "dlq_requeue":
		return map[string]any{"reason": "verif", "ids": []any{"m_d1"}}
	case "dlq_delete":
		return map[string]any{"reason": "verif", "ids": []any{"m_d2"}}
	case "messages_cancel":
		return map[string]any{"reason": "verif", "ids": []any{"m_q1"}}
	case "messages_requeue":
		return map[string]any{"reason": "verif", "ids": []any{"m_c1"}}
	case "messages_resume":
		return map[string]any{"reason": "verif", "ids": []any{"m_c2"}}
	case "messages_publish":
		return map[string]any{"reason": "verif", "items": []any{map[string]any{"id": "m_new", "route": "/r_b", "target": "https://example.org/a"}}}
	case "messages_cancel_by_filter":
		return map[string]any{"reason": "verif", "route": "/r_b", "state": "queued"}
	case "messages_requeue_by_filter":
		return map[string]any{"reason": "verif", "route": "/r_b", "state": "dead"}
	case "messages_resume_by_filter":
		return map[string]any{"reason": "verif", "route": "/r_b"}
	case "management_endpoint_upsert":
		return map[string]any{"application": "crm", "endpoint_name": "lead.created", "route": "/r_c", "reason": "verif"}
	case "management_endpoint_delete":
		return map[string]any{"application": "billing", "endpoint_name": "invoice.created", "reason": "verif"}
	case "instance_start", "instance_stop", "instance_reload":
		// never wait for a process: the default timeouts are 5-10 s
		return map[string]any{"timeout": "1ms"}
	}
	return map[string]any{}
}

// clampWaits keeps generated calls from sitting in the tool's own wait loops (admin health
// polling, pid-file polling): wherever a wait could be entered, the wait argument is 1ms.
func clampWaits(tool string, args map[string]any) map[string]any {
	if args == nil {
		switch tool {
		case "instance_start", "instance_stop", "instance_reload":
			return map[string]any{"timeout": "1ms"}
		}
		return nil
	}
	switch tool {
	case "instance_start", "instance_stop", "instance_reload", "instance_status":
		if v, ok := args["timeout"]; !ok {
			if tool != "instance_status" {
				args["timeout"] = "1ms"
			}
		} else if _, isStr := v.(string); isStr {
			args["timeout"] = "1ms"
		}
	case "config_apply", "management_endpoint_upsert", "management_endpoint_delete":
		if m, ok := args["mode"].(string); ok && strings.Contains(strings.ToLower(m), "reload") {
			if v, ok := args["reload_timeout"]; !ok {
				args["reload_timeout"] = "1ms"
			} else if _, isStr := v.(string); isStr {
				args["reload_timeout"] = "1ms"
			}
		}
	}
	return args
}

var mPathPool = []string{
	"${CONFIG}",
	" ${CONFIG} ",
	"${ROOT}/./Hookaidofile",
	"${ROOT}/sub/../Hookaidofile",
	"Hookaidofile",
	"./Hookaidofile",
	"${ROOT}/link.conf",
	"link.conf",
	"${ROOT}/other.conf",
	"${ROOT}/new.conf",
	"${ROOT}/newdir/new.conf",
	"${ROOT}/sub/Hookaidofile",
	"${ROOT}/../outside/foreign.conf",
	"../outside/new.conf",
	"../outside/Hookaidofile",
	"${OUT}/foreign.conf",
	"${OUT}/new.conf",
	"${OUT}/Hookaidofile",
	"${DB}",
	"${PID}",
	"${CONFIG}.bak",
	"${ROOT}/hookaidofile",
	"${CONFIG}/",
	"${CONFIG}\u0000",
	"",
	"   ",
}

var mPidPool = []string{
	"${PID}",
	" ${PID} ",
	"${ROOT}/./hookaido.pid",
	"hookaido.pid",
	"${ROOT}/pidlink",
	"${ROOT}/other.pid",
	"${ROOT}/new.pid",
	"${ROOT}/../outside/foreign.pid",
	"../outside/new.pid",
	"${OUT}/foreign.pid",
	"${OUT}/hookaido.pid",
	"${CONFIG}",
	"",
}

var mSegPool = []string{"Hookaidofile", "hookaido.pid", "other.conf", "link.conf", "sub", ".", "..", "new.conf", "x"}

func genFreePath(t *rapid.T, label string) string {
	base := rapid.SampledFrom([]string{"${ROOT}", "${OUT}", ".", ""}).Draw(t, label+"_base")
	n := rapid.IntRange(1, 3).Draw(t, label+"_n")
	segs := make([]string, 0, n)
	ups := 0
	for i := 0; i < n; i++ {
		var s string
		if rapid.IntRange(0, 4).Draw(t, fmt.Sprintf("%s_rnd%d", label, i)) == 0 {
			s = rapid.StringMatching(`[a-zA-Z0-9_. -]{1,8}`).Draw(t, fmt.Sprintf("%s_seg%d", label, i))
			if strings.Trim(s, ". ") == "" {
				s = "x" + s
			}
		} else {
			s = rapid.SampledFrom(mSegPool).Draw(t, fmt.Sprintf("%s_seg%d", label, i))
		}
		if s == ".." {
			// at most one step up: ${ROOT}/.. and ${OUT}/.. are the (hashed) case directory
			ups++
			if ups > 1 {
				s = "sub"
			}
		}
		segs = append(segs, s)
	}
	p := strings.Join(segs, "/")
	if base == "" {
		return p
	}
	return base + "/" + p
}

func genWrongType(t *rapid.T, label string) any {
	switch rapid.IntRange(0, 5).Draw(t, label+"_wt") {
	case 0:
		return 7
	case 1:
		return true
	case 2:
		return nil
	case 3:
		return []any{"${CONFIG}"}
	case 4:
		return map[string]any{"k": "v"}
	}
	return 1.5
}

var mIDPool = []string{"m_q1", "m_q2", "m_l1", "m_d1", "m_d2", "m_c1", "m_c2", "m_dv", "nope", " m_d1 ", ""}

func toolKnownKeys(tool string) []string {
	var set map[string]struct{}
	switch tool {
	case "config_apply":
		set = configApplyAllowedKeys
	case "management_endpoint_upsert":
		set = managementEndpointUpsertAllowedKeys
	case "management_endpoint_delete":
		set = managementEndpointDeleteAllowedKeys
	case "dlq_requeue", "dlq_delete", "messages_cancel", "messages_requeue", "messages_resume":
		set = idMutationAllowedKeys
	case "messages_publish":
		set = publishToolAllowedKeys
	case "messages_cancel_by_filter", "messages_requeue_by_filter", "messages_resume_by_filter":
		set = messageManageFilterAllowedKeys
	case "instance_start":
		set = instanceStartAllowedKeys
	case "instance_stop":
		set = instanceStopAllowedKeys
	case "instance_reload":
		set = instanceReloadAllowedKeys
	case "instance_status":
		return []string{"pid_file", "timeout"}
	case "instance_logs_tail":
		return []string{"pid_file", "max_lines", "max_bytes"}
	case "config_diff":
		return []string{"path", "content", "context"}
	case "config_parse", "config_compile", "config_fmt_preview":
		return []string{"path"}
	case "config_validate":
		return []string{"path", "strict_secrets"}
	default:
		return []string{"route", "target", "limit", "state"}
	}
	out := make([]string, 0, len(set))
	for k := range set {
		out = append(out, k)
	}
	sort.Strings(out)
	return out
}

// mutatorsFor lists the argument-shape mutators worth drawing for a tool (repeats = weight).
func mutatorsFor(tool string) []string {
	d, known := lookupDocTool(tool)
	base := []string{"extra-key", "wrong-type", "actor", "reason", "drop-key"}
	if !known {
		return append(base, "path", "pid")
	}
	switch {
	case d.CfgWriter:
		base = append(base, "path", "path", "path", "path-free", "path-free", "mode", "mode", "content", "actor")
		if tool != "config_apply" {
			base = append(base, "labels", "request-id")
		}
	case strings.HasPrefix(tool, "config_"):
		base = append(base, "path", "path-free", "content")
	case d.RtFlag:
		base = append(base, "pid", "pid", "pid-free", "timeout", "force")
	case d.Mutating:
		base = append(base, "actor", "actor", "ids", "request-id", "filter", "preview", "items")
	default:
		base = append(base, "filter", "path")
	}
	return base
}

func applyMutator(t *rapid.T, i int, tool, principal, kind string, args map[string]any) map[string]any {
	if args == nil {
		args = map[string]any{}
	}
	l := fmt.Sprintf("m%d", i)
	switch kind {
	case "extra-key":
		k := rapid.SampledFrom([]string{"bogus_key", "Path", "actor ", "principal", "role", "enable_mutations", "__proto__"}).Draw(t, l+"_xk")
		args[k] = rapid.SampledFrom([]any{"x", 1, true, nil, "${OUT}/foreign.conf"}).Draw(t, l+"_xv")
	case "wrong-type":
		keys := toolKnownKeys(tool)
		k := rapid.SampledFrom(keys).Draw(t, l+"_k")
		args[k] = genWrongType(t, l)
	case "drop-key":
		keys := make([]string, 0, len(args))
		for k := range args {
			keys = append(keys, k)
		}
		sort.Strings(keys)
		if len(keys) > 0 {
			delete(args, rapid.SampledFrom(keys).Draw(t, l+"_k"))
		}
	case "actor":
		p := strings.TrimSpace(principal)
		if p == "" {
			p = mPrincipal
		}
		choices := []any{p, "mallory@example.test", strings.ToUpper(p), " " + p + " ", p + "\t", p + "x", p[:len(p)-1], "", "  ", 5, nil, []any{p}}
		args["actor"] = rapid.SampledFrom(choices).Draw(t, l+"_actor")
	case "reason":
		switch rapid.IntRange(0, 4).Draw(t, l+"_reason") {
		case 0:
			delete(args, "reason")
		case 1:
			args["reason"] = ""
		case 2:
			args["reason"] = strings.Repeat("r", 513)
		case 3:
			args["reason"] = 5
		default:
			args["reason"] = rapid.StringMatching(`[a-z_ ]{1,12}`).Draw(t, l+"_rs")
		}
	case "request-id":
		args["request_id"] = rapid.SampledFrom([]any{"req-1", "", strings.Repeat("q", 257), 9}).Draw(t, l+"_rid")
	case "path":
		args["path"] = rapid.SampledFrom(mPathPool).Draw(t, l+"_path")
	case "path-free":
		args["path"] = genFreePath(t, l+"_p")
	case "pid":
		args["pid_file"] = rapid.SampledFrom(mPidPool).Draw(t, l+"_pid")
	case "pid-free":
		args["pid_file"] = genFreePath(t, l+"_q")
	case "mode":
		args["mode"] = rapid.SampledFrom([]any{"preview_only", "write_only", "write_and_reload", "WRITE_ONLY", " write_only ", "Write_And_Reload", "bogus", "", 3}).Draw(t, l+"_mode")
	case "content":
		switch rapid.IntRange(0, 7).Draw(t, l+"_content") {
		case 0:
			args["content"] = mCfgBase
		case 1:
			args["content"] = mCfgAlt
		case 2:
			args["content"] = mCfgOther
		case 3:
			args["content"] = mCfgParseErr
		case 4:
			args["content"] = mCfgCompileErr
		case 5:
			args["content"] = ""
		case 6:
			args["content"] = rapid.StringN(0, 40, 200).Draw(t, l+"_cs")
		default:
			args["content"] = mCfgAlt + "# " + rapid.StringMatching(`[a-z0-9 ]{0,16}`).Draw(t, l+"_cc") + "\n"
		}
	case "labels":
		args["application"] = rapid.SampledFrom([]any{"billing", "crm", "bad label", "", 4}).Draw(t, l+"_app")
		args["endpoint_name"] = rapid.SampledFrom([]any{"invoice.created", "lead.created", "x/y", ""}).Draw(t, l+"_ep")
		if tool == "management_endpoint_upsert" {
			args["route"] = rapid.SampledFrom([]any{"/r_a", "/r_b", "/r_c", "/nope", "r_b", ""}).Draw(t, l+"_rt")
		}
	case "ids":
		n := rapid.IntRange(0, 4).Draw(t, l+"_nids")
		ids := make([]any, 0, n)
		for j := 0; j < n; j++ {
			ids = append(ids, rapid.SampledFrom(mIDPool).Draw(t, fmt.Sprintf("%s_id%d", l, j)))
		}
		args["ids"] = ids
	case "filter":
		args["route"] = rapid.SampledFrom([]any{"/r_a", "/r_b", "/nope", "r_b", ""}).Draw(t, l+"_froute")
		if rapid.Bool().Draw(t, l+"_fstate_on") {
			args["state"] = rapid.SampledFrom([]any{"queued", "leased", "dead", "canceled", "delivered", "bogus"}).Draw(t, l+"_fstate")
		}
		if rapid.Bool().Draw(t, l+"_flimit_on") {
			args["limit"] = rapid.SampledFrom([]any{1, 1000, 1001, 0, -1, "5"}).Draw(t, l+"_flimit")
		}
	case "preview":
		args["preview_only"] = rapid.SampledFrom([]any{true, false, "true"}).Draw(t, l+"_prev")
	case "items":
		item := map[string]any{"id": rapid.SampledFrom([]any{"m_new", "m_q1", "", 3}).Draw(t, l+"_iid")}
		item["route"] = rapid.SampledFrom([]any{"/r_b", "/r_a", "/nope", "r_b"}).Draw(t, l+"_iroute")
		if rapid.Bool().Draw(t, l+"_itarget_on") {
			item["target"] = rapid.SampledFrom([]any{"https://example.org/a", "pull", "https://evil.example/"}).Draw(t, l+"_itarget")
		}
		if rapid.Bool().Draw(t, l+"_ixk") {
			item["bogus"] = 1
		}
		n := rapid.IntRange(0, 2).Draw(t, l+"_nitems")
		items := make([]any, 0, n)
		for j := 0; j < n; j++ {
			cp := map[string]any{}
			for k, v := range item {
				cp[k] = v
			}
			if j > 0 {
				cp["id"] = fmt.Sprintf("m_new%d", j)
			}
			items = append(items, cp)
		}
		args["items"] = items
	case "timeout":
		args["timeout"] = rapid.SampledFrom([]any{"1ms", "0s", "-1s", "abc", 5}).Draw(t, l+"_to")
	case "force":
		args["force"] = rapid.SampledFrom([]any{true, false, "yes"}).Draw(t, l+"_force")
	}
	return args
}

func genArgs(t *rapid.T, tool, principal string) (map[string]any, []string) {
	var args map[string]any
	var shape []string
	switch rapid.IntRange(0, 9).Draw(t, "base") {
	case 0:
		args = nil
		shape = append(shape, "no-arguments")
	case 1:
		args = map[string]any{}
		shape = append(shape, "empty")
	default:
		args = minimalArgs(tool)
		shape = append(shape, "minimal")
	}
	muts := rapid.SliceOfN(rapid.SampledFrom(mutatorsFor(tool)), 0, 3).Draw(t, "mutators")
	for i, m := range muts {
		args = applyMutator(t, i, tool, principal, m, args)
		shape = append(shape, m)
	}
	return clampWaits(tool, args), shape
}

// rowIndex partitions the row indices of the full table by tool class and by how the documented
// table judges the row, so that the generator can spend most draws where the argument shape
// matters (allowed mutating calls) or where a single gate decides (single-gate rows).
type rowIndex struct {
	rows    []mRow
	classes []string
	by      map[string]map[string][]int // class -> allowed | single | any -> row indices
}

func toolClass(tool string) string {
	d, ok := lookupDocTool(tool)
	switch {
	case !ok:
		return "unknown"
	case d.CfgWriter:
		return "cfg-writer"
	case d.Mutating && d.RtFlag:
		return "rt-control"
	case d.Mutating:
		return "queue-mutation"
	case d.RtFlag:
		return "rt-inspect"
	case strings.HasPrefix(tool, "config_"):
		return "cfg-read"
	}
	return "queue-read"
}

// class weights (repeats): config writers and queue mutations get most of the draws
var mClassWeights = []string{
	"cfg-writer", "cfg-writer", "cfg-writer", "cfg-writer", "cfg-writer", "cfg-writer",
	"queue-mutation", "queue-mutation", "queue-mutation", "queue-mutation", "queue-mutation",
	"rt-control", "rt-control", "rt-inspect", "cfg-read", "cfg-read", "queue-read", "unknown", "unknown",
}

func buildRowIndex(rows []mRow) *rowIndex {
	ix := &rowIndex{rows: rows, by: map[string]map[string][]int{}}
	for i, r := range rows {
		cl := toolClass(r.Tool)
		if ix.by[cl] == nil {
			ix.by[cl] = map[string][]int{}
		}
		v := judgeRow(r.Tool, r.Role, r.Mutations, r.Runtime, r.Principal)
		ix.by[cl]["any"] = append(ix.by[cl]["any"], i)
		if v.Allowed {
			ix.by[cl]["allowed"] = append(ix.by[cl]["allowed"], i)
		} else if v.Known && len(v.Failing) == 1 {
			ix.by[cl]["single"] = append(ix.by[cl]["single"], i)
		}
	}
	return ix
}

// genMCase: one rapid case = one row index of the full table + one argument shape. The index is
// drawn class first (weights above), then 45% from the class's allowed rows, 35% from its
// single-gate rows, 20% from all of its rows.
func genMCase(ix *rowIndex) *rapid.Generator[MCase] {
	return rapid.Custom(func(t *rapid.T) MCase {
		cl := rapid.SampledFrom(mClassWeights).Draw(t, "class")
		kind := "any"
		switch k := rapid.IntRange(0, 19).Draw(t, "kind"); {
		case k < 9:
			kind = "allowed"
		case k < 16:
			kind = "single"
		}
		list := ix.by[cl][kind]
		if len(list) == 0 {
			list = ix.by[cl]["any"]
		}
		idx := list[rapid.IntRange(0, len(list)-1).Draw(t, "row")]
		r := ix.rows[idx]
		if rapid.IntRange(0, 39).Draw(t, "malformed") == 17 { // a mid-range value: rapid favours the bounds
			raw := rapid.SampledFrom([]string{`[]`, `"x"`, `5`, `true`, `[{"path":"${OUT}/Hookaidofile"}]`, `"${CONFIG}"`}).Draw(t, "args_raw")
			return MCase{Tool: r.Tool, Role: r.Role, Mutations: r.Mutations, Runtime: r.Runtime, Principal: r.Principal, ArgsRaw: raw, Shape: []string{"arguments-not-an-object"}}
		}
		args, shape := genArgs(t, r.Tool, r.Principal)
		noCfg := false
		if strings.HasPrefix(r.Tool, "config_") || strings.HasPrefix(r.Tool, "management_") {
			noCfg = rapid.IntRange(0, 7).Draw(t, "no_cfg") == 3
		}
		if noCfg {
			shape = append(shape, "no-configured-config-path")
		}
		return MCase{Tool: r.Tool, Role: r.Role, Mutations: r.Mutations, Runtime: r.Runtime, Principal: r.Principal, Args: args, Shape: shape, NoCfg: noCfg}
	})
}
