//go:build verif

package mcp

import (
	"bufio"
	"bytes"
	"context"
	"encoding/json"
	"fmt"
	"os"
	"os/exec"
	"reflect"
	"sort"
	"strings"
	"testing"
	"time"

	"github.com/nuetzliches/hookaido/internal/verifkit"
	"pgregory.net/rapid"
)

// ---------------------------------------------------------------------------------------
// C20, command-line tier: the same documented gating table, judged on a session of the real
// `hookaido mcp serve` process started with generated flags (the other tiers build the Server
// with the option list copied from the command; this one goes through the command itself).
// One case = one process: tools/list, then 1-5 tools/call with the tools' minimal valid
// arguments, all written to stdin up front; the answers are read after the process exits.
// ---------------------------------------------------------------------------------------

type MCLICase struct {
	Role      string   `json:"role"` // "": flag absent (documented default: read)
	Mutations bool     `json:"mutations"`
	Runtime   bool     `json:"runtime"`
	Principal string   `json:"principal"`
	Tools     []string `json:"tools"`
}

func genMCLICase() *rapid.Generator[MCLICase] {
	var names []string
	for _, d := range docTools {
		names = append(names, d.Name)
	}
	gated := []string{"config_apply", "config_apply", "messages_cancel", "dlq_requeue", "messages_publish", "management_endpoint_upsert",
		"management_endpoint_delete", "instance_status", "instance_start", "instance_stop", "instance_reload", "messages_cancel_by_filter"}
	return rapid.Custom(func(t *rapid.T) MCLICase {
		c := MCLICase{
			Role:      rapid.SampledFrom([]string{"", "read", "operate", "operate", "admin", "admin", "admin", "root", "ADMIN"}).Draw(t, "role"),
			Mutations: rapid.Bool().Draw(t, "mutations"),
			Runtime:   rapid.Bool().Draw(t, "runtime"),
			Principal: rapid.SampledFrom([]string{"", mPrincipal, mPrincipal, "   "}).Draw(t, "principal"),
		}
		n := rapid.IntRange(1, 5).Draw(t, "ncalls")
		for i := 0; i < n; i++ {
			if rapid.IntRange(0, 2).Draw(t, "any") == 0 {
				c.Tools = append(c.Tools, rapid.SampledFrom(names).Draw(t, "tool"))
			} else {
				c.Tools = append(c.Tools, rapid.SampledFrom(gated).Draw(t, "gated"))
			}
		}
		return c
	})
}

func readFrames(raw []byte) ([]map[string]any, error) {
	var out []map[string]any
	r := bufio.NewReader(bytes.NewReader(raw))
	for {
		payload, err := readFrame(r)
		if err != nil {
			if len(out) > 0 || len(raw) == 0 {
				return out, nil
			}
			return out, err
		}
		var m map[string]any
		if err := json.Unmarshal(payload, &m); err != nil {
			return out, err
		}
		out = append(out, m)
	}
}

func runMCLICase(c MCLICase) mOutcome {
	var out mOutcome
	labels := map[string]bool{}
	finish := func(f *verifkit.Failure) mOutcome {
		out.Failure = f
		for l := range labels {
			out.Labels = append(out.Labels, l)
		}
		sort.Strings(out.Labels)
		return out
	}
	bin := os.Getenv("VERIF_BIN_HOOKAIDO")
	if bin == "" {
		return finish(mfail("HARNESS", "no-binary", "", "VERIF_BIN_HOOKAIDO is not set"))
	}
	fx, err := newFixture()
	if err != nil {
		return finish(mfail("HARNESS", "fixture", "", "%v", err))
	}
	defer fx.cleanup()
	before, err := fx.snapshot()
	if err != nil {
		return finish(mfail("HARNESS", "snapshot", "", "%v", err))
	}

	argv := []string{"mcp", "serve", "--config", fx.cfg, "--db", fx.db, "--pid-file", fx.pid, "--run-binary", fx.stub}
	if c.Role != "" {
		argv = append(argv, "--role", c.Role)
	}
	if c.Mutations {
		argv = append(argv, "--enable-mutations")
	}
	if c.Runtime {
		argv = append(argv, "--enable-runtime-control")
	}
	if c.Principal != "" {
		argv = append(argv, "--principal", c.Principal)
	}
	var stdin bytes.Buffer
	frame := func(id int, method string, params any) {
		req := map[string]any{"jsonrpc": "2.0", "id": id, "method": method}
		if params != nil {
			req["params"] = params
		}
		b, _ := json.Marshal(req)
		fmt.Fprintf(&stdin, "Content-Length: %d\r\n\r\n%s", len(b), b)
	}
	frame(1, "tools/list", nil)
	for i, tool := range c.Tools {
		args, _ := fx.subst(clampWaits(tool, minimalArgs(tool))).(map[string]any)
		frame(2+i, "tools/call", map[string]any{"name": tool, "arguments": args})
	}
	ctx, cancel := context.WithTimeout(context.Background(), 60*time.Second)
	defer cancel()
	cmd := exec.CommandContext(ctx, bin, argv...)
	cmd.Dir = fx.root
	cmd.Env = append(os.Environ(), "VERIF_STATS=", "VERIF_FAILDIR=", "VERIF_CRASH=")
	cmd.Stdin = &stdin
	var stdout, stderr bytes.Buffer
	cmd.Stdout, cmd.Stderr = &stdout, &stderr
	runErr := cmd.Run()
	if ctx.Err() != nil {
		out.Skipped = "the mcp process did not finish within 60s (machine load)"
		labels["inconclusive-time-budget"] = true
		return finish(nil)
	}
	after, err := fx.snapshot()
	if err != nil {
		return finish(mfail("HARNESS", "snapshot", "", "%v", err))
	}
	diff := treeDiff(before, after)
	session := fmt.Sprintf("hookaido %s", strings.Join(argv[10:], " "))

	// the role the table is read with: the flag's documented default, lower-case names only
	role := c.Role
	if role == "" {
		role = "read"
		labels["role-flag-absent"] = true
	}
	if lc := strings.ToLower(role); !validRoleName(role) && validRoleName(lc) && runErr == nil {
		// a case variant of a role name: the command may refuse it or read it as that role
		labels["role-case-variant-accepted"] = true
		role = lc
	}
	if !validRoleName(role) {
		// not a role: the command must refuse to start and serve nothing
		labels["cli-role-refused"] = true
		if runErr == nil || stdout.Len() > 0 || len(diff) > 0 {
			return finish(mfail("C20", "cli-started-with-non-role", "", "%s: exit=%v, %d bytes answered, tree diff %v", session, runErr, stdout.Len(), diff))
		}
		return finish(nil)
	}
	if runErr != nil {
		return finish(mfail("HARNESS", "cli-exit", "", "%s: %v\n%s", session, runErr, stderr.String()))
	}
	frames, err := readFrames(stdout.Bytes())
	if err != nil || len(frames) != 1+len(c.Tools) {
		return finish(mfail("HARNESS", "cli-frames", "", "%s: %d answers for %d requests (%v)\n%s", session, len(frames), 1+len(c.Tools), err, stderr.String()))
	}
	byID := map[int]map[string]any{}
	for _, f := range frames {
		if id, ok := f["id"].(float64); ok {
			byID[int(id)] = f
		}
	}
	// ---- tools/list
	var listed []string
	if res, ok := byID[1]["result"].(map[string]any); ok {
		if tl, ok := res["tools"].([]any); ok {
			for _, t := range tl {
				if m, ok := t.(map[string]any); ok {
					if n, ok := m["name"].(string); ok {
						listed = append(listed, n)
					}
				}
			}
		}
	}
	sort.Strings(listed)
	want := expectedToolList(role, c.Mutations, c.Runtime, c.Principal)
	if !reflect.DeepEqual(listed, want) && !(len(listed) == 0 && len(want) == 0) {
		ws, ls := map[string]bool{}, map[string]bool{}
		for _, n := range want {
			ws[n] = true
		}
		var extra, missing []string
		for _, n := range listed {
			ls[n] = true
			if !ws[n] {
				extra = append(extra, n)
			}
		}
		for _, n := range want {
			if !ls[n] {
				missing = append(missing, n)
			}
		}
		return finish(mfail("C20", "cli-list-mismatch", "", "%s: tools/list advertises %v that the documented table refuses and omits %v that it allows", session, extra, missing))
	}
	// ---- tools/call
	anyAllowedEffectful := false
	for i, tool := range c.Tools {
		v := judgeRow(tool, role, c.Mutations, c.Runtime, c.Principal)
		f := byID[2+i]
		kind, text := "success", ""
		if e, ok := f["error"].(map[string]any); ok {
			kind = "rpc-error"
			text, _ = e["message"].(string)
		} else if res, ok := f["result"].(map[string]any); ok {
			if cs, ok := res["content"].([]any); ok && len(cs) > 0 {
				if m, ok := cs[0].(map[string]any); ok {
					text, _ = m["text"].(string)
				}
			}
			if b, _ := res["isError"].(bool); b {
				kind = "tool-error"
				if isGatingText(text) {
					kind = "gating"
				}
			}
		}
		refused := kind == "gating" || kind == "rpc-error"
		row := fmt.Sprintf("%s: call %d tool=%q", session, i, tool)
		switch {
		case !v.Allowed && !refused:
			return finish(mfail("C20", "cli-gate-not-enforced", "", "%s: failing gate(s) %v, but the call was not refused by gating (%s: %.200q); tree diff %v", row, v.Failing, kind, text, diff))
		case v.Allowed && refused:
			return finish(mfail("C20", "cli-allowed-but-refused", "", "%s: every documented gate passes, but the call was refused: %.200q", row, text))
		}
		if v.Allowed {
			labels["call:allowed"] = true
			if v.Doc.Mutating {
				anyAllowedEffectful = true
			}
		} else {
			labels["call:refused"] = true
			if len(v.Failing) == 1 {
				labels["single-gate:"+v.Failing[0]] = true
				out.NonTriv = true
			}
		}
	}
	// ---- audit: the command writes the audit stream to stderr; one record per call of a mutating
	// tool (allowed or refused), none for the others, in call order
	var audits []map[string]any
	for _, l := range strings.Split(stderr.String(), "\n") {
		l = strings.TrimSpace(l)
		if !strings.HasPrefix(l, "{") {
			continue
		}
		var rec map[string]any
		if json.Unmarshal([]byte(l), &rec) == nil {
			if _, isAudit := rec["tool"]; isAudit {
				audits = append(audits, rec)
			}
		}
	}
	var wantAudit []string
	for _, tool := range c.Tools {
		if v := judgeRow(tool, role, c.Mutations, c.Runtime, c.Principal); v.Known && v.Doc.Mutating {
			wantAudit = append(wantAudit, tool)
		}
	}
	var gotAudit []string
	for _, rec := range audits {
		tname, _ := rec["tool"].(string)
		gotAudit = append(gotAudit, tname)
	}
	if strings.Join(gotAudit, ",") != strings.Join(wantAudit, ",") {
		return finish(mfail("C20", "cli-audit-records", "", "%s: calls %v: audit records on stderr for %v, want one per mutating call: %v\nstderr: %.600s", session, c.Tools, gotAudit, wantAudit, stderr.String()))
	}
	for i, rec := range audits {
		line, _ := json.Marshal(rec)
		if msg := checkAuditRecord(string(line), MCase{Tool: wantAudit[i], Role: role, Principal: c.Principal}); msg != "" {
			return finish(mfail("C20", "cli-audit-fields", "", "%s: %s", session, msg))
		}
	}
	if len(wantAudit) > 0 {
		labels["cli-audit-checked"] = true
	}
	if !anyAllowedEffectful && len(diff) > 0 {
		return finish(mfail("C20", "cli-refused-with-effect", "", "%s: no mutating call of %v was allowed, but the files changed: %v", session, c.Tools, diff))
	}
	if !anyAllowedEffectful {
		labels["session-without-allowed-mutation"] = true
	}
	return finish(nil)
}

func TestProp_C20_CLI(t *testing.T) {
	gen := genMCLICase()
	rapid.Check(t, func(rt *rapid.T) {
		c := gen.Draw(rt, "case")
		out := runMCLICase(c)
		verifkit.Emit(verifkit.Record{Prop: "C20", Test: "TestProp_C20_CLI", Hash: verifkit.Hash(c), NonTrivial: out.NonTriv,
			Labels: out.Labels, Known: out.Known, Skipped: out.Skipped}, c)
		if out.Failure != nil {
			verifkit.SaveFailing("TestProp_C20_CLI", c, out.Failure)
			rt.Fatalf("%v", out.Failure)
		}
	})
}

func replayMCLI() {
	for _, rf := range verifkit.ReplayFiles("TestProp_C20_CLI") {
		var c MCLICase
		if err := json.Unmarshal(rf.Case, &c); err != nil {
			fmt.Printf("REPLAY-ERROR file=%s err=%v\n", rf.Path, err)
			continue
		}
		out := runMCLICase(c)
		verifkit.ReportReplay(rf, out.Failure)
	}
}
