//go:build verif

package mcp

import (
	"bytes"
	"encoding/json"
	"fmt"
	"os"
	"path/filepath"
	"sort"
	"strings"
	"testing"
	"time"

	"github.com/nuetzliches/hookaido/internal/queue"
	"github.com/nuetzliches/hookaido/internal/verifkit"
	"pgregory.net/rapid"
)

// ---------------------------------------------------------------------------------------
// C20, audit input hash: "every mutating call, whether allowed, denied or failed, appends one
// audit record with ... input hash ...". The hash identifies what the caller supplied, so it
// must not depend on what became of the call. Metamorphic check, no assumption about the hash
// format: the same arguments are sent to three servers on copies of one queue - one that runs
// the call (admin, mutations on, principal set), one that denies it (mutations off), one that
// denies it for another reason (role read) - and the three audit records carry the same input
// hash; different arguments (another id list) carry a different one.
// ---------------------------------------------------------------------------------------

type MHashCase struct {
	Tool  string         `json:"tool"`
	IDs   []string       `json:"ids"`
	Extra map[string]any `json:"extra,omitempty"`
}

func genMHashCase() *rapid.Generator[MHashCase] {
	return rapid.Custom(func(t *rapid.T) MHashCase {
		c := MHashCase{Tool: rapid.SampledFrom([]string{"messages_cancel", "messages_requeue", "messages_resume", "dlq_requeue", "dlq_delete"}).Draw(t, "tool")}
		n := rapid.IntRange(1, 4).Draw(t, "nids")
		for i := 0; i < n; i++ {
			id := fmt.Sprintf("m%d", rapid.IntRange(0, 5).Draw(t, "id"))
			switch rapid.IntRange(0, 4).Draw(t, "spelling") {
			case 0:
				id = " " + id
			case 1:
				id = id + "  "
			case 2:
				id = "\t" + id + "\n"
			}
			c.IDs = append(c.IDs, id)
		}
		c.Extra = map[string]any{"reason": rapid.SampledFrom([]string{"verif", " padded reason ", "r"}).Draw(t, "reason")}
		if rapid.Bool().Draw(t, "with_actor") {
			c.Extra["actor"] = "op"
		}
		if rapid.Bool().Draw(t, "with_request_id") {
			c.Extra["request_id"] = " req-1 "
		}
		return c
	})
}

func runMHash(c MHashCase) *mOutcome {
	out := &mOutcome{}
	dir, err := os.MkdirTemp(verifkit.ScratchDir(), "mhash-")
	if err != nil {
		out.Failure = mfail("HARNESS", "tmp", "", "%v", err)
		return out
	}
	defer os.RemoveAll(dir)
	cfgPath := filepath.Join(dir, "Hookaidofile")
	cfg := "pull_api {\n  auth token raw:t\n}\n\"/r\" {\n  pull { path /pull/r }\n}\n"
	if err := os.WriteFile(cfgPath, []byte(cfg), 0o600); err != nil || compileOK([]byte(cfg)) != nil {
		out.Failure = mfail("HARNESS", "cfg", "", "%v %v", err, compileOK([]byte(cfg)))
		return out
	}
	// one population, copied per server: m0 m1 queued, m2 m3 dead, m4 m5 canceled
	populate := func(dbPath string) error {
		now := time.Date(2026, 1, 1, 0, 0, 0, 0, time.UTC)
		st, err := queue.NewSQLiteStore(dbPath, queue.WithSQLiteNowFunc(func() time.Time { return now }), queue.WithSQLiteCheckpointInterval(0))
		if err != nil {
			return err
		}
		defer st.Close()
		for i := 0; i < 6; i++ {
			id := fmt.Sprintf("m%d", i)
			if err := st.Enqueue(queue.Envelope{ID: id, Route: "/r", Target: "pull", Payload: []byte(id)}); err != nil {
				return err
			}
		}
		for _, id := range []string{"m2", "m3"} {
			resp, err := st.Dequeue(queue.DequeueRequest{Route: "/r", Target: "pull", Batch: 1, LeaseTTL: time.Hour})
			if err != nil || len(resp.Items) != 1 {
				return fmt.Errorf("lease for %s: %v", id, err)
			}
			_ = st.MarkDead(resp.Items[0].LeaseID, "no_retry")
		}
		_, err = st.CancelMessages(queue.MessageCancelRequest{IDs: []string{"m4", "m5"}})
		return err
	}
	type variant struct {
		name string
		opts []Option
	}
	variants := []variant{
		{"allowed", []Option{WithRole(RoleAdmin), WithPrincipal("op"), WithMutationsEnabled(true)}},
		{"denied-mutations-off", []Option{WithRole(RoleAdmin), WithPrincipal("op"), WithMutationsEnabled(false)}},
		{"denied-role-read", []Option{WithRole(RoleRead), WithPrincipal("op"), WithMutationsEnabled(true)}},
	}
	hashOf := func(v variant, ids []string) (string, string, error) {
		dbPath := filepath.Join(dir, v.name+fmt.Sprint(len(ids))+".db")
		_ = os.Remove(dbPath)
		if err := populate(dbPath); err != nil {
			return "", "", err
		}
		var audit bytes.Buffer
		srv := NewServer(strings.NewReader(""), &bytes.Buffer{}, cfgPath, dbPath, append(v.opts, WithAuditWriter(&audit))...)
		args := map[string]any{"ids": ids}
		for k, x := range c.Extra {
			args[k] = x
		}
		if _, err := rpcExchange(srv, "tools/call", map[string]any{"name": c.Tool, "arguments": args}); err != nil {
			return "", "", err
		}
		lines := strings.Split(strings.TrimSpace(audit.String()), "\n")
		if len(lines) != 1 || lines[0] == "" {
			return "", "", fmt.Errorf("%d audit records for one call on the %s server: %q", len(lines), v.name, audit.String())
		}
		var rec map[string]any
		if err := json.Unmarshal([]byte(lines[0]), &rec); err != nil {
			return "", "", err
		}
		h, _ := rec["input_hash"].(string)
		r, _ := rec["result"].(string)
		return h, r, nil
	}
	var hashes, results []string
	for _, v := range variants {
		h, r, err := hashOf(v, c.IDs)
		if err != nil {
			out.Failure = mfail("C20", "audit-record", "", "%s %v: %v", c.Tool, c.IDs, err)
			return out
		}
		if h == "" {
			out.Failure = mfail("C20", "audit-record", "", "%s %v on the %s server: audit record without input_hash", c.Tool, c.IDs, v.name)
			return out
		}
		hashes, results = append(hashes, h), append(results, r)
		out.Labels = append(out.Labels, "result-"+v.name+"-"+r)
	}
	for i := 1; i < len(hashes); i++ {
		if hashes[i] != hashes[0] {
			out.Failure = mfail("C20", "input-hash-depends-on-outcome", "", "%s with ids %q extra %v: the audit record of the %s call (result %s) carries input_hash %s, that of the %s call (result %s) carries %s - the same arguments were supplied",
				c.Tool, c.IDs, c.Extra, variants[0].name, results[0], hashes[0], variants[i].name, results[i], hashes[i])
			return out
		}
	}
	// other arguments, another hash
	other := append(append([]string(nil), c.IDs...), "m-other")
	if h, _, err := hashOf(variants[0], other); err == nil && h == hashes[0] {
		out.Failure = mfail("C20", "input-hash-ignores-input", "", "%s: ids %q and %q have the same input_hash %s", c.Tool, c.IDs, other, h)
		return out
	}
	padded := false
	for _, id := range c.IDs {
		if strings.TrimSpace(id) != id {
			padded = true
		}
	}
	out.NonTriv = padded
	if padded {
		out.Labels = append(out.Labels, "padded-id")
	}
	sort.Strings(out.Labels)
	return out
}

func TestProp_C20_InputHash(t *testing.T) {
	gen := genMHashCase()
	rapid.Check(t, func(rt *rapid.T) {
		c := gen.Draw(rt, "case")
		out := runMHash(c)
		verifkit.Emit(verifkit.Record{Prop: "C20", Test: "TestProp_C20_InputHash", Hash: verifkit.Hash(c), NonTrivial: out.NonTriv, Labels: out.Labels, Skipped: out.Skipped}, c)
		if out.Failure != nil {
			verifkit.SaveFailing("TestProp_C20_InputHash", c, out.Failure)
			rt.Fatalf("%v", out.Failure)
		}
	})
}

func replayMHash() {
	for _, rf := range verifkit.ReplayFiles("TestProp_C20_InputHash") {
		var c MHashCase
		if err := json.Unmarshal(rf.Case, &c); err != nil {
			fmt.Printf("REPLAY-ERROR file=%s err=%v\n", rf.Path, err)
			continue
		}
		verifkit.ReportReplay(rf, runMHash(c).Failure)
	}
}
