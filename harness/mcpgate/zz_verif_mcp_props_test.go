//go:build verif

package mcp

import (
	"encoding/json"
	"fmt"
	"os"
	"testing"

	"github.com/nuetzliches/hookaido/internal/verifkit"
	"pgregory.net/rapid"
)

const (
	mTestTable      = "TestProp_C20_Table"
	mTestExhaustive = "TestProp_C20_Exhaustive"
)

func emitM(test string, c MCase, out mOutcome) {
	verifkit.Emit(verifkit.Record{Prop: "C20", Test: test, Hash: verifkit.Hash(c), NonTrivial: out.NonTriv,
		Labels: out.Labels, Known: out.Known}, c)
}

// TestProp_C20_Table: one rapid case = one row of the complete gating table (biased to config
// writers / queue mutations and to allowed / single-gate rows) + one generated argument shape.
func TestProp_C20_Table(t *testing.T) {
	gen := genMCase(buildRowIndex(allRows()))
	rapid.Check(t, func(rt *rapid.T) {
		c := gen.Draw(rt, "case")
		out := runMCase(c, true)
		emitM(mTestTable, c, out)
		if out.Failure != nil {
			verifkit.SaveFailing(mTestTable, c, out.Failure)
			rt.Fatalf("%v", out.Failure)
		}
	})
}

// exhaustiveShapes: the deterministic argument shapes every row is run with. quick: the minimal
// valid arguments, a foreign actor, a foreign path / pid file with the configured file name;
// thorough: additionally empty arguments and an unknown key.
func exhaustiveShapes(tool string) []MCase {
	mk := func(shape string, args map[string]any) MCase {
		return MCase{Tool: tool, Args: clampWaits(tool, args), Shape: []string{shape}}
	}
	out := []MCase{mk("minimal", minimalArgs(tool))}
	a := minimalArgs(tool)
	a["actor"] = "mallory@example.test"
	out = append(out, mk("x-actor-foreign", a))
	a = minimalArgs(tool)
	if d, ok := lookupDocTool(tool); ok && d.RtFlag {
		a["pid_file"] = "${OUT}/hookaido.pid"
	} else {
		a["path"] = "${OUT}/Hookaidofile"
	}
	out = append(out, mk("x-foreign-path", a))
	if os.Getenv("VERIF_TIER") != "thorough" {
		return out
	}
	out = append(out, mk("empty", map[string]any{}))
	a = minimalArgs(tool)
	a["bogus_key"] = 1
	out = append(out, mk("x-extra-key", a))
	return out
}

// TestProp_C20_Exhaustive walks every row of the table once per deterministic shape (not a
// rapid test; rows are split over VERIF_NSHARDS processes by index).
func TestProp_C20_Exhaustive(t *testing.T) {
	rows := allRows()
	shard := verifkit.EnvInt("VERIF_SHARD", 0)
	nshards := verifkit.EnvInt("VERIF_NSHARDS", 1)
	if nshards < 1 {
		nshards = 1
	}
	ran, failed := 0, 0
	var first *verifkit.Failure
	for i, r := range rows {
		if i%nshards != shard%nshards {
			continue
		}
		for _, c := range exhaustiveShapes(r.Tool) {
			c.Role, c.Mutations, c.Runtime, c.Principal = r.Role, r.Mutations, r.Runtime, r.Principal
			out := runMCase(c, true)
			emitM(mTestExhaustive, c, out)
			ran++
			if out.Failure != nil {
				failed++
				if failed <= 25 {
					fmt.Printf("ROW-FAIL %v\n", out.Failure)
				}
				if first == nil {
					first = out.Failure
					verifkit.SaveFailing(mTestExhaustive, c, out.Failure)
				}
			}
		}
	}
	fmt.Printf("exhaustive: table has %d rows, shard %d/%d ran %d cases, %d failed\n", len(rows), shard, nshards, ran, failed)
	if first != nil {
		t.Fatalf("%d of %d cases failed; first: %v", failed, ran, first)
	}
	fmt.Printf("[rapid] OK, passed %d tests (exhaustive)\n", ran)
}

// TestReplay_MCP re-executes saved cases without rapid and without tolerating known findings.
func TestReplay_MCP(t *testing.T) {
	for _, test := range []string{mTestTable, mTestExhaustive} {
		for _, rf := range verifkit.ReplayFiles(test) {
			var c MCase
			if err := json.Unmarshal(rf.Case, &c); err != nil {
				fmt.Printf("REPLAY-ERROR file=%s err=%v\n", rf.Path, err)
				continue
			}
			out := runMCase(c, false)
			verifkit.ReportReplay(rf, out.Failure)
		}
	}
	replayMCLI()
	replayMHash()
	for _, rf := range verifkit.ReplayFiles("TestProp_C18_MCPApply") {
		var c M18Case
		if err := json.Unmarshal(rf.Case, &c); err != nil {
			fmt.Printf("REPLAY-ERROR file=%s err=%v\n", rf.Path, err)
			continue
		}
		verifkit.ReportReplay(rf, runM18(c).Failure)
	}
	for _, rf := range verifkit.ReplayFiles("TestProp_C18_MCPFileCrash") {
		var c M18FileCase
		if err := json.Unmarshal(rf.Case, &c); err != nil {
			fmt.Printf("REPLAY-ERROR file=%s err=%v\n", rf.Path, err)
			continue
		}
		verifkit.ReportReplay(rf, runM18File(c).Failure)
	}
	for _, rf := range verifkit.ReplayFiles("TestProp_C14_MCP") {
		var c M14Case
		if err := json.Unmarshal(rf.Case, &c); err != nil {
			fmt.Printf("REPLAY-ERROR file=%s err=%v\n", rf.Path, err)
			continue
		}
		verifkit.ReportReplay(rf, runM14(c).Failure)
	}
}
