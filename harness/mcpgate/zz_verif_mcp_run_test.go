//go:build verif

package mcp

import (
	"bytes"
	"context"
	"crypto/sha256"
	"database/sql"
	"encoding/hex"
	"encoding/json"
	"fmt"
	"io/fs"
	"os"
	"path/filepath"
	"reflect"
	"sort"
	"strconv"
	"strings"
	"sync"
	"time"

	"github.com/nuetzliches/hookaido/internal/config"
	"github.com/nuetzliches/hookaido/internal/queue"
	"github.com/nuetzliches/hookaido/internal/verifkit"
)

// ---------------------------------------------------------------------------------------
// Fixture: a template directory is built once per process (valid config checked with the real
// Parse/Compile, SQLite queue db populated through queue.NewSQLiteStore, pid file naming a pid
// that cannot exist, a stub "hookaido" binary that only leaves a marker file). Every case runs
// in a fresh copy:
//
//   <case>/root/Hookaidofile   configured --config          <case>/outside/foreign.conf
//   <case>/root/hookaido.db    configured --db              <case>/outside/foreign.pid
//   <case>/root/hookaido.pid   configured --pid-file
//   <case>/root/stub.sh        configured --run-binary (appends to root/spawned.marker)
//   <case>/root/other.conf, other.pid, link.conf -> Hookaidofile, pidlink -> hookaido.pid, sub/
//
// cwd of the call is <case>/root, so relative paths stay inside the hashed tree.
// ---------------------------------------------------------------------------------------

const mDeadPID = "2000000000\n" // above any Linux pid_max (<= 4194304): names no process

type mTemplate struct {
	dir    string
	dbRows []string
	dbSum  string
	err    error
}

var (
	mTmplOnce sync.Once
	mTmpl     mTemplate
	mCaseSeq  int
	mT0       = time.Date(2026, 1, 1, 0, 0, 0, 0, time.UTC)
)

func compileOK(data []byte) error {
	cfg, err := config.Parse(data)
	if err != nil {
		return fmt.Errorf("parse: %v", err)
	}
	_, res := config.Compile(cfg)
	if !res.OK {
		return fmt.Errorf("compile: %s", strings.Join(res.Errors, "; "))
	}
	return nil
}

func buildTemplate() {
	dir := filepath.Join(verifkit.ScratchDir(), "tmpl")
	mTmpl.dir = dir
	_ = os.RemoveAll(dir)
	if err := os.MkdirAll(dir, 0o755); err != nil {
		mTmpl.err = err
		return
	}
	for name, content := range map[string]string{"base": mCfgBase, "alt": mCfgAlt, "other": mCfgOther} {
		if err := compileOK([]byte(content)); err != nil {
			mTmpl.err = fmt.Errorf("fixture config %s is not valid: %v", name, err)
			return
		}
	}
	if compileOK([]byte(mCfgParseErr)) == nil || compileOK([]byte(mCfgCompileErr)) == nil {
		mTmpl.err = fmt.Errorf("fixture configs meant to be invalid are valid")
		return
	}
	dbPath := filepath.Join(dir, "hookaido.db")
	st, err := queue.NewSQLiteStore(dbPath, queue.WithSQLiteNowFunc(func() time.Time { return mT0 }))
	if err != nil {
		mTmpl.err = err
		return
	}
	const tgt = "https://example.org/a"
	envs := []queue.Envelope{
		{ID: "m_l1", Route: "/r_b", Target: tgt, ReceivedAt: mT0.Add(-9 * time.Minute), Payload: []byte("lease-me")},
		{ID: "m_q1", Route: "/r_b", Target: tgt, ReceivedAt: mT0.Add(-8 * time.Minute), NextRunAt: mT0.Add(time.Hour), Payload: []byte(`{"n":1}`), Headers: map[string]string{"X-K": "v"}},
		{ID: "m_q2", Route: "/r_b", Target: tgt, ReceivedAt: mT0.Add(-7 * time.Minute), NextRunAt: mT0.Add(time.Hour), Payload: []byte(`{"n":2}`)},
		{ID: "m_d1", Route: "/r_b", Target: tgt, State: queue.StateDead, DeadReason: "max_retries", ReceivedAt: mT0.Add(-6 * time.Minute), Attempt: 3},
		{ID: "m_d2", Route: "/r_b", Target: tgt, State: queue.StateDead, DeadReason: "max_retries", ReceivedAt: mT0.Add(-5 * time.Minute), Attempt: 3},
		{ID: "m_c1", Route: "/r_b", Target: tgt, State: queue.StateCanceled, ReceivedAt: mT0.Add(-4 * time.Minute)},
		{ID: "m_c2", Route: "/r_b", Target: tgt, State: queue.StateCanceled, ReceivedAt: mT0.Add(-3 * time.Minute)},
		{ID: "m_dv", Route: "/r_b", Target: tgt, State: queue.StateDelivered, ReceivedAt: mT0.Add(-2 * time.Minute)},
	}
	for _, e := range envs {
		if err := st.Enqueue(e); err != nil {
			mTmpl.err = fmt.Errorf("fixture enqueue %s: %v", e.ID, err)
			_ = st.Close()
			return
		}
	}
	// lease m_l1 for ~100 years so that it is still leased at the wall-clock time of the call
	resp, err := st.Dequeue(queue.DequeueRequest{Route: "/r_b", Target: tgt, Batch: 1, LeaseTTL: 876000 * time.Hour, Now: mT0})
	if err != nil || len(resp.Items) != 1 || resp.Items[0].ID != "m_l1" {
		mTmpl.err = fmt.Errorf("fixture lease: items=%v err=%v", resp.Items, err)
		_ = st.Close()
		return
	}
	if err := st.Close(); err != nil {
		mTmpl.err = err
		return
	}
	files := map[string]string{
		"Hookaidofile": mCfgBase,
		"other.conf":   mCfgOther,
		"hookaido.pid": mDeadPID,
		"other.pid":    mDeadPID,
	}
	for n, c := range files {
		if err := os.WriteFile(filepath.Join(dir, n), []byte(c), 0o600); err != nil {
			mTmpl.err = err
			return
		}
	}
	stub := "#!/bin/sh\necho \"$@\" >> \"$(dirname \"$0\")/spawned.marker\"\nexit 0\n"
	if err := os.WriteFile(filepath.Join(dir, "stub.sh"), []byte(stub), 0o755); err != nil {
		mTmpl.err = err
		return
	}
	rows, err := dumpQueueRows(dbPath)
	if err != nil {
		mTmpl.err = fmt.Errorf("fixture dump: %v", err)
		return
	}
	if len(rows) != len(envs) {
		mTmpl.err = fmt.Errorf("fixture dump has %d rows, want %d", len(rows), len(envs))
		return
	}
	mTmpl.dbRows = rows
	// the dump may have left -wal/-shm files behind: they are not part of the template
	_ = os.Remove(dbPath + "-wal")
	_ = os.Remove(dbPath + "-shm")
	b, err := os.ReadFile(dbPath)
	if err != nil {
		mTmpl.err = err
		return
	}
	s := sha256.Sum256(b)
	mTmpl.dbSum = hex.EncodeToString(s[:])
}

// dumpQueueRows returns every row of queue_items as text, ordered by id.
func dumpQueueRows(dbPath string) ([]string, error) {
	db, err := sql.Open("sqlite", dbPath)
	if err != nil {
		return nil, err
	}
	defer db.Close()
	rs, err := db.Query("SELECT * FROM queue_items ORDER BY id")
	if err != nil {
		return nil, err
	}
	defer rs.Close()
	cols, err := rs.Columns()
	if err != nil {
		return nil, err
	}
	var out []string
	for rs.Next() {
		vals := make([]any, len(cols))
		ptrs := make([]any, len(cols))
		for i := range vals {
			ptrs[i] = &vals[i]
		}
		if err := rs.Scan(ptrs...); err != nil {
			return nil, err
		}
		var sb strings.Builder
		for i, v := range vals {
			if b, ok := v.([]byte); ok {
				fmt.Fprintf(&sb, "%s=%q|", cols[i], b)
			} else {
				fmt.Fprintf(&sb, "%s=%v|", cols[i], v)
			}
		}
		out = append(out, sb.String())
	}
	return out, rs.Err()
}

type mFixture struct {
	caseDir, root, out, cfg, db, pid, stub string
	oldwd                                  string
}

func copyFile(src, dst string, mode os.FileMode) error {
	b, err := os.ReadFile(src)
	if err != nil {
		return err
	}
	return os.WriteFile(dst, b, mode)
}

func newFixture() (*mFixture, error) {
	mTmplOnce.Do(buildTemplate)
	if mTmpl.err != nil {
		return nil, mTmpl.err
	}
	mCaseSeq++
	caseDir := filepath.Join(verifkit.ScratchDir(), fmt.Sprintf("c%d", mCaseSeq))
	_ = os.RemoveAll(caseDir)
	fx := &mFixture{caseDir: caseDir, root: filepath.Join(caseDir, "root"), out: filepath.Join(caseDir, "outside")}
	fx.cfg = filepath.Join(fx.root, "Hookaidofile")
	fx.db = filepath.Join(fx.root, "hookaido.db")
	fx.pid = filepath.Join(fx.root, "hookaido.pid")
	fx.stub = filepath.Join(fx.root, "stub.sh")
	for _, d := range []string{fx.root, fx.out, filepath.Join(fx.root, "sub")} {
		if err := os.MkdirAll(d, 0o755); err != nil {
			return nil, err
		}
	}
	for _, n := range []string{"Hookaidofile", "other.conf", "hookaido.pid", "other.pid", "hookaido.db"} {
		if err := copyFile(filepath.Join(mTmpl.dir, n), filepath.Join(fx.root, n), 0o600); err != nil {
			return nil, err
		}
	}
	if err := copyFile(filepath.Join(mTmpl.dir, "stub.sh"), fx.stub, 0o755); err != nil {
		return nil, err
	}
	if err := os.WriteFile(filepath.Join(fx.out, "foreign.conf"), []byte(mCfgOther), 0o600); err != nil {
		return nil, err
	}
	if err := os.WriteFile(filepath.Join(fx.out, "foreign.pid"), []byte(mDeadPID), 0o600); err != nil {
		return nil, err
	}
	if err := os.Symlink("Hookaidofile", filepath.Join(fx.root, "link.conf")); err != nil {
		return nil, err
	}
	if err := os.Symlink("hookaido.pid", filepath.Join(fx.root, "pidlink")); err != nil {
		return nil, err
	}
	wd, err := os.Getwd()
	if err != nil {
		return nil, err
	}
	fx.oldwd = wd
	if err := os.Chdir(fx.root); err != nil {
		return nil, err
	}
	return fx, nil
}

func (fx *mFixture) cleanup() {
	if fx.oldwd != "" {
		_ = os.Chdir(fx.oldwd)
	}
	_ = os.RemoveAll(fx.caseDir)
}

// snapshot maps every path under the case directory to a digest of its kind and content.
func (fx *mFixture) snapshot() (map[string]string, error) {
	out := map[string]string{}
	err := filepath.WalkDir(fx.caseDir, func(p string, d fs.DirEntry, err error) error {
		if err != nil {
			return err
		}
		rel, _ := filepath.Rel(fx.caseDir, p)
		info, err := d.Info()
		if err != nil {
			return err
		}
		switch {
		case d.IsDir():
			out[rel] = "dir"
		case info.Mode()&os.ModeSymlink != 0:
			tgt, _ := os.Readlink(p)
			out[rel] = "link:" + tgt
		default:
			b, err := os.ReadFile(p)
			if err != nil {
				return err
			}
			s := sha256.Sum256(b)
			out[rel] = fmt.Sprintf("file:%o:%s", info.Mode().Perm(), hex.EncodeToString(s[:]))
		}
		return nil
	})
	return out, err
}

func treeDiff(a, b map[string]string) []string {
	var out []string
	for k, v := range a {
		if w, ok := b[k]; !ok {
			out = append(out, "-"+k)
		} else if w != v {
			out = append(out, "~"+k)
		}
	}
	for k := range b {
		if _, ok := a[k]; !ok {
			out = append(out, "+"+k)
		}
	}
	sort.Strings(out)
	return out
}

func (fx *mFixture) subst(v any) any {
	rep := strings.NewReplacer("${ROOT}", fx.root, "${OUT}", fx.out, "${CONFIG}", fx.cfg, "${PID}", fx.pid, "${DB}", fx.db)
	var walk func(v any) any
	walk = func(v any) any {
		switch x := v.(type) {
		case string:
			return rep.Replace(x)
		case []any:
			o := make([]any, len(x))
			for i := range x {
				o[i] = walk(x[i])
			}
			return o
		case map[string]any:
			o := make(map[string]any, len(x))
			for k, e := range x {
				o[k] = walk(e)
			}
			return o
		}
		return v
	}
	return walk(v)
}

// resolvePath says where the operating system would look for p when the cwd is the root.
func (fx *mFixture) resolvePath(p string) string {
	if p == "" || strings.ContainsRune(p, 0) {
		return ""
	}
	if !filepath.IsAbs(p) {
		p = filepath.Join(fx.root, p)
	}
	p = filepath.Clean(p)
	if r, err := filepath.EvalSymlinks(p); err == nil {
		return r
	}
	if d, err := filepath.EvalSymlinks(filepath.Dir(p)); err == nil {
		return filepath.Join(d, filepath.Base(p))
	}
	return p
}

// classifyPathArg: absent | null | nonstring | blank | exact | alias | foreign, relative to the
// configured path want (string equality after trimming = exact; same file by another spelling
// or through a symlink = alias; anything else = foreign).
func (fx *mFixture) classifyPathArg(args map[string]any, key, want string) string {
	if args == nil {
		return "absent"
	}
	raw, ok := args[key]
	if !ok {
		return "absent"
	}
	if raw == nil {
		return "null"
	}
	s, ok := raw.(string)
	if !ok {
		return "nonstring"
	}
	ts := strings.TrimSpace(s)
	if ts == "" {
		return "blank"
	}
	if ts == want {
		return "exact"
	}
	real := fx.resolvePath(want)
	if fx.resolvePath(ts) == real || fx.resolvePath(s) == real {
		return "alias"
	}
	return "foreign"
}

// ---------------------------------------------------------------------------------------
// JSON-RPC plumbing: every request goes through Server.Serve with Content-Length framing, the
// same entry `hookaido mcp serve` uses.
// ---------------------------------------------------------------------------------------

type mRPCResult struct {
	RPCErrCode int
	RPCErrMsg  string
	HasRPCErr  bool
	Result     map[string]any
}

func rpcExchange(s *Server, method string, params any) (mRPCResult, error) {
	var res mRPCResult
	req := map[string]any{"jsonrpc": "2.0", "id": 1, "method": method}
	if params != nil {
		req["params"] = params
	}
	body, err := json.Marshal(req)
	if err != nil {
		return res, err
	}
	var out bytes.Buffer
	s.In = strings.NewReader(fmt.Sprintf("Content-Length: %d\r\n\r\n%s", len(body), body))
	s.Out = &out
	if err := s.Serve(context.Background()); err != nil {
		return res, fmt.Errorf("serve: %v", err)
	}
	raw := out.Bytes()
	i := bytes.Index(raw, []byte("\r\n\r\n"))
	if i < 0 {
		return res, fmt.Errorf("no frame in output %q", raw)
	}
	hdr := string(raw[:i])
	n := -1
	for _, line := range strings.Split(hdr, "\r\n") {
		if k, v, ok := strings.Cut(line, ":"); ok && strings.EqualFold(strings.TrimSpace(k), "Content-Length") {
			n, _ = strconv.Atoi(strings.TrimSpace(v))
		}
	}
	payload := raw[i+4:]
	if n != len(payload) {
		return res, fmt.Errorf("frame length %d, payload %d bytes (more than one response?)", n, len(payload))
	}
	var msg struct {
		Result map[string]any `json:"result"`
		Error  *struct {
			Code    int    `json:"code"`
			Message string `json:"message"`
		} `json:"error"`
	}
	if err := json.Unmarshal(payload, &msg); err != nil {
		return res, fmt.Errorf("response json: %v", err)
	}
	if msg.Error != nil {
		res.HasRPCErr = true
		res.RPCErrCode = msg.Error.Code
		res.RPCErrMsg = msg.Error.Message
	}
	res.Result = msg.Result
	return res, nil
}

// buildServer mirrors internal/app/mcp.go (mcpServe): ParseRole first, then NewServer with the
// full option list. A role string the CLI would refuse is handed to WithRole directly: that is
// the only way such a value can reach a Server.
func buildServer(c MCase, fx *mFixture, audit *bytes.Buffer) *Server {
	role, err := ParseRole(c.Role)
	if err != nil {
		role = Role(c.Role)
	}
	cfgPath := fx.cfg
	if c.NoCfg {
		cfgPath = ""
	}
	return NewServer(
		strings.NewReader(""),
		&bytes.Buffer{},
		cfgPath,
		fx.db,
		WithRole(role),
		WithPrincipal(c.Principal),
		WithAuditWriter(audit),
		WithMutationsEnabled(c.Mutations),
		WithRuntimeControlEnabled(c.Runtime),
		WithRuntimeControlPIDFile(fx.pid),
		WithRuntimeControlRunBinary(fx.stub),
		WithRuntimeControlRunWatch(true),
		WithRuntimeControlRunLogLevel("info"),
		WithRuntimeControlRunDotenv(""),
		WithAdminProxyEndpointAllowlist(nil),
	)
}

// ---------------------------------------------------------------------------------------
// Runner
// ---------------------------------------------------------------------------------------

type mOutcome struct {
	Failure *verifkit.Failure
	Labels  []string
	Known   []string
	NonTriv bool
	Skipped string
}

func mfail(prop, clause, sig, format string, a ...any) *verifkit.Failure {
	return &verifkit.Failure{Prop: prop, Clause: clause, Sig: sig, Detail: fmt.Sprintf(format, a...)}
}

func auditLines(buf *bytes.Buffer) []string {
	var out []string
	for _, l := range strings.Split(buf.String(), "\n") {
		if strings.TrimSpace(l) != "" {
			out = append(out, l)
		}
	}
	return out
}

func validRoleName(r string) bool { return r == "read" || r == "operate" || r == "admin" }

func checkAuditRecord(line string, c MCase) string {
	var rec map[string]any
	if err := json.Unmarshal([]byte(line), &rec); err != nil {
		return fmt.Sprintf("audit line is not a JSON object: %v (%q)", err, line)
	}
	str := func(k string) (string, bool) {
		v, ok := rec[k]
		if !ok {
			return "", false
		}
		s, ok := v.(string)
		return s, ok
	}
	ts, ok := str("timestamp")
	if !ok || ts == "" {
		return "audit record without timestamp: " + line
	}
	if _, err := time.Parse(time.RFC3339Nano, ts); err != nil {
		return "audit timestamp is not RFC3339: " + line
	}
	p, ok := str("principal")
	if !ok {
		return "audit record without principal field: " + line
	}
	if principalConfigured(c.Principal) && p != strings.TrimSpace(c.Principal) {
		return fmt.Sprintf("audit principal %q, configured %q", p, strings.TrimSpace(c.Principal))
	}
	role, ok := str("role")
	if !ok || role == "" {
		return "audit record without role: " + line
	}
	if validRoleName(c.Role) && role != c.Role {
		return fmt.Sprintf("audit role %q, configured %q", role, c.Role)
	}
	tool, ok := str("tool")
	if !ok || tool == "" || tool != c.Tool {
		return fmt.Sprintf("audit tool %q, called %q", tool, c.Tool)
	}
	if h, ok := str("input_hash"); !ok || h == "" {
		return "audit record without input_hash: " + line
	}
	if r, ok := str("result"); !ok || r == "" {
		return "audit record without result: " + line
	}
	d, ok := rec["duration_ms"].(float64)
	if !ok || d < 0 {
		return "audit record without duration_ms: " + line
	}
	return ""
}

func runMCase(c MCase, tolerateKnown bool) mOutcome {
	var out mOutcome
	labels := map[string]bool{}
	finish := func(f *verifkit.Failure) mOutcome {
		if f != nil && f.Sig != "" && tolerateKnown && verifkit.Known(f.Sig) {
			out.Known = append(out.Known, f.Sig)
			f = nil
		}
		out.Failure = f
		for l := range labels {
			out.Labels = append(out.Labels, l)
		}
		sort.Strings(out.Labels)
		return out
	}

	v := judgeRow(c.Tool, c.Role, c.Mutations, c.Runtime, c.Principal)
	switch {
	case !v.Known:
		labels["unknown-tool"] = true
	case v.Allowed:
		labels["row:allowed"] = true
	default:
		labels["row:refused"] = true
		if len(v.Failing) == 1 {
			labels["single-gate:"+v.Failing[0]] = true
		} else {
			labels["multi-gate"] = true
		}
	}
	if v.Known && v.Doc.Mutating {
		labels["mutating"] = true
	}
	if !validRoleName(c.Role) {
		labels["garbage-role"] = true
	}
	for i, s := range c.Shape {
		if i == 0 {
			labels["shape:"+s] = true
		} else {
			labels["mut:"+s] = true
		}
	}

	fx, err := newFixture()
	if err != nil {
		return finish(mfail("HARNESS", "fixture", "", "%v", err))
	}
	defer fx.cleanup()

	var args map[string]any
	malformed := c.ArgsRaw != ""
	if c.Args != nil && !malformed {
		args, _ = fx.subst(c.Args).(map[string]any)
	}
	cfgClass := fx.classifyPathArg(args, "path", fx.cfg)
	pidClass := fx.classifyPathArg(args, "pid_file", fx.pid)
	if c.NoCfg {
		labels["no-configured-config-path"] = true
		switch cfgClass {
		case "exact", "alias":
			cfgClass = "foreign" // nothing is configured: every named path is a foreign one
		}
	}
	if v.Known && (v.Doc.CfgWriter || strings.HasPrefix(c.Tool, "config_")) && cfgClass != "absent" {
		labels["config-path:"+cfgClass] = true
		if cfgClass == "foreign" && v.Doc.CfgWriter {
			labels["config-path-foreign"] = true
		}
	}
	if v.Known && v.Doc.RtFlag && pidClass != "absent" {
		labels["pid-file:"+pidClass] = true
	}
	out.NonTriv = (v.Known && len(v.Failing) == 1) || (v.Allowed && v.Doc.Mutating) || (v.Allowed && v.Doc.CfgWriter && cfgClass == "foreign")

	before, err := fx.snapshot()
	if err != nil {
		return finish(mfail("HARNESS", "snapshot", "", "%v", err))
	}
	if !strings.HasSuffix(before["root/hookaido.db"], mTmpl.dbSum) {
		return finish(mfail("HARNESS", "fixture-copy", "", "db copy differs from template"))
	}
	cfgBefore, _ := os.ReadFile(fx.cfg)
	pidBefore, _ := os.ReadFile(fx.pid)
	rowsBefore := mTmpl.dbRows

	var audit bytes.Buffer
	srv := buildServer(c, fx, &audit)

	// ---- tools/list ------------------------------------------------------------------
	lr, err := rpcExchange(srv, "tools/list", nil)
	if err != nil {
		return finish(mfail("HARNESS", "rpc-list", "", "%v", err))
	}
	if lr.HasRPCErr {
		return finish(mfail("C20", "list-error", "", "tools/list answered JSON-RPC error %d %q", lr.RPCErrCode, lr.RPCErrMsg))
	}
	var listed []string
	if tl, ok := lr.Result["tools"].([]any); ok {
		for _, t := range tl {
			if m, ok := t.(map[string]any); ok {
				if n, ok := m["name"].(string); ok {
					listed = append(listed, n)
				}
			}
		}
	}
	sort.Strings(listed)
	want := expectedToolList(c.Role, c.Mutations, c.Runtime, c.Principal)
	if !reflect.DeepEqual(listed, want) && !(len(listed) == 0 && len(want) == 0) {
		var extra, missing []string
		ws, ls := map[string]bool{}, map[string]bool{}
		for _, n := range want {
			ws[n] = true
		}
		for _, n := range listed {
			if ls[n] {
				extra = append(extra, n+"(dup)")
			}
			ls[n] = true
			if !ws[n] {
				extra = append(extra, n)
			}
		}
		for _, n := range want {
			if !ls[n] {
				missing = append(missing, n)
			}
		}
		return finish(mfail("C20", "list-mismatch", "", "role=%q mutations=%v runtime=%v principal=%q: tools/list advertises %v that the documented table refuses and omits %v that it allows", c.Role, c.Mutations, c.Runtime, c.Principal, extra, missing))
	}
	if n := len(auditLines(&audit)); n != 0 {
		return finish(mfail("C20", "audit-on-list", "", "tools/list wrote %d audit line(s)", n))
	}

	// ---- tools/call ------------------------------------------------------------------
	params := map[string]any{"name": c.Tool}
	if args != nil {
		params["arguments"] = args
	}
	if malformed {
		raw, _ := fx.subst(c.ArgsRaw).(string)
		if !json.Valid([]byte(raw)) {
			return finish(mfail("HARNESS", "case", "", "args_raw is not JSON: %q", raw))
		}
		params["arguments"] = json.RawMessage(raw)
	}
	cr, err := rpcExchange(srv, "tools/call", params)
	if err != nil {
		return finish(mfail("HARNESS", "rpc-call", "", "%v", err))
	}
	after, err := fx.snapshot()
	if err != nil {
		return finish(mfail("HARNESS", "snapshot", "", "%v", err))
	}
	diff := treeDiff(before, after)
	cfgAfter, cfgErr := os.ReadFile(fx.cfg)
	pidAfter, _ := os.ReadFile(fx.pid)
	rowsAfter, err := dumpQueueRows(fx.db)
	if err != nil {
		rowsAfter = []string{"<unreadable: " + err.Error() + ">"}
	}
	queueChanged := !reflect.DeepEqual(rowsBefore, rowsAfter)
	cfgChanged := cfgErr != nil || !bytes.Equal(cfgBefore, cfgAfter)
	pidChanged := !bytes.Equal(pidBefore, pidAfter)
	_, spawned := after["root/spawned.marker"]

	isErr := false
	text := ""
	kind := "success"
	switch {
	case cr.HasRPCErr:
		isErr, text, kind = true, cr.RPCErrMsg, "rpc-error"
	default:
		if b, _ := cr.Result["isError"].(bool); b {
			isErr = true
			kind = "tool-error"
		}
		if cs, ok := cr.Result["content"].([]any); ok && len(cs) > 0 {
			if m, ok := cs[0].(map[string]any); ok {
				text, _ = m["text"].(string)
			}
		}
		if isErr && isGatingText(text) {
			kind = "gating"
		}
	}
	gateRefused := kind == "gating" || kind == "rpc-error"
	labels["result:"+kind] = true
	if queueChanged {
		labels["effect:queue"] = true
		if v.Known && !v.Doc.Mutating {
			labels["nonmutating-tool-changed-queue"] = true
		}
	}
	if cfgChanged {
		labels["effect:config"] = true
	}
	if pidChanged {
		labels["effect:pid"] = true
	}
	if spawned {
		labels["effect:spawn"] = true
	}
	row := fmt.Sprintf("tool=%q role=%q mutations=%v runtime=%v principal=%q", c.Tool, c.Role, c.Mutations, c.Runtime, c.Principal)
	effects := func() string {
		return fmt.Sprintf("tree-diff=%v queue-changed=%v config-changed=%v pid-changed=%v spawned=%v", diff, queueChanged, cfgChanged, pidChanged, spawned)
	}
	anyEffect := len(diff) > 0 || queueChanged || cfgChanged || pidChanged || spawned

	// (b) refused with a gating error <=> not allowed
	if !v.Allowed && !gateRefused {
		return finish(mfail("C20", "gate-not-enforced", "", "%s: failing gate(s) %v, but the call was not refused by gating (%s: %.200q); %s", row, v.Failing, kind, text, effects()))
	}
	if v.Allowed && gateRefused && !malformed {
		return finish(mfail("C20", "allowed-but-refused", "", "%s: every documented gate passes, but the call was refused: %.200q", row, text))
	}
	// (c)/(d) refused => no effect
	if (!v.Allowed || gateRefused) && anyEffect {
		return finish(mfail("C20", "refused-with-effect", "", "%s: refused (%.120q) but %s", row, text, effects()))
	}

	// actor binding
	if v.Allowed && v.Doc.Mutating && args != nil {
		if raw, ok := args["actor"]; ok {
			p := strings.TrimSpace(c.Principal)
			cls := "mismatch"
			switch a := raw.(type) {
			case nil:
				cls = "null"
			case string:
				switch {
				case strings.TrimSpace(a) == "":
					cls = "blank"
				case a == p:
					cls = "equal"
				case strings.TrimSpace(a) == p:
					cls = "padded" // the text leaves open whether surrounding blanks count: not judged
				}
			}
			labels["actor:"+cls] = true
			if cls == "padded" {
				if isErr {
					labels["actor-padded:rejected"] = true
				} else {
					labels["actor-padded:accepted"] = true
				}
			}
			if cls == "mismatch" && (!isErr || anyEffect) {
				return finish(mfail("C20", "actor-mismatch-ran", "", "%s actor=%#v: error=%v (%.160q); %s", row, raw, isErr, text, effects()))
			}
		}
	}

	// config confinement
	if v.Allowed && v.Doc.CfgWriter {
		if cfgClass == "foreign" && (!isErr || anyEffect) {
			return finish(mfail("C20", "config-path-confinement", "", "%s path=%#v (resolves to %q, configured %q): error=%v (%.160q); %s", row, args["path"], fx.resolvePath(strings.TrimSpace(fmt.Sprint(args["path"]))), fx.cfg, isErr, text, effects()))
		}
		for _, d := range diff {
			switch d[1:] {
			case "root/Hookaidofile", "root/hookaido.db", "root/hookaido.db-wal", "root/hookaido.db-shm":
			default:
				return finish(mfail("C20", "config-write-elsewhere", "", "%s args=%s: a config-writing tool touched %v", row, mustJSON(c.Args), diff))
			}
		}
		if queueChanged || pidChanged || spawned {
			return finish(mfail("C20", "config-write-elsewhere", "", "%s: a config-writing tool changed more than the config file: %s", row, effects()))
		}
	}
	if cfgChanged {
		if cfgErr != nil {
			return finish(mfail("C20", "config-written-invalid", "", "%s: config file unreadable after the call: %v", row, cfgErr))
		}
		if err := compileOK(cfgAfter); err != nil {
			return finish(mfail("C20", "config-written-invalid", "", "%s: config file was rewritten with content that fails %v", row, err))
		}
		labels["wrote-config-valid"] = true
	}

	// audit
	lines := auditLines(&audit)
	switch {
	case malformed:
		// a request whose arguments are no object is rejected by the protocol layer; whether that
		// counts as a "mutating call" is left open by the text: 0 or 1 record accepted
		if len(lines) > 1 {
			return finish(mfail("C20", "audit-count", "", "%s: %d audit lines for one call", row, len(lines)))
		}
		labels[fmt.Sprintf("audit-malformed:%d", len(lines))] = true
	case !v.Known:
		// the text says nothing about calls to names that are no tool: 0 or 1 record accepted
		if len(lines) > 1 {
			return finish(mfail("C20", "audit-count", "", "%s: %d audit lines for one call", row, len(lines)))
		}
		labels[fmt.Sprintf("audit-unknown:%d", len(lines))] = true
	case v.Doc.Mutating:
		if len(lines) != 1 {
			return finish(mfail("C20", "audit-count", "", "%s (result %s: %.120q): %d audit lines for one mutating call, want 1", row, kind, text, len(lines)))
		}
		if msg := checkAuditRecord(lines[0], c); msg != "" {
			return finish(mfail("C20", "audit-fields", "", "%s: %s", row, msg))
		}
		labels["audit:1"] = true
		var rec map[string]any
		_ = json.Unmarshal([]byte(lines[0]), &rec)
		if r, ok := rec["result"].(string); ok {
			labels["audit-result:"+r] = true
		}
	default:
		if len(lines) != 0 {
			return finish(mfail("C20", "audit-nonmutating", "", "%s: %d audit line(s) for a non-mutating call: %.200q", row, len(lines), lines[0]))
		}
	}
	return finish(nil)
}

func mustJSON(v any) string {
	b, err := json.Marshal(v)
	if err != nil {
		return "<" + err.Error() + ">"
	}
	return string(b)
}
