//go:build verif

package mcp

import (
	"regexp"
	"sort"
	"strings"
)

// ---------------------------------------------------------------------------------------
// Independent gating table for C20.
//
// Every row is transcribed from the DOCUMENTATION, not from the switch statements in
// server.go:
//
//   D = /repo/docs/mcp.md         (tool reference tables: tool -> role)
//   S = /repo/internal/mcp/spec.md (per-tool headers "(requires --enable-...)" and the
//                                   "Guardrails (Implemented)" section)
//
//   role      D "Tool Reference" tables, column "Role" (line cited per row).
//   mutFlag   S section header of the tool says "(requires `--enable-mutations`)";
//             S:751 "Mutation tools are disabled by default and only enabled with
//             --enable-mutations"; D:31.
//   rtFlag    S section header says "(requires `--enable-runtime-control`)"; S:752; D:33
//             (D:33 enumerates only start/stop/reload in its parenthesis, S:693 and S:708
//             put the flag on instance_status / instance_logs_tail as well and S:16 says the
//             runtime inspect tools are available "when the corresponding feature flags are
//             enabled": the table follows S, the more specific text).
//   mutating  "mutating tool" in the sense of D:31 / S:18 / S:757 (principal required) and
//             S:759-765 (audit record): the queue mutation tools (D:85-97), the management
//             mutation tools (D:99-104), config_apply (S:761 "config-lifecycle mutation
//             tools") and the runtime process-control tools instance_start|stop|reload
//             (S:762 lists them under "Mutating tool calls emit ... audit events"; the CLI
//             help of --principal reads "bound to MCP mutation/runtime-control audit
//             events"). instance_status / instance_logs_tail are "runtime inspect tools"
//             (D:28, S:16) and the D:71-83 tools are "Read Tools": not mutating.
//   cfgWriter tools that write the config file: config_apply (D:59 "atomic write"),
//             management_endpoint_upsert/delete (S:257 / S:294 "... in/from Hookaidofile").
// ---------------------------------------------------------------------------------------

type docTool struct {
	Name      string
	Role      string // minimum role: read | operate | admin
	MutFlag   bool   // needs --enable-mutations
	RtFlag    bool   // needs --enable-runtime-control
	Mutating  bool   // needs a principal, binds actor, is audited
	CfgWriter bool   // may write the config file
}

var docTools = []docTool{
	// docs/mcp.md:54-59 "Config Tools"
	{Name: "config_parse", Role: "read"},                                                  // D:54
	{Name: "config_validate", Role: "read"},                                               // D:55
	{Name: "config_compile", Role: "read"},                                                // D:56
	{Name: "config_fmt_preview", Role: "read"},                                            // D:57
	{Name: "config_diff", Role: "read"},                                                   // D:58
	{Name: "config_apply", Role: "admin", MutFlag: true, Mutating: true, CfgWriter: true}, // D:59, S:101, S:756, S:761
	// docs/mcp.md:75-83 "Queue/Admin Read Tools"
	{Name: "admin_health", Role: "read"},          // D:75
	{Name: "management_model", Role: "read"},      // D:76
	{Name: "dlq_list", Role: "read"},              // D:77
	{Name: "messages_list", Role: "read"},         // D:78
	{Name: "attempts_list", Role: "read"},         // D:79
	{Name: "backlog_top_queued", Role: "read"},    // D:80
	{Name: "backlog_oldest_queued", Role: "read"}, // D:81
	{Name: "backlog_aging_summary", Role: "read"}, // D:82
	{Name: "backlog_trends", Role: "read"},        // D:83
	// docs/mcp.md:89-97 "Queue Mutation Tools"
	{Name: "dlq_requeue", Role: "operate", MutFlag: true, Mutating: true},                // D:89, S:404
	{Name: "dlq_delete", Role: "operate", MutFlag: true, Mutating: true},                 // D:90, S:423
	{Name: "messages_publish", Role: "operate", MutFlag: true, Mutating: true},           // D:91, S:499
	{Name: "messages_cancel", Role: "operate", MutFlag: true, Mutating: true},            // D:92, S:442
	{Name: "messages_requeue", Role: "operate", MutFlag: true, Mutating: true},           // D:93, S:461
	{Name: "messages_resume", Role: "operate", MutFlag: true, Mutating: true},            // D:94, S:480
	{Name: "messages_cancel_by_filter", Role: "operate", MutFlag: true, Mutating: true},  // D:95, S:563
	{Name: "messages_requeue_by_filter", Role: "operate", MutFlag: true, Mutating: true}, // D:96, S:603
	{Name: "messages_resume_by_filter", Role: "operate", MutFlag: true, Mutating: true},  // D:97, S:643
	// docs/mcp.md:103-104 "Management Mutation Tools"
	{Name: "management_endpoint_upsert", Role: "admin", MutFlag: true, Mutating: true, CfgWriter: true}, // D:103, S:256, S:756
	{Name: "management_endpoint_delete", Role: "admin", MutFlag: true, Mutating: true, CfgWriter: true}, // D:104, S:293, S:756
	// docs/mcp.md:110-114 "Runtime Control Tools"
	{Name: "instance_status", Role: "operate", RtFlag: true},               // D:110, S:693, D:28
	{Name: "instance_logs_tail", Role: "operate", RtFlag: true},            // D:111, S:708, D:28
	{Name: "instance_start", Role: "admin", RtFlag: true, Mutating: true},  // D:112, S:682, S:756, S:762
	{Name: "instance_stop", Role: "admin", RtFlag: true, Mutating: true},   // D:113, S:720, S:756, S:762
	{Name: "instance_reload", Role: "admin", RtFlag: true, Mutating: true}, // D:114, S:735, S:756, S:762
}

// Names that are documented nowhere: near misses of real names and invented ones.
var undocumentedNames = []string{
	"",
	"   ",
	"CONFIG_APPLY",
	"Config_Parse",
	"config_parse ",
	" dlq_requeue",
	"config_apply\n",
	"instance_restart",
	"messages_delete",
	"dlq_requeue_by_filter",
	"config-apply",
	"tools/list",
	"made_up_tool",
}

var (
	mRoles      = []string{"read", "operate", "admin", "root"} // "root" is not a role: ParseRole rejects it
	mPrincipals = []string{"", "ops@example.test", "   "}      // absent, present, blank (= absent)
)

const mPrincipal = "ops@example.test"

func lookupDocTool(name string) (docTool, bool) {
	for _, d := range docTools {
		if d.Name == name {
			return d, true
		}
	}
	return docTool{}, false
}

// docRank: read < operate < admin (D:25-29). Anything else is no role at all; the constructor
// falls back to the default role of the CLI flag (D:41 default `read`), so it may never grant
// more than read.
func docRank(role string) int {
	switch role {
	case "admin":
		return 3
	case "operate":
		return 2
	default:
		return 1
	}
}

// mRow is one line of the finite gating table.
type mRow struct {
	Tool      string
	Role      string
	Mutations bool
	Runtime   bool
	Principal string
}

type mVerdict struct {
	Known   bool
	Doc     docTool
	Allowed bool
	Failing []string // gates that fail: unknown | role | mutations | runtime | principal
}

func principalConfigured(p string) bool { return strings.TrimSpace(p) != "" }

func judgeRow(tool, role string, mutations, runtime bool, principal string) mVerdict {
	d, ok := lookupDocTool(tool)
	if !ok {
		return mVerdict{Failing: []string{"unknown"}}
	}
	v := mVerdict{Known: true, Doc: d}
	if docRank(role) < docRank(d.Role) {
		v.Failing = append(v.Failing, "role")
	}
	if d.MutFlag && !mutations {
		v.Failing = append(v.Failing, "mutations")
	}
	if d.RtFlag && !runtime {
		v.Failing = append(v.Failing, "runtime")
	}
	if d.Mutating && !principalConfigured(principal) {
		v.Failing = append(v.Failing, "principal")
	}
	v.Allowed = len(v.Failing) == 0
	return v
}

func expectedToolList(role string, mutations, runtime bool, principal string) []string {
	var out []string
	for _, d := range docTools {
		if judgeRow(d.Name, role, mutations, runtime, principal).Allowed {
			out = append(out, d.Name)
		}
	}
	sort.Strings(out)
	return out
}

func allRows() []mRow {
	var names []string
	for _, d := range docTools {
		names = append(names, d.Name)
	}
	names = append(names, undocumentedNames...)
	var rows []mRow
	for _, n := range names {
		for _, role := range mRoles {
			for _, mut := range []bool{false, true} {
				for _, rt := range []bool{false, true} {
					for _, p := range mPrincipals {
						rows = append(rows, mRow{Tool: n, Role: role, Mutations: mut, Runtime: rt, Principal: p})
					}
				}
			}
		}
	}
	return rows
}

// Gating refusals are recognised by the fixed texts of toolAccessError; everything else that
// fails is a post-gating (argument / execution) error.
var gatingRe = regexp.MustCompile(`^(unknown tool "|tool "(?s:.*)" (is disabled \(start server with --enable-(mutations|runtime-control)\)|is not permitted for role |requires configured MCP principal))`)

func isGatingText(msg string) bool { return gatingRe.MatchString(msg) }
