"""Table fragment of the push engine (C06, C16, C17); merged by checks_table.py."""

ENGINES = {
    "push": {"pkg": "internal/dispatcher", "dir": "harness/push", "replay": "TestReplay_Push"},
}

_MAPPING = ("compiled config is mapped to dispatcher.RouteConfig / EgressPolicy by copies of buildDispatchRoutes / mapEgressRules / the policy literal of "
            "internal/app/run.go (package dispatcher cannot import package app); a source-hash guard turns any change of the originals into an inconclusive run")

PROPS = {
    "C06": {
        "rule": "table tier: retry configs drawn as Hookaidofile text through the real Parse+Compile (accepted set = whatever the compiler accepts), "
                "rows status 100-599 x error kinds {none, ctx timeout, net timeout, refused, DNS, ErrPolicyDenied bare/wrapped/in url.Error, signing} x attempt in "
                "{1, max-1, max, max+1, max+2, 63, 64, 65, 1026, 10^6, small}; each row = one leased message on a real MemoryStore through handleDelivery, "
                "judged against the statement's table and the delay interval [d0(1-j), d0(1+j)], d0=min(base*2^(a-1),cap) in exact integer arithmetic "
                "(tolerance 1e-9 relative + 1 ns), plus exactly one matching attempt record; 1 case in 8 sweeps every status x every attempt selector. "
                "lifecycle tier: the real runRoute loop on a fake clock (memory and SQLite) with per-target behaviour scripts, 1-3 targets, 1-6 messages, "
                "per-item / batch / batch-with-one-injected-failure / store-without-batch mutation paths, operator RequeueDead rounds, in one case of three the stop signal of "
                "Drain arriving during the k-th Deliver call (every result obtained so far must be applied before the loop returns, the unsent rest goes back to the queue, a new dispatcher takes over); every lease mutation is "
                "checked against the table when it is applied; <= max+1 Deliver calls per message per cycle, terminal state delivered/removed or dead with the "
                "table's reason, one attempt record per Deliver call; non-trivial (lifecycle) = a retry followed by a different outcome class; table cases with "
                "an accepted config are all non-trivial; distinct by SHA-256 of the case JSON. "
                "real-deliverer tier: C16's delivery worlds (the real HTTPDeliverer with a compiled egress policy, scripted redirect chains of 0-11 hops, final "
                "status from 101-599) run through handleDelivery: a denial on the first or any later hop must surface as ErrPolicyDenied and settle as "
                "dead:policy_denied with exactly one attempt record, an answered delivery must settle by the table for the status of its last answer; "
                "non-trivial = a denial, a followed redirect or a non-2xx last answer",
        "assumptions": [SAMPLED, _MAPPING,
                        "lease mutations on the store succeed (as the statement says); the injected batch failure applies nothing before it fails",
                        "1xx/3xx answers and signing errors: the statement only says they are not success; retry-while-attempt<=max or any non-empty dead reason is accepted",
                        "a result carrying both an error and a status is contradictory; either reading is accepted",
                        "jitter uses the process-global math/rand; only the interval is asserted (the lifecycle runner seeds it per case for reproducibility)",
                        "a jitter the compiler accepts outside [0,1] (NaN) is outside the quantifier: classification is judged, the delay interval is not"],
        "parts": [{"engine": "push", "test": "TestProp_C06_Table", "quick": 16000, "thorough": 160000, "shards": {"quick": 8, "thorough": 16}},
                  {"engine": "push", "test": "TestProp_C06_Lifecycle", "quick": 24000, "thorough": 160000, "shards": {"quick": 16, "thorough": 16}},
                  {"engine": "push", "test": "TestProp_C06_RealDeliverer", "quick": 6000, "thorough": 200000, "shards": {"quick": 4, "thorough": 16}},
                  {"engine": "push", "test": "TestProp_C06_Live", "thorough": 4000, "tiers": ["thorough"]}],
        "guards": ["path:per-item", "path:batch", "path:batch-fallback", "retry-then-delivered", "retry-then-dead", "requeue-cycle", "backend:sqlite",
                   "dead:max_retries", "dead:no_retry", "dead:policy_denied", "sweep"],
    },
    "C16": {
        "rule": "policy drawn as Hookaidofile text (https_only / redirects / dns_rebind_protection spellings, allow+deny lists of hosts, *, *.d, IPs, CIDRs v4/v6) "
                "through the real compiler; URL strings from a hostile pool (schemes, userinfo tricks, sibling-suffix/upper-case/trailing-dot hosts, IP literals incl. "
                "mapped/zone/expanded forms, numeric IPv4 spellings, ports, paths), scripted resolver answers of 0-4 boundary addresses or an error, redirect chains "
                "of 0-11 hops served by a recording RoundTripper. Independent evaluator with netip prefix tables for exactly loopback/private/link-local/multicast/"
                "unspecified after un-mapping, deny before allow, allowlist needs the host or one address. Soundness only: every request the transport saw went to a "
                "URL the evaluator does not deny; a denied hop yields ErrPolicyDenied and (classification path) dead policy_denied at attempt 1 with one attempt record; "
                "redirects off => at most one request. Over-denial is only counted. non-trivial = decision turns on a resolved address of a non-literal host, or a "
                "deny/allow overlap, or the denial happens at hop >= 1",
        "assumptions": [SAMPLED, _MAPPING,
                        "the check-then-connect DNS TOCTOU is outside the statement ('at the time of the check')",
                        "when addresses are needed and the scripted resolver fails or returns none, only 'no request and some error' is required (a DNS failure is a network error under C06)",
                        "rule spellings the statement does not define (IPv4-mapped IP/CIDR rules, IPv6 prefixes covering ::ffff:0:0/96 against IPv4 addresses, hosts with two trailing dots) are three-valued: never judged",
                        "unparsable URLs and URLs without a host: only 'no request and some error' is required",
                        "the scripted resolver answers 'no such host' for strings that are not DNS names (as net.Resolver does without asking anybody): a request whose host "
                        "net/http normalised to empty ('http://::' is checked as host ':' and dialled as ':80' = the local machine) is judged only under dns_rebind_protection, "
                        "where the production resolver can never let it through"],
        "parts": [{"engine": "push", "test": "TestProp_C16_Policy", "quick": 480000, "thorough": 2400000, "shards": {"quick": 8, "thorough": 16}},
                  {"engine": "push", "test": "TestProp_C16_Deliver", "quick": 240000, "thorough": 1200000, "shards": {"quick": 8, "thorough": 16}},
                  {"engine": "push", "test": "TestProp_C16_FuzzShape", "quick": 120000, "thorough": 600000, "shards": {"quick": 4, "thorough": 16}},
                  {"engine": "push", "test": "Fuzz_C16", "quick": 1, "thorough": 1, "native": True, "shards": {"quick": 1, "thorough": 1}, "fuzz_seconds": {"thorough": 120}}],
        "guards": ["allowed-delivery", "allowed", "denied", "redirect-followed", "nt:denied-at-later-hop", "nt:address-decides", "nt:deny-allow-overlap"],
    },
    "C17": {
        "rule": "config text with a secrets block (1-5 versions, windows on a 1 h lattice +0.5 s fractions so that adjacent/overlapping/nested/equal-valid_from "
                "shapes are frequent, with/without valid_until, RFC3339 with offsets) and a deliver target with sign hmac (secret_ref lists in any order, one-line and "
                "repeated form, direct raw:/env: form, secret_selection, custom header names), secrets raw: and env: (set/unset per case); body bytes arbitrary; URL "
                "paths with escapes/UTF-8/query/fragment; HTTPDeliverer.Now at each window boundary +-{0, 1 ns, 0.5 s, 1 s, 30 min}; a new HTTPDeliverer per case. "
                "Oracle: valid <=> from <= t < until, newest/oldest by valid_from, and HMAC-SHA256 recomputed over the request as serialised for the wire "
                "(method, request-target path, timestamp header, body read back); no valid / unloadable => zero requests and an error. Select tier: "
                "selectSigningSecretRef, isSigningSecretVersionValidAt and secrets.Version.IsValidAt / Set.ValidAt / Set.SigningAt against the same rule at +-1 ns. "
                "non-trivial = >= 2 versions valid at the instant or the instant within 1 s of a boundary",
        "assumptions": [SAMPLED, _MAPPING,
                        "outbound half and the pure functions of internal/secrets only; the inbound HTTP half is checked by another engine",
                        "only the first hop is specified (signatures on redirected hops are not judged)",
                        "'ties by id': the statement gives no direction; the smallest and the largest id of the tied group are both accepted",
                        "'signing time' is the instant Now() returned; when the instant truncated to the second (the value in the header) selects differently, both are accepted"],
        "parts": [{"engine": "push", "test": "TestProp_C17_Sign", "quick": 320000, "thorough": 1600000, "shards": {"quick": 8, "thorough": 16}},
                  {"engine": "push", "test": "TestProp_C17_SignSequence", "quick": 60000, "thorough": 600000, "shards": {"quick": 4, "thorough": 16}},
                  {"engine": "push", "test": "TestProp_C17_Select", "quick": 320000, "thorough": 1600000, "shards": {"quick": 8, "thorough": 16}}],
        "guards": ["signed-ok", "no-valid-version", "secret-unloadable", "nt:>=2-valid", "at-boundary-exactly", "tie-on-valid_from", "path-with-escapes"],
    },
    "C03": {
        "rule": "dispatcher tier: (1) lease budget - for generated target timeouts / concurrency / slack the lease TTL the dispatcher requests must exceed "
                "dequeue batch x slowest target timeout (computed with the dispatcher's own routeDequeueBatch/routeLeaseTTL); (2) live PushDispatcher with 1-8 "
                "workers, 1-2 targets, memory or SQLite, targets that hold a request 0-3 ms and fail the first 0-2 attempts: never two Deliver calls for one "
                "message in flight at once, never a delivery after a 2xx",
        "assumptions": ["the live tier runs in real time: interleavings are sampled; no timing value is a correctness signal (a budget overrun is inconclusive)"],
        "guards": ["batch>1", "concurrency-8"],
        "parts": [{"engine": "push", "test": "TestProp_C03_LeaseBudget", "quick": 5000, "thorough": 200000},
                  {"engine": "push", "test": "TestProp_C03_LiveDispatcher", "quick": 120, "thorough": 4000, "shards": {"quick": 4}, "shrinktime": "10s"}],
    },
}
