//go:build verif

package dispatcher

import (
	"context"
	"fmt"
	"sync"
	"testing"
	"time"

	"github.com/nuetzliches/hookaido/internal/queue"
	"github.com/nuetzliches/hookaido/internal/verifkit"
	"pgregory.net/rapid"
)

// ---------------------------------------------------------------------------------------
// C03, dispatcher tier. (1) Lease budget: for every route shape the dispatcher computes, the
// lease it requests must outlast a whole sequential micro-batch (batch x slowest target timeout),
// otherwise a message is re-leased while it is still being delivered. (2) A live dispatcher with
// 1-8 workers per route and slow scripted targets never has two Deliver calls for one message in
// flight at the same time and never delivers a message again after a 2xx.
// ---------------------------------------------------------------------------------------

type C03BudgetCase struct {
	TimeoutsMs  []int `json:"timeouts_ms"` // per target; 0: default
	Concurrency int   `json:"concurrency"`
	SlackMs     int   `json:"slack_ms"`
}

func runC03Budget(c C03BudgetCase) *pOutcome {
	out := newPOutcome()
	var targets []TargetConfig
	maxTimeout := time.Duration(0)
	for i, ms := range c.TimeoutsMs {
		t := time.Duration(ms) * time.Millisecond
		targets = append(targets, TargetConfig{URL: fmt.Sprintf("https://t%d.example/x", i), Timeout: t})
		eff := t
		if eff <= 0 {
			eff = 10 * time.Second // documented default target timeout
		}
		if eff > maxTimeout {
			maxTimeout = eff
		}
	}
	conc := c.Concurrency
	if conc <= 0 {
		conc = 1
	}
	slack := time.Duration(c.SlackMs) * time.Millisecond
	if slack <= 0 {
		slack = 30 * time.Second
	}
	// exactly what Start() computes
	batch := routeDequeueBatch(conc, len(targets))
	ttl := routeLeaseTTL(targets, slack, batch)
	if batch < 1 {
		out.Failure = pFail("C03", "dequeue-batch", 0, "routeDequeueBatch(%d,%d) = %d", conc, len(targets), batch)
		return out
	}
	need := maxTimeout * time.Duration(batch)
	if ttl <= need {
		out.Failure = pFail("C03", "lease-shorter-than-micro-batch", 0, "targets %v concurrency %d: dequeue batch %d x slowest timeout %s = %s, but the dispatcher leases for only %s: the last message of a micro-batch can be re-leased while the first is still being delivered",
			c.TimeoutsMs, conc, batch, maxTimeout, need, ttl)
		return out
	}
	if batch > 1 {
		out.NonTriv = true
		out.label("batch>1")
	}
	if need > 30*time.Second {
		out.label("budget-above-floor")
	}
	return out
}

func TestProp_C03_LeaseBudget(t *testing.T) {
	gen := rapid.Custom(func(t *rapid.T) C03BudgetCase {
		n := rapid.IntRange(1, 3).Draw(t, "ntargets")
		var c C03BudgetCase
		for i := 0; i < n; i++ {
			c.TimeoutsMs = append(c.TimeoutsMs, rapid.SampledFrom([]int{0, 1, 1000, 7500, 10000, 29999, 30000, 60000, 600000}).Draw(t, "timeout"))
		}
		c.Concurrency = rapid.SampledFrom([]int{0, 1, 2, 3, 4, 8, 20, 100}).Draw(t, "concurrency")
		c.SlackMs = rapid.SampledFrom([]int{0, 1, 1000, 30000}).Draw(t, "slack")
		return c
	})
	rapid.Check(t, func(rt *rapid.T) {
		c := gen.Draw(rt, "case")
		out := runC03Budget(c)
		pEmit("C03", "TestProp_C03_LeaseBudget", c, out)
		if out.Failure != nil {
			verifkit.SaveFailing("TestProp_C03_LeaseBudget", c, out.Failure)
			rt.Fatalf("%v", out.Failure)
		}
	})
}

// ---- live dispatcher: no overlapping deliveries of one message

type C03LiveCase struct {
	Backend     string `json:"backend"`
	Msgs        int    `json:"msgs"`
	Concurrency int    `json:"concurrency"`
	Targets     int    `json:"targets"`
	HoldMs      int    `json:"hold_ms"`    // how long the target sits on a request
	FailFirst   int    `json:"fail_first"` // first k requests per message answer 503
}

type overlapDeliverer struct {
	mu        sync.Mutex
	inflight  map[string]int
	done      map[string]bool
	calls     map[string]int
	violation string
	hold      time.Duration
	failFirst int
}

func (d *overlapDeliverer) Deliver(ctx context.Context, dl Delivery) Result {
	key := dl.ID + "|" + dl.Target
	d.mu.Lock()
	d.inflight[key]++
	d.calls[key]++
	n := d.calls[key]
	if d.inflight[key] > 1 && d.violation == "" {
		d.violation = fmt.Sprintf("two deliveries of message %s to %s in flight at the same time", dl.ID, dl.Target)
	}
	if d.done[key] && d.violation == "" {
		d.violation = fmt.Sprintf("message %s delivered to %s again after it was answered 2xx", dl.ID, dl.Target)
	}
	d.mu.Unlock()
	time.Sleep(d.hold)
	d.mu.Lock()
	d.inflight[key]--
	code := 200
	if n <= d.failFirst {
		code = 503
	} else {
		d.done[key] = true
	}
	d.mu.Unlock()
	return Result{StatusCode: code}
}

func runC03Live(c C03LiveCase) *pOutcome {
	out := newPOutcome()
	var st queue.Store
	switch c.Backend {
	case "sqlite":
		s, err := queue.NewSQLiteStore(fmt.Sprintf("%s/c03live-%d.db", verifkit.ScratchDir(), time.Now().UnixNano()), queue.WithSQLiteCheckpointInterval(0))
		if err != nil {
			out.Failure = pFail("HARNESS", "open", 0, "%v", err)
			return out
		}
		defer s.Close()
		st = s
	default:
		st = queue.NewMemoryStore()
	}
	var targets []TargetConfig
	for i := 0; i < c.Targets; i++ {
		targets = append(targets, TargetConfig{URL: fmt.Sprintf("https://t%d.example/x", i), Timeout: 2 * time.Second,
			Retry: RetryConfig{Max: 5, Base: time.Millisecond, Cap: 2 * time.Millisecond}})
	}
	for i := 0; i < c.Msgs; i++ {
		for _, tg := range targets {
			_ = st.Enqueue(queue.Envelope{ID: fmt.Sprintf("m%d-%s", i, tg.URL[8:10]), Route: "/r", Target: tg.URL, Payload: []byte("p")})
		}
	}
	dl := &overlapDeliverer{inflight: map[string]int{}, done: map[string]bool{}, calls: map[string]int{}, hold: time.Duration(c.HoldMs) * time.Millisecond, failFirst: c.FailFirst}
	d := &PushDispatcher{Store: st, Deliverer: dl, Routes: []RouteConfig{{Route: "/r", Targets: targets, Concurrency: c.Concurrency}}, MaxWait: 20 * time.Millisecond}
	d.Start()
	want := c.Msgs * c.Targets
	deadline := time.Now().Add(30 * time.Second)
	for time.Now().Before(deadline) {
		dl.mu.Lock()
		n := len(dl.done)
		v := dl.violation
		dl.mu.Unlock()
		if n >= want || v != "" {
			break
		}
		time.Sleep(2 * time.Millisecond)
	}
	d.Drain(10 * time.Second)
	dl.mu.Lock()
	defer dl.mu.Unlock()
	if dl.violation != "" {
		out.Failure = pFail("C03", "overlapping-delivery", 0, "%s (concurrency %d, %d targets, hold %dms)", dl.violation, c.Concurrency, c.Targets, c.HoldMs)
		return out
	}
	if len(dl.done) < want {
		// a time budget overrun is inconclusive for this case, never a verdict
		out.Skipped = fmt.Sprintf("live budget: %d of %d deliveries completed within 30s", len(dl.done), want)
		out.label("inconclusive-time-budget")
		return out
	}
	if c.Concurrency >= 2 {
		out.NonTriv = true
	}
	out.label(fmt.Sprintf("concurrency-%d", c.Concurrency))
	out.label("backend-" + c.Backend)
	return out
}

func TestProp_C03_LiveDispatcher(t *testing.T) {
	gen := rapid.Custom(func(t *rapid.T) C03LiveCase {
		return C03LiveCase{Backend: rapid.SampledFrom([]string{"memory", "sqlite"}).Draw(t, "backend"), Msgs: rapid.IntRange(1, 12).Draw(t, "msgs"),
			Concurrency: rapid.SampledFrom([]int{1, 2, 4, 8}).Draw(t, "concurrency"), Targets: rapid.IntRange(1, 2).Draw(t, "targets"),
			HoldMs: rapid.SampledFrom([]int{0, 1, 3}).Draw(t, "hold"), FailFirst: rapid.SampledFrom([]int{0, 0, 1, 2}).Draw(t, "fail_first")}
	})
	rapid.Check(t, func(rt *rapid.T) {
		c := gen.Draw(rt, "case")
		out := runC03Live(c)
		pEmit("C03", "TestProp_C03_LiveDispatcher", c, out)
		if out.Failure != nil {
			verifkit.SaveFailing("TestProp_C03_LiveDispatcher", c, out.Failure)
			rt.Fatalf("%v", out.Failure)
		}
	})
}
