//go:build verif

package dispatcher

import (
	"context"
	"errors"
	"fmt"
	"math"
	"net"
	"net/url"
	"os"
	"strings"
	"syscall"
	"testing"
	"time"

	"github.com/nuetzliches/hookaido/internal/queue"
	"github.com/nuetzliches/hookaido/internal/verifkit"
	"pgregory.net/rapid"
)

// ---------------------------------------------------------------------------------------
// C06 — outcome classification, bounded retry, backoff interval, DLQ reasons.
// ---------------------------------------------------------------------------------------

// C06RetryText is a retry configuration as config *text*: the set of accepted configurations
// is whatever the real compiler accepts.
type C06RetryText struct {
	DefMax    string `json:"def_max,omitempty"` // defaults.deliver.retry fields ("" = unset)
	DefBase   string `json:"def_base,omitempty"`
	DefCap    string `json:"def_cap,omitempty"`
	DefJitter string `json:"def_jitter,omitempty"`
	NoBlock   bool   `json:"no_block,omitempty"` // target has no retry directive at all
	Max       string `json:"max,omitempty"`
	Base      string `json:"base,omitempty"`
	Cap       string `json:"cap,omitempty"`
	Jitter    string `json:"jitter,omitempty"`
}

func c06RetryLine(max, base, cp, jit string) string {
	var b strings.Builder
	b.WriteString("retry exponential")
	if max != "" {
		b.WriteString(" max " + max)
	}
	if base != "" {
		b.WriteString(" base " + base)
	}
	if cp != "" {
		b.WriteString(" cap " + cp)
	}
	if jit != "" {
		b.WriteString(" jitter " + jit)
	}
	return b.String()
}

type c06TargetText struct {
	Retry     C06RetryText
	TimeoutMs int
}

func c06URL(i int) string { return fmt.Sprintf("https://t%d.example/hook", i) }

// c06ConfigText renders a Hookaidofile with one deliver route. All targets share the defaults
// block of the first target's retry text.
func c06ConfigText(targets []c06TargetText, conc int) string {
	var b strings.Builder
	r0 := targets[0].Retry
	if r0.DefMax != "" || r0.DefBase != "" || r0.DefCap != "" || r0.DefJitter != "" {
		b.WriteString("defaults {\n  deliver {\n    " + c06RetryLine(r0.DefMax, r0.DefBase, r0.DefCap, r0.DefJitter) + "\n  }\n}\n")
	}
	b.WriteString("\"/r\" {\n  queue { backend \"memory\" }\n")
	if conc > 0 {
		fmt.Fprintf(&b, "  deliver_concurrency %d\n", conc)
	}
	for i, t := range targets {
		fmt.Fprintf(&b, "  deliver %s {\n", pQuote(c06URL(i)))
		if !t.Retry.NoBlock {
			b.WriteString("    " + c06RetryLine(t.Retry.Max, t.Retry.Base, t.Retry.Cap, t.Retry.Jitter) + "\n")
		}
		if t.TimeoutMs > 0 {
			fmt.Fprintf(&b, "    timeout %dms\n", t.TimeoutMs)
		}
		b.WriteString("  }\n")
	}
	b.WriteString("}\n")
	return b.String()
}

var (
	c06MaxPool   = []string{"1", "1", "2", "2", "3", "3", "4", "5", "8", "20", "100", "1000000", "2147483647", "9223372036854775807", "+3", "007"}
	c06MaxBad    = []string{"0", "-1", "abc", "1.5", "9223372036854775808"}
	c06DurPool   = []string{"1ns", "1us", "1ms", "5ms", "250ms", "1s", "1.5s", "2s", "30s", "1m", "2m", "1h", "1d", "365d", "36500d", "1281023h", "2562047h", "2562047h47m16.854775807s"} // ordered; [7] = 2s, [10] = 2m
	c06DurBad    = []string{"0", "-1s", "off", "5", "200000d"}
	c06JitPool   = []string{"0", "0", "0.1", "0.2", "0.2", "0.5", "1", "1", "1.0", "0.999", "1e-9", "5e-1", ".25", "0x1p-2", "-0"}
	c06JitBad    = []string{"NaN", "1.5", "-0.1", "x", "Inf"}
	c06SmallMax  = []string{"1", "1", "2", "2", "3", "4", "5"}
	c06SmallDur  = []string{"1ms", "2ms", "10ms", "50ms", "1s", "2s", "1m"}
	c06SmallJit  = []string{"0", "0.2", "0.5", "1", "0.999"}
	c06StatusHot = []int{100, 101, 102, 199, 200, 201, 202, 204, 226, 299, 300, 301, 302, 304, 307, 308, 399, 400, 401, 403, 404, 405, 407, 408, 409, 410, 418, 425, 428, 429, 430, 451, 499, 500, 501, 502, 503, 504, 511, 599}
	c06ErrKinds  = []string{"timeout-ctx", "timeout-net", "refused", "dns", "policy", "policy-wrapped", "policy-urlerr", "signing"}
)

// genC06Retry draws a retry text. small: lifecycle profile (always accepted, short delays).
func genC06Retry(t *rapid.T, small bool, allowDefaults bool) C06RetryText {
	var r C06RetryText
	if small {
		r.Max = pFrom(t, "max", c06SmallMax)
		bi := pIdx(t, "base_i", len(c06SmallDur))
		ci := bi + pIdx(t, "cap_i", len(c06SmallDur)-bi)
		r.Base, r.Cap = c06SmallDur[bi], c06SmallDur[ci]
		r.Jitter = pFrom(t, "jitter", c06SmallJit)
		return r
	}
	if pChance(t, "no_block", 1, 25) {
		r.NoBlock = true
		return r
	}
	r.Max = pFrom(t, "max", c06MaxPool)
	// base <= cap (the pool is ordered); the three ends-of-range durations are kept rare
	nd := len(c06DurPool)
	if !pChance(t, "huge_dur", 1, 6) {
		nd -= 3
	}
	bi := pIdx(t, "base_i", nd)
	ci := bi + pIdx(t, "cap_i", nd-bi)
	r.Base, r.Cap = c06DurPool[bi], c06DurPool[ci]
	r.Jitter = pFrom(t, "jitter", c06JitPool)
	// unset fields inherit the defaults (max 8, base 2s, cap 2m, jitter 0.2 unless overridden)
	switch pIdx(t, "unset", 12) {
	case 8:
		r.Max = ""
	case 9:
		r.Jitter = ""
	case 10:
		if bi <= 7 { // base <= 2s keeps base <= default cap 2m
			r.Cap = ""
		}
	case 11:
		if ci >= 7 { // cap >= 2s keeps default base 2s <= cap
			r.Base = ""
		}
	}
	// rejected spellings, rarely
	switch pIdx(t, "bad", 40) {
	case 36:
		r.Max = pFrom(t, "max_bad", c06MaxBad)
	case 37:
		r.Base = pFrom(t, "base_bad", c06DurBad)
	case 38:
		r.Jitter = pFrom(t, "jitter_bad", c06JitBad)
	case 39:
		r.Base, r.Cap = r.Cap, r.Base
	}
	if allowDefaults && pChance(t, "defaults", 1, 6) {
		r.DefMax = pFrom(t, "def_max", c06MaxPool)
		r.DefJitter = pFrom(t, "def_jitter", c06JitPool)
		if pChance(t, "def_dur", 1, 2) {
			dbi := pIdx(t, "def_base_i", len(c06DurPool)-3)
			dci := dbi + pIdx(t, "def_cap_i", len(c06DurPool)-3-dbi)
			r.DefBase, r.DefCap = c06DurPool[dbi], c06DurPool[dci]
		}
	}
	return r
}

// ---------------------------------------------------------------------------------------
// The oracle: the statement's table, written from the statement.
// ---------------------------------------------------------------------------------------

type c06Expect struct {
	Kind   string // ack | retry | dead | notack
	Reason string
}

func (e c06Expect) String() string {
	if e.Reason != "" {
		return e.Kind + ":" + e.Reason
	}
	return e.Kind
}

func c06RetryOrExhausted(attempt, max int) c06Expect {
	if attempt <= max {
		return c06Expect{Kind: "retry"}
	}
	return c06Expect{Kind: "dead", Reason: "max_retries"}
}

func c06OracleStatus(status, attempt, max int) c06Expect {
	switch {
	case status >= 200 && status <= 299:
		return c06Expect{Kind: "ack"}
	case status == 408 || status == 429 || (status >= 500 && status <= 599):
		return c06RetryOrExhausted(attempt, max)
	case status >= 400 && status <= 499:
		return c06Expect{Kind: "dead", Reason: "no_retry"}
	}
	// 1xx / 3xx: "never treated as success"; the statement does not say which failure it is.
	return c06Expect{Kind: "notack"}
}

func c06OracleErr(kind string, attempt, max int) c06Expect {
	switch kind {
	case "policy", "policy-wrapped", "policy-urlerr":
		return c06Expect{Kind: "dead", Reason: "policy_denied"}
	case "timeout-ctx", "timeout-net", "refused", "dns":
		return c06RetryOrExhausted(attempt, max)
	}
	// signing errors are not in the statement's table: any failure handling is accepted.
	return c06Expect{Kind: "notack"}
}

// c06OracleAlts returns the accepted settlements. A result carrying both an error and a status
// is contradictory; either reading is accepted.
func c06OracleAlts(status int, errKind string, attempt, max int) []c06Expect {
	if errKind == "" {
		return []c06Expect{c06OracleStatus(status, attempt, max)}
	}
	alts := []c06Expect{c06OracleErr(errKind, attempt, max)}
	if status >= 100 && status <= 599 {
		alts = append(alts, c06OracleStatus(status, attempt, max))
	}
	return alts
}

// c06D0 = min(base*2^(attempt-1), cap) in exact integer arithmetic.
func c06D0(attempt int, base, cp time.Duration) time.Duration {
	if attempt < 1 {
		attempt = 1
	}
	sh := attempt - 1
	if sh >= 63 {
		return cp // base >= 1ns, so base*2^63 exceeds every representable cap
	}
	if base > cp>>uint(sh) {
		return cp
	}
	return base << uint(sh)
}

// c06DelayBounds returns the statement's interval in float nanoseconds.
func c06DelayBounds(attempt int, rc RetryConfig) (lo, hi float64) {
	d0 := float64(c06D0(attempt, rc.Base, rc.Cap))
	return d0 * (1 - rc.Jitter), d0 * (1 + rc.Jitter)
}

func c06DelayOK(delay time.Duration, attempt int, rc RetryConfig) (bool, float64, float64) {
	lo, hi := c06DelayBounds(attempt, rc)
	d := float64(delay)
	return d >= lo*(1-1e-9)-1 && d <= hi*(1+1e-9)+1, lo, hi
}

type c06Settle struct {
	Kind   string // ack | retry | dead | leased | other
	Reason string
	Delay  time.Duration
	State  string
}

func (s c06Settle) String() string {
	switch s.Kind {
	case "retry":
		return fmt.Sprintf("retry(delay=%s)", s.Delay)
	case "dead":
		return "dead:" + s.Reason
	}
	return s.Kind
}

// c06Observe reads how a message ended up in the store.
func c06Observe(st queue.Store, route, id string, now time.Time) (c06Settle, error) {
	resp, err := st.ListMessages(queue.MessageListRequest{Route: route, Limit: 1000})
	if err != nil {
		return c06Settle{}, err
	}
	for _, m := range resp.Items {
		if m.ID != id {
			continue
		}
		switch m.State {
		case queue.StateDelivered:
			return c06Settle{Kind: "ack", State: "delivered"}, nil
		case queue.StateQueued:
			return c06Settle{Kind: "retry", Delay: m.NextRunAt.Sub(now), State: "queued"}, nil
		case queue.StateDead:
			return c06Settle{Kind: "dead", Reason: m.DeadReason, State: "dead"}, nil
		case queue.StateLeased:
			return c06Settle{Kind: "leased", State: "leased"}, nil
		}
		return c06Settle{Kind: "other", State: string(m.State)}, nil
	}
	return c06Settle{Kind: "ack", State: "removed"}, nil
}

const c06SigDelayOverflow = "retry-delay-int64-overflow"

// c06Match judges one settlement against the accepted alternatives.
func c06Match(alts []c06Expect, obs c06Settle, attempt int, rc RetryConfig, step int) *verifkit.Failure {
	jitterInDomain := rc.Jitter >= 0 && rc.Jitter <= 1 // NaN (accepted by the compiler) is outside the quantifier
	var delayFail *verifkit.Failure
	for _, e := range alts {
		switch e.Kind {
		case "ack":
			if obs.Kind == "ack" {
				return nil
			}
		case "dead":
			if obs.Kind == "dead" && obs.Reason == e.Reason {
				return nil
			}
		case "retry", "notack":
			if e.Kind == "notack" && obs.Kind == "dead" && strings.TrimSpace(obs.Reason) != "" {
				return nil
			}
			if obs.Kind != "retry" {
				continue
			}
			if attempt > rc.Max {
				continue
			}
			if !jitterInDomain {
				return nil
			}
			ok, lo, hi := c06DelayOK(obs.Delay, attempt, rc)
			if ok {
				return nil
			}
			clause := "delay-upper-bound"
			if float64(obs.Delay) < lo {
				clause = "delay-lower-bound"
			}
			delayFail = pFail("C06", clause, step, "attempt %d retry scheduled %s (%d ns) after the failure; statement interval [%.0f, %.0f] ns for base=%s cap=%s jitter=%v",
				attempt, obs.Delay, int64(obs.Delay), lo, hi, rc.Base, rc.Cap, rc.Jitter)
			if clause == "delay-lower-bound" && hi >= math.MaxInt64 {
				delayFail.Sig = c06SigDelayOverflow
			}
		}
	}
	if delayFail != nil {
		return delayFail
	}
	want := make([]string, 0, len(alts))
	for _, e := range alts {
		want = append(want, e.String())
	}
	clause := "classification"
	switch {
	case obs.Kind == "ack":
		clause = "acked-a-failure"
	case obs.Kind == "retry" && attempt > rc.Max:
		clause = "retried-beyond-max"
	case obs.Kind == "leased" || obs.Kind == "other":
		clause = "not-settled"
	}
	return pFail("C06", clause, step, "attempt %d (retry.max %d): settled as %s, statement requires %s", attempt, rc.Max, obs, strings.Join(want, " | "))
}

type c06TimeoutErr struct{}

func (c06TimeoutErr) Error() string   { return "i/o timeout" }
func (c06TimeoutErr) Timeout() bool   { return true }
func (c06TimeoutErr) Temporary() bool { return true }

func c06Err(kind, target string) error {
	switch kind {
	case "":
		return nil
	case "timeout-ctx":
		return &url.Error{Op: "Post", URL: target, Err: context.DeadlineExceeded}
	case "timeout-net":
		return &url.Error{Op: "Post", URL: target, Err: &net.OpError{Op: "read", Net: "tcp", Err: c06TimeoutErr{}}}
	case "refused":
		return &url.Error{Op: "Post", URL: target, Err: &net.OpError{Op: "dial", Net: "tcp", Err: os.NewSyscallError("connect", syscall.ECONNREFUSED)}}
	case "dns":
		return &url.Error{Op: "Post", URL: target, Err: &net.OpError{Op: "dial", Net: "tcp", Err: &net.DNSError{Err: "no such host", Name: "t.example", IsNotFound: true}}}
	case "policy":
		return ErrPolicyDenied
	case "policy-wrapped":
		return fmt.Errorf("%w: host %q resolves to disallowed ip 10.0.0.1", ErrPolicyDenied, "t.example")
	case "policy-urlerr":
		return &url.Error{Op: "Post", URL: target, Err: fmt.Errorf("%w: https_only enforced", ErrPolicyDenied)}
	case "signing":
		return errors.New("delivery signing secret_ref has no version valid at timestamp")
	}
	return errors.New("unknown error kind " + kind)
}

type c06OneShot struct {
	res   Result
	calls int
}

func (d *c06OneShot) Deliver(_ context.Context, _ Delivery) Result {
	d.calls++
	return d.res
}

// ---------------------------------------------------------------------------------------
// Table tier
// ---------------------------------------------------------------------------------------

type C06Row struct {
	Status int    `json:"s,omitempty"`
	Err    string `json:"e,omitempty"`
	Att    int    `json:"a"` // selector, see c06Attempt
}

type C06TableCase struct {
	Retry C06RetryText `json:"retry"`
	Rows  []C06Row     `json:"rows"`
	Sweep bool         `json:"sweep,omitempty"` // additionally every status 100-599 x attempt selector, every error kind
}

const c06AttSelectors = 10

// c06Attempt resolves an attempt selector against retry.max.
func c06Attempt(sel, max int) int {
	var a int
	switch sel {
	case 0:
		a = 1
	case 1:
		a = max - 1
	case 2:
		a = max
	case 3:
		if max >= math.MaxInt32 {
			return 0
		}
		a = max + 1
	case 4:
		if max >= math.MaxInt32 {
			return 0
		}
		a = max + 2
	case 5:
		a = 1000000
	case 6:
		a = 63
	case 7:
		a = 64
	case 8:
		a = 65
	case 9:
		a = 1026 // 2^1025 overflows float64
	default:
		a = sel - c06AttSelectors + 1 // small explicit attempts
	}
	if a < 1 || a > 1<<40 {
		return 0
	}
	return a
}

func genC06TableCase() *rapid.Generator[C06TableCase] {
	return rapid.Custom(func(t *rapid.T) C06TableCase {
		c := C06TableCase{Retry: genC06Retry(t, false, true)}
		c.Rows = rapid.SliceOfN(rapid.Custom(func(t *rapid.T) C06Row {
			var r C06Row
			r.Att = pIdx(t, "att", c06AttSelectors+12)
			withErr := pChance(t, "with_err", 1, 3)
			if withErr {
				r.Err = pFrom(t, "err", c06ErrKinds)
			}
			if !withErr || pChance(t, "err_and_status", 1, 5) {
				if pChance(t, "hot", 1, 2) {
					r.Status = pFrom(t, "status", c06StatusHot)
				} else {
					r.Status = pRange(t, "status", 100, 599)
				}
			}
			return r
		}), 1, 24).Draw(t, "rows")
		c.Sweep = pChance(t, "sweep", 1, 8)
		return c
	})
}

func c06StatusClass(s int) string {
	switch {
	case s == 0:
		return "status-none"
	case s == 408 || s == 429:
		return "status-408-429"
	}
	return fmt.Sprintf("status-%dxx", s/100)
}

func runC06Row(target TargetConfig, row C06Row, step int, out *pOutcome) *verifkit.Failure {
	attempt := c06Attempt(row.Att, target.Retry.Max)
	if attempt == 0 {
		return nil
	}
	clk := newPClock(pT0)
	st := queue.NewMemoryStore(queue.WithNowFunc(clk.Now))
	if err := st.Enqueue(queue.Envelope{ID: "m", Route: "/r", Target: target.URL, Attempt: attempt - 1, Payload: []byte("p")}); err != nil {
		return pFail("HARNESS", "enqueue", step, "%v", err)
	}
	resp, err := st.Dequeue(queue.DequeueRequest{Route: "/r", Batch: 1, LeaseTTL: time.Minute})
	if err != nil || len(resp.Items) != 1 || resp.Items[0].Attempt != attempt {
		return pFail("HARNESS", "lease", step, "could not lease the message at attempt %d: %v %+v", attempt, err, resp.Items)
	}
	deliv := &c06OneShot{res: Result{StatusCode: row.Status, Err: c06Err(row.Err, target.URL)}}
	d := &PushDispatcher{Store: st, Deliverer: deliv}
	d.handleDelivery(pLog, resp.Items[0], target)
	if deliv.calls != 1 {
		return pFail("C06", "deliver-calls", step, "one handleDelivery made %d Deliver calls", deliv.calls)
	}
	obs, err := c06Observe(st, "/r", "m", clk.Now())
	if err != nil {
		return pFail("HARNESS", "observe", step, "%v", err)
	}
	alts := c06OracleAlts(row.Status, row.Err, attempt, target.Retry.Max)
	out.label("settle:" + obs.Kind)
	if obs.Kind == "dead" {
		out.label("dead:" + obs.Reason)
	}
	if row.Err != "" {
		out.label("err:" + row.Err)
		if row.Status != 0 {
			out.label("err-with-status")
		}
	} else {
		out.label(c06StatusClass(row.Status))
	}
	if alts[0].Kind == "notack" {
		if row.Err != "" {
			out.label("open:err:" + row.Err + "->" + obs.Kind)
		} else {
			out.label("open:" + c06StatusClass(row.Status) + "->" + obs.Kind)
		}
	}
	switch {
	case attempt == target.Retry.Max:
		out.label("att=max")
	case attempt == target.Retry.Max+1:
		out.label("att=max+1")
	case attempt > target.Retry.Max+1:
		out.label("att>max+1")
	default:
		out.label("att<max")
	}
	if attempt >= 63 && obs.Kind == "retry" {
		out.label("retry-at-overflowing-exponent")
	}
	if f := c06Match(alts, obs, attempt, target.Retry, step); f != nil {
		f.Detail = fmt.Sprintf("status=%d err=%q %s", row.Status, row.Err, f.Detail)
		return f
	}
	// every attempt is recorded with its outcome
	at, err := st.ListAttempts(queue.AttemptListRequest{EventID: "m", Limit: 100})
	if err != nil {
		return pFail("HARNESS", "list-attempts", step, "%v", err)
	}
	if len(at.Items) != 1 {
		return pFail("C06", "attempt-record", step, "status=%d err=%q attempt %d: %d attempt records for one Deliver call", row.Status, row.Err, attempt, len(at.Items))
	}
	return c06CheckAttemptRecord(at.Items[0], attempt, row.Status, row.Err != "", obs, target.URL, step)
}

func c06CheckAttemptRecord(rec queue.DeliveryAttempt, attempt, status int, hadErr bool, obs c06Settle, target string, step int) *verifkit.Failure {
	wantOutcome := map[string]queue.AttemptOutcome{"ack": queue.AttemptOutcomeAcked, "retry": queue.AttemptOutcomeRetry, "dead": queue.AttemptOutcomeDead}[obs.Kind]
	wantReason := ""
	if obs.Kind == "dead" {
		wantReason = obs.Reason
	}
	if rec.Attempt != attempt || rec.StatusCode != status || rec.Outcome != wantOutcome || rec.DeadReason != wantReason || rec.Target != target || (hadErr != (rec.Error != "")) {
		return pFail("C06", "attempt-record", step, "attempt record %+v does not describe attempt=%d status=%d err=%v outcome=%s reason=%q target=%s",
			rec, attempt, status, hadErr, wantOutcome, wantReason, target)
	}
	return nil
}

func runC06Table(c C06TableCase, tolerateKnown bool) *pOutcome {
	out := newPOutcome()
	text := c06ConfigText([]c06TargetText{{Retry: c.Retry}}, 0)
	compiled, errs := pCompile(text)
	if errs != nil {
		out.label("config-rejected")
		out.Skipped = "config rejected by compiler"
		return out
	}
	out.label("config-accepted")
	routes := pBuildDispatchRoutes(compiled)
	if len(routes) != 1 || len(routes[0].Targets) != 1 {
		out.Failure = pFail("HARNESS", "routes", 0, "expected one route with one target, got %+v", routes)
		return out
	}
	target := routes[0].Targets[0]
	rc := target.Retry
	if !(rc.Jitter >= 0 && rc.Jitter <= 1) {
		out.label("jitter-outside-[0,1]-accepted-by-compiler")
	}
	if hi := float64(rc.Cap) * (1 + rc.Jitter); hi >= math.MaxInt64 {
		out.label("cap*(1+jitter)>=2^63ns")
	}
	if c.Retry.NoBlock || c.Retry.Max == "" || c.Retry.Base == "" || c.Retry.Cap == "" || c.Retry.Jitter == "" {
		out.label("retry-inherits-defaults")
	}
	rows := append([]C06Row(nil), c.Rows...)
	if c.Sweep {
		out.label("sweep")
		for s := 100; s <= 599; s++ {
			for a := 0; a < c06AttSelectors; a++ {
				rows = append(rows, C06Row{Status: s, Att: a})
			}
		}
		for _, k := range c06ErrKinds {
			for a := 0; a < c06AttSelectors; a++ {
				for _, s := range []int{0, 200, 302, 404, 503} {
					rows = append(rows, C06Row{Status: s, Err: k, Att: a})
				}
			}
		}
	}
	for i, row := range rows {
		f := runC06Row(target, row, i, out)
		if f == nil {
			continue
		}
		if out.tolerate(f, tolerateKnown) {
			continue
		}
		out.Failure = f
		return out
	}
	out.NonTriv = len(rows) > 0
	return out
}

func TestProp_C06_Table(t *testing.T) {
	gen := genC06TableCase()
	rapid.Check(t, func(rt *rapid.T) {
		c := gen.Draw(rt, "case")
		out := runC06Table(c, true)
		pEmit("C06", "TestProp_C06_Table", c, out)
		if out.Failure != nil {
			verifkit.SaveFailing("TestProp_C06_Table", c, out.Failure)
			rt.Fatalf("%v", out.Failure)
		}
	})
}
