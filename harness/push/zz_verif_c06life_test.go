//go:build verif

package dispatcher

import (
	"context"
	"errors"
	"fmt"
	"math/rand"
	"os"
	"sort"
	"sync"
	"testing"
	"time"

	"github.com/nuetzliches/hookaido/internal/queue"
	"github.com/nuetzliches/hookaido/internal/verifkit"
	"pgregory.net/rapid"
)

// ---------------------------------------------------------------------------------------
// C06 lifecycle tier: the real runRoute loop on a fake clock.
//
// A store wrapper stands between the dispatcher and the real store. It never changes what the
// store does; it (1) turns "nothing is due" into "advance the fake clock to the earliest
// next_run_at" (or stops the loop when nothing is queued or leased), (2) checks after every
// lease mutation that the message was settled the way the statement's table says, and (3)
// can make one batch call fail so that the per-action fallback runs.
// ---------------------------------------------------------------------------------------

type C06Beh struct {
	K string `json:"k"` // status | err | hang
	S int    `json:"s,omitempty"`
	E string `json:"e,omitempty"`
}

type C06LifeTarget struct {
	Retry     C06RetryText `json:"retry"`
	TimeoutMs int          `json:"timeout_ms"`
	Script    []C06Beh     `json:"script"` // consumed one per Deliver call to this target
	Tail      C06Beh       `json:"tail"`   // behaviour after the script is used up
}

type C06LifeCase struct {
	Backend     string          `json:"backend"`
	Targets     []C06LifeTarget `json:"targets"`
	Msgs        []int           `json:"msgs"` // target index of each message
	Conc        int             `json:"conc"`
	BatchStore  bool            `json:"batch_store"`             // the store offers LeaseBatchStore
	FailBatchAt int             `json:"fail_batch_at,omitempty"` // k-th batch call fails once (0: never)
	Requeue     int             `json:"requeue,omitempty"`       // operator RequeueDead rounds
	Retain      bool            `json:"retain,omitempty"`        // delivered retention on
	Seed        int64           `json:"seed"`                    // math/rand seed (jitter source of the dispatcher)
	// DrainAt: the stop signal of Drain (shutdown, restart for a new configuration) arrives while the
	// k-th Deliver call of the case is in progress (0: never); a new dispatcher takes over afterwards.
	DrainAt int `json:"drain_at,omitempty"`
	// Restart: whenever a new dispatcher takes over (after the stop signal, after an operator requeue)
	// the process is restarted: the SQLite file is closed and opened again.
	Restart bool `json:"restart,omitempty"`
}

func genC06Beh(t *rapid.T) C06Beh {
	switch pIdx(t, "beh", 12) {
	case 0, 1:
		return C06Beh{K: "status", S: pFrom(t, "ok", []int{200, 201, 204, 299})}
	case 2, 3, 4:
		return C06Beh{K: "status", S: pFrom(t, "retryable", []int{500, 502, 503, 504, 599, 429, 408})}
	case 5:
		return C06Beh{K: "status", S: pFrom(t, "fatal", []int{400, 401, 403, 404, 410, 422, 499})}
	case 6:
		return C06Beh{K: "status", S: pFrom(t, "odd", []int{100, 101, 199, 300, 301, 302, 304, 307, 399})}
	case 7:
		return C06Beh{K: "status", S: pRange(t, "any", 100, 599)}
	case 8, 9:
		return C06Beh{K: "err", E: pFrom(t, "neterr", []string{"timeout-ctx", "timeout-net", "refused", "dns"})}
	case 10:
		return C06Beh{K: "err", E: pFrom(t, "polerr", []string{"policy", "policy-wrapped", "policy-urlerr"})}
	}
	return C06Beh{K: "hang"}
}

func genC06LifeCase() *rapid.Generator[C06LifeCase] {
	return rapid.Custom(func(t *rapid.T) C06LifeCase {
		var c C06LifeCase
		c.Backend = pFrom(t, "backend", []string{"memory", "memory", "sqlite"})
		nt := pFrom(t, "ntargets", []int{1, 1, 1, 2, 3})
		for i := 0; i < nt; i++ {
			tg := C06LifeTarget{Retry: genC06Retry(t, true, false), TimeoutMs: pRange(t, "timeout_ms", 1, 3)}
			tg.Script = rapid.SliceOfN(rapid.Custom(genC06Beh), 0, 10).Draw(t, "script")
			tg.Tail = genC06Beh(t)
			if tg.Tail.K == "hang" && pChance(t, "tail_ok", 1, 2) {
				tg.Tail = C06Beh{K: "status", S: 200}
			}
			c.Targets = append(c.Targets, tg)
		}
		c.Msgs = rapid.SliceOfN(rapid.Custom(func(t *rapid.T) int { return pIdx(t, "msg_target", nt) }), 1, 6).Draw(t, "msgs")
		c.Conc = pFrom(t, "conc", []int{1, 2, 3, 4, 8})
		c.BatchStore = !pChance(t, "plain_store", 1, 4)
		if c.BatchStore && pChance(t, "fail_batch", 1, 2) {
			c.FailBatchAt = pRange(t, "fail_batch_at", 1, 4)
		}
		c.Requeue = pFrom(t, "requeue", []int{0, 0, 1, 2})
		c.Retain = pChance(t, "retain", 1, 2)
		c.Seed = int64(rapid.IntRange(1, 1<<30).Draw(t, "seed"))
		if pChance(t, "drain", 1, 3) {
			c.DrainAt = pRange(t, "drain_at", 1, 6)
		}
		c.Restart = c.Backend == "sqlite" && pChance(t, "restart", 1, 2)
		return c
	})
}

type c06Call struct {
	Msg     string
	Target  int
	Attempt int
	Beh     C06Beh
	At      time.Time
	Alts    []c06Expect
	Settled *c06Settle
}

type c06World struct {
	c       C06LifeCase
	out     *pOutcome
	clk     *pClock
	inner   queue.Store
	d       *PushDispatcher
	route   string
	targets []TargetConfig
	tIdx    map[string]int

	tCalls     []int             // Deliver calls per target (script position)
	curAttempt map[string]int    // attempt number of the current lease of a message
	leaseMsg   map[string]string // lease id -> message id
	pending    map[string]*c06Call
	calls      map[string][]*c06Call
	cycleCalls map[string]int
	total      int
	bound      int
	loops      int
	batchCalls int
	failure    *verifkit.Failure
	stopped    bool
	draining   bool // the case's stop signal was given; the loop has not returned yet
	drained    bool
}

func (w *c06World) fail(f *verifkit.Failure) {
	if w.failure == nil {
		w.failure = f
	}
	w.stop()
}

func (w *c06World) stop() {
	if w.stopped {
		return
	}
	w.stopped = true
	w.d.stopOnce.Do(func() { close(w.d.stopCh) })
}

// --- Deliverer ---

type c06LifeDeliverer struct{ w *c06World }

func (ld c06LifeDeliverer) Deliver(ctx context.Context, dl Delivery) Result {
	w := ld.w
	ti, ok := w.tIdx[dl.URL]
	if !ok {
		w.fail(pFail("C06", "unknown-target", w.total, "Deliver called for URL %q which is not a configured target", dl.URL))
		return Result{Err: errors.New("unknown target")}
	}
	tc := w.targets[ti]
	beh := w.c.Targets[ti].Tail
	if w.tCalls[ti] < len(w.c.Targets[ti].Script) {
		beh = w.c.Targets[ti].Script[w.tCalls[ti]]
	}
	w.tCalls[ti]++
	w.total++
	att := w.curAttempt[dl.ID]
	call := &c06Call{Msg: dl.ID, Target: ti, Attempt: att, Beh: beh, At: w.clk.Now()}
	if prev := w.pending[dl.ID]; prev != nil {
		w.fail(pFail("C06", "not-settled", w.total, "message %s is delivered again (attempt %d) although the result of attempt %d was never applied to the store", dl.ID, att, prev.Attempt))
	}
	w.cycleCalls[dl.ID]++
	if n := w.cycleCalls[dl.ID]; n > tc.Retry.Max+1 {
		w.fail(pFail("C06", "attempt-bound", w.total, "message %s was sent %d times in one enqueue/requeue cycle, retry.max=%d", dl.ID, n, tc.Retry.Max))
	}
	if w.total > w.bound {
		w.fail(pFail("C06", "retried-forever", w.total, "%d Deliver calls exceed the bound %d = sum(max+1)+slack", w.total, w.bound))
	}
	var res Result
	status, errKind := 0, ""
	switch beh.K {
	case "status":
		status = beh.S
		res = Result{StatusCode: beh.S}
		w.out.label("beh:" + c06StatusClass(beh.S))
	case "err":
		errKind = beh.E
		res = Result{Err: c06Err(beh.E, dl.URL)}
		w.out.label("beh:err:" + beh.E)
	case "hang":
		<-ctx.Done() // the dispatcher's own per-delivery timeout (1-3 ms of real time)
		w.clk.Advance(tc.Timeout)
		errKind = "timeout-ctx"
		res = Result{Err: ctx.Err()}
		w.out.label("beh:hang")
	}
	call.Alts = c06OracleAlts(status, errKind, att, tc.Retry.Max)
	w.pending[dl.ID] = call
	w.calls[dl.ID] = append(w.calls[dl.ID], call)
	if w.c.DrainAt > 0 && w.total == w.c.DrainAt && !w.drained {
		// Drain's stop signal arrives while this delivery is in progress
		w.drained, w.draining = true, true
		w.d.stopOnce.Do(func() { close(w.d.stopCh) })
		w.out.label("drain-during-delivery")
	}
	return res
}

// --- store wrapper ---

type c06Store struct {
	queue.Store
	w *c06World
}

func (s *c06Store) Dequeue(req queue.DequeueRequest) (queue.DequeueResponse, error) {
	w := s.w
	req.MaxWait = 0 // long-poll waiting is wall-clock only; the fake clock is advanced below instead
	for {
		if w.stopped {
			return queue.DequeueResponse{}, nil
		}
		resp, err := w.inner.Dequeue(req)
		if err != nil {
			w.fail(pFail("HARNESS", "dequeue", w.total, "%v", err))
			return resp, err
		}
		if len(resp.Items) > 0 {
			for _, it := range resp.Items {
				w.curAttempt[it.ID] = it.Attempt
				w.leaseMsg[it.LeaseID] = it.ID
			}
			if len(resp.Items) > 1 {
				w.out.label("dequeue-batch>1")
			}
			return resp, nil
		}
		if len(w.pending) > 0 {
			ids := make([]string, 0, len(w.pending))
			for id := range w.pending {
				ids = append(ids, id)
			}
			sort.Strings(ids)
			w.fail(pFail("C06", "not-settled", w.total, "the dispatcher polls for new work while the delivery results of %v were never applied to the store", ids))
			return queue.DequeueResponse{}, nil
		}
		now := w.clk.Now()
		var next time.Time
		for _, state := range []queue.State{queue.StateQueued, queue.StateLeased} {
			lst, err := w.inner.ListMessages(queue.MessageListRequest{Route: w.route, State: state, Limit: 1000})
			if err != nil {
				w.fail(pFail("HARNESS", "list", w.total, "%v", err))
				return queue.DequeueResponse{}, nil
			}
			for _, m := range lst.Items {
				if state == queue.StateLeased {
					w.fail(pFail("C06", "not-settled", w.total, "message %s is still leased while the dispatcher is idle", m.ID))
					return queue.DequeueResponse{}, nil
				}
				if next.IsZero() || m.NextRunAt.Before(next) {
					next = m.NextRunAt
				}
			}
		}
		if next.IsZero() {
			w.stop()
			return queue.DequeueResponse{}, nil
		}
		if !next.After(now) {
			w.fail(pFail("HARNESS", "due-not-offered", w.total, "a queued message due at %s was not offered at %s", next, now))
			return queue.DequeueResponse{}, nil
		}
		w.loops++
		if w.loops > w.bound+8 {
			w.fail(pFail("C06", "retried-forever", w.total, "%d clock advances exceed the bound", w.loops))
			return queue.DequeueResponse{}, nil
		}
		w.clk.Set(next)
	}
}

// settled checks the statement's table right after a lease mutation was applied.
func (w *c06World) settled(leaseIDs []string, via string) {
	now := w.clk.Now()
	for _, l := range leaseIDs {
		msg, ok := w.leaseMsg[l]
		if !ok {
			w.fail(pFail("C06", "unknown-lease", w.total, "%s on lease %q which was never granted", via, l))
			continue
		}
		call := w.pending[msg]
		if call == nil && w.draining && (via == "Nack" || via == "NackBatch") {
			// a stopping dispatcher hands back the messages of its batch it has not sent yet
			obs, err := c06Observe(w.inner, w.route, msg, now)
			if err == nil && obs.Kind != "retry" {
				w.fail(pFail("C06", "stop-requeue", w.total, "message %s was leased but not sent when the dispatcher stopped; it is %s afterwards, want back in the queue", msg, obs))
			}
			w.out.label("stop-requeued-unsent")
			continue
		}
		if call == nil {
			w.fail(pFail("C06", "mutation-without-delivery", w.total, "%s on message %s without a preceding Deliver call", via, msg))
			continue
		}
		delete(w.pending, msg)
		obs, err := c06Observe(w.inner, w.route, msg, now)
		if err != nil {
			w.fail(pFail("HARNESS", "observe", w.total, "%v", err))
			continue
		}
		call.Settled = &obs
		w.out.label("settle:" + obs.Kind)
		if obs.Kind == "dead" {
			w.out.label("dead:" + obs.Reason)
		}
		if f := c06Match(call.Alts, obs, call.Attempt, w.targets[call.Target].Retry, w.total); f != nil {
			f.Detail = fmt.Sprintf("message %s %+v via %s: %s", msg, call.Beh, via, f.Detail)
			w.fail(f)
		}
	}
}

func (s *c06Store) Ack(leaseID string) error {
	err := s.w.inner.Ack(leaseID)
	if err != nil {
		s.w.fail(pFail("HARNESS", "ack", s.w.total, "lease mutation failed (excluded by the statement): %v", err))
		return err
	}
	s.w.out.label("path:per-item")
	s.w.settled([]string{leaseID}, "Ack")
	return nil
}

func (s *c06Store) Nack(leaseID string, delay time.Duration) error {
	err := s.w.inner.Nack(leaseID, delay)
	if err != nil {
		s.w.fail(pFail("HARNESS", "nack", s.w.total, "lease mutation failed (excluded by the statement): %v", err))
		return err
	}
	s.w.out.label("path:per-item")
	s.w.settled([]string{leaseID}, "Nack")
	return nil
}

func (s *c06Store) MarkDead(leaseID string, reason string) error {
	err := s.w.inner.MarkDead(leaseID, reason)
	if err != nil {
		s.w.fail(pFail("HARNESS", "markdead", s.w.total, "lease mutation failed (excluded by the statement): %v", err))
		return err
	}
	s.w.out.label("path:per-item")
	s.w.settled([]string{leaseID}, "MarkDead")
	return nil
}

// c06BatchStore additionally offers queue.LeaseBatchStore.
type c06BatchStore struct {
	*c06Store
	batch queue.LeaseBatchStore
}

var errC06InjectedBatch = errors.New("verif: injected batch failure (nothing applied)")

func (s *c06BatchStore) inject() bool {
	w := s.w
	w.batchCalls++
	if w.c.FailBatchAt > 0 && w.batchCalls == w.c.FailBatchAt {
		w.out.label("path:batch-fallback")
		return true
	}
	return false
}

func (s *c06BatchStore) after(ids []string, res queue.LeaseBatchResult, err error, via string) {
	w := s.w
	if err != nil || len(res.Conflicts) > 0 {
		w.fail(pFail("HARNESS", "batch", w.total, "%s failed (excluded by the statement): err=%v conflicts=%v", via, err, res.Conflicts))
		return
	}
	w.out.label("path:batch")
	if len(ids) > 1 {
		w.out.label("path:batch>1")
	}
	w.settled(ids, via)
}

func (s *c06BatchStore) AckBatch(ids []string) (queue.LeaseBatchResult, error) {
	if s.inject() {
		return queue.LeaseBatchResult{}, errC06InjectedBatch
	}
	res, err := s.batch.AckBatch(ids)
	s.after(ids, res, err, "AckBatch")
	return res, err
}

func (s *c06BatchStore) NackBatch(ids []string, delay time.Duration) (queue.LeaseBatchResult, error) {
	if s.inject() {
		return queue.LeaseBatchResult{}, errC06InjectedBatch
	}
	res, err := s.batch.NackBatch(ids, delay)
	s.after(ids, res, err, "NackBatch")
	return res, err
}

func (s *c06BatchStore) MarkDeadBatch(ids []string, reason string) (queue.LeaseBatchResult, error) {
	if s.inject() {
		return queue.LeaseBatchResult{}, errC06InjectedBatch
	}
	res, err := s.batch.MarkDeadBatch(ids, reason)
	s.after(ids, res, err, "MarkDeadBatch")
	return res, err
}

func c06MsgID(i int) string { return fmt.Sprintf("m%d", i) }

var c06RandMu sync.Mutex // math/rand's global source is process-wide

func runC06Life(c C06LifeCase, tolerateKnown bool) *pOutcome {
	out := newPOutcome()
	if len(c.Targets) == 0 || len(c.Msgs) == 0 {
		out.Skipped = "empty case"
		return out
	}
	tts := make([]c06TargetText, len(c.Targets))
	for i, t := range c.Targets {
		tts[i] = c06TargetText{Retry: t.Retry, TimeoutMs: t.TimeoutMs}
	}
	compiled, errs := pCompile(c06ConfigText(tts, c.Conc))
	if errs != nil {
		out.Skipped = "config rejected: " + errs[0]
		out.label("config-rejected")
		return out
	}
	routes := pBuildDispatchRoutes(compiled)
	if len(routes) != 1 || len(routes[0].Targets) != len(c.Targets) {
		out.Failure = pFail("HARNESS", "routes", 0, "unexpected dispatch routes %+v", routes)
		return out
	}
	rt := routes[0]
	clk := newPClock(pT0)
	h, err := openPStore(c.Backend, clk, c.Retain)
	if err != nil {
		out.Failure = pFail("HARNESS", "open", 0, "%v", err)
		return out
	}
	defer h.close()
	out.label("backend:" + c.Backend)
	if len(rt.Targets) > 1 {
		out.label("route:multi-target")
	} else {
		out.label("route:single-target")
	}

	w := &c06World{c: c, out: out, clk: clk, inner: h.st, route: rt.Route, targets: rt.Targets, tIdx: map[string]int{},
		tCalls: make([]int, len(rt.Targets)), curAttempt: map[string]int{}, leaseMsg: map[string]string{},
		pending: map[string]*c06Call{}, calls: map[string][]*c06Call{}, cycleCalls: map[string]int{}}
	for i, t := range rt.Targets {
		w.tIdx[t.URL] = i
	}
	cycleBound := 0
	for i, ti := range c.Msgs {
		if ti < 0 || ti >= len(rt.Targets) {
			out.Skipped = "message for unknown target"
			return out
		}
		if err := h.st.Enqueue(queue.Envelope{ID: c06MsgID(i), Route: rt.Route, Target: rt.Targets[ti].URL, Payload: []byte("p")}); err != nil {
			out.Failure = pFail("HARNESS", "enqueue", 0, "%v", err)
			return out
		}
		cycleBound += rt.Targets[ti].Retry.Max + 1
	}
	w.bound = cycleBound + 4

	base := &c06Store{Store: h.st, w: w}
	var store queue.Store = base
	var bsw *c06BatchStore
	restart := func() *verifkit.Failure {
		if !c.Restart || h.sql == nil {
			return nil
		}
		if err := h.reopen(clk, c.Retain); err != nil {
			return pFail("HARNESS", "reopen", w.total, "%v", err)
		}
		w.inner, base.Store = h.st, h.st
		if bsw != nil {
			bsw.batch = h.st.(queue.LeaseBatchStore)
		}
		out.label("restart-between-dispatchers")
		return nil
	}
	if c.BatchStore {
		bs, ok := h.st.(queue.LeaseBatchStore)
		if !ok {
			out.Failure = pFail("HARNESS", "batch-store", 0, "%s store has no LeaseBatchStore", c.Backend)
			return out
		}
		bsw = &c06BatchStore{c06Store: base, batch: bs}
		store = bsw
		out.label("store:batch-capable")
	} else {
		out.label("store:plain")
	}

	dequeueBatch := routeDequeueBatch(rt.Concurrency, len(rt.Targets))
	leaseTTL := routeLeaseTTL(rt.Targets, 30*time.Second, dequeueBatch)
	out.label(fmt.Sprintf("dequeue-batch=%d", dequeueBatch))

	c06RandMu.Lock()
	defer c06RandMu.Unlock()
	rand.Seed(c.Seed)

	runRound := func() *verifkit.Failure {
		d := &PushDispatcher{Store: store, Deliverer: c06LifeDeliverer{w}, Routes: routes, Logger: pLog}
		d.stopCh = make(chan struct{})
		w.d = d
		w.stopped = false
		w.loops = 0
		done := make(chan struct{})
		d.wg.Add(1)
		go func() {
			defer close(done)
			d.runRoute(pLog, rt.Route, targetConfigByURL(rt.Targets), 0, leaseTTL, dequeueBatch)
		}()
		select {
		case <-done:
		case <-time.After(60 * time.Second):
			d.stopOnce.Do(func() { close(d.stopCh) })
			return pFail("HARNESS", "watchdog", w.total, "runRoute did not return within 60 s of real time")
		}
		return w.failure
	}
	// a round that the case's stop signal ended: every delivery result the dispatcher obtained must have
	// been applied before it returned; then a new dispatcher takes over
	runRoundAcrossDrain := func() *verifkit.Failure {
		f := runRound()
		if f != nil || !w.draining {
			return f
		}
		w.draining = false
		if len(w.pending) > 0 {
			ids := make([]string, 0, len(w.pending))
			for id := range w.pending {
				ids = append(ids, fmt.Sprintf("%s (attempt %d, %+v)", id, w.pending[id].Attempt, w.pending[id].Beh))
			}
			sort.Strings(ids)
			return pFail("C06", "not-settled-at-stop", w.total, "the dispatcher stopped (Drain during Deliver call %d) without applying the delivery results of %v to the store: the messages stay leased and are sent again after the lease expires", w.c.DrainAt, ids)
		}
		out.label("drain-then-new-dispatcher")
		if f := restart(); f != nil {
			return f
		}
		return runRound()
	}

	finish := func(f *verifkit.Failure) *pOutcome {
		if f != nil && !out.tolerate(f, tolerateKnown) {
			out.Failure = f
		}
		return out
	}

	for round := 0; ; round++ {
		if f := runRoundAcrossDrain(); f != nil {
			return finish(f)
		}
		// terminal states
		var dead []string
		for i := range c.Msgs {
			id := c06MsgID(i)
			obs, err := c06Observe(h.st, rt.Route, id, clk.Now())
			if err != nil {
				return finish(pFail("HARNESS", "observe", w.total, "%v", err))
			}
			calls := w.calls[id]
			if len(calls) == 0 {
				return finish(pFail("C06", "never-delivered", w.total, "message %s ended as %s without a single Deliver call", id, obs))
			}
			last := calls[len(calls)-1]
			switch obs.Kind {
			case "ack":
				out.label("terminal:delivered(" + obs.State + ")")
			case "dead":
				out.label("terminal:dead:" + obs.Reason)
				dead = append(dead, id)
			default:
				return finish(pFail("C06", "not-terminal", w.total, "message %s is %s (%s) after the dispatcher went idle; last attempt %d %+v", id, obs.Kind, obs.State, last.Attempt, last.Beh))
			}
			if last.Settled == nil || last.Settled.Kind != obs.Kind || last.Settled.Reason != obs.Reason {
				return finish(pFail("C06", "terminal-mismatch", w.total, "message %s ended as %s but its last attempt was settled as %v", id, obs, last.Settled))
			}
		}
		if round >= c.Requeue || len(dead) == 0 {
			break
		}
		// operator requeue: a new bounded cycle
		clk.Advance(time.Second)
		res, err := h.st.RequeueDead(queue.DeadRequeueRequest{IDs: dead})
		if err != nil || res.Requeued != len(dead) {
			return finish(pFail("HARNESS", "requeue-dead", w.total, "RequeueDead(%v) = %+v, %v", dead, res, err))
		}
		out.label("requeue-cycle")
		if f := restart(); f != nil {
			return finish(f)
		}
		for _, id := range dead {
			w.cycleCalls[id] = 0
			ti := w.calls[id][0].Target
			w.bound += rt.Targets[ti].Retry.Max + 1
		}
	}

	// every attempt is recorded with its outcome
	for i := range c.Msgs {
		id := c06MsgID(i)
		calls := w.calls[id]
		at, err := h.st.ListAttempts(queue.AttemptListRequest{EventID: id, Limit: 1000})
		if err != nil {
			return finish(pFail("HARNESS", "list-attempts", w.total, "%v", err))
		}
		if len(at.Items) != len(calls) {
			return finish(pFail("C06", "attempt-record", w.total, "message %s: %d Deliver calls but %d attempt records", id, len(calls), len(at.Items)))
		}
		byAttempt := map[int]queue.DeliveryAttempt{}
		for _, r := range at.Items {
			byAttempt[r.Attempt] = r
		}
		classes := ""
		for _, call := range calls {
			rec, ok := byAttempt[call.Attempt]
			if !ok {
				return finish(pFail("C06", "attempt-record", w.total, "message %s: no attempt record for attempt %d", id, call.Attempt))
			}
			status := 0
			if call.Beh.K == "status" {
				status = call.Beh.S
			}
			if f := c06CheckAttemptRecord(rec, call.Attempt, status, call.Beh.K != "status", *call.Settled, rt.Targets[call.Target].URL, w.total); f != nil {
				return finish(f)
			}
			classes += call.Settled.Kind[:1]
		}
		// non-trivial: a retry followed by a different outcome class
		for k := 0; k+1 < len(classes); k++ {
			if classes[k] == 'r' && classes[k+1] != 'r' {
				out.NonTriv = true
				if classes[k+1] == 'a' {
					out.label("retry-then-delivered")
				} else {
					out.label("retry-then-dead")
				}
			}
		}
		if n := len(calls); n >= 2 {
			out.label("attempts>=2")
		}
	}
	return out
}

func TestProp_C06_Lifecycle(t *testing.T) {
	gen := genC06LifeCase()
	rapid.Check(t, func(rt *rapid.T) {
		c := gen.Draw(rt, "case")
		out := runC06Life(c, true)
		pEmit("C06", "TestProp_C06_Lifecycle", c, out)
		if out.Failure != nil {
			verifkit.SaveFailing("TestProp_C06_Lifecycle", c, out.Failure)
			rt.Fatalf("%v", out.Failure)
		}
	})
}

// ---------------------------------------------------------------------------------------
// Live tier (thorough only): real Start()/Drain(), real time, concurrency 1-8. No timing
// assertions; the behaviour of a delivery depends only on (message, attempt number) so the
// expected terminal state is independent of scheduling.
// ---------------------------------------------------------------------------------------

type C06LiveMsg struct {
	Target int      `json:"target"`
	Script []C06Beh `json:"script"` // behaviour of attempt k (last one repeats)
}

type C06LiveCase struct {
	Backend string       `json:"backend"`
	Max     []string     `json:"max"`    // per target
	Jitter  []string     `json:"jitter"` // per target
	Msgs    []C06LiveMsg `json:"msgs"`
	Conc    int          `json:"conc"`
}

func genC06LiveCase() *rapid.Generator[C06LiveCase] {
	return rapid.Custom(func(t *rapid.T) C06LiveCase {
		var c C06LiveCase
		c.Backend = pFrom(t, "backend", []string{"memory", "memory", "sqlite"})
		nt := pRange(t, "ntargets", 1, 3)
		for i := 0; i < nt; i++ {
			c.Max = append(c.Max, pFrom(t, "max", []string{"1", "2", "3", "4"}))
			c.Jitter = append(c.Jitter, pFrom(t, "jitter", []string{"0", "0.2", "1"}))
		}
		c.Msgs = rapid.SliceOfN(rapid.Custom(func(t *rapid.T) C06LiveMsg {
			return C06LiveMsg{Target: pIdx(t, "target", nt), Script: rapid.SliceOfN(rapid.Custom(genC06Beh), 1, 6).Draw(t, "script")}
		}), 1, 12).Draw(t, "msgs")
		c.Conc = pRange(t, "conc", 1, 8)
		return c
	})
}

type c06LiveDeliverer struct {
	mu    sync.Mutex
	c     C06LiveCase
	tIdx  map[string]int
	calls map[string]int
	bad   string
}

func (d *c06LiveDeliverer) Deliver(ctx context.Context, dl Delivery) Result {
	d.mu.Lock()
	d.calls[dl.ID]++
	n := d.calls[dl.ID]
	var idx int
	if _, err := fmt.Sscanf(dl.ID, "m%d", &idx); err != nil || idx < 0 || idx >= len(d.c.Msgs) {
		d.bad = "Deliver for unknown message " + dl.ID
		d.mu.Unlock()
		return Result{Err: errors.New("unknown message")}
	}
	script := d.c.Msgs[idx].Script
	d.mu.Unlock()
	beh := script[len(script)-1]
	if n-1 < len(script) {
		beh = script[n-1]
	}
	switch beh.K {
	case "status":
		return Result{StatusCode: beh.S}
	case "err":
		return Result{Err: c06Err(beh.E, dl.URL)}
	}
	<-ctx.Done()
	return Result{Err: ctx.Err()}
}

func runC06Live(c C06LiveCase) *pOutcome {
	out := newPOutcome()
	if len(c.Max) == 0 || len(c.Msgs) == 0 || len(c.Max) != len(c.Jitter) {
		out.Skipped = "empty case"
		return out
	}
	tts := make([]c06TargetText, len(c.Max))
	for i := range c.Max {
		tts[i] = c06TargetText{Retry: C06RetryText{Max: c.Max[i], Base: "1ms", Cap: "4ms", Jitter: c.Jitter[i]}, TimeoutMs: 15}
	}
	compiled, errs := pCompile(c06ConfigText(tts, c.Conc))
	if errs != nil {
		out.Skipped = "config rejected: " + errs[0]
		return out
	}
	routes := pBuildDispatchRoutes(compiled)
	rt := routes[0]
	var st queue.Store
	switch c.Backend {
	case "sqlite":
		path := fmt.Sprintf("%s/live%d.db", pScratch(), pDBSeq.Add(1))
		s, err := queue.NewSQLiteStore(path, queue.WithSQLitePollInterval(2*time.Millisecond))
		if err != nil {
			out.Failure = pFail("HARNESS", "open", 0, "%v", err)
			return out
		}
		defer func() {
			_ = s.Close()
			for _, suf := range []string{"", "-wal", "-shm"} {
				_ = os.Remove(path + suf)
			}
		}()
		st = s
	default:
		st = queue.NewMemoryStore()
	}
	out.label("backend:" + c.Backend)
	out.label(fmt.Sprintf("conc=%d", c.Conc))
	for i, m := range c.Msgs {
		if m.Target < 0 || m.Target >= len(rt.Targets) || len(m.Script) == 0 {
			out.Skipped = "bad message"
			return out
		}
		if err := st.Enqueue(queue.Envelope{ID: c06MsgID(i), Route: rt.Route, Target: rt.Targets[m.Target].URL, Payload: []byte("p")}); err != nil {
			out.Failure = pFail("HARNESS", "enqueue", 0, "%v", err)
			return out
		}
	}
	deliv := &c06LiveDeliverer{c: c, tIdx: map[string]int{}, calls: map[string]int{}}
	d := &PushDispatcher{Store: st, Deliverer: deliv, Routes: routes, Logger: pLog, MaxWait: 5 * time.Millisecond}
	d.Start()
	deadline := time.Now().Add(20 * time.Second) // watchdog only, not an oracle
	idle := false
	for time.Now().Before(deadline) {
		stt, err := st.Stats()
		if err == nil && stt.ByState[queue.StateQueued] == 0 && stt.ByState[queue.StateLeased] == 0 {
			idle = true
			break
		}
		time.Sleep(2 * time.Millisecond)
	}
	drained := d.Drain(10 * time.Second)
	if !drained {
		out.Skipped = "live budget: Drain timed out" // a time budget overrun is inconclusive, never a verdict
		out.label("inconclusive-time-budget")
		return out
	}
	deliv.mu.Lock()
	defer deliv.mu.Unlock()
	if deliv.bad != "" {
		out.Failure = pFail("C06", "unknown-message", 0, "%s", deliv.bad)
		return out
	}
	for i, m := range c.Msgs {
		id := c06MsgID(i)
		max := rt.Targets[m.Target].Retry.Max
		// fold the statement's table over the per-attempt script
		var want c06Expect
		wantCalls := 0
		open := false
		for a := 1; ; a++ {
			beh := m.Script[len(m.Script)-1]
			if a-1 < len(m.Script) {
				beh = m.Script[a-1]
			}
			status, ek := 0, ""
			switch beh.K {
			case "status":
				status = beh.S
			case "err":
				ek = beh.E
			default:
				ek = "timeout-ctx"
			}
			e := c06OracleAlts(status, ek, a, max)[0]
			wantCalls = a
			if e.Kind == "notack" {
				open = true // 1xx/3xx: not judged further in the live tier
				break
			}
			if e.Kind != "retry" {
				want = e
				break
			}
			if a > max+1 {
				break
			}
		}
		calls := deliv.calls[id]
		if calls > max+1 {
			out.Failure = pFail("C06", "attempt-bound", i, "live: message %s was sent %d times, retry.max=%d", id, calls, max)
			return out
		}
		if open {
			out.label("live-open-1xx-3xx")
			continue
		}
		if !idle {
			out.Skipped = "live budget: queue not idle after 20 s of real time"
			out.label("inconclusive-time-budget")
			return out
		}
		obs, err := c06Observe(st, rt.Route, id, time.Now())
		if err != nil {
			out.Failure = pFail("HARNESS", "observe", i, "%v", err)
			return out
		}
		if calls != wantCalls {
			out.Failure = pFail("C06", "live-calls", i, "live: message %s: %d Deliver calls, the statement's table gives %d (ends %s)", id, calls, wantCalls, want)
			return out
		}
		if f := c06Match([]c06Expect{want}, obs, wantCalls, rt.Targets[m.Target].Retry, i); f != nil {
			f.Detail = "live: message " + id + ": " + f.Detail
			out.Failure = f
			return out
		}
		at, err := st.ListAttempts(queue.AttemptListRequest{EventID: id, Limit: 1000})
		if err != nil || len(at.Items) != calls {
			out.Failure = pFail("C06", "attempt-record", i, "live: message %s: %d Deliver calls, %d attempt records (%v)", id, calls, len(at.Items), err)
			return out
		}
		out.label("live-terminal:" + want.String())
		if calls >= 2 {
			out.NonTriv = true
		}
	}
	return out
}

func TestProp_C06_Live(t *testing.T) {
	gen := genC06LiveCase()
	rapid.Check(t, func(rt *rapid.T) {
		c := gen.Draw(rt, "case")
		out := runC06Live(c)
		pEmit("C06", "TestProp_C06_Live", c, out)
		if out.Failure != nil {
			verifkit.SaveFailing("TestProp_C06_Live", c, out.Failure)
			rt.Fatalf("%v", out.Failure)
		}
	})
}
