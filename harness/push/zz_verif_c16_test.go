//go:build verif

package dispatcher

import (
	"context"
	"errors"
	"fmt"
	"io"
	"net"
	"net/http"
	"net/netip"
	"net/url"
	"strings"
	"testing"
	"time"
	"unicode/utf8"

	"github.com/nuetzliches/hookaido/internal/queue"
	"github.com/nuetzliches/hookaido/internal/verifkit"
	"pgregory.net/rapid"
)

// ---------------------------------------------------------------------------------------
// C16 — egress policy on every delivery and redirect hop.
// ---------------------------------------------------------------------------------------

type C16Pol struct {
	HTTPSOnly string   `json:"https_only,omitempty"` // "" = directive absent (documented default on)
	Redirects string   `json:"redirects,omitempty"`  // default off
	Rebind    string   `json:"rebind,omitempty"`     // default on
	Allow     []string `json:"allow,omitempty"`
	Deny      []string `json:"deny,omitempty"`
}

type C16Res struct {
	Host  string   `json:"host"` // canonical name (lower case, no trailing dot)
	Addrs []string `json:"addrs,omitempty"`
	Err   bool     `json:"err,omitempty"`
}

type C16Hop struct {
	Code int    `json:"code"`
	Loc  string `json:"loc"`
}

type C16Case struct {
	Pol        C16Pol   `json:"pol"`
	URL        string   `json:"url"`
	Hops       []C16Hop `json:"hops,omitempty"` // answer to the k-th request seen by the round tripper
	Final      int      `json:"final,omitempty"`
	Res        []C16Res `json:"res,omitempty"`
	ResDefault []string `json:"res_default,omitempty"` // answer for hosts not listed (default: one public address)
}

func c16PolicyText(p C16Pol) string {
	var b strings.Builder
	b.WriteString("defaults {\n  egress {\n")
	if len(p.Allow) > 0 {
		b.WriteString("    allow")
		for _, r := range p.Allow {
			b.WriteString(" " + pQuote(r))
		}
		b.WriteString("\n")
	}
	if len(p.Deny) > 0 {
		b.WriteString("    deny")
		for _, r := range p.Deny {
			b.WriteString(" " + pQuote(r))
		}
		b.WriteString("\n")
	}
	if p.HTTPSOnly != "" {
		b.WriteString("    https_only " + p.HTTPSOnly + "\n")
	}
	if p.Redirects != "" {
		b.WriteString("    redirects " + p.Redirects + "\n")
	}
	if p.Rebind != "" {
		b.WriteString("    dns_rebind_protection " + p.Rebind + "\n")
	}
	b.WriteString("  }\n}\n\"/r\" {\n  queue { backend \"memory\" }\n  deliver \"https://t0.example/hook\" { }\n}\n")
	return b.String()
}

// ---------------------------------------------------------------------------------------
// Independent oracle
// ---------------------------------------------------------------------------------------

type tri int8

const (
	triNo tri = iota
	triYes
	triUnknown
)

type c16Rule struct {
	kind string // any | exact | sub | cidr
	host string
	pfx  netip.Prefix
}

// c16ParseRule reads a rule the way the statement lists them: IP, CIDR, *, *.domain, exact host.
func c16ParseRule(raw string) (c16Rule, bool) {
	raw = strings.TrimSpace(raw)
	if raw == "" {
		return c16Rule{}, false
	}
	if p, err := netip.ParsePrefix(raw); err == nil {
		return c16Rule{kind: "cidr", pfx: p}, true
	}
	if a, err := netip.ParseAddr(raw); err == nil {
		a = a.WithZone("")
		return c16Rule{kind: "cidr", pfx: netip.PrefixFrom(a, a.BitLen())}, true
	}
	h := strings.TrimSuffix(strings.ToLower(raw), ".")
	switch {
	case h == "*":
		return c16Rule{kind: "any"}, true
	case strings.HasPrefix(h, "*."):
		return c16Rule{kind: "sub", host: strings.TrimPrefix(h, "*.")}, true
	}
	return c16Rule{kind: "exact", host: h}, true
}

func c16Bool(v string, def bool) bool {
	switch strings.ToLower(strings.TrimSpace(v)) {
	case "on", "true", "1":
		return true
	case "off", "false", "0":
		return false
	}
	return def
}

type c16Policy struct {
	httpsOnly, redirects, rebind bool
	allow, deny                  []c16Rule
}

func c16ReadPolicy(p C16Pol) c16Policy {
	out := c16Policy{httpsOnly: c16Bool(p.HTTPSOnly, true), redirects: c16Bool(p.Redirects, false), rebind: c16Bool(p.Rebind, true)}
	for _, r := range p.Allow {
		if rule, ok := c16ParseRule(r); ok {
			out.allow = append(out.allow, rule)
		}
	}
	for _, r := range p.Deny {
		if rule, ok := c16ParseRule(r); ok {
			out.deny = append(out.deny, rule)
		}
	}
	return out
}

func (p c16Policy) needsAddrs() bool {
	if p.rebind {
		return true
	}
	for _, r := range append(append([]c16Rule(nil), p.allow...), p.deny...) {
		if r.kind == "cidr" {
			return true
		}
	}
	return false
}

func c16Pfx(s string) netip.Prefix { return netip.MustParsePrefix(s) }

// The address classes the statement names, as prefix tables (applied after un-mapping).
var c16Forbidden = []struct {
	class string
	pfx   netip.Prefix
}{
	{"loopback", c16Pfx("127.0.0.0/8")},
	{"loopback", c16Pfx("::1/128")},
	{"private", c16Pfx("10.0.0.0/8")},
	{"private", c16Pfx("172.16.0.0/12")},
	{"private", c16Pfx("192.168.0.0/16")},
	{"private", c16Pfx("fc00::/7")},
	{"link-local", c16Pfx("169.254.0.0/16")},
	{"link-local", c16Pfx("fe80::/10")},
	{"multicast", c16Pfx("224.0.0.0/4")},
	{"multicast", c16Pfx("ff00::/8")},
	{"unspecified", c16Pfx("0.0.0.0/32")},
	{"unspecified", c16Pfx("::/128")},
}

func c16AddrClass(a netip.Addr) string {
	a = a.WithZone("").Unmap()
	for _, f := range c16Forbidden {
		if f.pfx.Contains(a) {
			return f.class
		}
	}
	return ""
}

var c16MappedSpace = c16Pfx("::ffff:0:0/96")

func c16CIDRMatch(pfx netip.Prefix, a netip.Addr) tri {
	a = a.WithZone("").Unmap()
	if pfx.Addr().Is4In6() {
		return triUnknown // rule spelled in IPv4-mapped form: the statement does not say how it reads
	}
	m := pfx.Masked()
	if m.Addr().Is6() && a.Is4() && m.Overlaps(c16MappedSpace) {
		return triUnknown // an IPv6 prefix that covers the mapped range vs an IPv4 address
	}
	if m.Contains(a) {
		return triYes
	}
	return triNo
}

func c16HostWeird(h string) bool {
	if h == "" || strings.HasSuffix(h, ".") || strings.HasPrefix(h, ".") || strings.Contains(h, "..") {
		return true
	}
	for i := 0; i < len(h); i++ {
		if h[i] <= ' ' || h[i] >= 0x7f {
			return true
		}
	}
	return false
}

func c16HostMatch(r c16Rule, host string) tri {
	switch r.kind {
	case "any":
		return triYes
	case "exact":
		if host == r.host {
			return triYes
		}
		if c16HostWeird(host) {
			return triUnknown
		}
		return triNo
	case "sub":
		if c16HostWeird(host) {
			return triUnknown
		}
		if host != r.host && strings.HasSuffix(host, "."+r.host) {
			return triYes
		}
		return triNo
	}
	return triNo
}

func c16MatchRules(rules []c16Rule, host string, addrs []netip.Addr) tri {
	res := triNo
	for _, r := range rules {
		var m tri
		if r.kind == "cidr" {
			m = triNo
			for _, a := range addrs {
				switch c16CIDRMatch(r.pfx, a) {
				case triYes:
					m = triYes
				case triUnknown:
					if m == triNo {
						m = triUnknown
					}
				}
			}
		} else {
			m = c16HostMatch(r, host)
		}
		if m == triYes {
			return triYes
		}
		if m == triUnknown {
			res = triUnknown
		}
	}
	return res
}

// c16CanonHost: DNS names are case-insensitive and one trailing dot only marks the name as
// fully qualified.
func c16CanonHost(h string) string {
	return strings.TrimSuffix(strings.ToLower(h), ".")
}

var c16DefaultAnswer = []string{"93.184.216.34"}

type c16World struct {
	res map[string]C16Res
	def []string
}

func newC16World(c C16Case) *c16World {
	w := &c16World{res: map[string]C16Res{}, def: c.ResDefault}
	if w.def == nil {
		w.def = c16DefaultAnswer
	}
	for _, r := range c.Res {
		w.res[c16CanonHost(r.Host)] = r
	}
	return w
}

// c16IsDNSName: what a real resolver accepts as a host name (the rule net's isDomainName applies:
// letters, digits, '-', '_', non-empty labels of <= 63 bytes, <= 253 bytes, one optional trailing
// dot). For anything else a resolver answers "no such host" without asking anybody; the scripted
// resolver does the same.
func c16IsDNSName(h string) bool {
	h = strings.TrimSuffix(h, ".")
	if h == "" || len(h) > 253 {
		return false
	}
	for _, label := range strings.Split(h, ".") {
		if label == "" || len(label) > 63 {
			return false
		}
		for i := 0; i < len(label); i++ {
			c := label[i]
			if !(c >= 'a' && c <= 'z' || c >= 'A' && c <= 'Z' || c >= '0' && c <= '9' || c == '-' || c == '_') {
				return false
			}
		}
	}
	return true
}

// answer returns the scripted addresses of a (non-literal) host and whether resolution works.
func (w *c16World) answer(host string) ([]netip.Addr, bool) {
	if !c16IsDNSName(host) {
		return nil, false
	}
	r, ok := w.res[c16CanonHost(host)]
	addrs := w.def
	if ok {
		if r.Err {
			return nil, false
		}
		addrs = r.Addrs
	}
	var out []netip.Addr
	for _, s := range addrs {
		if a, err := netip.ParseAddr(s); err == nil {
			out = append(out, a.WithZone(""))
		}
	}
	return out, len(out) > 0
}

type c16Verdict struct {
	NoTarget    bool // unparsable URL or empty host: nothing can be addressed, no request may appear
	MustDeny    bool
	Reasons     []string
	Unresolved  bool // addresses are needed for the decision but the resolver failed / returned none
	AddrDecides bool // the decision turns on a resolved address of a non-literal host
	Overlap     bool // a deny rule and an allow rule both match
	Open        []string
	Literal     bool
	Host        string
}

func (v c16Verdict) String() string {
	return fmt.Sprintf("{noTarget=%v mustDeny=%v reasons=%v unresolved=%v host=%q open=%v}", v.NoTarget, v.MustDeny, v.Reasons, v.Unresolved, v.Host, v.Open)
}

func c16Evaluate(p c16Policy, w *c16World, raw string) c16Verdict {
	u, err := url.Parse(raw)
	if err != nil || u == nil {
		return c16Verdict{NoTarget: true, Reasons: []string{"unparsable"}}
	}
	return c16EvaluateParts(p, w, u.Scheme, u.Hostname())
}

// c16EvaluateParts judges a (scheme, host) pair: what url.Parse made of a URL string, or the
// URL fields of a request the transport saw.
func c16EvaluateParts(p c16Policy, w *c16World, scheme, hostname string) c16Verdict {
	v := c16Eval(p, w, scheme, hostname, false)
	if !v.NoTarget && !v.Literal && !v.Unresolved {
		blind := c16Eval(p, w, scheme, hostname, true)
		v.AddrDecides = blind.MustDeny != v.MustDeny
	}
	return v
}

func c16Eval(p c16Policy, w *c16World, scheme, hostname string, blind bool) c16Verdict {
	var v c16Verdict
	scheme = strings.ToLower(scheme)
	if scheme != "http" && scheme != "https" {
		v.MustDeny = true
		v.Reasons = append(v.Reasons, "scheme")
	} else if p.httpsOnly && scheme != "https" {
		v.MustDeny = true
		v.Reasons = append(v.Reasons, "https-only")
	}
	host := c16CanonHost(hostname)
	v.Host = host
	if host == "" {
		v.NoTarget = true
		v.Reasons = append(v.Reasons, "empty-host")
		return v
	}
	var addrs []netip.Addr
	if a, err := netip.ParseAddr(host); err == nil {
		v.Literal = true
		addrs = []netip.Addr{a.WithZone("")}
	} else if p.needsAddrs() && !blind {
		var ok bool
		addrs, ok = w.answer(host)
		if !ok {
			v.Unresolved = true
		}
	}
	if p.rebind && !blind {
		for _, a := range addrs {
			if cl := c16AddrClass(a); cl != "" {
				v.MustDeny = true
				v.Reasons = append(v.Reasons, "rebind:"+cl)
				break
			}
		}
	}
	deny := c16MatchRules(p.deny, host, addrs)
	allow := triYes
	if len(p.allow) > 0 {
		allow = c16MatchRules(p.allow, host, addrs)
	}
	switch deny {
	case triYes:
		v.MustDeny = true
		v.Reasons = append(v.Reasons, "deny-rule")
	case triUnknown:
		v.Open = append(v.Open, "deny-rule-reading")
	}
	switch allow {
	case triNo:
		v.MustDeny = true
		v.Reasons = append(v.Reasons, "allowlist-miss")
	case triUnknown:
		v.Open = append(v.Open, "allow-rule-reading")
	}
	v.Overlap = deny == triYes && len(p.allow) > 0 && allow == triYes
	return v
}

// ---------------------------------------------------------------------------------------
// Scripted resolver and recording round tripper
// ---------------------------------------------------------------------------------------

type c16Resolver struct {
	w       *c16World
	lookups []string
}

func (r *c16Resolver) LookupIPAddr(_ context.Context, host string) ([]net.IPAddr, error) {
	r.lookups = append(r.lookups, host)
	addrs, ok := r.w.answer(host)
	if e, listed := r.w.res[c16CanonHost(host)]; !c16IsDNSName(host) || (listed && e.Err) {
		return nil, &net.DNSError{Err: "no such host", Name: host, IsNotFound: true}
	}
	if !ok {
		return nil, nil
	}
	out := make([]net.IPAddr, 0, len(addrs))
	for _, a := range addrs {
		out = append(out, net.IPAddr{IP: net.IP(a.AsSlice())})
	}
	return out, nil
}

type c16Req struct {
	URL      string
	Method   string
	Scheme   string
	Hostname string
	U        *url.URL
}

type c16RT struct {
	hops  []C16Hop
	final int
	reqs  []c16Req
}

func (rt *c16RT) RoundTrip(req *http.Request) (*http.Response, error) {
	i := len(rt.reqs)
	rt.reqs = append(rt.reqs, c16Req{URL: req.URL.String(), Method: req.Method, Scheme: req.URL.Scheme, Hostname: req.URL.Hostname(), U: req.URL})
	if req.Body != nil {
		_, _ = io.Copy(io.Discard, req.Body)
		_ = req.Body.Close()
	}
	resp := &http.Response{Proto: "HTTP/1.1", ProtoMajor: 1, ProtoMinor: 1, Header: http.Header{}, Body: http.NoBody, Request: req}
	if i < len(rt.hops) {
		resp.StatusCode = rt.hops[i].Code
		resp.Header.Set("Location", rt.hops[i].Loc)
	} else {
		resp.StatusCode = rt.final
		if resp.StatusCode == 0 {
			resp.StatusCode = 200
		}
	}
	resp.Status = fmt.Sprintf("%d %s", resp.StatusCode, http.StatusText(resp.StatusCode))
	return resp, nil
}

type c16Tap struct {
	inner Deliverer
	res   []Result
}

func (t *c16Tap) Deliver(ctx context.Context, d Delivery) Result {
	r := t.inner.Deliver(ctx, d)
	t.res = append(t.res, r)
	return r
}

// ---------------------------------------------------------------------------------------
// Generators
// ---------------------------------------------------------------------------------------

var (
	c16AddrPool = []string{
		"0.0.0.0", "0.0.0.1", "0.255.255.255", "1.0.0.0", "9.255.255.255", "10.0.0.0", "10.0.0.1", "10.255.255.255", "11.0.0.0",
		"100.63.255.255", "100.64.0.0", "100.127.255.255", "100.128.0.0", "126.255.255.255", "127.0.0.0", "127.0.0.1", "127.255.255.255", "128.0.0.0",
		"169.253.255.255", "169.254.0.0", "169.254.169.254", "169.254.255.255", "169.255.0.0", "172.15.255.255", "172.16.0.0", "172.31.255.255", "172.32.0.0",
		"192.167.255.255", "192.168.0.0", "192.168.255.255", "192.169.0.0", "223.255.255.255", "224.0.0.0", "224.0.0.251", "239.255.255.255", "240.0.0.0",
		"255.255.255.254", "255.255.255.255", "93.184.216.34", "93.184.216.34", "8.8.8.8", "8.8.8.9", "1.1.1.1",
		"::", "::1", "::2", "fbff:ffff:ffff:ffff:ffff:ffff:ffff:ffff", "fc00::", "fc00::1", "fdff:ffff:ffff:ffff:ffff:ffff:ffff:ffff", "fe00::",
		"fe7f:ffff:ffff:ffff:ffff:ffff:ffff:ffff", "fe80::", "fe80::1", "febf:ffff:ffff:ffff:ffff:ffff:ffff:ffff", "fec0::", "feff:ffff:ffff:ffff:ffff:ffff:ffff:ffff",
		"ff00::", "ff02::1", "ffff:ffff:ffff:ffff:ffff:ffff:ffff:ffff", "2001:db8::1", "2606:2800:220:1:248:1893:25c8:1946", "2606:2800:220:1:248:1893:25c8:1946",
		"64:ff9b::a00:1", "::ffff:0.0.0.0", "::ffff:10.0.0.1", "::ffff:127.0.0.1", "::ffff:169.254.169.254", "::ffff:93.184.216.34", "::ffff:192.168.0.1", "::ffff:224.0.0.1",
	}
	c16Names = []string{
		"allowed.com", "allowed.com", "sub.allowed.com", "a.b.allowed.com", "evilallowed.com", "allowed.com.evil.com", "evil.com", "sub.evil.com",
		"internal.corp", "localhost", "metadata.google.internal", "ALLOWED.COM", "Evil.Com", "allowed.com.", "evil.com.", "evil.com..", "sub.evil.com.",
		"SUB.Allowed.Com.", "2130706433", "0177.0.0.1", "0x7f.0.0.1", "127.1", "017700000001", "t0.example", "xn--80ak6aa92e.com",
	}
	c16Schemes  = []string{"http://", "http://", "https://", "https://", "https://", "HTTP://", "hTTps://", "ftp://", "file://", "gopher://", "ws://", "//", "", "http:", "https:/", "javascript:"}
	c16UserInfo = []string{"", "", "", "", "", "allowed.com@", "user:pw@", "allowed.com:443@", "evil.com%40", "@", "allowed.com%2f@"}
	c16Ports    = []string{"", "", "", "", ":80", ":443", ":8080", ":0", ":", ":65536", ":http"}
	c16Paths    = []string{"", "/", "/hook", "/hook", "/a/../b", "//evil.com/", "/%2F%2e%2e", "?next=http://allowed.com/", "#@evil.com/", "/\\evil.com", "/x y", "/@allowed.com"}
	c16Nasty    = []string{
		"http://allowed.com\\@evil.com/", "http://evil.com#@allowed.com/", "http://allowed.com%00.evil.com/", "http://[::1]:80:80/",
		"http://allowed.com:80@evil.com:8080/x", "https://127.0.0.1.nip.io/", "http://allowed.com/\r\nHost: evil.com", " http://allowed.com/",
		"http://allowed.com /", "https://EVIL.COM./", "http://[::ffff:127.0.0.1]/", "http://[0:0:0:0:0:ffff:7f00:1]/", "https://[fe80::1%25eth0]/",
		"https://[fe80::1%eth0]/", "http://[::1%25lo]/", "https://[::]/", "http://0/", "http://[::ffff:a9fe:a9fe]/latest/meta-data/",
		"http:///etc/passwd", "https://", "http://:80/", "https://allowed.com:443:443/", "http://[allowed.com]/", "http://allowed.com%2eevil.com/",
		"http://evil.com%2f@allowed.com/", "https://allowed.com@[::1]/", "http://user@[::ffff:10.0.0.1]:8080/",
	}
	c16Rules = []string{
		"allowed.com", "allowed.com", "*.allowed.com", "*.allowed.com", "ALLOWED.com", "allowed.com.", "*", "evil.com", "*.evil.com", "*.com", "internal.corp",
		"localhost", "metadata.google.internal", "*.internal", "t0.example", "*.example",
		"93.184.216.34", "10.0.0.1", "127.0.0.1", "169.254.169.254", "::1", "2001:db8::1", "8.8.8.8", "::ffff:10.0.0.1", "2606:2800:220:1:248:1893:25c8:1946",
		"93.184.216.0/24", "93.184.216.0/24", "10.0.0.0/8", "127.0.0.0/8", "169.254.0.0/16", "192.168.0.0/16", "172.16.0.0/12", "100.64.0.0/10", "0.0.0.0/0", "0.0.0.0/8",
		"224.0.0.0/4", "8.8.8.8/31", "10.1.2.3/8", "fc00::/7", "fe80::/10", "2001:db8::/32", "2606:2800:220:1::/64", "::/0", "::1/128", "ff00::/8", "::ffff:0:0/96",
		"::ffff:10.0.0.0/104", "2000::/3",
	}
	c16BadRules = []string{"http://allowed.com", "a*.com", "*.*.com"}
	c16Codes    = []int{301, 302, 302, 303, 307, 307, 308, 300, 304, 305}
)

func c16Literal(t *rapid.T) string {
	s := pFrom(t, "lit", c16AddrPool)
	a := netip.MustParseAddr(s)
	switch {
	case a.Is4():
		switch pIdx(t, "lit_form", 6) {
		case 3:
			return "[::ffff:" + s + "]"
		case 4:
			b := a.As4()
			return fmt.Sprintf("[::ffff:%02x%02x:%02x%02x]", b[0], b[1], b[2], b[3])
		case 5:
			b := a.As4()
			return fmt.Sprintf("[0:0:0:0:0:ffff:%x:%x]", int(b[0])<<8|int(b[1]), int(b[2])<<8|int(b[3]))
		}
		return s
	default:
		switch pIdx(t, "lit_form6", 6) {
		case 3:
			return "[" + a.StringExpanded() + "]"
		case 4:
			return "[" + s + "%25eth0]"
		case 5:
			return "[" + strings.ToUpper(s) + "]"
		}
		return "[" + s + "]"
	}
}

var (
	c16GoodSchemes = []string{"https://", "http://", "https://", "http://", "HTTP://", "hTTps://"}
	c16BadSchemes  = []string{"ftp://", "file://", "gopher://", "ws://", "//", "", "http:", "https:/", "javascript:"}
	c16Relative    = []string{"/relative", "//evil.com/x", "../up", "?q=1", "//allowed.com@evil.com/", "///evil.com", "//allowed.com/next", "/"}
	c16Public      = []string{"93.184.216.34", "8.8.8.8", "2606:2800:220:1:248:1893:25c8:1946", "1.1.1.1", "::ffff:93.184.216.34", "2001:db8::1"}
)

// genC16URL draws a URL string; inPlay are the host names the case's resolver script talks about.
func genC16URL(t *rapid.T, inPlay []string, location bool) string {
	switch k := pIdx(t, "url_kind", 24); {
	case k == 22:
		return pFrom(t, "nasty", c16Nasty)
	case k == 23 || (location && k >= 20):
		return pFrom(t, "relative", c16Relative)
	}
	var host string
	switch k := pIdx(t, "host_kind", 20); {
	case k < 11 && len(inPlay) > 0:
		host = pFrom(t, "name_in_play", inPlay)
	case k < 16:
		host = c16Literal(t)
	default:
		host = pFrom(t, "name", c16Names)
	}
	scheme := pFrom(t, "scheme", c16GoodSchemes)
	if pChance(t, "bad_scheme", 1, 6) {
		scheme = pFrom(t, "scheme_bad", c16BadSchemes)
	}
	userinfo, port := "", ""
	if pChance(t, "has_userinfo", 1, 5) {
		userinfo = pFrom(t, "userinfo", c16UserInfo)
	}
	if pChance(t, "has_port", 1, 3) {
		port = pFrom(t, "port", c16Ports)
	}
	return scheme + userinfo + host + port + pFrom(t, "path", c16Paths)
}

func genC16Rule(t *rapid.T) string {
	if pChance(t, "bad_rule", 1, 80) {
		return pFrom(t, "bad", c16BadRules)
	}
	return pFrom(t, "rule", c16Rules)
}

// allow lists that often match something, so that allowed deliveries and deny/allow overlaps occur
var c16AllowHot = []string{"allowed.com", "*.allowed.com", "*", "93.184.216.0/24", "8.8.8.8/31", "2606:2800:220:1::/64", "2000::/3", "0.0.0.0/0", "*.com", "1.1.1.1",
	"10.0.0.0/8", "internal.corp", "evil.com", "ALLOWED.com", "allowed.com."}

func genC16AllowRule(t *rapid.T) string {
	if pChance(t, "allow_general", 1, 3) {
		return genC16Rule(t)
	}
	return pFrom(t, "allow_hot", c16AllowHot)
}

func genC16Pol(t *rapid.T) C16Pol {
	var p C16Pol
	p.HTTPSOnly = pFrom(t, "https_only", []string{"off", "off", "false", "0", "off", "on", "true", "1", ""})
	p.Redirects = pFrom(t, "redirects", []string{"on", "on", "true", "1", "on", "off", "0", ""})
	p.Rebind = pFrom(t, "rebind", []string{"on", "", "true", "1", "off", "off", "false", "0"})
	if pChance(t, "has_allow", 2, 5) {
		p.Allow = rapid.SliceOfN(rapid.Custom(genC16AllowRule), 1, 3).Draw(t, "allow")
	}
	if pChance(t, "has_deny", 1, 2) {
		p.Deny = rapid.SliceOfN(rapid.Custom(genC16Rule), 1, 3).Draw(t, "deny")
	}
	return p
}

func genC16Answer(t *rapid.T, host string) C16Res {
	r := C16Res{Host: c16CanonHost(host)}
	if pChance(t, "res_err", 1, 12) {
		r.Err = true
		return r
	}
	n := pFrom(t, "naddrs", []int{1, 1, 2, 2, 3, 4, 1, 0})
	for i := 0; i < n; i++ {
		if pChance(t, "public", 1, 2) {
			r.Addrs = append(r.Addrs, pFrom(t, "addr_public", c16Public))
		} else {
			r.Addrs = append(r.Addrs, pFrom(t, "addr", c16AddrPool))
		}
	}
	return r
}

func genC16Case(maxHops int) *rapid.Generator[C16Case] {
	return rapid.Custom(func(t *rapid.T) C16Case {
		nplay := pRange(t, "nplay", 1, 3)
		inPlay := make([]string, 0, nplay)
		for i := 0; i < nplay; i++ {
			inPlay = append(inPlay, pFrom(t, "in_play", c16Names))
		}
		c := C16Case{Pol: genC16Pol(t), URL: genC16URL(t, inPlay, false)}
		seen := map[string]bool{}
		for _, h := range inPlay {
			if ch := c16CanonHost(h); !seen[ch] && pChance(t, "scripted", 3, 4) {
				seen[ch] = true
				c.Res = append(c.Res, genC16Answer(t, h))
			}
		}
		if pChance(t, "extra_res", 1, 5) {
			if h := pFrom(t, "extra_host", c16Names); !seen[c16CanonHost(h)] {
				c.Res = append(c.Res, genC16Answer(t, h))
			}
		}
		if maxHops > 0 {
			n := pFrom(t, "nhops", []int{0, 0, 1, 1, 1, 2, 2, 3, 5, 9, 10, 11})
			if n > maxHops {
				n = maxHops
			}
			c.Hops = rapid.SliceOfN(rapid.Custom(func(t *rapid.T) C16Hop {
				return C16Hop{Code: pFrom(t, "code", c16Codes), Loc: genC16URL(t, inPlay, true)}
			}), n, n).Draw(t, "hops")
			c.Final = pFrom(t, "final", []int{200, 200, 204, 404, 500, 299, 300, 304, 408, 429, 499, 503, 599, 101})
		}
		return c
	})
}

// ---------------------------------------------------------------------------------------
// Runners
// ---------------------------------------------------------------------------------------

func c16Compile(c C16Case, out *pOutcome) (EgressPolicy, c16Policy, bool) {
	if g := pAppMappingGuard(); g != "" {
		out.Failure = pFail("HARNESS", "app-mapping-copy", 0, "%s", g)
		return EgressPolicy{}, c16Policy{}, false
	}
	compiled, errs := pCompile(c16PolicyText(c.Pol))
	if errs != nil {
		out.label("config-rejected")
		out.Skipped = "config rejected: " + errs[0]
		return EgressPolicy{}, c16Policy{}, false
	}
	return pEgressPolicy(compiled), c16ReadPolicy(c.Pol), true
}

func c16LabelVerdict(out *pOutcome, v c16Verdict, prefix string) {
	for _, r := range v.Reasons {
		out.label(prefix + "oracle-deny:" + r)
	}
	for _, o := range v.Open {
		out.label(prefix + "open:" + o)
	}
	if v.Unresolved {
		out.label(prefix + "unresolved")
	}
}

// runC16Policy judges checkEgressPolicy on a single URL string.
func runC16Policy(c C16Case) *pOutcome {
	out := newPOutcome()
	policy, orc, ok := c16Compile(c, out)
	if !ok {
		return out
	}
	w := newC16World(c)
	v := c16Evaluate(orc, w, c.URL)
	c16LabelVerdict(out, v, "")
	res := &c16Resolver{w: w}
	err := checkEgressPolicy(context.Background(), c.URL, policy, res)
	switch {
	case v.NoTarget:
		if err == nil {
			out.Failure = pFail("C16", "no-target-allowed", 0, "URL %q addresses nothing (%v) but the policy check passed it", c.URL, v.Reasons)
		}
		out.label("no-target")
	case v.MustDeny && v.Unresolved:
		if err == nil {
			out.Failure = pFail("C16", "denied-url-allowed", 0, "URL %q must be denied (%v, host unresolvable) but the policy check passed it", c.URL, v.Reasons)
		}
		out.label("denied-unresolved")
	case v.MustDeny:
		if !errors.Is(err, ErrPolicyDenied) {
			out.Failure = pFail("C16", "denied-url-allowed", 0, "URL %q must be denied %v (host %q, lookups %v) but checkEgressPolicy returned %v", c.URL, v.Reasons, v.Host, res.lookups, err)
		}
		out.label("denied")
	case err == nil:
		out.label("allowed")
	case errors.Is(err, ErrPolicyDenied):
		out.label("over-denied")
	default:
		out.label("error-not-policy")
	}
	out.NonTriv = v.AddrDecides || v.Overlap
	if v.AddrDecides {
		out.label("nt:address-decides")
	}
	if v.Overlap {
		out.label("nt:deny-allow-overlap")
	}
	return out
}

func c16Followable(code int) bool {
	switch code {
	case 301, 302, 303, 307, 308:
		return true
	}
	return false
}

// runC16Deliver sends one message through the real classification path with the real
// HTTPDeliverer on a recording transport and a scripted resolver.
func runC16Deliver(c C16Case) *pOutcome {
	out := newPOutcome()
	policy, orc, ok := c16Compile(c, out)
	if !ok {
		return out
	}
	w := newC16World(c)
	rt := &c16RT{hops: c.Hops, final: c.Final}
	res := &c16Resolver{w: w}
	clk := newPClock(pT0)
	hd := NewHTTPDeliverer(&http.Client{Transport: rt}, policy)
	hd.Resolver = res
	hd.Now = clk.Now
	tap := &c16Tap{inner: hd}
	st := queue.NewMemoryStore(queue.WithNowFunc(clk.Now))
	if err := st.Enqueue(queue.Envelope{ID: "m", Route: "/r", Target: c.URL, Payload: []byte(`{"k":1}`), Headers: map[string]string{"Content-Type": "application/json"}}); err != nil {
		out.Failure = pFail("HARNESS", "enqueue", 0, "%v", err)
		return out
	}
	dq, err := st.Dequeue(queue.DequeueRequest{Route: "/r", Batch: 1, LeaseTTL: time.Minute})
	if err != nil || len(dq.Items) != 1 {
		out.Failure = pFail("HARNESS", "lease", 0, "%v %+v", err, dq.Items)
		return out
	}
	target := TargetConfig{URL: c.URL, Timeout: 5 * time.Second, Retry: RetryConfig{Type: "exponential", Max: 3, Base: time.Second, Cap: 10 * time.Second}}
	d := &PushDispatcher{Store: st, Deliverer: tap}
	d.handleDelivery(pLog, dq.Items[0], target)
	if len(tap.res) != 1 {
		out.Failure = pFail("HARNESS", "deliver-calls", 0, "%d Deliver calls", len(tap.res))
		return out
	}
	result := tap.res[0]
	obs, err := c06Observe(st, "/r", "m", clk.Now())
	if err != nil {
		out.Failure = pFail("HARNESS", "observe", 0, "%v", err)
		return out
	}

	// (1) every request that reached the transport went to a URL the policy allows
	for i, r := range rt.reqs {
		v := c16EvaluateParts(orc, w, r.Scheme, r.Hostname)
		if v.NoTarget && !v.MustDeny {
			// net/http normalised the host away (e.g. "http://::" is checked as host ":" and sent with
			// an empty host, which the dialer reads as the local machine). Loopback is only forbidden
			// under dns_rebind_protection; otherwise the statement does not cover it.
			if !orc.rebind {
				out.label("open:request-with-empty-host")
				continue
			}
			v.Reasons = []string{"empty-host-dials-local-machine"}
		}
		if v.NoTarget || v.MustDeny {
			out.Failure = pFail("C16", "request-to-denied-url", i, "hop %d: a request was sent to %q which the policy denies %v (host %q); chain start %q", i, r.URL, v.Reasons, v.Host, c.URL)
			return out
		}
		if v.AddrDecides || v.Overlap {
			out.NonTriv = true
		}
	}
	// (2) redirects are not followed unless enabled
	if !orc.redirects && len(rt.reqs) > 1 {
		out.Failure = pFail("C16", "redirect-followed-while-disabled", 1, "redirects are off but %d requests were sent: %+v", len(rt.reqs), rt.reqs)
		return out
	}
	if len(rt.reqs) > 0 {
		out.label("allowed-delivery")
		out.label(fmt.Sprintf("requests=%d", len(rt.reqs)))
	}
	if len(rt.reqs) > 1 {
		out.label("redirect-followed")
	}
	// (3) the hop that was not sent: if the policy denies it, the delivery is dead-lettered as
	// policy_denied at attempt 1 without a retry.
	k := len(rt.reqs)
	next, haveNext := "", false
	var v c16Verdict
	switch {
	case k == 0:
		next, haveNext = c.URL, true
		v = c16Evaluate(orc, w, c.URL)
	case orc.redirects && k <= len(c.Hops) && k < 10 && c16Followable(c.Hops[k-1].Code) && c.Hops[k-1].Loc != "":
		// the URL the client derives from the Location header, as net/http does it
		if nu, err := rt.reqs[k-1].U.Parse(c.Hops[k-1].Loc); err == nil {
			next, haveNext = nu.String(), true
			v = c16EvaluateParts(orc, w, nu.Scheme, nu.Hostname())
		}
	}
	if haveNext {
		prefix := "hop0:"
		if k == 1 {
			prefix = "hop1:"
		} else if k >= 2 {
			prefix = "hop2+:"
		}
		c16LabelVerdict(out, v, prefix)
		switch {
		case v.NoTarget:
			if k == 0 && result.Err == nil {
				out.Failure = pFail("C16", "no-target-delivered", k, "URL %q addresses nothing but Deliver reported %+v", next, result)
				return out
			}
		case v.MustDeny && v.Unresolved:
			out.label("denied-unresolved")
			if result.Err == nil && k == 0 {
				out.Failure = pFail("C16", "denied-url-allowed", k, "URL %q must be denied %v but Deliver reported %+v", next, v.Reasons, result)
				return out
			}
		case v.MustDeny:
			out.label("denied")
			if k >= 1 {
				out.label("nt:denied-at-later-hop")
				out.NonTriv = true
			}
			if v.AddrDecides || v.Overlap {
				out.NonTriv = true
			}
			if !errors.Is(result.Err, ErrPolicyDenied) {
				out.Failure = pFail("C16,C06", "denial-not-reported", k, "hop %d URL %q must be denied %v (host %q) and no request was sent, but Deliver returned %+v instead of ErrPolicyDenied", k, next, v.Reasons, v.Host, result)
				return out
			}
			if obs.Kind != "dead" || obs.Reason != "policy_denied" {
				out.Failure = pFail("C16,C06", "denial-not-dead-lettered", k, "hop %d URL %q denied %v: message settled as %s, want dead:policy_denied without retry", k, next, v.Reasons, obs)
				return out
			}
			at, err := st.ListAttempts(queue.AttemptListRequest{EventID: "m", Limit: 10})
			if err != nil || len(at.Items) != 1 || at.Items[0].Attempt != 1 || at.Items[0].Outcome != queue.AttemptOutcomeDead || at.Items[0].DeadReason != "policy_denied" {
				out.Failure = pFail("C16,C06", "denial-not-dead-lettered", k, "hop %d URL %q denied: attempt records %+v (%v), want one dead/policy_denied record at attempt 1", k, next, at.Items, err)
				return out
			}
		default:
			if k == 0 {
				if errors.Is(result.Err, ErrPolicyDenied) {
					out.label("over-denied")
				} else {
					out.label("error-not-policy")
				}
			} else if errors.Is(result.Err, ErrPolicyDenied) {
				out.label("over-denied-redirect")
			}
		}
		if v.AddrDecides {
			out.label("nt:address-decides")
		}
		if v.Overlap {
			out.label("nt:deny-allow-overlap")
		}
	}
	out.label("settle:" + obs.Kind)
	if obs.Kind == "dead" {
		out.label("dead:" + obs.Reason)
	}
	// (4) C06 through the real deliverer: an answered delivery settles by the status of the last
	// answer (attempt 1 of retry.max 3), and the deliverer reports exactly that status
	if result.Err == nil && len(rt.reqs) > 0 {
		last := c.Final
		if last == 0 {
			last = 200
		}
		if n := len(rt.reqs); n <= len(c.Hops) {
			last = c.Hops[n-1].Code
		}
		if result.StatusCode != last {
			out.Failure = pFail("C06", "status-misreported", len(rt.reqs)-1, "the last answer had status %d, Deliver reported %d", last, result.StatusCode)
			return out
		}
		exp := c06OracleStatus(last, 1, target.Retry.Max)
		ok := exp.Kind == obs.Kind && (exp.Kind != "dead" || exp.Reason == obs.Reason)
		if exp.Kind == "notack" {
			ok = obs.Kind == "retry" || (obs.Kind == "dead" && obs.Reason != "")
		}
		if !ok {
			out.Failure = pFail("C06", "real-deliverer-settlement", len(rt.reqs)-1, "last answer %d after %d request(s): message settled as %s, the table says %s", last, len(rt.reqs), obs, exp)
			return out
		}
		out.label("answered:" + c06StatusClass(last))
	}
	return out
}

func TestProp_C16_Policy(t *testing.T) {
	gen := genC16Case(0)
	rapid.Check(t, func(rt *rapid.T) {
		c := gen.Draw(rt, "case")
		out := runC16Policy(c)
		pEmit("C16", "TestProp_C16_Policy", c, out)
		if out.Failure != nil {
			verifkit.SaveFailing("TestProp_C16_Policy", c, out.Failure)
			rt.Fatalf("%v", out.Failure)
		}
	})
}

// TestProp_C06_RealDeliverer runs the same worlds for C06's share: what the real HTTP deliverer
// reports (a denial on the first or a later hop, the status of the last answer) must settle the
// message as the statement's table says. Clauses that belong to C16 alone are not this test's.
func TestProp_C06_RealDeliverer(t *testing.T) {
	gen := genC16Case(11)
	rapid.Check(t, func(rt *rapid.T) {
		c := gen.Draw(rt, "case")
		out := runC16Deliver(c)
		if out.Failure != nil && out.Failure.Prop != "HARNESS" && !strings.Contains(out.Failure.Prop, "C06") {
			out.Failure = nil
			out.label("foreign-clause")
		}
		out.NonTriv = out.Labels["denied"] || out.Labels["redirect-followed"] || (out.Labels["allowed-delivery"] && !out.Labels["answered:status-2xx"])
		pEmit("C06", "TestProp_C06_RealDeliverer", c, out)
		if out.Failure != nil {
			verifkit.SaveFailing("TestProp_C06_RealDeliverer", c, out.Failure)
			rt.Fatalf("%v", out.Failure)
		}
	})
}

func TestProp_C16_Deliver(t *testing.T) {
	gen := genC16Case(11)
	rapid.Check(t, func(rt *rapid.T) {
		c := gen.Draw(rt, "case")
		out := runC16Deliver(c)
		pEmit("C16", "TestProp_C16_Deliver", c, out)
		if out.Failure != nil {
			verifkit.SaveFailing("TestProp_C16_Deliver", c, out.Failure)
			rt.Fatalf("%v", out.Failure)
		}
	})
}

// ---------------------------------------------------------------------------------------
// Native fuzz target over (policy bits, URL string, redirect location, IP bytes)
// ---------------------------------------------------------------------------------------

var c16FuzzRules = []string{"allowed.com", "*.allowed.com", "*", "evil.com", "10.0.0.0/8", "93.184.216.0/24", "fc00::/7", "127.0.0.1", "::1", "*.com", "0.0.0.0/0", "2000::/3"}

func c16FuzzCase(bits uint32, rawURL, loc string, ip []byte) C16Case {
	onoff := func(b bool) string {
		if b {
			return "on"
		}
		return "off"
	}
	c := C16Case{URL: rawURL, Final: 200}
	c.Pol.HTTPSOnly = onoff(bits&1 != 0)
	c.Pol.Redirects = onoff(bits&2 != 0)
	c.Pol.Rebind = onoff(bits&4 != 0)
	for i, r := range c16FuzzRules {
		if bits&(1<<(3+uint(i))) != 0 {
			c.Pol.Allow = append(c.Pol.Allow, r)
		}
		if bits&(1<<(15+uint(i))) != 0 {
			c.Pol.Deny = append(c.Pol.Deny, r)
		}
	}
	size := 4
	if bits&(1<<27) != 0 {
		size = 16
	}
	for len(ip) >= size && len(c.ResDefault) < 4 {
		if a, ok := netip.AddrFromSlice(ip[:size]); ok {
			c.ResDefault = append(c.ResDefault, a.String())
		}
		ip = ip[size:]
	}
	if loc != "" {
		code := []int{301, 302, 303, 307, 308}[(bits>>28)%5]
		c.Hops = []C16Hop{{Code: code, Loc: loc}}
	}
	return c
}

func c16FuzzBody(c C16Case) (*pOutcome, string) {
	out := runC16Policy(c)
	if out.Failure != nil {
		return out, "policy"
	}
	out2 := runC16Deliver(c)
	for l := range out.Labels {
		out2.label("policy:" + l)
	}
	out2.NonTriv = out2.NonTriv || out.NonTriv
	return out2, "deliver"
}

func Fuzz_C16(f *testing.F) {
	ipSeeds := [][]byte{{127, 0, 0, 1}, {10, 0, 0, 1, 93, 184, 216, 34}, {93, 184, 216, 34}, {169, 254, 169, 254}, {0, 0, 0, 0},
		{0, 0, 0, 0, 0, 0, 0, 0, 0, 0, 0xff, 0xff, 10, 0, 0, 1}, {0xfe, 0x80, 0, 0, 0, 0, 0, 0, 0, 0, 0, 0, 0, 0, 0, 1}, {}}
	urls := append([]string{"https://allowed.com/hook", "http://sub.allowed.com:8080/x", "https://evil.com/", "https://evilallowed.com/", "https://[::ffff:10.0.0.1]/", "ftp://allowed.com/"}, c16Nasty...)
	n := 0
	for _, u := range urls {
		for _, bits := range []uint32{0, 2, 4, 6, 7, 1<<3 | 2, 1<<3 | 1<<4 | 1<<18 | 6, 1<<7 | 1<<27 | 6, 1<<19 | 6, 1<<5 | 1<<18 | 2} {
			f.Add(bits, u, urls[(n*7+3)%len(urls)], ipSeeds[n%len(ipSeeds)])
			n++
		}
	}
	f.Fuzz(func(t *testing.T, bits uint32, rawURL string, loc string, ip []byte) {
		if !utf8.ValidString(rawURL) || !utf8.ValidString(loc) || len(rawURL) > 2048 || len(loc) > 2048 {
			t.Skip()
		}
		c := c16FuzzCase(bits, rawURL, loc, ip)
		out, _ := c16FuzzBody(c)
		pEmit("C16", "Fuzz_C16", c, out)
		if out.Failure != nil {
			if out.Failure.Prop == "HARNESS" {
				t.Skip()
			}
			verifkit.SaveFailing("Fuzz_C16", c, out.Failure)
			t.Fatalf("%v", out.Failure)
		}
	})
}

// TestProp_C16_FuzzShape drives the fuzz target's input shape from rapid so that the domain is
// also sampled by the ordinary search tier (the driver runs Fuzz_C16 on its seed corpus only).
func TestProp_C16_FuzzShape(t *testing.T) {
	rapid.Check(t, func(rt *rapid.T) {
		bits := rapid.Uint32().Draw(rt, "bits")
		u := genC16URL(rt, nil, false)
		loc := ""
		if pChance(rt, "has_loc", 1, 2) {
			loc = genC16URL(rt, nil, true)
		}
		var ip []byte
		for i, n := 0, pRange(rt, "nip", 0, 4); i < n; i++ {
			pool := c16AddrPool
			if pChance(rt, "ip_public", 1, 2) {
				pool = c16Public
			}
			a := netip.MustParseAddr(pFrom(rt, "ip", pool))
			if bits&(1<<27) != 0 {
				b := a.As16()
				ip = append(ip, b[:]...)
			} else if a.Is4() {
				b := a.As4()
				ip = append(ip, b[:]...)
			}
		}
		c := c16FuzzCase(bits, u, loc, ip)
		out, _ := c16FuzzBody(c)
		pEmit("C16", "TestProp_C16_FuzzShape", c, out)
		if out.Failure != nil {
			verifkit.SaveFailing("TestProp_C16_FuzzShape", c, out.Failure)
			rt.Fatalf("%v", out.Failure)
		}
	})
}
