//go:build verif

package dispatcher

import (
	"bufio"
	"bytes"
	"context"
	"crypto/hmac"
	"crypto/sha256"
	"encoding/hex"
	"fmt"
	"io"
	"net/http"
	"os"
	"sort"
	"strconv"
	"strings"
	"testing"
	"time"

	"github.com/nuetzliches/hookaido/internal/secrets"
	"github.com/nuetzliches/hookaido/internal/verifkit"
	"pgregory.net/rapid"
)

// ---------------------------------------------------------------------------------------
// C17 — outbound HMAC signing and rotation windows (outbound half + pure selection functions).
// ---------------------------------------------------------------------------------------

type C17Ver struct {
	ID     string `json:"id"`
	Src    string `json:"src"` // raw | env
	Val    string `json:"val"`
	EnvSet bool   `json:"env_set,omitempty"` // env: is the variable set when the delivery happens
	From   string `json:"from"`              // RFC3339 text as written in the config
	Until  string `json:"until,omitempty"`
}

type C17Case struct {
	Vers   []C17Ver `json:"vers,omitempty"`
	Refs   []int    `json:"refs,omitempty"`     // versions the target references, in listing order
	OneLn  bool     `json:"one_line,omitempty"` // all secret_ref values on one directive line
	Direct string   `json:"direct,omitempty"`   // "sign hmac <ref>" form instead of secret_ref: raw | env | env-unset
	Sel    string   `json:"sel,omitempty"`
	SigHdr string   `json:"sig_hdr,omitempty"`
	TsHdr  string   `json:"ts_hdr,omitempty"`
	URL    string   `json:"url"`
	Method string   `json:"method,omitempty"`
	Body   []byte   `json:"body"`
	Forged bool     `json:"forged,omitempty"` // the payload headers already carry the two header names
	Now    string   `json:"now"`              // RFC3339Nano instant returned by HTTPDeliverer.Now
}

const (
	c17DefaultSigHdr = "X-Hookaido-Signature"
	c17DefaultTsHdr  = "X-Hookaido-Timestamp"
	c17DirectRaw     = "direct-secret-value"
	c17DirectEnv     = "VERIF_C17_DIRECT"
)

func c17EnvName(i int) string { return fmt.Sprintf("VERIF_C17_K%d", i) }

func c17ConfigText(c C17Case) string {
	var b strings.Builder
	if len(c.Vers) > 0 {
		b.WriteString("secrets {\n")
		for i, v := range c.Vers {
			val := "raw:" + v.Val
			if v.Src == "env" {
				val = "env:" + c17EnvName(i)
			}
			fmt.Fprintf(&b, "  secret %s {\n    value %s\n    valid_from %s\n", pQuote(v.ID), pQuote(val), pQuote(v.From))
			if v.Until != "" {
				fmt.Fprintf(&b, "    valid_until %s\n", pQuote(v.Until))
			}
			b.WriteString("  }\n")
		}
		b.WriteString("}\n")
	}
	b.WriteString("\"/r\" {\n  queue { backend \"memory\" }\n")
	fmt.Fprintf(&b, "  deliver %s {\n", pQuote(c.URL))
	switch c.Direct {
	case "raw":
		b.WriteString("    sign hmac " + pQuote("raw:"+c17DirectRaw) + "\n")
	case "env", "env-unset":
		b.WriteString("    sign hmac " + pQuote("env:"+c17DirectEnv) + "\n")
	default:
		if c.OneLn {
			b.WriteString("    sign hmac secret_ref")
			for _, r := range c.Refs {
				b.WriteString(" " + pQuote(c.Vers[r].ID))
			}
			b.WriteString("\n")
		} else {
			for _, r := range c.Refs {
				b.WriteString("    sign hmac secret_ref " + pQuote(c.Vers[r].ID) + "\n")
			}
		}
		if c.Sel != "" {
			b.WriteString("    sign secret_selection " + c.Sel + "\n")
		}
	}
	if c.SigHdr != "" {
		b.WriteString("    sign signature_header " + pQuote(c.SigHdr) + "\n")
	}
	if c.TsHdr != "" {
		b.WriteString("    sign timestamp_header " + pQuote(c.TsHdr) + "\n")
	}
	b.WriteString("  }\n}\n")
	return b.String()
}

// --- oracle -------------------------------------------------------------------------------

type c17Window struct {
	ID       string
	From     time.Time
	Until    time.Time
	HasUntil bool
}

func (w c17Window) validAt(t time.Time) bool {
	// valid_from inclusive, valid_until exclusive
	if t.Before(w.From) {
		return false
	}
	if w.HasUntil && !t.Before(w.Until) {
		return false
	}
	return true
}

// c17Pick returns the indices the statement allows: newest/oldest valid_from among the valid
// versions; a tie is broken "by id" (the statement does not say in which direction, so the
// smallest and the largest id of the tied group are both accepted). ok=false: none valid.
func c17Pick(ws []c17Window, sel string, t time.Time) (cands []int, valid []int) {
	for i, w := range ws {
		if w.validAt(t) {
			valid = append(valid, i)
		}
	}
	if len(valid) == 0 {
		return nil, nil
	}
	oldest := strings.EqualFold(strings.TrimSpace(sel), "oldest_valid")
	best := ws[valid[0]].From
	for _, i := range valid {
		if (oldest && ws[i].From.Before(best)) || (!oldest && ws[i].From.After(best)) {
			best = ws[i].From
		}
	}
	var tied []int
	for _, i := range valid {
		if ws[i].From.Equal(best) {
			tied = append(tied, i)
		}
	}
	sort.Slice(tied, func(a, b int) bool { return ws[tied[a]].ID < ws[tied[b]].ID })
	cands = []int{tied[0]}
	if len(tied) > 1 {
		cands = append(cands, tied[len(tied)-1])
	}
	return cands, valid
}

func c17Sign(secret []byte, method, path, ts string, body []byte) string {
	sum := sha256.Sum256(body)
	mac := hmac.New(sha256.New, secret)
	mac.Write([]byte(method + "\n" + path + "\n" + ts + "\n" + hex.EncodeToString(sum[:])))
	return hex.EncodeToString(mac.Sum(nil))
}

// --- recording transport: serialises the request as the wire would see it ------------------

type c17Seen struct {
	Method     string
	RequestURI string
	Header     http.Header
	Body       []byte
}

type c17RT struct{ seen []c17Seen }

func (rt *c17RT) RoundTrip(req *http.Request) (*http.Response, error) {
	var buf bytes.Buffer
	if err := req.Write(&buf); err != nil {
		return nil, err
	}
	pr, err := http.ReadRequest(bufio.NewReader(&buf))
	if err != nil {
		return nil, fmt.Errorf("verif: request on the wire is not parsable: %w", err)
	}
	body, _ := io.ReadAll(pr.Body)
	rt.seen = append(rt.seen, c17Seen{Method: pr.Method, RequestURI: pr.RequestURI, Header: pr.Header, Body: body})
	return &http.Response{StatusCode: 200, Status: "200 OK", Proto: "HTTP/1.1", ProtoMajor: 1, ProtoMinor: 1, Header: http.Header{}, Body: http.NoBody, Request: req}, nil
}

// --- generator ------------------------------------------------------------------------------

var (
	c17Base  = time.Date(2026, 3, 1, 0, 0, 0, 0, time.UTC)
	c17Zones = []*time.Location{time.UTC, time.UTC, time.FixedZone("", 2*3600), time.FixedZone("", -(5*3600 + 1800)), time.FixedZone("", 14*3600), time.FixedZone("", 0)}
	c17IDs   = []string{"S1", "S2", "S3", "S4", "S5", "S10", "a", "B", "s-1", "key.v2", "Z9"}
	c17URLs  = []string{
		"https://t0.example", "https://t0.example/", "https://t0.example/hook", "https://t0.example/hook", "https://t0.example/a%2Fb", "https://t0.example/a%2fb",
		"https://t0.example/a%20b", "https://t0.example/é", "https://t0.example/a/b/../c", "https://t0.example/hook?x=1&y=%2F", "https://t0.example?x=1",
		"https://t0.example/hook#frag", "https://t0.example/%7Euser", "https://t0.example/~user", "https://t0.example//double", "https://t0.example/a+b",
		"https://t0.example/%E2%9C%93", "https://t0.example/a;b=c", "https://t0.example/a:b@c", "https://t0.example/*", "https://t0.example/a b",
		"https://t0.example/%zz", "https://t0.example/a%2Fb/", "https://T0.Example:8443/Hook", "https://t0.example/a%3Fb?c", "https://t0.example/[x]", "https://t0.example/a|b^c",
	}
	c17Hdrs   = []string{"", "", "X-Sig", "x-custom-sig", "Signature", "X-Hookaido-Signature", "X-Ts", "x-custom-ts", "X-Hookaido-Timestamp", "Bad Header", "X-Sig"}
	c17Deltas = []time.Duration{-time.Second, -time.Nanosecond, 0, 0, time.Nanosecond, time.Second, 30 * time.Minute, -30 * time.Minute, 500 * time.Millisecond, -500 * time.Millisecond}
)

func c17FormatTime(t time.Time, loc *time.Location) string {
	return t.In(loc).Format(time.RFC3339Nano)
}

type c17GenWin struct {
	from, until time.Time
	hasUntil    bool
}

func genC17Windows(t *rapid.T, n int) []c17GenWin {
	out := make([]c17GenWin, n)
	for i := range out {
		from := c17Base.Add(time.Duration(pRange(t, "from_h", 0, 6)) * time.Hour)
		if pChance(t, "from_frac", 1, 6) {
			from = from.Add(500 * time.Millisecond)
		}
		out[i].from = from
		if pChance(t, "has_until", 2, 3) {
			out[i].hasUntil = true
			out[i].until = from.Add(time.Duration(pRange(t, "len_h", 1, 6)) * time.Hour)
			if pChance(t, "until_frac", 1, 6) {
				out[i].until = out[i].until.Add(500 * time.Millisecond)
			}
		}
	}
	return out
}

func genC17Instant(t *rapid.T, ws []c17GenWin) time.Time {
	var bounds []time.Time
	for _, w := range ws {
		bounds = append(bounds, w.from)
		if w.hasUntil {
			bounds = append(bounds, w.until)
		}
	}
	bounds = append(bounds, c17Base.Add(-time.Hour), c17Base.Add(20*time.Hour))
	return pFrom(t, "boundary", bounds).Add(pFrom(t, "delta", c17Deltas))
}

func genC17Case() *rapid.Generator[C17Case] {
	return rapid.Custom(func(t *rapid.T) C17Case {
		var c C17Case
		c.URL = pFrom(t, "url", c17URLs)
		c.Method = pFrom(t, "method", []string{"", "", "POST", "PUT"})
		c.Body = rapid.SliceOfN(rapid.Byte(), 0, 48).Draw(t, "body")
		c.Forged = pChance(t, "forged", 1, 5)
		if pChance(t, "custom_hdr", 1, 4) {
			c.SigHdr = pFrom(t, "sig_hdr", c17Hdrs)
			c.TsHdr = pFrom(t, "ts_hdr", c17Hdrs)
		}
		n := pRange(t, "nvers", 1, 5)
		ws := genC17Windows(t, n)
		off := pIdx(t, "id_off", len(c17IDs))
		step := pFrom(t, "id_step", []int{1, 3, 5, 7})
		for i := 0; i < n; i++ {
			v := C17Ver{ID: c17IDs[(off+i*step)%len(c17IDs)], Src: "raw", Val: fmt.Sprintf("k%d-%s", i, pFrom(t, "val", c17Vals))}
			if pChance(t, "env", 1, 4) {
				v.Src = "env"
				v.EnvSet = !pChance(t, "env_unset", 1, 4)
			}
			v.From = c17FormatTime(ws[i].from, pFrom(t, "from_zone", c17Zones))
			if ws[i].hasUntil {
				v.Until = c17FormatTime(ws[i].until, pFrom(t, "until_zone", c17Zones))
			}
			c.Vers = append(c.Vers, v)
		}
		switch pIdx(t, "direct", 12) {
		case 10:
			c.Direct = "raw"
		case 11:
			c.Direct = pFrom(t, "direct_env", []string{"env", "env-unset"})
		default:
			nrefs := n
			if pChance(t, "subset_refs", 1, 3) {
				nrefs = pRange(t, "nrefs", 1, n)
			}
			c.Refs = rapid.Permutation(seqInts(n)).Draw(t, "refs")[:nrefs]
			c.OneLn = pChance(t, "one_line", 1, 2)
			c.Sel = pFrom(t, "sel", c17Sels)
		}
		c.Now = genC17Instant(t, ws).Format(time.RFC3339Nano)
		return c
	})
}

var (
	c17Vals = []string{"secret", "pässwörd 1", "s3cr3t!$%&/()=?", "x", "0123456789abcdef0123456789abcdef0123456789abcdef0123456789abcdef-longer-than-a-sha256-block"}
	c17Sels = []string{"", "newest_valid", "oldest_valid", "oldest_valid", "newest_valid", "OLDEST_VALID", "oldest_valid", "", "oldest_valid", "newest_valid", "oldest_valid", "latest"}
)

func seqInts(n int) []int {
	out := make([]int, n)
	for i := range out {
		out[i] = i
	}
	return out
}

// --- runner ---------------------------------------------------------------------------------

func runC17Sign(c C17Case) *pOutcome {
	out := newPOutcome()
	if g := pAppMappingGuard(); g != "" {
		out.Failure = pFail("HARNESS", "app-mapping-copy", 0, "%s", g)
		return out
	}
	now, err := time.Parse(time.RFC3339Nano, c.Now)
	if err != nil {
		out.Skipped = "bad now"
		return out
	}
	for _, r := range c.Refs {
		if r < 0 || r >= len(c.Vers) {
			out.Skipped = "bad ref"
			return out
		}
	}
	// environment as the case says
	var envNames []string
	for i, v := range c.Vers {
		if v.Src == "env" {
			envNames = append(envNames, c17EnvName(i))
			if v.EnvSet {
				os.Setenv(c17EnvName(i), v.Val)
			} else {
				os.Unsetenv(c17EnvName(i))
			}
		}
	}
	envNames = append(envNames, c17DirectEnv)
	if c.Direct == "env" {
		os.Setenv(c17DirectEnv, c17DirectRaw+"-env")
	} else {
		os.Unsetenv(c17DirectEnv)
	}
	defer func() {
		for _, n := range envNames {
			os.Unsetenv(n)
		}
	}()

	compiled, errs := pCompile(c17ConfigText(c))
	if errs != nil {
		out.label("config-rejected")
		out.Skipped = "config rejected: " + errs[0]
		return out
	}
	routes := pBuildDispatchRoutes(compiled)
	if len(routes) != 1 || len(routes[0].Targets) != 1 || routes[0].Targets[0].SignHMAC == nil {
		out.Failure = pFail("HARNESS", "routes", 0, "signing target not produced: %+v", routes)
		return out
	}
	target := routes[0].Targets[0]
	if c17Shared != nil {
		// the real dispatcher keeps one compiled target (and one signing config object) for its whole life
		if c17Shared.target != nil {
			target = *c17Shared.target
		} else {
			t := target
			c17Shared.target = &t
		}
	}

	// independent reading of the case
	sigHdr, tsHdr := c.SigHdr, c.TsHdr
	if sigHdr == "" {
		sigHdr = c17DefaultSigHdr
	}
	if tsHdr == "" {
		tsHdr = c17DefaultTsHdr
	}
	type cand struct {
		secret   []byte
		loadable bool
		name     string
	}
	var cands []cand
	mayBeNone := false
	if c.Direct != "" {
		switch c.Direct {
		case "raw":
			cands = []cand{{[]byte(c17DirectRaw), true, "direct-raw"}}
		case "env":
			cands = []cand{{[]byte(c17DirectRaw + "-env"), true, "direct-env"}}
		default:
			cands = []cand{{nil, false, "direct-env-unset"}}
		}
		out.label("form:direct-" + c.Direct)
	} else {
		var ws []c17Window
		var vers []C17Ver
		for _, r := range c.Refs {
			v := c.Vers[r]
			from, err1 := time.Parse(time.RFC3339Nano, v.From)
			w := c17Window{ID: v.ID, From: from}
			if v.Until != "" {
				until, err2 := time.Parse(time.RFC3339Nano, v.Until)
				if err2 != nil {
					err1 = err2
				}
				w.Until, w.HasUntil = until, true
			}
			if err1 != nil {
				out.Skipped = "bad window text"
				return out
			}
			ws = append(ws, w)
			vers = append(vers, v)
		}
		// "signing time": the instant Now() returned; the header carries it truncated to seconds.
		readings := []time.Time{now}
		if trunc := now.Truncate(time.Second); !trunc.Equal(now) {
			readings = append(readings, trunc)
		}
		seen := map[int]bool{}
		for ri, t := range readings {
			picks, valid := c17Pick(ws, c.Sel, t)
			if ri == 0 {
				if len(valid) >= 2 {
					out.NonTriv = true
					out.label("nt:>=2-valid")
				}
				out.label(fmt.Sprintf("valid=%d", min(len(valid), 3)))
				if len(picks) > 1 {
					out.label("tie-on-valid_from")
				}
			}
			if len(picks) == 0 {
				mayBeNone = true
			}
			for _, p := range picks {
				if seen[p] {
					continue
				}
				seen[p] = true
				v := vers[p]
				cd := cand{secret: []byte(v.Val), loadable: true, name: v.ID}
				if v.Src == "env" && (!v.EnvSet || v.Val == "") {
					cd.loadable = false
				}
				cands = append(cands, cd)
			}
		}
		if len(readings) > 1 {
			p0, _ := c17Pick(ws, c.Sel, readings[0])
			p1, _ := c17Pick(ws, c.Sel, readings[1])
			if fmt.Sprint(p0) != fmt.Sprint(p1) {
				out.label("open:sub-second-boundary")
			}
		}
		for _, w := range ws {
			for _, b := range []time.Time{w.From, w.Until} {
				if !b.IsZero() {
					if d := now.Sub(b); d >= -time.Second && d <= time.Second {
						out.NonTriv = true
						out.label("nt:within-1s-of-boundary")
						if d == 0 {
							out.label("at-boundary-exactly")
						}
					}
				}
			}
		}
		out.label("form:secret_ref")
		sel := strings.ToLower(c.Sel)
		if sel == "" {
			sel = "default"
		}
		out.label("sel:" + sel)
	}

	// run: a new HTTPDeliverer per case (it caches loaded secrets)
	rt := &c17RT{}
	var hd *HTTPDeliverer
	if c17Shared != nil && c17Shared.hd != nil {
		// sequence test: the same deliverer signs several deliveries at different instants
		hd, rt = c17Shared.hd, c17Shared.rt
		rt.seen = nil
	} else {
		hd = NewHTTPDeliverer(&http.Client{Transport: rt}, pEgressPolicy(compiled))
		hd.Resolver = &c16Resolver{w: newC16World(C16Case{})}
		if c17Shared != nil {
			c17Shared.hd, c17Shared.rt = hd, rt
		}
	}
	hd.Now = func() time.Time { return now }
	hdr := http.Header{}
	hdr.Set("Content-Type", "application/octet-stream")
	if c.Forged {
		hdr.Set(sigHdr, "forged-signature")
		hdr.Set(tsHdr, "1")
		out.label("forged-headers-in-payload")
	}
	method := c.Method
	if method == "" {
		method = http.MethodPost
	}
	res := hd.Deliver(context.Background(), Delivery{ID: "m", Target: target.URL, Method: c.Method, URL: target.URL, Header: hdr, Body: c.Body, Sign: target.SignHMAC})

	describe := func() string {
		names := []string{}
		for _, cd := range cands {
			names = append(names, fmt.Sprintf("%s(loadable=%v)", cd.name, cd.loadable))
		}
		return fmt.Sprintf("now=%s candidates=%v none-valid-possible=%v", c.Now, names, mayBeNone)
	}

	if len(rt.seen) == 0 {
		out.label("nothing-sent")
		okNone := mayBeNone
		for _, cd := range cands {
			if !cd.loadable {
				okNone = true
			}
		}
		if res.Err == nil {
			out.Failure = pFail("C17", "silent-no-send", 0, "no request was sent but Deliver reported %+v; %s", res, describe())
			return out
		}
		if !okNone {
			out.Failure = pFail("C17", "valid-secret-not-used", 0, "a valid, loadable secret exists but nothing was sent (%v); %s", res.Err, describe())
			return out
		}
		if mayBeNone {
			out.label("no-valid-version")
		} else {
			out.label("secret-unloadable")
		}
		return out
	}
	if len(rt.seen) != 1 {
		out.Failure = pFail("HARNESS", "requests", 0, "%d requests recorded", len(rt.seen))
		return out
	}
	seen := rt.seen[0]
	out.label("sent")
	wirePath := seen.RequestURI
	if i := strings.IndexByte(wirePath, '?'); i >= 0 {
		wirePath = wirePath[:i]
	}
	if wirePath == "" {
		wirePath = "/"
	}
	if strings.ContainsAny(wirePath, "%") {
		out.label("path-with-escapes")
	}
	if !bytes.Equal(seen.Body, c.Body) {
		out.Failure = pFail("C17", "body-altered", 0, "body on the wire (%d bytes) differs from the payload (%d bytes)", len(seen.Body), len(c.Body))
		return out
	}
	if seen.Method != strings.ToUpper(method) {
		out.Failure = pFail("HARNESS", "method", 0, "method on the wire %q, requested %q", seen.Method, method)
		return out
	}
	wantTs := strconv.FormatInt(now.Unix(), 10)
	if got := seen.Header.Values(tsHdr); len(got) != 1 || got[0] != wantTs {
		out.Failure = pFail("C17", "timestamp-header", 0, "header %s = %q, want exactly [%s]", tsHdr, got, wantTs)
		return out
	}
	gotSig := seen.Header.Values(sigHdr)
	if len(gotSig) != 1 {
		out.Failure = pFail("C17", "signature-header", 0, "header %s = %q, want exactly one value", sigHdr, gotSig)
		return out
	}
	matched := ""
	for _, cd := range cands {
		if cd.loadable && hmac.Equal([]byte(gotSig[0]), []byte(c17Sign(cd.secret, seen.Method, wirePath, wantTs, seen.Body))) {
			matched = cd.name
		}
	}
	if matched == "" {
		// diagnose: which secret / which canonical string was it?
		diag := "no configured secret reproduces it"
		for i, v := range c.Vers {
			for _, p := range []string{wirePath, "/", seen.RequestURI} {
				for _, bd := range [][]byte{seen.Body, nil} {
					if gotSig[0] == c17Sign([]byte(v.Val), seen.Method, p, wantTs, bd) {
						diag = fmt.Sprintf("it is the signature of version %q (#%d) over path %q, body %d bytes", v.ID, i, p, len(bd))
					}
				}
			}
		}
		out.Failure = pFail("C17", "signature", 0, "signature %s over %s %s ts=%s is not that of an allowed secret: %s; %s", gotSig[0], seen.Method, wirePath, wantTs, diag, describe())
		return out
	}
	out.label("signed-ok")
	return out
}

// c17Shared, when set, makes runC17Sign reuse one HTTPDeliverer across calls (sequence test).
var c17Shared *struct {
	hd     *HTTPDeliverer
	rt     *c17RT
	target *TargetConfig
}

// C17SeqCase: one target and one long-lived deliverer, deliveries at several instants (in the
// order given, which need not be chronological: a deliverer must not depend on call history).
type C17SeqCase struct {
	Base C17Case  `json:"base"`
	Nows []string `json:"nows"`
}

func runC17Seq(c C17SeqCase) *pOutcome {
	c17Shared = &struct {
		hd     *HTTPDeliverer
		rt     *c17RT
		target *TargetConfig
	}{}
	defer func() { c17Shared = nil }()
	agg := newPOutcome()
	for i, n := range c.Nows {
		step := c.Base
		step.Now = n
		out := runC17Sign(step)
		for l := range out.Labels {
			agg.label(l)
		}
		agg.NonTriv = agg.NonTriv || out.NonTriv
		if out.Failure != nil {
			out.Failure.Step = i
			out.Failure.Detail = fmt.Sprintf("delivery #%d of %d by one deliverer (instants %v): %s", i+1, len(c.Nows), c.Nows, out.Failure.Detail)
			agg.Failure = out.Failure
			return agg
		}
		if out.Skipped != "" {
			agg.Skipped = out.Skipped
			return agg
		}
	}
	if len(c.Nows) >= 2 {
		agg.label("sequence>=2")
	}
	return agg
}

func TestProp_C17_SignSequence(t *testing.T) {
	base := genC17Case()
	rapid.Check(t, func(rt *rapid.T) {
		b := base.Draw(rt, "base")
		c := C17SeqCase{Base: b}
		// instants: the base instant plus others around the window edges of the same case
		var ws []c17GenWin
		for _, v := range b.Vers {
			from, err := time.Parse(time.RFC3339Nano, v.From)
			if err != nil {
				continue
			}
			w := c17GenWin{from: from}
			if v.Until != "" {
				if u, err := time.Parse(time.RFC3339Nano, v.Until); err == nil {
					w.until = u
				}
			}
			ws = append(ws, w)
		}
		n := rapid.IntRange(2, 5).Draw(rt, "n")
		for i := 0; i < n; i++ {
			if len(ws) == 0 || rapid.IntRange(0, 3).Draw(rt, "use_base") == 0 {
				c.Nows = append(c.Nows, b.Now)
				continue
			}
			w := ws[rapid.IntRange(0, len(ws)-1).Draw(rt, "w")]
			edge := w.from
			if !w.until.IsZero() && rapid.Bool().Draw(rt, "until_edge") {
				edge = w.until
			}
			d := rapid.SampledFrom([]time.Duration{-24 * time.Hour, -time.Second, -1, 0, 1, time.Second, time.Hour, 24 * time.Hour, 240 * time.Hour}).Draw(rt, "d")
			c.Nows = append(c.Nows, edge.Add(d).UTC().Format(time.RFC3339Nano))
		}
		out := runC17Seq(c)
		pEmit("C17", "TestProp_C17_SignSequence", c, out)
		if out.Failure != nil {
			verifkit.SaveFailing("TestProp_C17_SignSequence", c, out.Failure)
			rt.Fatalf("%v", out.Failure)
		}
	})
}

func TestProp_C17_Sign(t *testing.T) {
	gen := genC17Case()
	rapid.Check(t, func(rt *rapid.T) {
		c := gen.Draw(rt, "case")
		out := runC17Sign(c)
		pEmit("C17", "TestProp_C17_Sign", c, out)
		if out.Failure != nil {
			verifkit.SaveFailing("TestProp_C17_Sign", c, out.Failure)
			rt.Fatalf("%v", out.Failure)
		}
	})
}

// ---------------------------------------------------------------------------------------
// Pure selection / validity functions
// ---------------------------------------------------------------------------------------

type C17SelVer struct {
	ID      string `json:"id"`
	FromNs  int64  `json:"from_ns"`            // offset from 2026-03-01T00:00:00Z
	UntilNs int64  `json:"until_ns,omitempty"` // offset; 0 = no valid_until
}

type C17SelCase struct {
	Vers []C17SelVer `json:"vers"`
	Sel  string      `json:"sel,omitempty"`
	AtNs int64       `json:"at_ns"`
}

func genC17SelCase() *rapid.Generator[C17SelCase] {
	return rapid.Custom(func(t *rapid.T) C17SelCase {
		var c C17SelCase
		n := pRange(t, "n", 1, 5)
		off := pIdx(t, "id_off", len(c17IDs))
		step := pFrom(t, "id_step", []int{1, 3, 5, 7})
		var bounds []int64
		for i := 0; i < n; i++ {
			from := int64(pRange(t, "from_s", 1, 5))*int64(time.Second) + pFrom(t, "from_ns", []int64{0, 0, 0, 1, -1, 500000000})
			v := C17SelVer{ID: c17IDs[(off+i*step)%len(c17IDs)], FromNs: from}
			if pChance(t, "has_until", 2, 3) {
				v.UntilNs = from + int64(pRange(t, "len_s", 1, 4))*int64(time.Second) + pFrom(t, "until_ns", []int64{0, 0, 0, 1, -1})
				bounds = append(bounds, v.UntilNs)
			}
			bounds = append(bounds, from)
			c.Vers = append(c.Vers, v)
		}
		bounds = append(bounds, 0, int64(20*time.Second))
		c.AtNs = pFrom(t, "bound", bounds) + pFrom(t, "delta", []int64{0, 0, 1, -1, 1000000000, -1000000000, 2, -2})
		c.Sel = pFrom(t, "sel", []string{"", "newest_valid", "oldest_valid", "oldest_valid"})
		return c
	})
}

func runC17Select(c C17SelCase) *pOutcome {
	out := newPOutcome()
	if len(c.Vers) == 0 {
		out.Skipped = "empty"
		return out
	}
	at := c17Base.Add(time.Duration(c.AtNs))
	var ws []c17Window
	cfg := &HMACSigningConfig{SecretSelection: c.Sel, SignatureHeader: "X-S", TimestampHeader: "X-T"}
	set := secrets.Set{}
	for _, v := range c.Vers {
		w := c17Window{ID: v.ID, From: c17Base.Add(time.Duration(v.FromNs))}
		sv := HMACSigningSecretVersion{ID: v.ID, Ref: "raw:" + v.ID, ValidFrom: w.From}
		pv := secrets.Version{ID: v.ID, Value: []byte(v.ID), ValidFrom: w.From}
		if v.UntilNs != 0 {
			w.Until, w.HasUntil = c17Base.Add(time.Duration(v.UntilNs)), true
			if !w.Until.After(w.From) {
				out.Skipped = "window the compiler rejects"
				return out
			}
			sv.ValidUntil, sv.HasUntil = w.Until, true
			pv.ValidUntil = w.Until
		}
		ws = append(ws, w)
		cfg.SecretVersions = append(cfg.SecretVersions, sv)
		set.Versions = append(set.Versions, pv)
	}
	picks, valid := c17Pick(ws, c.Sel, at)
	validIDs := map[string]bool{}
	for _, i := range valid {
		validIDs[ws[i].ID] = true
	}
	if len(valid) >= 2 {
		out.NonTriv = true
		out.label("nt:>=2-valid")
	}
	for _, w := range ws {
		for _, b := range []time.Time{w.From, w.Until} {
			if !b.IsZero() {
				if d := at.Sub(b); d >= -time.Second && d <= time.Second {
					out.NonTriv = true
					out.label("nt:within-1s-of-boundary")
				}
				if at.Equal(b) {
					out.label("at-boundary-exactly")
				}
			}
		}
	}
	out.label(fmt.Sprintf("valid=%d", min(len(valid), 3)))
	if len(picks) > 1 {
		out.label("tie-on-valid_from")
	}

	// (a) dispatcher: validity predicate and selection
	for i, sv := range cfg.SecretVersions {
		if got, want := isSigningSecretVersionValidAt(sv, at), ws[i].validAt(at); got != want {
			out.Failure = pFail("C17", "dispatcher-validity", i, "isSigningSecretVersionValidAt(%s [%s,%s) at %s) = %v, statement says %v", sv.ID, ws[i].From.Format(time.RFC3339Nano), c17Fmt(ws[i]), at.Format(time.RFC3339Nano), got, want)
			return out
		}
	}
	ref, err := selectSigningSecretRef(cfg, at)
	if len(picks) == 0 {
		if err == nil {
			out.Failure = pFail("C17", "selection", 0, "no version is valid at %s but selectSigningSecretRef chose %q", at.Format(time.RFC3339Nano), ref)
			return out
		}
		out.label("none-valid")
	} else {
		ok := false
		for _, p := range picks {
			if ref == "raw:"+ws[p].ID {
				ok = true
			}
		}
		if err != nil || !ok {
			names := []string{}
			for _, p := range picks {
				names = append(names, ws[p].ID)
			}
			out.Failure = pFail("C17", "selection", 0, "selection %q at %s: got %q (%v), statement allows %v among valid %v", c.Sel, at.Format(time.RFC3339Nano), ref, err, names, validIDs)
			return out
		}
		out.label("selected")
	}

	// (b) internal/secrets: IsValidAt / ValidAt / SigningAt
	for i, pv := range set.Versions {
		if got, want := pv.IsValidAt(at), ws[i].validAt(at); got != want {
			out.Failure = pFail("C17", "secrets-validity", i, "secrets.Version{%s}.IsValidAt(%s) = %v, statement says %v (window [%s,%s))", pv.ID, at.Format(time.RFC3339Nano), got, want, ws[i].From.Format(time.RFC3339Nano), c17Fmt(ws[i]))
			return out
		}
	}
	got := set.ValidAt(at)
	gotIDs := map[string]bool{}
	for _, v := range got {
		gotIDs[v.ID] = true
	}
	if len(got) != len(valid) || fmt.Sprint(gotIDs) != fmt.Sprint(validIDs) {
		out.Failure = pFail("C17", "secrets-valid-set", 0, "secrets.Set.ValidAt(%s) = %v, the valid versions are %v", at.Format(time.RFC3339Nano), gotIDs, validIDs)
		return out
	}
	newest, _ := c17Pick(ws, "newest_valid", at)
	sv, ok := set.SigningAt(at)
	if ok != (len(newest) > 0) {
		out.Failure = pFail("C17", "secrets-signing-at", 0, "secrets.Set.SigningAt(%s) ok=%v but %d versions are valid", at.Format(time.RFC3339Nano), ok, len(valid))
		return out
	}
	if ok {
		match := false
		for _, p := range newest {
			if ws[p].ID == sv.ID {
				match = true
			}
		}
		if !match {
			out.Failure = pFail("C17", "secrets-signing-at", 0, "secrets.Set.SigningAt(%s) = %s, newest valid is index %v", at.Format(time.RFC3339Nano), sv.ID, newest)
			return out
		}
	}
	return out
}

func c17Fmt(w c17Window) string {
	if !w.HasUntil {
		return "inf"
	}
	return w.Until.Format(time.RFC3339Nano)
}

func TestProp_C17_Select(t *testing.T) {
	gen := genC17SelCase()
	rapid.Check(t, func(rt *rapid.T) {
		c := gen.Draw(rt, "case")
		out := runC17Select(c)
		pEmit("C17", "TestProp_C17_Select", c, out)
		if out.Failure != nil {
			verifkit.SaveFailing("TestProp_C17_Select", c, out.Failure)
			rt.Fatalf("%v", out.Failure)
		}
	})
}
