//go:build verif

package dispatcher

import (
	"crypto/sha256"
	"encoding/hex"
	"fmt"
	"log/slog"
	"os"
	"path/filepath"
	"sort"
	"strings"
	"sync"
	"sync/atomic"
	"time"

	"github.com/nuetzliches/hookaido/internal/config"
	"github.com/nuetzliches/hookaido/internal/queue"
	"github.com/nuetzliches/hookaido/internal/verifkit"
	"pgregory.net/rapid"
)

// ---------------------------------------------------------------------------------------
// Shared plumbing of the push engine (C06, C16, C17).
// ---------------------------------------------------------------------------------------

var pT0 = time.Date(2026, 3, 1, 12, 0, 0, 0, time.UTC)

var pLog = slog.New(slog.DiscardHandler)

// pClock is the injected clock of a case. It only moves when the runner moves it.
type pClock struct {
	mu sync.Mutex
	t  time.Time
}

func newPClock(t time.Time) *pClock { return &pClock{t: t} }

func (c *pClock) Now() time.Time {
	c.mu.Lock()
	defer c.mu.Unlock()
	return c.t
}

func (c *pClock) Set(t time.Time) {
	c.mu.Lock()
	c.t = t
	c.mu.Unlock()
}

func (c *pClock) Advance(d time.Duration) {
	c.mu.Lock()
	c.t = c.t.Add(d)
	c.mu.Unlock()
}

func pFail(prop, clause string, step int, format string, a ...any) *verifkit.Failure {
	return &verifkit.Failure{Prop: prop, Clause: clause, Step: step, Detail: fmt.Sprintf(format, a...)}
}

func pFailSig(prop, clause, sig string, step int, format string, a ...any) *verifkit.Failure {
	f := pFail(prop, clause, step, format, a...)
	f.Sig = sig
	return f
}

// pOutcome is what a runner returns to an entry point.
type pOutcome struct {
	Failure *verifkit.Failure
	Labels  map[string]bool
	Known   []string
	NonTriv bool
	Skipped string
}

func newPOutcome() *pOutcome { return &pOutcome{Labels: map[string]bool{}} }

func (o *pOutcome) label(l string) { o.Labels[l] = true }

func (o *pOutcome) labels() []string {
	out := make([]string, 0, len(o.Labels))
	for l := range o.Labels {
		out = append(out, l)
	}
	sort.Strings(out)
	return out
}

// tolerate turns a failure carrying a known-finding signature into a Known entry (search tier
// only). It reports whether the failure was tolerated.
func (o *pOutcome) tolerate(f *verifkit.Failure, tolerateKnown bool) bool {
	if f != nil && f.Sig != "" && tolerateKnown && verifkit.Known(f.Sig) {
		for _, k := range o.Known {
			if k == f.Sig {
				return true
			}
		}
		o.Known = append(o.Known, f.Sig)
		return true
	}
	return false
}

// pCompile runs the real parser and compiler on a Hookaidofile text.
func pCompile(text string) (config.Compiled, []string) {
	cfg, err := config.Parse([]byte(text))
	if err != nil {
		return config.Compiled{}, []string{"parse: " + err.Error()}
	}
	compiled, res := config.Compile(cfg)
	if len(res.Errors) > 0 {
		return config.Compiled{}, res.Errors
	}
	return compiled, nil
}

// pQuote renders a config string literal (the lexer understands \\ and \").
func pQuote(s string) string {
	s = strings.ReplaceAll(s, `\`, `\\`)
	s = strings.ReplaceAll(s, `"`, `\"`)
	return `"` + s + `"`
}

// pMapEgressRules / pEgressPolicy / pBuildDispatchRoutes are copies of mapEgressRules, the policy
// literal in run() and buildDispatchRoutes of internal/app/run.go: package dispatcher cannot
// import package app (import cycle). pAppMappingGuard checks that the originals are unchanged.
func pMapEgressRules(rules []config.EgressRule) []EgressRule {
	if len(rules) == 0 {
		return nil
	}
	out := make([]EgressRule, 0, len(rules))
	for _, r := range rules {
		out = append(out, EgressRule{Host: r.Host, Subdomains: r.Subdomains, CIDR: r.CIDR, IsCIDR: r.IsCIDR})
	}
	return out
}

func pEgressPolicy(compiled config.Compiled) EgressPolicy {
	return EgressPolicy{
		HTTPSOnly:           compiled.Defaults.EgressPolicy.HTTPSOnly,
		Redirects:           compiled.Defaults.EgressPolicy.Redirects,
		DNSRebindProtection: compiled.Defaults.EgressPolicy.DNSRebindProtection,
		Allow:               pMapEgressRules(compiled.Defaults.EgressPolicy.Allow),
		Deny:                pMapEgressRules(compiled.Defaults.EgressPolicy.Deny),
	}
}

func pBuildDispatchRoutes(compiled config.Compiled) []RouteConfig {
	routes := make([]RouteConfig, 0, len(compiled.Routes))
	for _, rt := range compiled.Routes {
		if len(rt.Deliveries) == 0 {
			continue
		}
		targets := make([]TargetConfig, 0, len(rt.Deliveries))
		for _, d := range rt.Deliveries {
			var signing *HMACSigningConfig
			if d.SigningHMAC.Enabled {
				secretVersions := make([]HMACSigningSecretVersion, 0, len(d.SigningHMAC.SecretVersions))
				for _, sv := range d.SigningHMAC.SecretVersions {
					secretVersions = append(secretVersions, HMACSigningSecretVersion{
						ID: sv.ID, Ref: sv.ValueRef, ValidFrom: sv.ValidFrom, ValidUntil: sv.ValidUntil, HasUntil: sv.HasUntil,
					})
				}
				signing = &HMACSigningConfig{
					SecretRef:       d.SigningHMAC.SecretRef,
					SecretVersions:  secretVersions,
					SecretSelection: d.SigningHMAC.SecretSelection,
					SignatureHeader: d.SigningHMAC.SignatureHeader,
					TimestampHeader: d.SigningHMAC.TimestampHeader,
				}
			}
			targets = append(targets, TargetConfig{
				URL:     d.URL,
				Timeout: d.Timeout,
				Retry: RetryConfig{
					Type: d.Retry.Type, Max: d.Retry.Max, Base: d.Retry.Base, Cap: d.Retry.Cap, Jitter: d.Retry.Jitter,
				},
				SignHMAC: signing,
			})
		}
		routes = append(routes, RouteConfig{Route: rt.Path, Targets: targets, Concurrency: rt.DeliverConcurrency})
	}
	return routes
}

// Hashes of the whitespace-stripped source of the three app/run.go fragments the copies above
// mirror (tree 6ce2c25 and descendants). A change there must be carried over by hand.
const (
	pHashMapEgressRules      = "14d6606b6276d59c"
	pHashBuildDispatchRoutes = "c2ee1685a2a32e12"
	pHashPolicyLiteral       = "ca378874626435bc"
)

var (
	pGuardOnce sync.Once
	pGuardErr  string
)

func pStrip(s string) string {
	return strings.Join(strings.Fields(s), "")
}

func pFragment(src, start, end string) (string, bool) {
	i := strings.Index(src, start)
	if i < 0 {
		return "", false
	}
	j := strings.Index(src[i+len(start):], end)
	if j < 0 {
		return "", false
	}
	return src[i : i+len(start)+j], true
}

func pShortHash(s string) string {
	h := sha256.Sum256([]byte(pStrip(s)))
	return hex.EncodeToString(h[:8])
}

// pAppMappingGuard returns "" when internal/app/run.go still contains the mapping code the
// harness copied (or when the source tree is not available to look at).
func pAppMappingGuard() string {
	pGuardOnce.Do(func() {
		repo := os.Getenv("VERIF_REPO_DIR")
		if repo == "" {
			return
		}
		b, err := os.ReadFile(filepath.Join(repo, "internal", "app", "run.go"))
		if err != nil {
			return
		}
		src := string(b)
		check := func(name, start, end, want string) {
			frag, ok := pFragment(src, start, end)
			if !ok {
				pGuardErr += name + " not found in internal/app/run.go; "
				return
			}
			if got := pShortHash(frag); got != want {
				pGuardErr += fmt.Sprintf("%s changed in internal/app/run.go (hash %s, harness copy made from %s); ", name, got, want)
			}
		}
		check("mapEgressRules", "func mapEgressRules(", "\n}\n", pHashMapEgressRules)
		check("buildDispatchRoutes", "func buildDispatchRoutes(", "\n}\n", pHashBuildDispatchRoutes)
		check("egress policy literal", "policy := dispatcher.EgressPolicy{", "\n\t\t}\n", pHashPolicyLiteral)
	})
	return pGuardErr
}

// ---------------------------------------------------------------------------------------
// stores
// ---------------------------------------------------------------------------------------

var pDBSeq atomic.Int64

var (
	pScratchOnce sync.Once
	pScratchDir  string
)

func pScratch() string {
	pScratchOnce.Do(func() { pScratchDir = verifkit.ScratchDir() })
	return pScratchDir
}

type pStoreHandle struct {
	st     queue.Store
	sql    *queue.SQLiteStore
	dbPath string
}

func openPStore(backend string, clk *pClock, deliveredRetention bool) (*pStoreHandle, error) {
	h := &pStoreHandle{}
	switch backend {
	case "memory":
		opts := []queue.MemoryOption{queue.WithNowFunc(clk.Now)}
		if deliveredRetention {
			opts = append(opts, queue.WithDeliveredRetention(24*time.Hour), queue.WithQueueRetention(0, time.Hour))
		}
		h.st = queue.NewMemoryStore(opts...)
	case "sqlite":
		h.dbPath = filepath.Join(pScratch(), fmt.Sprintf("p%d-%d.db", os.Getpid(), pDBSeq.Add(1)))
		opts := []queue.SQLiteOption{queue.WithSQLiteNowFunc(clk.Now), queue.WithSQLiteCheckpointInterval(0)}
		if deliveredRetention {
			opts = append(opts, queue.WithSQLiteDeliveredRetention(24*time.Hour), queue.WithSQLiteRetention(0, time.Hour))
		}
		s, err := queue.NewSQLiteStore(h.dbPath, opts...)
		if err != nil {
			return nil, err
		}
		h.sql = s
		h.st = s
	default:
		return nil, fmt.Errorf("unknown backend %q", backend)
	}
	return h, nil
}

// reopen closes the SQLite store and opens the same file again (a process restart); other backends stay.
func (h *pStoreHandle) reopen(clk *pClock, deliveredRetention bool) error {
	if h.sql == nil {
		return nil
	}
	if err := h.sql.Close(); err != nil {
		return err
	}
	opts := []queue.SQLiteOption{queue.WithSQLiteNowFunc(clk.Now), queue.WithSQLiteCheckpointInterval(0)}
	if deliveredRetention {
		opts = append(opts, queue.WithSQLiteDeliveredRetention(24*time.Hour), queue.WithSQLiteRetention(0, time.Hour))
	}
	s, err := queue.NewSQLiteStore(h.dbPath, opts...)
	if err != nil {
		return err
	}
	h.sql, h.st = s, s
	return nil
}

func (h *pStoreHandle) close() {
	if h.sql != nil {
		_ = h.sql.Close()
		for _, suf := range []string{"", "-wal", "-shm"} {
			_ = os.Remove(h.dbPath + suf)
		}
	}
}

func pEmit(prop, test string, c any, out *pOutcome) {
	verifkit.Emit(verifkit.Record{Prop: prop, Test: test, Hash: verifkit.Hash(c), NonTrivial: out.NonTriv,
		Labels: out.labels(), Known: out.Known, Skipped: out.Skipped}, c)
}

// ---------------------------------------------------------------------------------------
// Calibrated draws. rapid's IntRange/SampledFrom favour small values heavily (bit-length
// uniform); pools would be sampled almost only at their first elements. pIdx keeps rapid's
// shrinking (small raw values map to themselves, so a shrunk case uses the first pool entries)
// but spreads everything else evenly with a multiplicative hash.
// ---------------------------------------------------------------------------------------

func pIdx(t *rapid.T, label string, n int) int {
	x := rapid.Uint64().Draw(t, label) // always draw: a Custom generator must consume data
	if n <= 1 {
		return 0
	}
	if x < uint64(n) {
		return int(x)
	}
	return int(((x * 0x9E3779B97F4A7C15) >> 33) % uint64(n))
}

func pFrom[T any](t *rapid.T, label string, pool []T) T {
	return pool[pIdx(t, label, len(pool))]
}

// pChance is true with probability about num/den; it shrinks to false.
func pChance(t *rapid.T, label string, num, den int) bool {
	return pIdx(t, label, den) >= den-num
}

// pRange draws an int in [lo, hi] about evenly; it shrinks to lo.
func pRange(t *rapid.T, label string, lo, hi int) int {
	return lo + pIdx(t, label, hi-lo+1)
}
