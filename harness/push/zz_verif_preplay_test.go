//go:build verif

//go:debug randseednop=0

package dispatcher

import (
	"encoding/json"
	"fmt"
	"testing"

	"github.com/nuetzliches/hookaido/internal/verifkit"
)

// The go:debug line above makes math/rand.Seed effective again (go.mod says go 1.25, where it
// is a no-op by default): the lifecycle runner seeds the dispatcher's jitter source per case so
// that a saved case replays with the same delays.

func pReplay[C any](test string, run func(C) *pOutcome) {
	for _, rf := range verifkit.ReplayFiles(test) {
		var c C
		if err := json.Unmarshal(rf.Case, &c); err != nil {
			fmt.Printf("REPLAY-ERROR file=%s err=%v\n", rf.Path, err)
			continue
		}
		out := run(c)
		verifkit.ReportReplay(rf, out.Failure)
	}
}

// TestReplay_Push re-executes saved cases of every push-engine test without rapid.
func TestReplay_Push(t *testing.T) {
	pReplay("TestProp_C06_Table", func(c C06TableCase) *pOutcome { return runC06Table(c, false) })
	pReplay("TestProp_C06_Lifecycle", func(c C06LifeCase) *pOutcome { return runC06Life(c, false) })
	pReplay("TestProp_C06_Live", runC06Live)
	pReplay("TestProp_C16_Policy", runC16Policy)
	pReplay("TestProp_C16_Deliver", runC16Deliver)
	fuzzBody := func(c C16Case) *pOutcome { out, _ := c16FuzzBody(c); return out }
	pReplay("TestProp_C16_FuzzShape", fuzzBody)
	pReplay("Fuzz_C16", fuzzBody)
	pReplay("TestProp_C17_Sign", runC17Sign)
	pReplay("TestProp_C17_SignSequence", runC17Seq)
	pReplay("TestProp_C17_Select", runC17Select)
	pReplay("TestProp_C03_LeaseBudget", runC03Budget)
	pReplay("TestProp_C03_LiveDispatcher", runC03Live)
}
