//go:build verif

package dispatcher

import (
	"fmt"
	"testing"
	"time"

	"github.com/nuetzliches/hookaido/internal/config"
)

func TestProbe(t *testing.T) {
	txt := `
secrets {
  secret "S1" {
    value "raw:abc"
    valid_from "2026-01-01T00:00:00+02:00"
    valid_until "2026-07-01T00:00:00Z"
  }
}
defaults {
  egress {
    allow "*.allowed.com" "10.0.0.0/8" "::ffff:10.0.0.1"
    deny "evil.com"
    https_only off
    redirects on
    dns_rebind_protection on
  }
}
"/r" {
  queue { backend "memory" }
  deliver "https://t.example/x%2Fy?q=1#frag" {
    retry exponential max 3 base 1ns cap 2562047h47m16.854775807s jitter 1
    timeout 1ms
    sign hmac secret_ref "S1"
    sign secret_selection oldest_valid
  }
}
`
	t0 := time.Now()
	var c config.Compiled
	for i := 0; i < 100; i++ {
		cfg, err := config.Parse([]byte(txt))
		if err != nil {
			t.Fatal(err)
		}
		var res config.ValidationResult
		c, res = config.Compile(cfg)
		if len(res.Errors) > 0 {
			t.Fatal(res.Errors)
		}
	}
	fmt.Println("compile avg", time.Since(t0)/100)
	fmt.Printf("%+v\n", c.Routes[0].Deliveries[0])
	fmt.Printf("%+v\n", c.Defaults.EgressPolicy)
	f := 1.1e19
	fmt.Println(time.Duration(f), int64(time.Duration(f)))
	fmt.Println(retryDelay(5, RetryConfig{Max: 3, Base: 1, Cap: time.Duration(1<<63 - 1), Jitter: 1}))
	for i := 0; i < 5; i++ {
		fmt.Println(retryDelay(70, RetryConfig{Max: 3, Base: 1, Cap: time.Duration(1<<63 - 1), Jitter: 0.5}))
	}
}
