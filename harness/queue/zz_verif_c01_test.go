//go:build verif

package queue

import (
	"bufio"
	"context"
	"database/sql"
	"encoding/json"
	"fmt"
	"os"
	"os/exec"
	"path/filepath"
	"sort"
	"strings"
	"sync"
	"testing"
	"time"

	"github.com/nuetzliches/hookaido/internal/verifkit"
	"pgregory.net/rapid"
)

// ---------------------------------------------------------------------------------------
// C01, store tier: a child process (this test binary re-executed) runs a generated script
// against a SQLite file from 1-4 goroutines, each owning one route, and appends a line to an
// ack log after every call that returned. The verif hook SIGKILLs the child on the n-th hit of
// a label. The parent reopens the file and checks durability, atomicity and redelivery.
// ---------------------------------------------------------------------------------------

type C01Op struct {
	K   string   `json:"k"` // enq | enqb | deq | ack | nack | dead | ackb | nackb | cancel | requeue | deldead | ckpt
	IDs []string `json:"ids,omitempty"`
	N   int      `json:"n,omitempty"`
	Pay int      `json:"pay,omitempty"` // payload length
}

type C01Case struct {
	Depth int `json:"depth,omitempty"`
	// Drop: "" = reject, "drop_oldest" (then queued messages may legitimately disappear, leased ones never)
	Drop string `json:"drop,omitempty"`
	// Delivered: delivered retention is on (an acked message stays stored as delivered)
	Delivered bool      `json:"delivered,omitempty"`
	Scripts   [][]C01Op `json:"scripts"` // one script per goroutine; goroutine g owns route /g<g>
	Label     string    `json:"label"`
	Nth       int       `json:"nth"`
	Reopen    string    `json:"reopen,omitempty"` // label at which a second child dies while re-opening the db
	// Legacy: the database file was left behind by an older build at schema version Legacy (1..5) with
	// one accepted message in it; the child's start is the upgrade (0: fresh file).
	Legacy int `json:"legacy,omitempty"`
}

var c01Schemas = []string{schemaV1, schemaV2, schemaV3, schemaV4, schemaV5, schemaV6}

const c01LegacyID = "legacy-0"

// c01LegacyDB writes what a build of schema version v left behind: its tables, its version row, one queued message.
func c01LegacyDB(dbPath string, v int) error {
	raw, err := sql.Open("sqlite", dbPath)
	if err != nil {
		return err
	}
	defer raw.Close()
	stmts := []string{`PRAGMA journal_mode=WAL;`, `CREATE TABLE schema_migrations (version INTEGER NOT NULL);`}
	stmts = append(stmts, c01Schemas[:v]...)
	for _, q := range stmts {
		if _, err := raw.Exec(q); err != nil {
			return fmt.Errorf("%v in %.60q", err, q)
		}
	}
	if _, err := raw.Exec(`INSERT INTO schema_migrations(rowid, version) VALUES (1, ?);`, v); err != nil {
		return err
	}
	now := time.Now().Add(-time.Hour).UnixNano()
	_, err = raw.Exec(`
INSERT INTO queue_items (id, route, target, state, received_at, attempt, next_run_at, payload, headers_json, trace_json, schema_version, lease_id, lease_until)
VALUES (?, '/legacy', 'pull', 'queued', ?, 0, ?, x'6f6c64', NULL, NULL, 1, NULL, NULL);`, c01LegacyID, now, now)
	return err
}

var c01Labels = []string{"sqlite.begin", "sqlite.commit.before", "sqlite.commit.after", "sqlite.enqueue.insert.before", "sqlite.enqueue.insert.after",
	"sqlite.batch.insert", "sqlite.lease.mutate.before", "sqlite.lease.mutate.after", "sqlite.leasebatch.fn.before", "sqlite.leasebatch.fn.after",
	"sqlite.checkpoint.before", "sqlite.checkpoint.after", "sqlite.migrate.step"}

func c01Payload(id string, n int) []byte {
	b := make([]byte, n)
	for i := range b {
		b[i] = byte(int(id[len(id)-1]) + i*7)
	}
	return b
}

func genC01Case() *rapid.Generator[C01Case] {
	return rapid.Custom(func(t *rapid.T) C01Case {
		var c C01Case
		c.Depth = rapid.SampledFrom([]int{0, 0, 0, 1000, 1, 2, 3}).Draw(t, "depth")
		if c.Depth > 0 && c.Depth < 1000 && rapid.Bool().Draw(t, "drop_oldest") {
			c.Drop = "drop_oldest"
		}
		drop := c.Drop
		c.Delivered = rapid.IntRange(0, 3).Draw(t, "delivered_retention") == 0
		g := rapid.IntRange(1, 4).Draw(t, "goroutines")
		for gi := 0; gi < g; gi++ {
			seq := 0
			opGen := rapid.Custom(func(t *rapid.T) C01Op {
				k := rapid.SampledFrom([]string{"enq", "enq", "enq", "enqb", "enqb", "deq", "deq", "deq", "ack", "ack", "nack", "dead", "ackb", "nackb", "ackbx", "nackbx", "cancel", "requeue", "deldead", "ckpt", "enqbig"}).Draw(t, "k")
				if k == "cancel" && drop == "drop_oldest" {
					k = "nack" // a cancel of a message that may have been evicted has no predictable outcome
				}
				op := C01Op{K: k}
				switch k {
				case "enq":
					seq++
					op.IDs = []string{fmt.Sprintf("g%d-%d", gi, seq)}
					op.Pay = rapid.SampledFrom([]int{0, 1, 33, 5000}).Draw(t, "pay")
				case "enqb":
					n := rapid.IntRange(2, 5).Draw(t, "nb")
					for i := 0; i < n; i++ {
						seq++
						op.IDs = append(op.IDs, fmt.Sprintf("g%d-%d", gi, seq))
					}
					op.Pay = rapid.SampledFrom([]int{0, 7, 700}).Draw(t, "pay")
				case "enqbig":
					// a batch far beyond any internal chunk size: still one atomic step
					op.K = "enqb"
					n := rapid.SampledFrom([]int{257, 300, 520}).Draw(t, "nbig")
					for i := 0; i < n; i++ {
						seq++
						op.IDs = append(op.IDs, fmt.Sprintf("g%d-%d", gi, seq))
					}
					op.Pay = 3
				case "deq":
					op.N = rapid.SampledFrom([]int{1, 1, 2, 5}).Draw(t, "n")
				case "ackb", "nackb":
					op.N = rapid.IntRange(1, 3).Draw(t, "n")
				case "cancel", "requeue", "deldead":
					op.N = rapid.IntRange(1, 3).Draw(t, "n") // applies to the n most recently created ids of this goroutine
				}
				return op
			})
			script := rapid.SliceOfN(opGen, 3, 25).Draw(t, "script")
			if gi == 0 && c.Depth > 0 && c.Depth < 1000 && rapid.Bool().Draw(t, "full_motif") {
				// fill the queue, lease everything, offer one more (refused, or admitted by eviction), settle
				var pre []C01Op
				for i := 0; i < c.Depth; i++ {
					seq++
					pre = append(pre, C01Op{K: "enq", IDs: []string{fmt.Sprintf("g%d-%d", gi, seq)}, Pay: 1})
				}
				seq++
				pre = append(pre, C01Op{K: "deq", N: 5}, C01Op{K: "enq", IDs: []string{fmt.Sprintf("g%d-%d", gi, seq)}, Pay: 1},
					C01Op{K: rapid.SampledFrom([]string{"ack", "nack", "dead", "ackb"}).Draw(t, "settle"), N: 1})
				script = append(pre, script...)
			}
			c.Scripts = append(c.Scripts, script)
		}
		c.Label = rapid.SampledFrom(c01Labels).Draw(t, "label")
		c.Nth = rapid.SampledFrom([]int{1, 1, 2, 3, 5, 8, 13, 21, 258, 300, 400}).Draw(t, "nth")
		if c.Label == "sqlite.migrate.step" {
			c.Nth = rapid.IntRange(1, 6).Draw(t, "migrate_nth")
		}
		c.Reopen = rapid.SampledFrom([]string{"", "", "", "sqlite.begin", "sqlite.commit.before", "sqlite.commit.after"}).Draw(t, "reopen")
		if rapid.IntRange(0, 3).Draw(t, "legacy") == 0 {
			c.Legacy = rapid.IntRange(1, len(c01Schemas)-1).Draw(t, "legacy_version")
		}
		return c
	})
}

// c01SecondRestart: the process is restarted once more on the same file (no crash this time): the queue
// opens again and holds the same messages.
func c01SecondRestart(st *SQLiteStore, dbPath string, ropts []SQLiteOption, c C01Case, before Snap) *verifkit.Failure {
	if err := st.Close(); err != nil {
		return fail("HARNESS", "close", 0, "%v", err)
	}
	st2, err := NewSQLiteStore(dbPath, ropts...)
	if err != nil {
		return fail("C01", "reopen-failed", 0, "the queue opened after the crash at %s:%d but refuses to open at the next restart (file started at schema v%d): %v", c.Label, c.Nth, c.Legacy, err)
	}
	defer st2.Close()
	w := &qWorld{sql: st2, st: st2}
	after, err := w.snapshot()
	if err != nil {
		return fail("C01", "snapshot", 0, "%v", err)
	}
	for id := range before {
		if _, ok := after[id]; !ok {
			return fail("C01", "durability", 0, "%s was stored after the crash and is gone after one more restart", id)
		}
	}
	for id := range after {
		if _, ok := before[id]; !ok {
			return fail("C01", "message-from-nowhere", 0, "%s appeared at the second restart", id)
		}
	}
	return nil
}

// ackLine is one record of the child's log.
type ackLine struct {
	G      int      `json:"g"`
	I      int      `json:"i"`
	Phase  string   `json:"p"` // s: started, d: done
	Err    string   `json:"err,omitempty"`
	IDs    []string `json:"ids,omitempty"` // dequeue: returned ids (aligned with Leases); manage ops: requested ids
	Leases []string `json:"leases,omitempty"`
	N      int      `json:"n,omitempty"`
}

// TestChild_C01_Store is the child body.
func TestChild_C01_Store(t *testing.T) {
	dbPath := os.Getenv("VERIF_CHILD_DB")
	if dbPath == "" {
		t.Skip("child only")
	}
	if os.Getenv("VERIF_CHILD_MODE") == "open-only" {
		s, err := NewSQLiteStore(dbPath, WithSQLiteCheckpointInterval(0))
		if err != nil {
			os.Exit(5)
		}
		_ = s.Close()
		os.Exit(0)
	}
	var c C01Case
	raw, err := os.ReadFile(os.Getenv("VERIF_CHILD_CASE"))
	if err != nil || json.Unmarshal(raw, &c) != nil {
		os.Exit(3)
	}
	logf, err := os.OpenFile(os.Getenv("VERIF_CHILD_LOG"), os.O_CREATE|os.O_WRONLY|os.O_APPEND, 0o644)
	if err != nil {
		os.Exit(3)
	}
	var logMu sync.Mutex
	emit := func(l ackLine) {
		b, _ := json.Marshal(l)
		logMu.Lock()
		logf.Write(append(b, '\n'))
		logMu.Unlock()
	}
	policy := "reject"
	if c.Drop != "" {
		policy = c.Drop
	}
	opts := []SQLiteOption{WithSQLiteQueueLimits(c.Depth, policy), WithSQLiteCheckpointInterval(0)}
	if c.Delivered {
		opts = append(opts, WithSQLiteDeliveredRetention(24*time.Hour))
	}
	store, err := NewSQLiteStore(dbPath, opts...)
	if err != nil {
		os.Exit(4)
	}
	emit(ackLine{G: -1, I: 0, Phase: "d"}) // "opened"
	var wg sync.WaitGroup
	for g, script := range c.Scripts {
		wg.Add(1)
		go func(g int, script []C01Op) {
			defer wg.Done()
			route := fmt.Sprintf("/g%d", g)
			var leases []string // held leases, oldest first
			var created []string
			for i, op := range script {
				line := ackLine{G: g, I: i, Phase: "s"}
				var pick []string
				switch op.K {
				case "ack", "nack", "dead":
					if len(leases) > 0 {
						pick = leases[:1]
					}
				case "ackb", "nackb":
					n := op.N
					if n > len(leases) {
						n = len(leases)
					}
					pick = append([]string(nil), leases[:n]...)
				case "cancel", "requeue", "deldead":
					n := op.N
					if n > len(created) {
						n = len(created)
					}
					pick = append([]string(nil), created[len(created)-n:]...)
				}
				if op.K == "ack" || op.K == "nack" || op.K == "dead" || op.K == "ackb" || op.K == "nackb" {
					line.Leases = pick
				} else {
					line.IDs = pick
				}
				emit(line)
				done := ackLine{G: g, I: i, Phase: "d", IDs: line.IDs, Leases: line.Leases}
				switch op.K {
				case "enq":
					err := store.Enqueue(Envelope{ID: op.IDs[0], Route: route, Target: "pull", Payload: c01Payload(op.IDs[0], op.Pay), Headers: map[string]string{"X-Id": op.IDs[0]}})
					done.Err = errClass(err)
					created = append(created, op.IDs[0])
				case "enqb":
					var items []Envelope
					for _, id := range op.IDs {
						items = append(items, Envelope{ID: id, Route: route, Target: "pull", Payload: c01Payload(id, op.Pay), Headers: map[string]string{"X-Id": id}})
					}
					n, err := store.EnqueueBatch(items)
					done.Err, done.N = errClass(err), n
					created = append(created, op.IDs...)
				case "deq":
					resp, err := store.Dequeue(DequeueRequest{Route: route, Batch: op.N, LeaseTTL: time.Hour})
					done.Err = errClass(err)
					for _, it := range resp.Items {
						done.IDs = append(done.IDs, it.ID)
						done.Leases = append(done.Leases, it.LeaseID)
						leases = append(leases, it.LeaseID)
					}
				case "ack", "nack", "dead":
					if len(pick) == 0 {
						break
					}
					var err error
					switch op.K {
					case "ack":
						err = store.Ack(pick[0])
					case "nack":
						err = store.Nack(pick[0], 0)
					default:
						err = store.MarkDead(pick[0], "no_retry")
					}
					done.Err = errClass(err)
					leases = leases[1:]
				case "ackb", "nackb":
					if len(pick) == 0 {
						break
					}
					var res LeaseBatchResult
					var err error
					if op.K == "ackb" {
						res, err = store.AckBatch(pick)
					} else {
						res, err = store.NackBatch(pick, 0)
					}
					done.Err, done.N = errClass(err), res.Succeeded
					leases = leases[len(pick):]
				case "cancel":
					r, err := store.CancelMessages(MessageCancelRequest{IDs: pick})
					done.Err, done.N = errClass(err), r.Canceled
				case "requeue":
					r, err := store.RequeueMessages(MessageRequeueRequest{IDs: pick})
					done.Err, done.N = errClass(err), r.Requeued
				case "deldead":
					r, err := store.DeleteDead(DeadDeleteRequest{IDs: pick})
					done.Err, done.N = errClass(err), r.Deleted
				case "ackbx":
					// a batch naming only lease ids nobody holds: changes nothing
					_, err := store.AckBatch([]string{fmt.Sprintf("lease_unknown_%d_%d", g, i)})
					done.Err = errClass(err)
				case "nackbx":
					_, err := store.NackBatch([]string{fmt.Sprintf("lease_unknown_%d_%d", g, i), "lease_0000000000000000"}, 0)
					done.Err = errClass(err)
				case "ckpt":
					_ = store.checkpointPassive()
				}
				emit(done)
			}
		}(g, script)
	}
	wg.Wait()
	_ = store.Close()
	os.Exit(0)
}

// c01Model is the per-id expectation derived from the acknowledged operations.
type c01Msg struct {
	state   string // queued | leased | dead | canceled | gone
	attempt int
	lease   string
	pay     int
	route   string
}

func cloneModel(m map[string]c01Msg) map[string]c01Msg {
	out := make(map[string]c01Msg, len(m))
	for k, v := range m {
		out[k] = v
	}
	return out
}

// applyC01 applies one acknowledged (or hypothetically completed) op to the model. For the
// in-flight op the result is unknown, so ops whose effect depends on the result are applied
// in their "fully applied" form by the caller only when that form is determined by the model.
func applyC01(m map[string]c01Msg, g int, op C01Op, l ackLine, acked bool, keepDelivered ...bool) {
	route := fmt.Sprintf("/g%d", g)
	ackedState := "gone"
	if len(keepDelivered) > 0 && keepDelivered[0] {
		ackedState = "delivered"
	}
	switch op.K {
	case "enq":
		if !acked || l.Err == "" {
			m[op.IDs[0]] = c01Msg{state: "queued", pay: op.Pay, route: route}
		}
	case "enqb":
		if !acked || l.Err == "" {
			for _, id := range op.IDs {
				m[id] = c01Msg{state: "queued", pay: op.Pay, route: route}
			}
		}
	case "deq":
		for k, id := range l.IDs {
			x := m[id]
			x.state, x.attempt, x.lease = "leased", x.attempt+1, l.Leases[k]
			m[id] = x
		}
	case "ack", "nack", "dead", "ackb", "nackb":
		if acked && l.Err != "" {
			return // the store reported a conflict: nothing changed
		}
		for _, lease := range l.Leases {
			for id, x := range m {
				if x.state == "leased" && x.lease == lease {
					switch op.K {
					case "ack", "ackb":
						x.state, x.lease = ackedState, ""
					case "nack", "nackb":
						x.state, x.lease = "queued", ""
					default:
						x.state, x.lease = "dead", ""
					}
					m[id] = x
				}
			}
		}
	case "cancel", "requeue", "deldead":
		for _, id := range l.IDs {
			x, ok := m[id]
			if !ok || x.state == "gone" {
				continue
			}
			switch op.K {
			case "cancel":
				if x.state == "queued" || x.state == "leased" || x.state == "dead" {
					x.state, x.lease = "canceled", ""
				}
			case "requeue":
				if x.state == "dead" || x.state == "canceled" {
					x.state = "queued"
				}
			case "deldead":
				if x.state == "dead" {
					x.state = "gone"
				}
			}
			m[id] = x
		}
	}
}

func runC01Store(c C01Case, _ bool) qOutcome {
	var out qOutcome
	labels := map[string]bool{}
	finish := func() qOutcome {
		for l := range labels {
			out.Labels = append(out.Labels, l)
		}
		sort.Strings(out.Labels)
		return out
	}
	dir := filepath.Join(qScratch(), fmt.Sprintf("c01-%d", dbSeq.Add(1)))
	_ = os.MkdirAll(dir, 0o755)
	defer os.RemoveAll(dir)
	dbPath := filepath.Join(dir, "q.db")
	casePath := filepath.Join(dir, "case.json")
	logPath := filepath.Join(dir, "ack.log")
	markPath := filepath.Join(dir, "mark")
	raw, _ := json.Marshal(c)
	_ = os.WriteFile(casePath, raw, 0o644)
	if c.Legacy > 0 {
		if c.Legacy >= len(c01Schemas) {
			out.Skipped = "no older schema of that version"
			return finish()
		}
		if err := c01LegacyDB(dbPath, c.Legacy); err != nil {
			out.Failure = fail("HARNESS", "legacy-db", 0, "%v", err)
			return finish()
		}
		labels[fmt.Sprintf("legacy-schema-v%d", c.Legacy)] = true
	}
	cmd := exec.Command(os.Args[0], "-test.run", "^TestChild_C01_Store$")
	cmd.Env = append(os.Environ(), "VERIF_CHILD_DB="+dbPath, "VERIF_CHILD_CASE="+casePath, "VERIF_CHILD_LOG="+logPath,
		"VERIF_CRASH="+fmt.Sprintf("%s:%d", c.Label, c.Nth), "VERIF_CRASH_MARK="+markPath, "VERIF_STATS=", "VERIF_FAILDIR=")
	ctx, cancel := context.WithTimeout(context.Background(), 60*time.Second)
	defer cancel()
	cmd2 := exec.CommandContext(ctx, cmd.Path, cmd.Args[1:]...)
	cmd2.Env = cmd.Env
	err := cmd2.Run()
	_, merr := os.Stat(markPath)
	crashed := merr == nil
	if !crashed && err != nil && ctx.Err() != nil {
		// the child did not finish its script inside the budget (saturated machine): nothing to judge
		labels["inconclusive-time-budget"] = true
		out.Skipped = "child exceeded its 60s budget"
		return finish()
	}
	if !crashed && err != nil {
		out.Failure = fail("HARNESS", "child", 0, "child ended with %v without reaching a crash point", err)
		return finish()
	}
	if crashed {
		labels["crashed:"+c.Label] = true
	} else {
		labels["label-not-reached"] = true
	}
	// optional second crash while re-opening
	if c.Reopen != "" {
		m2 := filepath.Join(dir, "mark2")
		ch := exec.Command(os.Args[0], "-test.run", "^TestChild_C01_Store$")
		ch.Env = append(os.Environ(), "VERIF_CHILD_DB="+dbPath, "VERIF_CHILD_MODE=open-only", "VERIF_CRASH="+c.Reopen+":1", "VERIF_CRASH_MARK="+m2, "VERIF_STATS=", "VERIF_FAILDIR=")
		_ = ch.Run()
		if _, e := os.Stat(m2); e == nil {
			labels["crashed-during-reopen"] = true
		}
	}
	// ---- read the ack log
	lines := map[[2]int]map[string]ackLine{}
	opened := false
	if f, err := os.Open(logPath); err == nil {
		sc := bufio.NewScanner(f)
		sc.Buffer(make([]byte, 1<<20), 1<<20)
		for sc.Scan() {
			var l ackLine
			if json.Unmarshal(sc.Bytes(), &l) != nil {
				continue // a torn last line is possible: the write was in flight at the kill
			}
			if l.G == -1 {
				opened = true
				continue
			}
			k := [2]int{l.G, l.I}
			if lines[k] == nil {
				lines[k] = map[string]ackLine{}
			}
			lines[k][l.Phase] = l
		}
		f.Close()
	}
	// ---- reopen in-process
	clk := &qClock{}
	clk.set(int64(time.Since(qT0))) // the child used the wall clock: continue from now
	ropts := []SQLiteOption{WithSQLiteNowFunc(clk.Now), WithSQLiteCheckpointInterval(0)}
	if c.Delivered {
		ropts = append(ropts, WithSQLiteDeliveredRetention(24*time.Hour))
		labels["delivered-retention"] = true
	}
	st, err := NewSQLiteStore(dbPath, ropts...)
	if err != nil {
		out.Failure = fail("C01", "reopen-failed", 0, "the queue refuses to open after a crash at %s:%d: %v", c.Label, c.Nth, err)
		return finish()
	}
	defer st.Close()
	var integrity string
	if err := st.db.QueryRow("PRAGMA integrity_check;").Scan(&integrity); err != nil || integrity != "ok" {
		out.Failure = fail("C01", "integrity", 0, "integrity_check after crash at %s:%d: %q %v", c.Label, c.Nth, integrity, err)
		return finish()
	}
	var jm string
	var syncMode int
	_ = st.db.QueryRow("PRAGMA journal_mode;").Scan(&jm)
	_ = st.db.QueryRow("PRAGMA synchronous;").Scan(&syncMode)
	if strings.ToLower(jm) != "wal" || syncMode != 2 {
		out.Failure = fail("C01", "pragmas", 0, "journal_mode=%s synchronous=%d, want wal/2(FULL)", jm, syncMode)
		return finish()
	}
	w := &qWorld{sql: st, st: st}
	snap, err := w.snapshot()
	if err != nil {
		out.Failure = fail("C01", "snapshot", 0, "%v", err)
		return finish()
	}
	q, l, cerr := w.sqliteCounters()
	if cerr != nil || q != snap.count("queued") || l != snap.count("leased") {
		out.Failure = fail("C01,C12", "counters", 0, "queue_counters queued=%d leased=%d but rows %d/%d (%v)", q, l, snap.count("queued"), snap.count("leased"), cerr)
		return finish()
	}
	if !opened {
		// the child died while opening/migrating: nothing was ever acknowledged
		labels["crash-while-opening"] = true
		want := 0
		if c.Legacy > 0 {
			want = 1
		}
		if len(snap) != want {
			out.Failure = fail("C01", "message-from-nowhere", 0, "db has %d messages although the child never finished opening (%d were in the file before)", len(snap), want)
		}
		out.NonTriv = crashed
		if out.Failure == nil {
			out.Failure = c01SecondRestart(st, dbPath, ropts, c, snap)
		}
		return finish()
	}
	if c.Legacy > 0 {
		m, ok := snap[c01LegacyID]
		if !ok && c.Drop == "drop_oldest" && c.Depth > 0 {
			labels["queued-maybe-evicted"] = true // the oldest queued message of a full drop_oldest queue
		} else if !ok || m.State != "queued" || m.Route != "/legacy" || string(m.Payload) != "old" {
			out.Failure = fail("C01", "durability", 0, "the message the older build (schema v%d) had accepted is not there as it was after the upgrade and the crash at %s:%d: %s", c.Legacy, c.Label, c.Nth, fmtOpt(m, ok))
			return finish()
		}
	}
	// ---- expectation per goroutine: acked prefix, plus the in-flight op applied or not
	acked, inflight := 0, 0
	for g, script := range c.Scripts {
		base := map[string]c01Msg{}
		var alt map[string]c01Msg
		inflightDeq := false
		for i, op := range script {
			ph := lines[[2]int{g, i}]
			if ph == nil {
				break
			}
			if d, ok := ph["d"]; ok {
				applyC01(base, g, op, d, true, c.Delivered)
				acked++
				continue
			}
			// started but not acknowledged: in flight at the kill
			inflight++
			s := ph["s"]
			alt = cloneModel(base)
			if op.K == "deq" {
				alt = nil // handled below: up to N ready messages of the route may have been leased as one atomic batch
				inflightDeq = true
			} else {
				applyC01(alt, g, op, s, false, c.Delivered)
			}
			labels["inflight-"+op.K] = true
			break
		}
		route := fmt.Sprintf("/g%d", g)
		// compare
		matches := func(model map[string]c01Msg, lenientDeq bool) string {
			for id, x := range model {
				m, ok := snap[id]
				if x.state == "gone" {
					if ok {
						return fmt.Sprintf("%s should be gone (acknowledged removal) but is stored as %s", id, fmtMsg(m))
					}
					continue
				}
				if !ok && x.state == "queued" && c.Drop == "drop_oldest" {
					labels["queued-maybe-evicted"] = true
					continue
				}
				if !ok {
					return fmt.Sprintf("%s (expected %s) is missing", id, x.state)
				}
				if m.Route != x.route || m.Target != "pull" || string(m.Payload) != string(c01Payload(id, x.pay)) || m.Headers["X-Id"] != id || len(m.Headers) != 1 || m.Schema != 1 {
					return fmt.Sprintf("%s is stored with altered fields: %s", id, fmtMsg(m))
				}
				if lenientDeq && x.state == "queued" && m.State == "leased" && m.Attempt == x.attempt+1 {
					continue
				}
				if m.State != x.state || m.Attempt != x.attempt || (x.state == "leased" && m.Lease != x.lease) {
					return fmt.Sprintf("%s expected state=%s attempt=%d lease=%s, stored %s", id, x.state, x.attempt, x.lease, fmtMsg(m))
				}
			}
			for id, m := range snap {
				if m.Route != route {
					continue
				}
				if _, ok := model[id]; !ok {
					return fmt.Sprintf("%s is stored but was never (acknowledged or in flight) enqueued: %s", id, fmtMsg(m))
				}
			}
			return ""
		}
		why := matches(base, false)
		if why != "" && alt != nil {
			if w2 := matches(alt, false); w2 == "" {
				why = ""
				labels["inflight-applied"] = true
			}
		} else if why == "" && alt != nil {
			labels["inflight-not-applied"] = true
		}
		if why != "" && inflightDeq {
			// an in-flight dequeue leases up to N ready messages atomically; accept exactly that shape
			if w3 := matches(base, true); w3 == "" {
				nLeasedExtra := 0
				for id, x := range base {
					if x.state == "queued" && snap[id].State == "leased" {
						nLeasedExtra++
					}
				}
				why = ""
				labels["inflight-deq-applied"] = true
				_ = nLeasedExtra
			}
		}
		if why != "" {
			out.Failure = fail("C01", "durability", g, "crash at %s:%d, goroutine %d: %s", c.Label, c.Nth, g, why)
			if labels["inflight-enqb"] {
				out.Failure.Prop = "C01,C15" // a batch that is neither stored as a whole nor absent as a whole
			}
			return finish()
		}
	}
	// ---- every surviving non-terminal message is offered again
	clk.add(2 * time.Hour)
	offered := map[string]bool{}
	for k := 0; k < 50; k++ {
		resp, err := st.Dequeue(DequeueRequest{Batch: 100, LeaseTTL: time.Hour})
		if err != nil {
			out.Failure = fail("C01,C05", "dequeue-after-restart", 0, "%v", err)
			return finish()
		}
		if len(resp.Items) == 0 {
			break
		}
		for _, it := range resp.Items {
			offered[it.ID] = true
		}
	}
	for id, m := range snap {
		if (m.State == "queued" || m.State == "leased") && !offered[id] {
			out.Failure = fail("C01,C05", "not-offered-again", 0, "after restart %s (%s) was never offered again", id, m.State)
			return finish()
		}
		if (m.State == "delivered" || m.State == "dead" || m.State == "canceled") && offered[id] {
			out.Failure = fail("C01,C02", "settled-offered-again", 0, "after restart and lease expiry %s, which was settled as %s before the crash, was handed out again", id, m.State)
			return finish()
		}
	}
	out.NonTriv = crashed && acked > 0 && inflight > 0
	if acked > 0 {
		labels["acked-before-crash"] = true
	}
	out.Failure = c01SecondRestart(st, dbPath, ropts, c, snap)
	return finish()
}

func TestProp_C01_StoreCrash(t *testing.T) {
	gen := genC01Case()
	rapid.Check(t, func(rt *rapid.T) {
		c := gen.Draw(rt, "case")
		out := runC01Store(c, true)
		verifkit.Emit(verifkit.Record{Prop: "C01", Test: "TestProp_C01_StoreCrash", Hash: verifkit.Hash(c), NonTrivial: out.NonTriv, Labels: out.Labels, Skipped: out.Skipped}, c)
		if out.Failure != nil {
			verifkit.SaveFailing("TestProp_C01_StoreCrash", c, out.Failure)
			rt.Fatalf("%v", out.Failure)
		}
	})
}

// TestProp_C15_BatchCrash: the crash tier for C15's share - a batch enqueue (the store call behind
// Admin publish) that is interrupted is stored as a whole or not at all, whatever its size.
func TestProp_C15_BatchCrash(t *testing.T) {
	gen := rapid.Custom(func(t *rapid.T) C01Case {
		c := genC01Case().Draw(t, "case")
		// every goroutine ends with a big batch; the crash lands inside batch inserts
		for g := range c.Scripts {
			var ids []string
			n := rapid.SampledFrom([]int{257, 300, 520, 600}).Draw(t, "nbig")
			for i := 0; i < n; i++ {
				ids = append(ids, fmt.Sprintf("g%d-big%d", g, i))
			}
			c.Scripts[g] = append(c.Scripts[g], C01Op{K: "enqb", IDs: ids, Pay: 2})
		}
		c.Label = rapid.SampledFrom([]string{"sqlite.batch.insert", "sqlite.batch.insert", "sqlite.commit.before", "sqlite.commit.after"}).Draw(t, "label15")
		c.Nth = rapid.SampledFrom([]int{1, 100, 256, 257, 258, 300, 512, 513, 520}).Draw(t, "nth15")
		c.Reopen = ""
		return c
	})
	rapid.Check(t, func(rt *rapid.T) {
		c := gen.Draw(rt, "case")
		out := runC01Store(c, true)
		if f := out.Failure; f != nil && f.Prop != "HARNESS" && !propIn(f.Prop, "C15") {
			out.Failure = nil
			out.Labels = append(out.Labels, "foreign-clause")
		}
		verifkit.Emit(verifkit.Record{Prop: "C15", Test: "TestProp_C15_BatchCrash", Hash: verifkit.Hash(c), NonTrivial: out.NonTriv, Labels: out.Labels, Skipped: out.Skipped}, c)
		if out.Failure != nil {
			verifkit.SaveFailing("TestProp_C15_BatchCrash", c, out.Failure)
			rt.Fatalf("%v", out.Failure)
		}
	})
}
