//go:build verif

package queue

import (
	"encoding/json"
	"fmt"
	"sort"
	"testing"
	"time"

	"github.com/nuetzliches/hookaido/internal/verifkit"
	"pgregory.net/rapid"
)

// ---------------------------------------------------------------------------------------
// C05, long-history tier: thousands of messages pass through the queue while a few stay
// leased or queued (this is where the memory backend compacts its order list and SQLite has
// deleted most rows); afterwards every unsettled message must still be offered again.
// ---------------------------------------------------------------------------------------

type C05BigCase struct {
	Backend string `json:"backend"`
	N       int    `json:"n"`       // messages that pass through (enqueued, leased, acked)
	Leased  int    `json:"leased"`  // messages left leased while the rest is settled
	Late    int    `json:"late"`    // messages enqueued after that and never dequeued until the end
	Release string `json:"release"` // nack | nackb | expire
	Batch   int    `json:"batch"`
	Waves   int    `json:"waves"` // the pass-through happens in this many enqueue/dequeue/ack waves
}

func genC05BigCase() *rapid.Generator[C05BigCase] {
	return rapid.Custom(func(t *rapid.T) C05BigCase {
		return C05BigCase{
			Backend: rapid.SampledFrom([]string{"memory", "memory", "sqlite"}).Draw(t, "backend"),
			N:       rapid.SampledFrom([]int{300, 1023, 1024, 1030, 1500, 2100, 4200}).Draw(t, "n"),
			Leased:  rapid.SampledFrom([]int{1, 2, 3, 10, 50, 65, 130, 300}).Draw(t, "leased"),
			Late:    rapid.SampledFrom([]int{0, 0, 1, 5, 100}).Draw(t, "late"),
			Release: rapid.SampledFrom([]string{"nack", "nackb", "expire"}).Draw(t, "release"),
			Batch:   rapid.SampledFrom([]int{1, 7, 100}).Draw(t, "batch"),
			Waves:   rapid.SampledFrom([]int{1, 2, 5}).Draw(t, "waves"),
		}
	})
}

func runC05Big(c C05BigCase) qOutcome {
	var out qOutcome
	labels := map[string]bool{"backend-" + c.Backend: true}
	finish := func() qOutcome {
		for l := range labels {
			out.Labels = append(out.Labels, l)
		}
		sort.Strings(out.Labels)
		return out
	}
	clk := &qClock{}
	w, err := openQStore(QCfg{Backend: c.Backend}, c.Backend, clk, "")
	if err != nil {
		out.Failure = fail("HARNESS", "open", 0, "%v", err)
		return finish()
	}
	defer w.close()
	st := w.st
	ttl := time.Minute
	unsettled := map[string]bool{}
	var held []Envelope
	seq := 0
	perWave := c.N / c.Waves
	for wave := 0; wave < c.Waves; wave++ {
		for i := 0; i < perWave; i++ {
			seq++
			if err := st.Enqueue(Envelope{ID: fmt.Sprintf("m%d", seq), Route: "/r", Target: "pull", Payload: []byte("p")}); err != nil {
				out.Failure = fail("HARNESS", "enqueue", 0, "%v", err)
				return finish()
			}
		}
		// lease everything that is ready; keep the last c.Leased of the final wave leased, ack the rest
		for {
			resp, err := st.Dequeue(DequeueRequest{Route: "/r", Batch: c.Batch, LeaseTTL: ttl})
			if err != nil {
				out.Failure = fail("HARNESS", "dequeue", 0, "%v", err)
				return finish()
			}
			if len(resp.Items) == 0 {
				break
			}
			held = append(held, resp.Items...)
		}
		keep := 0
		if wave == c.Waves-1 {
			keep = c.Leased
			if keep > len(held) {
				keep = len(held)
			}
		}
		for _, e := range held[:len(held)-keep] {
			if err := st.Ack(e.LeaseID); err != nil {
				out.Failure = fail("HARNESS", "ack", 0, "ack %s: %v", e.ID, err)
				return finish()
			}
		}
		held = held[len(held)-keep:]
		clk.add(10 * time.Millisecond)
	}
	for _, e := range held {
		unsettled[e.ID] = true
	}
	for i := 0; i < c.Late; i++ {
		seq++
		id := fmt.Sprintf("late%d", seq)
		_ = st.Enqueue(Envelope{ID: id, Route: "/r", Target: "pull", Payload: []byte("p")})
		unsettled[id] = true
	}
	// a dequeue on another route: gives the backend the opportunity to do its housekeeping while the kept ones are leased
	_, _ = st.Dequeue(DequeueRequest{Route: "/other", Batch: 1})
	_, _ = st.Stats()
	switch c.Release {
	case "nack":
		for _, e := range held {
			if err := st.Nack(e.LeaseID, 0); err != nil {
				out.Failure = fail("HARNESS", "nack", 0, "%v", err)
				return finish()
			}
		}
	case "nackb":
		var ids []string
		for _, e := range held {
			ids = append(ids, e.LeaseID)
		}
		if _, err := st.NackBatch(ids, 0); err != nil {
			out.Failure = fail("HARNESS", "nackb", 0, "%v", err)
			return finish()
		}
	default:
		clk.add(ttl + 10*time.Millisecond)
	}
	offered := map[string]int{}
	for k := 0; k < 10+len(unsettled); k++ {
		resp, err := st.Dequeue(DequeueRequest{Route: "/r", Batch: 100, LeaseTTL: ttl})
		if err != nil {
			out.Failure = fail("HARNESS", "dequeue", 0, "%v", err)
			return finish()
		}
		if k == 0 {
			// everything unsettled is ready at this instant: the first poll hands out min(batch, ready)
			want := len(unsettled)
			if want > 100 {
				want = 100
			}
			if len(resp.Items) != want {
				stt, _ := st.Stats()
				out.Failure = fail("C05", "ready-left-behind", 0, "%d unsettled messages are ready (%d leases released by %s, %d enqueued late), a dequeue of 100 returned %d (stats %v)", len(unsettled), len(held), c.Release, c.Late, len(resp.Items), stt.ByState)
				return finish()
			}
			if len(held) > 64 {
				labels["many-leases-released-at-once"] = true
			}
		}
		if len(resp.Items) == 0 {
			break
		}
		for _, it := range resp.Items {
			offered[it.ID]++
		}
	}
	var missing []string
	for id := range unsettled {
		if offered[id] == 0 {
			missing = append(missing, id)
		}
	}
	sort.Strings(missing)
	if len(missing) > 0 {
		stt, _ := st.Stats()
		out.Failure = fail("C05", "unsettled-never-offered-again", 0, "after %d messages passed through, %d of %d unsettled messages (released by %s) were never offered again: %v (stats %v)", c.N, len(missing), len(unsettled), c.Release, missing[:min(len(missing), 8)], stt.ByState)
		return finish()
	}
	for id, n := range offered {
		if !unsettled[id] || n > 1 {
			out.Failure = fail("C05,C02,C03", "offered-unexpected", 0, "message %s offered %d times (unsettled=%v)", id, n, unsettled[id])
			return finish()
		}
	}
	if c.N >= 1024 {
		labels["history>=1024"] = true
		out.NonTriv = true
	}
	labels["release-"+c.Release] = true
	return finish()
}

func TestProp_C05_LongHistory(t *testing.T) {
	gen := genC05BigCase()
	rapid.Check(t, func(rt *rapid.T) {
		c := gen.Draw(rt, "case")
		out := runC05Big(c)
		verifkit.Emit(verifkit.Record{Prop: "C05", Test: "TestProp_C05_LongHistory", Hash: verifkit.Hash(c), NonTrivial: out.NonTriv, Labels: out.Labels}, c)
		if out.Failure != nil {
			verifkit.SaveFailing("TestProp_C05_LongHistory", c, out.Failure)
			rt.Fatalf("%v", out.Failure)
		}
	})
}

func replayC05Big() {
	for _, rf := range verifkit.ReplayFiles("TestProp_C05_LongHistory") {
		var c C05BigCase
		if err := json.Unmarshal(rf.Case, &c); err != nil {
			fmt.Printf("REPLAY-ERROR file=%s err=%v\n", rf.Path, err)
			continue
		}
		out := runC05Big(c)
		verifkit.ReportReplay(rf, out.Failure)
	}
}
