//go:build verif

package queue

import (
	"encoding/json"
	"fmt"
	"sort"
	"testing"
	"time"

	"github.com/nuetzliches/hookaido/internal/verifkit"
	"pgregory.net/rapid"
)

// ---------------------------------------------------------------------------------------
// C05, waiting-consumer tier: a consumer is already waiting in a long-poll dequeue (max_wait > 0)
// when messages of its route become due - a lease held by somebody else expires, a nack delay
// elapses, a scheduled message reaches its next_run_at. "No ready message can be starved while
// capacity is requested": the waiting call must hand out min(batch, ready) messages, it must not
// come back empty at the end of max_wait and leave the due messages to the next call.
//
// The store clock is the harness's (due times are exact); only the long-poll's own deadline and
// poll ticks run on the wall clock. The oracle looks at what the call returned, never at how
// long it took: max_wait is three seconds, the due instant lies ~60 ms after the call started,
// so a correct store has several seconds (more than a hundred poll ticks) to notice.
// ---------------------------------------------------------------------------------------

type C05WaitCase struct {
	Backend string `json:"backend"`
	K       int    `json:"k"`      // messages of route /a that become due while the consumer waits
	Mode    string `json:"mode"`   // expire | nack | nackb | scheduled | requeue-delay
	Batch   int    `json:"batch"`  // batch size of the waiting dequeue
	Other   int    `json:"other"`  // messages queued (ready) on another route the consumer does not ask for
	Leased  int    `json:"leased"` // messages of route /a that stay leased (not due) throughout
	Ticks   int    `json:"ticks"`  // wall-clock wait before the store clock is advanced, in units of 20 ms
	Signal  bool   `json:"signal"` // an unrelated enqueue on another route wakes the waiting call before the due instant
}

func genC05WaitCase() *rapid.Generator[C05WaitCase] {
	return rapid.Custom(func(t *rapid.T) C05WaitCase {
		return C05WaitCase{
			Backend: rapid.SampledFrom([]string{"memory", "sqlite"}).Draw(t, "backend"),
			K:       rapid.SampledFrom([]int{1, 1, 2, 3}).Draw(t, "k"),
			Mode:    rapid.SampledFrom([]string{"expire", "expire", "nack", "nackb", "scheduled"}).Draw(t, "mode"),
			Batch:   rapid.SampledFrom([]int{1, 2, 5}).Draw(t, "batch"),
			Other:   rapid.SampledFrom([]int{0, 0, 1}).Draw(t, "other"),
			Leased:  rapid.SampledFrom([]int{0, 0, 1}).Draw(t, "leased"),
			Ticks:   rapid.SampledFrom([]int{2, 3, 5}).Draw(t, "ticks"),
			Signal:  rapid.IntRange(0, 3).Draw(t, "signal") == 0,
		}
	})
}

const c05WaitMax = 3 * time.Second

func runC05Wait(c C05WaitCase) qOutcome {
	var out qOutcome
	labels := map[string]bool{"backend-" + c.Backend: true, "mode-" + c.Mode: true}
	finish := func() qOutcome {
		for l := range labels {
			out.Labels = append(out.Labels, l)
		}
		sort.Strings(out.Labels)
		return out
	}
	hfail := func(what string, err error) qOutcome {
		out.Failure = fail("HARNESS", what, 0, "%v", err)
		return finish()
	}
	clk := &qClock{}
	w, err := openQStore(QCfg{Backend: c.Backend}, c.Backend, clk, "")
	if err != nil {
		return hfail("open", err)
	}
	defer w.close()
	st := w.st
	due := 50 * time.Millisecond
	// messages that stay leased throughout
	for i := 0; i < c.Leased; i++ {
		if err := st.Enqueue(Envelope{ID: fmt.Sprintf("held%d", i), Route: "/a", Target: "pull", Payload: []byte("h")}); err != nil {
			return hfail("enqueue", err)
		}
	}
	if c.Leased > 0 {
		if _, err := st.Dequeue(DequeueRequest{Route: "/a", Batch: c.Leased, LeaseTTL: time.Hour}); err != nil {
			return hfail("dequeue", err)
		}
	}
	want := map[string]bool{}
	for i := 0; i < c.K; i++ {
		id := fmt.Sprintf("m%d", i)
		want[id] = true
		e := Envelope{ID: id, Route: "/a", Target: "pull", Payload: []byte("p")}
		if c.Mode == "scheduled" {
			e.NextRunAt = clk.Now().Add(due)
		}
		if err := st.Enqueue(e); err != nil {
			return hfail("enqueue", err)
		}
	}
	if c.Mode != "scheduled" {
		resp, err := st.Dequeue(DequeueRequest{Route: "/a", Batch: c.K, LeaseTTL: due})
		if err != nil || len(resp.Items) != c.K {
			return hfail("dequeue", fmt.Errorf("setup dequeue returned %d of %d: %v", len(resp.Items), c.K, err))
		}
		switch c.Mode {
		case "nack":
			for _, it := range resp.Items {
				if err := st.Nack(it.LeaseID, due); err != nil {
					return hfail("nack", err)
				}
			}
		case "nackb":
			var ids []string
			for _, it := range resp.Items {
				ids = append(ids, it.LeaseID)
			}
			if _, err := st.NackBatch(ids, due); err != nil {
				return hfail("nackb", err)
			}
		}
	}
	for i := 0; i < c.Other; i++ {
		if err := st.Enqueue(Envelope{ID: fmt.Sprintf("o%d", i), Route: "/b", Target: "pull", Payload: []byte("o")}); err != nil {
			return hfail("enqueue", err)
		}
	}
	// nothing of route /a is ready now
	if resp, err := st.Dequeue(DequeueRequest{Route: "/a", Batch: 5, LeaseTTL: time.Hour}); err != nil || len(resp.Items) != 0 {
		return hfail("precondition", fmt.Errorf("route /a has ready messages before the wait: %d %v", len(resp.Items), err))
	}

	type res struct {
		resp DequeueResponse
		err  error
		took time.Duration
	}
	done := make(chan res, 1)
	go func() {
		t0 := time.Now()
		resp, err := st.Dequeue(DequeueRequest{Route: "/a", Batch: c.Batch, LeaseTTL: time.Hour, MaxWait: c05WaitMax})
		done <- res{resp, err, time.Since(t0)}
	}()
	time.Sleep(time.Duration(c.Ticks) * 20 * time.Millisecond)
	if c.Signal {
		// wakes every waiting call; nothing of route /a is due yet
		_ = st.Enqueue(Envelope{ID: "sig", Route: "/c", Target: "pull", Payload: []byte("s")})
		time.Sleep(10 * time.Millisecond)
		labels["woken-before-due"] = true
	}
	select {
	case r := <-done:
		// the call did not wait (it may not: an implementation can return early and empty), or it was so slow to
		// start that... no: nothing is due yet, so whatever it returned must be empty
		if r.err != nil {
			return hfail("waiting-dequeue", r.err)
		}
		if len(r.resp.Items) != 0 {
			out.Failure = fail("C05,C03", "offered-before-due", 0, "waiting dequeue returned %d messages before anything of its route was due", len(r.resp.Items))
			return finish()
		}
		labels["returned-before-due"] = true
		return finish()
	default:
	}
	clk.add(due + 10*time.Millisecond) // 10 ms: the documented sweep granularity
	var r res
	select {
	case r = <-done:
	case <-time.After(c05WaitMax + 10*time.Second):
		out.Failure = fail("HARNESS", "waiting-dequeue-hangs", 0, "dequeue with max_wait %s did not return within %s", c05WaitMax, c05WaitMax+10*time.Second)
		return finish()
	}
	if r.err != nil {
		return hfail("waiting-dequeue", r.err)
	}
	exp := c.K
	if c.Batch < exp {
		exp = c.Batch
	}
	out.NonTriv = true
	if c.Other == 0 && c.Leased == 0 {
		labels["no-queued-row-anywhere"] = true
	}
	if len(r.resp.Items) != exp {
		out.Failure = fail("C05", "waiting-consumer-starved", 0, "%d messages of route /a became due (%s) %s after a dequeue(batch %d, max_wait %s) had started waiting; the call returned %d messages after %s, expected %d",
			c.K, c.Mode, time.Duration(c.Ticks)*20*time.Millisecond, c.Batch, c05WaitMax, len(r.resp.Items), r.took.Round(time.Millisecond), exp)
		return finish()
	}
	for _, it := range r.resp.Items {
		if !want[it.ID] {
			out.Failure = fail("C05,C03", "waiting-consumer-wrong-message", 0, "waiting dequeue on /a returned %s (route %s), which was not due", it.ID, it.Route)
			return finish()
		}
	}
	return finish()
}

func TestProp_C05_WaitingConsumer(t *testing.T) {
	gen := genC05WaitCase()
	rapid.Check(t, func(rt *rapid.T) {
		c := gen.Draw(rt, "case")
		out := runC05Wait(c)
		verifkit.Emit(verifkit.Record{Prop: "C05", Test: "TestProp_C05_WaitingConsumer", Hash: verifkit.Hash(c), NonTrivial: out.NonTriv, Labels: out.Labels}, c)
		if out.Failure != nil {
			verifkit.SaveFailing("TestProp_C05_WaitingConsumer", c, out.Failure)
			rt.Fatalf("%v", out.Failure)
		}
	})
}

func replayC05Wait() {
	for _, rf := range verifkit.ReplayFiles("TestProp_C05_WaitingConsumer") {
		var c C05WaitCase
		if err := json.Unmarshal(rf.Case, &c); err != nil {
			fmt.Printf("REPLAY-ERROR file=%s err=%v\n", rf.Path, err)
			continue
		}
		out := runC05Wait(c)
		verifkit.ReportReplay(rf, out.Failure)
	}
}
