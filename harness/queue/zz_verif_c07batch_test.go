//go:build verif

package queue

import (
	"encoding/json"
	"fmt"
	"sort"
	"testing"
	"time"

	"github.com/nuetzliches/hookaido/internal/verifkit"
	"pgregory.net/rapid"
)

// ---------------------------------------------------------------------------------------
// C07, store tier: what one dequeue hands out for a *batch* is, message by message, what was
// accepted. The transport tiers of engine `front` send every message of a batch with the same
// header list; here each message of a batch has its own headers, trace and payload - none at
// all, an empty map, plain ones, ones a serialiser must escape - so that a value leaking from
// one row of the batch into the next is visible (seed C07-15: scan variables hoisted out of
// the row loop x NULL columns skipped). Both backends, single and batch enqueue, batch sizes
// below, at and above the number of ready messages, and a second round after nack.
// ---------------------------------------------------------------------------------------

type C07BatchCase struct {
	Backend string `json:"backend"`
	Hdr     []int  `json:"hdr"`   // header variant per message (hdrVariant; 0 = none)
	Trace   []int  `json:"trace"` // trace variant per message
	PayLen  []int  `json:"pay_len"`
	EnqB    bool   `json:"enq_batch"` // all messages in one EnqueueBatch
	N       int    `json:"n"`         // batch size of the dequeue
	Again   bool   `json:"again"`     // nack everything and dequeue once more
}

func genC07BatchCase() *rapid.Generator[C07BatchCase] {
	return rapid.Custom(func(t *rapid.T) C07BatchCase {
		k := rapid.IntRange(2, 6).Draw(t, "k")
		c := C07BatchCase{Backend: rapid.SampledFrom([]string{"sqlite", "sqlite", "memory"}).Draw(t, "backend"),
			EnqB: rapid.Bool().Draw(t, "enq_batch"), Again: rapid.Bool().Draw(t, "again")}
		for i := 0; i < k; i++ {
			c.Hdr = append(c.Hdr, rapid.SampledFrom([]int{0, 0, 1, 2, 3, 4, 5}).Draw(t, "hdr"))
			c.Trace = append(c.Trace, rapid.SampledFrom([]int{0, 0, 2, 5}).Draw(t, "trace"))
			c.PayLen = append(c.PayLen, rapid.SampledFrom([]int{0, 1, 3, 64}).Draw(t, "pay"))
		}
		c.N = rapid.SampledFrom([]int{2, k - 1, k, k + 1, 100}).Draw(t, "n")
		if c.N < 1 {
			c.N = 1
		}
		return c
	})
}

func runC07Batch(c C07BatchCase) qOutcome {
	var out qOutcome
	labels := map[string]bool{"backend-" + c.Backend: true}
	finish := func() qOutcome {
		for l := range labels {
			out.Labels = append(out.Labels, l)
		}
		sort.Strings(out.Labels)
		return out
	}
	clk := &qClock{}
	w, err := openQStore(QCfg{Backend: c.Backend}, c.Backend, clk, "")
	if err != nil {
		out.Failure = fail("HARNESS", "open", 0, "%v", err)
		return finish()
	}
	defer w.close()
	st := w.st
	want := map[string]Envelope{}
	var envs []Envelope
	mixed := false
	for i := range c.Hdr {
		p := make([]byte, c.PayLen[i])
		for j := range p {
			p[j] = byte(i*31 + j)
		}
		e := Envelope{ID: fmt.Sprintf("m%d", i), Route: "/a", Target: "pull", Payload: p, Headers: hdrVariant(c.Hdr[i]), Trace: hdrVariant(c.Trace[i])}
		envs = append(envs, e)
		want[e.ID] = e
		if i > 0 && (c.Hdr[i] == 0 || c.Hdr[i] == 1) && c.Hdr[i-1] > 1 {
			mixed = true
		}
	}
	if c.EnqB {
		if n, err := st.EnqueueBatch(envs); err != nil || n != len(envs) {
			out.Failure = fail("HARNESS", "enqueue", 0, "batch enqueue: %d %v", n, err)
			return finish()
		}
	} else {
		for _, e := range envs {
			if err := st.Enqueue(e); err != nil {
				out.Failure = fail("HARNESS", "enqueue", 0, "%v", err)
				return finish()
			}
			clk.add(time.Millisecond)
		}
	}
	rounds := 1
	if c.Again {
		rounds = 2
	}
	for r := 0; r < rounds; r++ {
		resp, err := st.Dequeue(DequeueRequest{Route: "/a", Target: "pull", Batch: c.N, LeaseTTL: time.Minute})
		if err != nil {
			out.Failure = fail("HARNESS", "dequeue", r, "%v", err)
			return finish()
		}
		exp := len(envs)
		if c.N < exp {
			exp = c.N
		}
		if len(resp.Items) != exp {
			out.Failure = fail("C05,C07", "batch-size", r, "dequeue(batch %d) of %d ready messages returned %d", c.N, len(envs), len(resp.Items))
			return finish()
		}
		if len(resp.Items) >= 2 {
			labels["batch>=2"] = true
			if mixed {
				out.NonTriv = true
				labels["header-less-after-header-bearing"] = true
			}
		}
		var leases []string
		for _, it := range resp.Items {
			wv, ok := want[it.ID]
			if !ok {
				out.Failure = fail("C07,C02", "unknown-message", r, "dequeue returned %s, which nobody sent", it.ID)
				return finish()
			}
			if string(normBytes(it.Payload)) != string(normBytes(wv.Payload)) {
				out.Failure = fail("C07", "payload-differs", r, "message %s: payload %x, accepted %x", it.ID, it.Payload, wv.Payload)
				return finish()
			}
			if fmt.Sprint(normMap(it.Headers)) != fmt.Sprint(normMap(wv.Headers)) {
				out.Failure = fail("C07", "headers-differ", r, "message %s of a batch of %d: headers %v, accepted %v (round %d)", it.ID, len(resp.Items), it.Headers, wv.Headers, r)
				return finish()
			}
			if fmt.Sprint(normMap(it.Trace)) != fmt.Sprint(normMap(wv.Trace)) {
				out.Failure = fail("C07", "trace-differs", r, "message %s of a batch of %d: trace %v, accepted %v (round %d)", it.ID, len(resp.Items), it.Trace, wv.Trace, r)
				return finish()
			}
			leases = append(leases, it.LeaseID)
		}
		if r+1 < rounds {
			if _, err := st.NackBatch(leases, 0); err != nil {
				out.Failure = fail("HARNESS", "nack", r, "%v", err)
				return finish()
			}
			// whatever was not in the first batch is still queued; the second round takes the oldest N again
		}
	}
	return finish()
}

func TestProp_C07_StoreBatch(t *testing.T) {
	gen := genC07BatchCase()
	rapid.Check(t, func(rt *rapid.T) {
		c := gen.Draw(rt, "case")
		out := runC07Batch(c)
		verifkit.Emit(verifkit.Record{Prop: "C07", Test: "TestProp_C07_StoreBatch", Hash: verifkit.Hash(c), NonTrivial: out.NonTriv, Labels: out.Labels}, c)
		if out.Failure != nil {
			verifkit.SaveFailing("TestProp_C07_StoreBatch", c, out.Failure)
			rt.Fatalf("%v", out.Failure)
		}
	})
}

func replayC07Batch() {
	for _, rf := range verifkit.ReplayFiles("TestProp_C07_StoreBatch") {
		var c C07BatchCase
		if err := json.Unmarshal(rf.Case, &c); err != nil {
			fmt.Printf("REPLAY-ERROR file=%s err=%v\n", rf.Path, err)
			continue
		}
		out := runC07Batch(c)
		verifkit.ReportReplay(rf, out.Failure)
	}
}
