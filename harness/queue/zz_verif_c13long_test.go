//go:build verif

package queue

import (
	"fmt"
	"testing"

	"github.com/nuetzliches/hookaido/internal/verifkit"
	"pgregory.net/rapid"
)

// ---------------------------------------------------------------------------------------
// C13, long-history tier: the lock-step differential over histories in which a thousand or
// more messages pass through both backends while a few stay leased, dead or canceled; those
// are then released (nack, expiry, requeue, resume) and a generated tail of ordinary
// operations follows. Received times are strictly increasing in insertion order, so no
// dequeue in the prologue is a choice among equally eligible messages.
// ---------------------------------------------------------------------------------------

func genC13LongCase() *rapid.Generator[QCase] {
	p := profileC13()
	p.blankIDs = false
	return rapid.Custom(func(t *rapid.T) QCase {
		c := QCase{Cfg: QCfg{Backend: "both"}}
		batches := rapid.SampledFrom([]int{3, 10, 11, 11, 12, 21}).Draw(t, "batches")
		n := 0
		for b := 0; b < batches; b++ {
			var items []QItem
			for i := 0; i < 100; i++ {
				items = append(items, QItem{ID: fmt.Sprintf("b%02d_%03d", b, i), Route: "/a", Target: "pull", RecvAgoMs: 100 - i})
				n++
			}
			c.Ops = append(c.Ops, QOp{K: "enq", Items: items, Batch: true}, QOp{K: "adv", Ms: 200})
		}
		for b := 0; b < batches; b++ {
			c.Ops = append(c.Ops, QOp{K: "deq", Route: "/a", N: 100, TTLMs: 60000})
		}
		// a few messages are kept out of the mass ack: leased, dead-lettered or canceled
		nk := rapid.IntRange(1, 4).Draw(t, "nkeep")
		keep := map[int]string{}
		for i := 0; i < nk; i++ {
			// a fixed number of draws (a shrunk case may name one index several times: fewer are kept then)
			k := rapid.IntRange(0, n-1).Draw(t, "keep")
			keep[k] = rapid.SampledFrom([]string{"leased", "dead", "canceled"}).Draw(t, "keep_as")
		}
		for b := 0; b < batches; b++ {
			var ls []LRef
			for i := 0; i < 100; i++ {
				if _, kept := keep[b*100+i]; !kept {
					ls = append(ls, LRef{K: b*100 + i})
				}
			}
			c.Ops = append(c.Ops, QOp{K: "ackb", Ls: ls})
		}
		idOf := func(k int) string { return fmt.Sprintf("b%02d_%03d", k/100, k%100) }
		for k := 0; k < n; k++ {
			switch keep[k] {
			case "dead":
				c.Ops = append(c.Ops, QOp{K: "dead", L: &LRef{K: k}, Reason: "no_retry"})
			case "canceled":
				c.Ops = append(c.Ops, QOp{K: "cancel", IDs: []string{idOf(k)}})
			}
		}
		// housekeeping opportunities while the kept ones are not queued
		c.Ops = append(c.Ops, QOp{K: "deq", Route: "/other", N: 1}, QOp{K: "stats"}, QOp{K: "deq", Route: "/a", N: 5, TTLMs: 60000})
		// release
		expire := false
		for k := 0; k < n; k++ {
			switch keep[k] {
			case "leased":
				if rapid.Bool().Draw(t, "by_nack") {
					c.Ops = append(c.Ops, QOp{K: "nack", L: &LRef{K: k}})
				} else {
					expire = true
				}
			case "dead":
				c.Ops = append(c.Ops, QOp{K: rapid.SampledFrom([]string{"rqdead", "requeue"}).Draw(t, "undead"), IDs: []string{idOf(k)}})
			case "canceled":
				c.Ops = append(c.Ops, QOp{K: rapid.SampledFrom([]string{"resume", "requeue"}).Draw(t, "uncancel"), IDs: []string{idOf(k)}})
			}
		}
		if expire {
			c.Ops = append(c.Ops, QOp{K: "adv", Ms: 61000})
		}
		c.Ops = append(c.Ops, QOp{K: "list", Route: "/a", N: 50}, QOp{K: "deq", Route: "/a", N: 10, TTLMs: 60000})
		cfg := c.Cfg
		opGen := rapid.Custom(func(t *rapid.T) QOp { return genOp(t, p, cfg) })
		c.Ops = append(c.Ops, rapid.SliceOfN(opGen, 0, 12).Draw(t, "tail")...)
		return c
	})
}

func TestProp_C13_LongLockStep(t *testing.T) {
	gen := genC13LongCase()
	rapid.Check(t, func(rt *rapid.T) {
		c := gen.Draw(rt, "case")
		out := runQLockStep(c, true)
		nenq := 0
		for _, op := range c.Ops {
			if op.K == "enq" {
				nenq += len(op.Items)
			}
		}
		cutEarly := false
		for _, l := range out.Labels {
			if len(l) > 4 && l[:4] == "cut:" {
				cutEarly = true
			}
		}
		out.NonTriv = nenq >= 1024 && !cutEarly
		if nenq >= 1024 {
			out.Labels = append(out.Labels, "history>=1024")
		}
		verifkit.Emit(verifkit.Record{Prop: "C13", Test: "TestProp_C13_LongLockStep", Hash: verifkit.Hash(c), NonTrivial: out.NonTriv,
			Labels: out.Labels, Known: out.Known}, c)
		if out.Failure != nil {
			verifkit.SaveFailing("TestProp_C13_LongLockStep", c, out.Failure)
			rt.Fatalf("%v", out.Failure)
		}
	})
}
