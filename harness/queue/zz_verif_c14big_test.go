//go:build verif

package queue

import (
	"fmt"
	"testing"

	"github.com/nuetzliches/hookaido/internal/verifkit"
	"pgregory.net/rapid"
)

// ---------------------------------------------------------------------------------------
// C14, big-list tier: operator mutations naming hundreds of ids (around 256 / 500 / 512 / 1000,
// where implementations split work into chunks) and by-filter mutations whose limit and match
// count exceed such sizes. The validator is the same; only the population and list sizes differ.
// ---------------------------------------------------------------------------------------

func genC14BigCase() *rapid.Generator[QCase] {
	return rapid.Custom(func(t *rapid.T) QCase {
		c := QCase{Cfg: QCfg{Backend: rapid.SampledFrom([]string{"memory", "sqlite", "sqlite"}).Draw(t, "backend")}}
		batches := rapid.SampledFrom([]int{6, 7, 11}).Draw(t, "batches")
		id := func(k int) string { return fmt.Sprintf("b%02d_%03d", k/100, k%100) }
		n := batches * 100
		for b := 0; b < batches; b++ {
			var items []QItem
			for i := 0; i < 100; i++ {
				items = append(items, QItem{ID: id(b*100 + i), Route: "/a", Target: "pull", RecvAgoMs: 100 - i})
			}
			c.Ops = append(c.Ops, QOp{K: "enq", Items: items, Batch: true}, QOp{K: "adv", Ms: 200})
		}
		ids := func(from, count int) []string {
			var out []string
			for k := from; k < from+count && k < n; k++ {
				out = append(out, id(k))
			}
			return out
		}
		sizes := []int{255, 256, 257, 499, 500, 501, 512, 513, 620, 1000, 1001}
		steps := rapid.IntRange(2, 5).Draw(t, "steps")
		for sidx := 0; sidx < steps; sidx++ {
			size := rapid.SampledFrom(sizes).Draw(t, "size")
			from := rapid.SampledFrom([]int{0, 0, 50, 100}).Draw(t, "from")
			switch rapid.SampledFrom([]string{"cancel", "cancel", "requeue", "resume", "cancelf", "requeuef", "resumef", "dead-then-ops"}).Draw(t, "kind") {
			case "cancel":
				c.Ops = append(c.Ops, QOp{K: "cancel", IDs: ids(from, size)})
			case "requeue":
				c.Ops = append(c.Ops, QOp{K: "requeue", IDs: ids(from, size)})
			case "resume":
				c.Ops = append(c.Ops, QOp{K: "resume", IDs: ids(from, size)})
			case "cancelf":
				c.Ops = append(c.Ops, QOp{K: "cancelf", Route: "/a", N: 1000, Preview: rapid.IntRange(0, 3).Draw(t, "preview") == 0})
			case "requeuef":
				c.Ops = append(c.Ops, QOp{K: "requeuef", Route: "/a", N: 1000, Preview: rapid.IntRange(0, 3).Draw(t, "preview") == 0})
			case "resumef":
				c.Ops = append(c.Ops, QOp{K: "resumef", N: 1000})
			case "dead-then-ops":
				// dead-letter a few hundred through the lease path, then requeue / delete them from the DLQ in one call
				for k := 0; k < 6; k++ {
					c.Ops = append(c.Ops, QOp{K: "deq", Route: "/a", N: 100, TTLMs: 60000})
				}
				var ls []LRef
				for k := 0; k < size && k < 600; k++ {
					ls = append(ls, LRef{K: k})
				}
				c.Ops = append(c.Ops, QOp{K: "deadb", Ls: ls, Reason: "no_retry"})
				c.Ops = append(c.Ops, QOp{K: rapid.SampledFrom([]string{"rqdead", "deldead", "requeue"}).Draw(t, "dlq_op"), IDs: ids(0, size)})
			}
			c.Ops = append(c.Ops, QOp{K: "stats"})
		}
		return c
	})
}

func TestProp_C14_BigLists(t *testing.T) {
	gen := genC14BigCase()
	rapid.Check(t, func(rt *rapid.T) {
		c := gen.Draw(rt, "case")
		out := runQCase(c, "C14", false, true)
		out.NonTriv = out.Failure == nil
		verifkit.Emit(verifkit.Record{Prop: "C14", Test: "TestProp_C14_BigLists", Hash: verifkit.Hash(c), NonTrivial: out.NonTriv,
			Labels: out.Labels, Known: out.Known, Foreign: out.Foreign}, c)
		if out.Failure != nil {
			verifkit.SaveFailing("TestProp_C14_BigLists", c, out.Failure)
			rt.Fatalf("%v", out.Failure)
		}
	})
}
