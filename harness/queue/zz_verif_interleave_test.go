//go:build verif

package queue

import (
	"encoding/json"
	"fmt"
	"sort"
	"strings"
	"sync/atomic"
	"testing"
	"time"

	"github.com/nuetzliches/hookaido/internal/verifhook"
	"github.com/nuetzliches/hookaido/internal/verifkit"
	"pgregory.net/rapid"
)

// ---------------------------------------------------------------------------------------
// Interleaving tier (C03, C04, C14: "for every interleaving of concurrent calls").
//
// The stress tiers leave the schedule to the OS; this one owns it. A generated prologue
// builds a small queue (some messages leased short or long, acked, dead, canceled, some leases
// expired by a clock step). Then two generated operations A and B run on two handles of the
// same store (two SQLiteStore values on one file, or one MemoryStore): A is started first and
// held at its n-th yield point - a read of the injected clock or one of the verif hook points
// inside the store (after BEGIN IMMEDIATE, around the lease UPDATE, around COMMIT ...) or, through
// a wrapping database/sql driver, the point before any SQL statement - while
// B runs to completion (or until it is seen to wait for A's transaction); then A is released.
// n is part of the generated case, so the search enumerates where A is interrupted.
//
// Oracle: every operation of the store is documented to be atomic, so the answers of A and B,
// the contents afterwards and the answers of a fixed epilogue (dequeue everything, list) must
// be those of A;B or of B;A run one after the other from the same prologue - both reference
// runs are executed sequentially on fresh stores and are themselves judged step by step by
// the transition validator, so the reference is not trusted blindly. Lease ids granted inside
// the pair are compared by the message they hold. Non-trivial = A was actually held at a yield
// point, B completed while A was held, and the two orders differ (the interleaving shows).
// ---------------------------------------------------------------------------------------

type ICase struct {
	Cfg     QCfg  `json:"cfg"`
	Pre     []QOp `json:"pre"`
	A       QOp   `json:"a"`
	B       QOp   `json:"b"`
	B2      *QOp  `json:"b2,omitempty"` // a second operation on B's handle, right after B, still inside A
	PauseAt int   `json:"pause_at"`     // A is held at its n-th yield point (1-based)
}

func (c ICase) bOps() []QOp {
	if c.B2 != nil {
		return []QOp{c.B, *c.B2}
	}
	return []QOp{c.B}
}

// bSteps: the atomic steps of B's handle, in order (who 1 = B, 2 = B2).
func (c ICase) bSteps() []iStepT {
	var out []iStepT
	for i, op := range c.bOps() {
		out = append(out, iSteps(op, 1+i)...)
	}
	return out
}

// iGate is the clock handed to the store: every read is a yield point.
type iGate struct {
	clk     *qClock
	armed   atomic.Bool
	target  int32
	count   atomic.Int32
	reached chan struct{}
	resume  chan struct{}
	where   atomic.Value // string
}

func newIGate(clk *qClock, target int) *iGate {
	return &iGate{clk: clk, target: int32(target), reached: make(chan struct{}), resume: make(chan struct{})}
}

func (g *iGate) event(label string) {
	if !g.armed.Load() {
		return
	}
	if g.count.Add(1) == g.target && g.armed.CompareAndSwap(true, false) {
		g.where.Store(label)
		close(g.reached)
		<-g.resume
	}
}

func (g *iGate) Now() time.Time { g.event("clock"); return g.clk.Now() }

var iHookLabels = []string{"sqlite.begin", "sqlite.commit.before", "sqlite.commit.after", "sqlite.lease.mutate.before",
	"sqlite.lease.mutate.after", "sqlite.leasebatch.fn.before", "sqlite.leasebatch.fn.after", "sqlite.enqueue.insert.before",
	"sqlite.enqueue.insert.after", "sqlite.batch.insert"}

type iRun struct {
	ResA  QRes   `json:"a"`
	ResB  QRes   `json:"b"`
	ResB2 QRes   `json:"b2"`
	Snap  []Msg  `json:"snap"`
	Post  []QRes `json:"post"`
	Where string `json:"-"`
	BDone bool   `json:"-"` // B completed while A was held
	Held  bool   `json:"-"`
	Fail  *verifkit.Failure
	Skip  string
}

func iOpenSecond(w *qWorld, now func() time.Time) (*qWorld, error) {
	w2 := &qWorld{cfg: w.cfg, clk: w.clk, dbPath: w.dbPath, wallet: w.wallet, gen: w.gen}
	if w.mem != nil {
		w2.mem, w2.st = w.mem, w.mem
		return w2, nil
	}
	opts := sqliteOpts(w.cfg, w.clk)
	opts[0] = WithSQLiteNowFunc(now)
	s, err := NewSQLiteStore(w.dbPath, opts...)
	if err != nil {
		return nil, err
	}
	w2.sql, w2.st = s, s
	return w2, nil
}

// iCanon rewrites lease ids: wallet leases of the prologue by index, leases granted later by message.
func iCanon(pre []walletEntry, l, msg string) string {
	if l == "" {
		return ""
	}
	for k, e := range pre {
		if e.Lease == l {
			return fmt.Sprintf("L%d", k)
		}
	}
	if msg != "" {
		return "new:" + msg
	}
	return "new"
}

func iCanonRes(pre []walletEntry, r QRes) QRes {
	out := r
	out.Items = nil
	for _, m := range r.Items {
		m.Lease = iCanon(pre, m.Lease, m.ID)
		out.Items = append(out.Items, m)
	}
	out.Conflicts = nil
	for _, c := range r.Conflicts {
		out.Conflicts = append(out.Conflicts, QConf{Lease: iCanon(pre, c.Lease, ""), Expired: c.Expired})
	}
	return out
}

func iCanonSnap(pre []walletEntry, s Snap) []Msg {
	var out []Msg
	for _, id := range s.sortedIDs() {
		m := s[id]
		m.Lease = iCanon(pre, m.Lease, m.ID)
		if m.State == "leased" {
			m.Next = 0 // parked at lease_until; not compared while leased (see eqMsg)
		}
		out = append(out, m)
	}
	return out
}

var iPost = []QOp{
	{K: "stats"},
	{K: "deq", Route: "/a", Target: "pull", N: 10, TTLMs: 60000},
	{K: "deq", Route: "/b", Target: "pull", N: 10, TTLMs: 60000},
	{K: "list", N: 100, Order: "asc"},
}

// iPrologue opens a store and runs the prologue under the transition validator.
func iPrologue(c ICase, clk *qClock, now func() time.Time) (*qWorld, *qOracle, Snap, *verifkit.Failure) {
	var w *qWorld
	var err error
	if c.Cfg.Backend == "memory" {
		w = &qWorld{cfg: c.Cfg, clk: clk}
		w.mem = NewMemoryStore(WithNowFunc(now), WithQueueLimits(c.Cfg.MaxDepth, c.Cfg.Drop),
			WithQueueRetention(ms(c.Cfg.RetMs), ms(c.Cfg.PruneMs)), WithDeliveredRetention(ms(c.Cfg.DelivMs)),
			WithDLQRetention(ms(c.Cfg.DLQAgeMs), c.Cfg.DLQDepth))
		w.st = w.mem
	} else {
		w = &qWorld{cfg: c.Cfg, clk: clk, dbPath: fmt.Sprintf("%s/i%d.db", qScratch(), dbSeq.Add(1))}
		opts := sqliteOpts(c.Cfg, clk)
		opts[0] = WithSQLiteNowFunc(now)
		s, e := NewSQLiteStore(w.dbPath, opts...)
		if e != nil {
			return nil, nil, nil, fail("HARNESS", "open", 0, "open store: %v", e)
		}
		w.sql, w.st = s, s
	}
	o := newQOracle(c.Cfg, c.Cfg.Backend, false)
	o.walletLookup = w.walletMsg
	prev, err := w.snapshot()
	if err != nil {
		w.close()
		return nil, nil, nil, fail("HARNESS", "snapshot", 0, "%v", err)
	}
	for i, op := range c.Pre {
		next, f := iStep(w, o, i, op, prev)
		if f != nil {
			w.close()
			return nil, nil, nil, f
		}
		prev = next
	}
	return w, o, prev, nil
}

// iStep runs one operation sequentially and has the transition validator judge it.
func iStep(w *qWorld, o *qOracle, i int, op QOp, prev Snap) (Snap, *verifkit.Failure) {
	if op.K == "adv" {
		w.advance(op, prev)
		return prev, nil
	}
	r := w.resolve(op, prev)
	res := w.exec(r)
	if op.K == "deq" {
		w.wallet = w.wallet[:len(w.wallet)-len(res.Items)]
		appendWallet(w, res.Items)
	}
	next, err := w.snapshot()
	if err != nil {
		return nil, fail("HARNESS", "snapshot", i, "%v", err)
	}
	if f := o.validate(i, prev, next, r, res); f != nil {
		return nil, f
	}
	return next, nil
}

func iEpilogue(w *qWorld, pre []walletEntry, run *iRun) {
	snap, err := w.snapshot()
	if err != nil {
		run.Fail = fail("HARNESS", "snapshot", 0, "%v", err)
		return
	}
	run.Snap = iCanonSnap(pre, snap)
	if w.sql != nil {
		q, l, cerr := w.sqliteCounters()
		if cerr == nil && (q != snap.count("queued") || l != snap.count("leased")) {
			run.Post = append(run.Post, QRes{Err: fmt.Sprintf("counters queued=%d leased=%d rows queued=%d leased=%d", q, l, snap.count("queued"), snap.count("leased"))})
		}
	}
	for _, op := range iPost {
		r := w.resolve(op, snap)
		res := iCanonRes(pre, w.exec(r))
		if op.K == "stats" {
			res.StatsExtra = ""
		}
		run.Post = append(run.Post, res)
	}
}

// A by-filter mutation is documented (and built) as two atomic steps: select the ids that match,
// then the id-list form of the operation on them, which re-checks the state of every id. Every
// other operation is one step. The reference outcomes are those of every merge of the two step lists.
type iStepT struct {
	who  int    // 0: A, 1: B
	kind string // whole | sel | mut
}

var iIDForm = map[string]string{"cancelf": "cancel", "requeuef": "requeue", "resumef": "resume"}

func iSteps(op QOp, who int) []iStepT {
	if _, ok := iIDForm[op.K]; ok && !op.Preview {
		return []iStepT{{who, "sel"}, {who, "mut"}}
	}
	return []iStepT{{who, "whole"}}
}

func iOrders(a, b []iStepT) [][]iStepT {
	if len(a) == 0 {
		return [][]iStepT{append([]iStepT(nil), b...)}
	}
	if len(b) == 0 {
		return [][]iStepT{append([]iStepT(nil), a...)}
	}
	var out [][]iStepT
	for _, rest := range iOrders(a[1:], b) {
		out = append(out, append([]iStepT{a[0]}, rest...))
	}
	for _, rest := range iOrders(a, b[1:]) {
		out = append(out, append([]iStepT{b[0]}, rest...))
	}
	return out
}

// iSelect is the documented selection of a by-filter mutation on the given contents.
func iSelect(op QOp, snap Snap) []string {
	allowed := manageAllowed[op.K]
	if op.State != "" && !inList(op.State, allowed) {
		return nil
	}
	cands := filterCands(snap, op.Route, op.Target, op.State, allowed, qZero)
	if limit := capLimit(op.N); len(cands) > limit {
		cands = cands[:limit]
	}
	var ids []string
	for _, m := range cands {
		ids = append(ids, m.ID)
	}
	return ids
}

// iSerial is a reference run: the prologue, then the steps of A and B one after the other in the given order.
func iSerial(c ICase, order []iStepT) iRun {
	var run iRun
	clk := &qClock{}
	w, o, prev, f := iPrologue(c, clk, clk.Now)
	if f != nil {
		run.Fail = f
		return run
	}
	defer w.close()
	pre := append([]walletEntry(nil), w.wallet...)
	ops := append([]QOp{c.A}, c.bOps()...)
	// all operations are resolved against the state after the prologue, as in the concurrent run
	rs := make([]resolvedOp, len(ops))
	for k, op := range ops {
		rs[k] = w.resolve(op, prev)
	}
	var results [3]QRes
	var selected [3][]string
	for i, st := range order {
		var r resolvedOp
		switch st.kind {
		case "sel":
			selected[st.who] = iSelect(ops[st.who], prev)
			continue
		case "mut":
			ids := selected[st.who]
			if len(ids) == 0 {
				continue // nothing selected: the operation answers zero counts and touches nothing
			}
			r = resolvedOp{Op: QOp{K: iIDForm[ops[st.who].K], IDs: ids}, IDs: ids, Now: rs[st.who].Now}
		default:
			r = rs[st.who]
		}
		res := w.exec(r)
		next, err := w.snapshot()
		if err != nil {
			run.Fail = fail("HARNESS", "snapshot", i, "%v", err)
			return run
		}
		if r.Op.K == "deq" {
			w.wallet = w.wallet[:len(w.wallet)-len(res.Items)]
			appendWallet(w, res.Items)
		}
		if f := o.validate(len(c.Pre)+i, prev, next, r, res); f != nil {
			run.Fail = f
			return run
		}
		prev = next
		if st.kind == "mut" {
			res.Matched = len(selected[st.who])
		}
		results[st.who] = iCanonRes(pre, res)
	}
	run.ResA, run.ResB, run.ResB2 = results[0], results[1], results[2]
	iEpilogue(w, pre, &run)
	return run
}

// iCountYields runs the prologue and A alone and counts the yield points A passes.
func iCountYields(c ICase) int {
	clk := &qClock{}
	gate := newIGate(clk, 1<<30)
	w, _, prev, f := iPrologue(c, clk, gate.Now)
	if f != nil {
		return 0
	}
	defer w.close()
	rA := w.resolve(c.A, prev)
	for _, l := range iHookLabels {
		label := l
		verifhook.On(label, func() { gate.event(label) })
	}
	yield := gate.event
	ySQLYield.Store(&yield)
	gate.armed.Store(true)
	w.exec(rA)
	gate.armed.Store(false)
	ySQLYield.Store(nil)
	for _, l := range iHookLabels {
		verifhook.On(l, nil)
	}
	return int(gate.count.Load())
}

// iConcurrent holds A at its n-th yield point, runs B on the second handle, releases A.
func iConcurrent(c ICase, pauseAt int) iRun {
	var run iRun
	clk := &qClock{}
	gate := newIGate(clk, pauseAt)
	w, _, prev, f := iPrologue(c, clk, gate.Now)
	if f != nil {
		run.Fail = f
		return run
	}
	defer w.close()
	pre := append([]walletEntry(nil), w.wallet...)
	w2, err := iOpenSecond(w, clk.Now)
	if err != nil {
		run.Fail = fail("HARNESS", "open-second", 0, "%v", err)
		return run
	}
	if w2.sql != nil {
		defer w2.sql.Close()
	}
	rA := w.resolve(c.A, prev)
	var rBs []resolvedOp
	for _, op := range c.bOps() {
		rBs = append(rBs, w2.resolve(op, prev))
	}
	for _, l := range iHookLabels {
		label := l
		verifhook.On(label, func() { gate.event(label) })
	}
	yield := gate.event
	ySQLYield.Store(&yield)
	defer func() {
		ySQLYield.Store(nil)
		for _, l := range iHookLabels {
			verifhook.On(l, nil)
		}
	}()
	doneA, doneB := make(chan QRes, 1), make(chan [2]QRes, 1)
	gate.armed.Store(true)
	go func() { doneA <- w.exec(rA) }()
	var resA QRes
	var resB [2]QRes
	aFinished := false
	select {
	case <-gate.reached:
		run.Held = true
		run.Where, _ = gate.where.Load().(string)
	case resA = <-doneA:
		aFinished = true
	case <-time.After(20 * time.Second):
		gate.armed.Store(false)
		run.Skip = "A neither finished nor reached a yield point within 20s"
		return run
	}
	gate.armed.Store(false)
	go func() {
		var out [2]QRes
		for k, r := range rBs {
			out[k] = w2.exec(r)
		}
		doneB <- out
	}()
	if run.Held {
		select {
		case resB = <-doneB:
			run.BDone = true
		case <-time.After(80 * time.Millisecond):
			// B waits for something A holds (the store mutex, the SQLite write lock)
		}
		close(gate.resume)
	}
	deadline := time.After(30 * time.Second)
	if !aFinished {
		select {
		case resA = <-doneA:
		case <-deadline:
			run.Skip = "A did not finish within 30s after its release"
			return run
		}
	}
	if !run.BDone {
		select {
		case resB = <-doneB:
		case <-deadline:
			run.Skip = "B did not finish within 30s"
			return run
		}
	}
	run.ResA, run.ResB, run.ResB2 = iCanonRes(pre, resA), iCanonRes(pre, resB[0]), iCanonRes(pre, resB[1])
	iEpilogue(w, pre, &run)
	return run
}

func iKey(r iRun) string {
	b, _ := json.Marshal(r)
	return string(b)
}

func iClass(op QOp) string {
	switch op.K {
	case "deq":
		return "D"
	case "ack", "nack", "ext", "dead", "ackb", "nackb", "deadb":
		return "S"
	case "enq":
		return "E"
	}
	return "O"
}

func iProps(c ICase) string {
	ks := iClass(c.A)
	for _, op := range c.bOps() {
		ks += iClass(op)
	}
	var ps []string
	if strings.Contains(ks, "D") {
		ps = append(ps, "C03")
	}
	if strings.Contains(ks, "S") {
		ps = append(ps, "C04")
	}
	if strings.Contains(ks, "O") {
		ps = append(ps, "C14")
	}
	if strings.Contains(ks, "E") {
		if c.Cfg.MaxDepth > 0 {
			ps = append(ps, "C12")
		} else {
			ps = append(ps, "C02")
		}
	}
	return strings.Join(ps, ",")
}

func iDiff(a, b iRun) string {
	var d []string
	ja, _ := json.Marshal(a.ResA)
	jb, _ := json.Marshal(b.ResA)
	if string(ja) != string(jb) {
		d = append(d, fmt.Sprintf("answer of A %s vs %s", ja, jb))
	}
	ja, _ = json.Marshal(a.ResB)
	jb, _ = json.Marshal(b.ResB)
	if string(ja) != string(jb) {
		d = append(d, fmt.Sprintf("answer of B %s vs %s", ja, jb))
	}
	ja, _ = json.Marshal(a.ResB2)
	jb, _ = json.Marshal(b.ResB2)
	if string(ja) != string(jb) {
		d = append(d, fmt.Sprintf("answer of B2 %s vs %s", ja, jb))
	}
	ma, mb := Snap{}, Snap{}
	for _, m := range a.Snap {
		ma[m.ID] = m
	}
	for _, m := range b.Snap {
		mb[m.ID] = m
	}
	if s := diffSnap(ma, mb); s != "" {
		d = append(d, "contents: "+s)
	}
	ja, _ = json.Marshal(a.Post)
	jb, _ = json.Marshal(b.Post)
	if string(ja) != string(jb) {
		d = append(d, fmt.Sprintf("epilogue %s vs %s", ja, jb))
	}
	return strings.Join(d, "; ")
}

func runICase(c ICase, prop string) qOutcome {
	var out qOutcome
	labels := map[string]bool{}
	finish := func() qOutcome {
		for l := range labels {
			out.Labels = append(out.Labels, l)
		}
		sort.Strings(out.Labels)
		return out
	}
	var refs []iRun
	for _, order := range iOrders(iSteps(c.A, 0), c.bSteps()) {
		r := iSerial(c, order)
		if r.Fail != nil {
			// a sequential step the validator rejects belongs to the sequential tiers
			if r.Fail.Prop == "HARNESS" {
				out.Failure = r.Fail
			} else {
				out.Foreign = append(out.Foreign, r.Fail.Prop+":"+r.Fail.Clause)
				labels["reference-run-rejected"] = true
			}
			return finish()
		}
		refs = append(refs, r)
	}
	// the generated number picks one of the yield points A actually has
	pauseAt := c.PauseAt
	if n := iCountYields(c); n > 0 {
		pauseAt = (c.PauseAt-1)%n + 1
	}
	conc := iConcurrent(c, pauseAt)
	if conc.Fail != nil {
		if conc.Fail.Prop == "HARNESS" {
			out.Failure = conc.Fail
		} else {
			out.Foreign = append(out.Foreign, conc.Fail.Prop+":"+conc.Fail.Clause)
		}
		return finish()
	}
	if conc.Skip != "" {
		out.Skipped = conc.Skip
		labels["inconclusive-time-budget"] = true
		return finish()
	}
	for _, r := range append([]QRes{conc.ResA, conc.ResB, conc.ResB2}, conc.Post...) {
		// SQLite gave up waiting for the write lock (5 s busy timeout): the machine, not the store
		if strings.HasPrefix(r.Err, "other:") && (strings.Contains(r.Err, "locked") || strings.Contains(r.Err, "busy")) {
			out.Skipped = "sqlite busy timeout: " + r.Err
			labels["inconclusive-environment"] = true
			return finish()
		}
	}
	pair := "pair-" + iClass(c.A) + iClass(c.B)
	if c.B2 != nil {
		pair += iClass(*c.B2)
		labels["two-operations-inside-a"] = true
	}
	labels[pair] = true
	labels["backend-"+c.Cfg.Backend] = true
	switch {
	case !conc.Held:
		labels["a-finished-before-yield-point"] = true
	case conc.BDone:
		labels["b-ran-inside-a"] = true
		labels["held-at-"+conc.Where] = true
	default:
		labels["b-waited-for-a"] = true
		labels["held-at-"+conc.Where] = true
	}
	kC := iKey(conc)
	keys := map[string]bool{}
	matched := -1
	for i, r := range refs {
		k := iKey(r)
		keys[k] = true
		if k == kC && matched < 0 {
			matched = i
		}
	}
	if len(keys) > 1 {
		labels["order-matters"] = true
	}
	if len(refs) > 2 {
		labels["two-step-filter-op"] = true
	}
	out.NonTriv = conc.Held && conc.BDone && len(keys) > 1
	if matched >= 0 {
		if len(keys) > 1 {
			labels[fmt.Sprintf("as-order-%d-of-%d", matched+1, len(refs))] = true
		}
		return finish()
	}
	ab, ba := refs[0], refs[len(refs)-1]
	props := iProps(c)
	f := fail(props, "not-serializable", len(c.Pre), "A=%s held at its yield point %d (%s) while B=%s ran on a second handle (B completed inside A: %v): the outcome is that of none of the %d sequential orders of their steps; against A;B: [%s]; against B;A: [%s]",
		opString(c.A), pauseAt, conc.Where, iBString(c), conc.BDone, len(refs), iDiff(conc, ab), iDiff(conc, ba))
	if propIn(props, prop) {
		out.Failure = f
	} else {
		out.Foreign = append(out.Foreign, props+":not-serializable")
	}
	return finish()
}

func iBString(c ICase) string {
	if c.B2 != nil {
		return opString(c.B) + " then " + opString(*c.B2)
	}
	return opString(c.B)
}

func opString(op QOp) string {
	b, _ := json.Marshal(op)
	return string(b)
}

// ---- generator -------------------------------------------------------------------------

var iIDs = []string{"m0", "m1", "m2", "m3", "m4"}

// genIOp draws one operation; with focus set, every reference stays on the first two messages and
// the first two leases, so that A and B meet on the same message.
func genIOp(t *rapid.T, label string, kinds []string, focus bool) QOp {
	k := rapid.SampledFrom(kinds).Draw(t, label+"_kind")
	maxK, idPool, routes := 5, iIDs, []string{"/a", "/a", "/b"}
	if focus {
		maxK, idPool, routes = 1, iIDs[:2], []string{"/a"}
	}
	lref := func(l string) LRef { return LRef{K: rapid.IntRange(0, maxK).Draw(t, l)} }
	ids := func() []string {
		n := rapid.IntRange(1, 2).Draw(t, label+"_nids")
		var out []string
		for i := 0; i < n; i++ {
			out = append(out, rapid.SampledFrom(idPool).Draw(t, label+"_id"))
		}
		return out
	}
	switch k {
	case "deq":
		return QOp{K: "deq", Route: rapid.SampledFrom(routes).Draw(t, label+"_route"), Target: "pull",
			N: rapid.IntRange(1, 3).Draw(t, label+"_n"), TTLMs: rapid.SampledFrom([]int{50, 60000}).Draw(t, label+"_ttl")}
	case "ack", "dead":
		l := lref(label + "_l")
		return QOp{K: k, L: &l, Reason: "r"}
	case "nack", "ext":
		l := lref(label + "_l")
		return QOp{K: k, L: &l, DurMs: rapid.SampledFrom([]int{0, 30, 60000}).Draw(t, label+"_dur")}
	case "ackb", "nackb", "deadb":
		return QOp{K: k, Ls: []LRef{lref(label + "_l1"), lref(label + "_l2")}, DurMs: 30, Reason: "r"}
	case "cancel", "requeue", "resume", "rqdead", "deldead":
		return QOp{K: k, IDs: ids()}
	case "cancelf", "requeuef", "resumef":
		return QOp{K: k, Route: rapid.SampledFrom(append([]string{""}, routes...)).Draw(t, label+"_route"),
			State: rapid.SampledFrom([]string{"", "queued", "leased", "dead", "canceled"}).Draw(t, label+"_state"),
			N:     rapid.SampledFrom([]int{0, 1, 2}).Draw(t, label+"_limit")}
	case "enq":
		// ids are per operation, so that two enqueues of a pair never name the same new message
		return QOp{K: "enq", Items: []QItem{{ID: rapid.SampledFrom([]string{"n-" + label, "n-" + label, "m0", "m1"}).Draw(t, label+"_id"), Route: "/a", Target: "pull", Payload: []byte("n"), RecvAgoMs: 5}}}
	case "enqb":
		return QOp{K: "enq", Batch: true, Items: []QItem{{ID: "n1-" + label, Route: "/a", Target: "pull", Payload: []byte("n"), RecvAgoMs: 6},
			{ID: "n2-" + label, Route: rapid.SampledFrom(routes).Draw(t, label+"_route"), Target: "pull", Payload: []byte("n"), RecvAgoMs: 4}}}
	case "adv":
		return QOp{K: "adv", Ms: rapid.SampledFrom([]int{60, 100}).Draw(t, label+"_ms")}
	}
	panic("unknown kind " + k)
}

var (
	iSettle   = []string{"ack", "nack", "ext", "dead", "ackb", "nackb", "deadb"}
	iOperator = []string{"cancel", "requeue", "resume", "rqdead", "deldead", "cancelf", "requeuef", "resumef"}
	iAll      = append(append([]string{"deq", "deq", "deq", "enq"}, iSettle...), iOperator...)
)

func genICase(prop string) *rapid.Generator[ICase] {
	return rapid.Custom(func(t *rapid.T) ICase {
		c := ICase{Cfg: QCfg{Backend: rapid.SampledFrom([]string{"sqlite", "sqlite", "sqlite", "memory"}).Draw(t, "backend")}}
		if rapid.IntRange(0, 2).Draw(t, "deliv") == 0 {
			c.Cfg.DelivMs, c.Cfg.PruneMs = 100000, 100000
		}
		focus := rapid.Bool().Draw(t, "focus")
		n := rapid.IntRange(2, 5).Draw(t, "messages")
		if focus {
			n = rapid.IntRange(1, 3).Draw(t, "messages_focus")
		}
		var items []QItem
		for i := 0; i < n; i++ {
			route := "/a"
			if !focus && rapid.IntRange(0, 4).Draw(t, "route_b") == 0 {
				route = "/b"
			}
			items = append(items, QItem{ID: iIDs[i], Route: route, Target: "pull", Payload: []byte{byte('0' + i)}, RecvAgoMs: 100 - 10*i})
		}
		c.Pre = append(c.Pre, QOp{K: "enq", Batch: true, Items: items})
		if prop == "C12" {
			// the queue is full, or one or two below the limit, when A and B arrive
			c.Cfg.MaxDepth = n + rapid.IntRange(0, 2).Draw(t, "headroom")
			c.Cfg.Drop = rapid.SampledFrom([]string{"reject", "reject", "drop_oldest"}).Draw(t, "drop")
			if c.Cfg.Backend == "memory" {
				c.Cfg.DelivMs, c.Cfg.PruneMs = 0, 0 // memory documents an extra guard with delivered retention
			}
		}
		// at least one lease is granted in the prologue; it expires when a clock step follows
		preN := rapid.IntRange(1, 3).Draw(t, "pre_n")
		if focus {
			preN = 1
		}
		c.Pre = append(c.Pre, QOp{K: "deq", Route: "/a", Target: "pull", N: preN, TTLMs: rapid.SampledFrom([]int{50, 50, 60000}).Draw(t, "pre_ttl")})
		if focus {
			// what became of the first lease before A and B meet on its message
			zero := LRef{K: 0}
			switch rapid.IntRange(0, 7).Draw(t, "fate") {
			case 0: // still live
			case 1, 2: // expired
				c.Pre = append(c.Pre, QOp{K: "adv", Ms: 60})
			case 3: // expired and superseded
				c.Pre = append(c.Pre, QOp{K: "adv", Ms: 60}, QOp{K: "deq", Route: "/a", Target: "pull", N: 1, TTLMs: 60000})
			case 4:
				c.Pre = append(c.Pre, QOp{K: "ack", L: &zero})
			case 5:
				c.Pre = append(c.Pre, QOp{K: "dead", L: &zero, Reason: "r"})
			case 6:
				c.Pre = append(c.Pre, QOp{K: "cancel", IDs: []string{"m0"}})
			case 7:
				c.Pre = append(c.Pre, QOp{K: "nack", L: &zero})
			}
		} else {
			more := rapid.IntRange(0, 5).Draw(t, "pre_more")
			preKinds := []string{"deq", "deq", "ack", "nack", "dead", "cancel", "adv", "adv", "ext"}
			for i := 0; i < more; i++ {
				c.Pre = append(c.Pre, genIOp(t, fmt.Sprintf("pre%d", i), preKinds, false))
			}
		}
		var must []string
		switch prop {
		case "C12":
			must = []string{"enq", "enq", "enqb"}
		case "C03":
			must = []string{"deq"}
		case "C04":
			must = iSettle
		default:
			must = iOperator
		}
		pool := iAll
		if prop == "C12" {
			pool = []string{"enq", "enq", "enqb", "enqb", "deq", "ack", "cancel", "deldead", "requeue", "resume", "nack"}
		}
		one, other := genIOp(t, "x", must, focus), genIOp(t, "y", pool, focus)
		if rapid.Bool().Draw(t, "swap") {
			one, other = other, one
		}
		c.A, c.B = one, other
		// one case in three puts a second operation on B's handle: what needs two things to happen inside
		// A (a lease ended by someone else AND the message leased again) is then within reach
		if rapid.IntRange(0, 2).Draw(t, "second_b") == 0 {
			if focus && rapid.Bool().Draw(t, "relet_motif") {
				// A presents the first lease; inside A that lease is ended by other means and the message let again
				zero := LRef{K: 0}
				c.A = genIOp(t, "a_first_lease", []string{"ack", "nack", "ext", "dead"}, true)
				c.A.L = &zero
				c.B = genIOp(t, "b_ends_lease", []string{"ack", "nack", "dead", "cancel", "cancelf", "nackb"}, true)
				if c.B.L != nil {
					c.B.L = &zero
				}
				if c.B.K == "cancel" {
					c.B.IDs = []string{"m0"}
				}
				b2 := genIOp(t, "b2_relet", []string{"deq", "deq", "requeue", "resume"}, true)
				if b2.K != "deq" {
					b2.IDs = []string{"m0"}
				}
				c.B2 = &b2
			} else if focus && rapid.Bool().Draw(t, "operator_motif") {
				// A selects messages by filter; inside A (between its selection and its update) the selected message
				// is revived by id and leased to a consumer. Seed C03-14: the by-filter update had lost its state
				// predicate and turned the leased message back into a queued one.
				if rapid.Bool().Draw(t, "operator_motif_dead") {
					c.Pre = append(c.Pre, QOp{K: "cancel", IDs: []string{"m0"}}, QOp{K: "resume", IDs: []string{"m0"}},
						QOp{K: "deq", Route: "/a", Target: "pull", N: 1, TTLMs: 60000})
					last := LRef{K: -1}
					c.Pre = append(c.Pre, QOp{K: "dead", L: &last, Reason: "r"})
					c.A = QOp{K: "requeuef", State: rapid.SampledFrom([]string{"", "dead"}).Draw(t, "a_state"), N: rapid.SampledFrom([]int{0, 2}).Draw(t, "a_limit")}
					c.B = QOp{K: rapid.SampledFrom([]string{"rqdead", "requeue"}).Draw(t, "b_kind"), IDs: []string{"m0"}}
				} else {
					c.Pre = append(c.Pre, QOp{K: "cancel", IDs: []string{"m0"}})
					c.A = QOp{K: rapid.SampledFrom([]string{"requeuef", "resumef"}).Draw(t, "a_kind"),
						State: rapid.SampledFrom([]string{"", "canceled"}).Draw(t, "a_state"), N: rapid.SampledFrom([]int{0, 2}).Draw(t, "a_limit")}
					c.B = QOp{K: rapid.SampledFrom([]string{"resume", "requeue"}).Draw(t, "b_kind"), IDs: []string{"m0"}}
				}
				c.B2 = &QOp{K: "deq", Route: "/a", Target: "pull", N: 1, TTLMs: 60000}
			} else {
				b2 := genIOp(t, "z", pool, focus)
				c.B2 = &b2
			}
		}
		c.PauseAt = rapid.SampledFrom([]int{1, 2, 2, 3, 3, 4, 4, 5, 5, 6, 7, 8, 11}).Draw(t, "pause_at")
		return c
	})
}

func iProp(t *testing.T, prop, test string) {
	useYieldingSQLDriver(true) // every SQL statement of the held operation is a yield point
	gen := genICase(prop)
	rapid.Check(t, func(rt *rapid.T) {
		c := gen.Draw(rt, "case")
		out := runICase(c, prop)
		verifkit.Emit(verifkit.Record{Prop: prop, Test: test, Hash: verifkit.Hash(c), NonTrivial: out.NonTriv,
			Labels: out.Labels, Known: out.Known, Foreign: out.Foreign, Skipped: out.Skipped}, c)
		if out.Failure != nil {
			verifkit.SaveFailing(test, c, out.Failure)
			rt.Fatalf("%v", out.Failure)
		}
	})
}

func TestProp_C03_Interleaved(t *testing.T) { iProp(t, "C03", "TestProp_C03_Interleaved") }
func TestProp_C04_Interleaved(t *testing.T) { iProp(t, "C04", "TestProp_C04_Interleaved") }
func TestProp_C14_Interleaved(t *testing.T) { iProp(t, "C14", "TestProp_C14_Interleaved") }
func TestProp_C12_Interleaved(t *testing.T) { iProp(t, "C12", "TestProp_C12_Interleaved") }

func replayInterleaved() {
	useYieldingSQLDriver(true)
	defer useYieldingSQLDriver(false)
	for _, p := range []string{"C03", "C04", "C14", "C12"} {
		test := "TestProp_" + p + "_Interleaved"
		for _, rf := range verifkit.ReplayFiles(test) {
			var c ICase
			if err := json.Unmarshal(rf.Case, &c); err != nil {
				fmt.Printf("REPLAY-ERROR file=%s err=%v\n", rf.Path, err)
				continue
			}
			out := runICase(c, p)
			verifkit.ReportReplay(rf, out.Failure)
		}
	}
}
