//go:build verif

package queue

import (
	"fmt"
	"strings"
	"time"

	"pgregory.net/rapid"
)

// ---------------------------------------------------------------------------------------
// Case: a plain JSON value. All randomness is spent building it; running it is a pure
// function of (tree, Case).
// ---------------------------------------------------------------------------------------

type QCfg struct {
	Backend    string `json:"backend"` // memory | sqlite
	MaxDepth   int    `json:"max_depth,omitempty"`
	Drop       string `json:"drop,omitempty"` // reject | drop_oldest
	RetMs      int    `json:"ret_ms,omitempty"`
	PruneMs    int    `json:"prune_ms,omitempty"`
	DelivMs    int    `json:"deliv_ms,omitempty"`
	DLQAgeMs   int    `json:"dlq_age_ms,omitempty"`
	DLQDepth   int    `json:"dlq_depth,omitempty"`
	PressItems int    `json:"press_items,omitempty"` // memory only
}

type QItem struct {
	ID        string `json:"id,omitempty"`
	Route     string `json:"route"`
	Target    string `json:"target"`
	Payload   []byte `json:"payload,omitempty"`
	Hdr       int    `json:"hdr,omitempty"`
	Trc       int    `json:"trc,omitempty"`
	RecvAgoMs int    `json:"recv_ago_ms,omitempty"` // 0: zero time (store uses now)
	NextInMs  int    `json:"next_in_ms,omitempty"`  // 0: zero time (store uses received_at)
}

// LRef names a lease symbolically: the K-th lease ever granted in this case (mod count).
type LRef struct {
	K    int    `json:"k"`
	Mode string `json:"m,omitempty"` // "" | pad | unknown | blank
}

type QOp struct {
	K        string   `json:"k"`
	Items    []QItem  `json:"items,omitempty"`
	Batch    bool     `json:"batch,omitempty"`
	Route    string   `json:"route,omitempty"`
	Target   string   `json:"target,omitempty"`
	N        int      `json:"n,omitempty"`
	TTLMs    int      `json:"ttl_ms,omitempty"`
	UseNow   bool     `json:"use_now,omitempty"`
	L        *LRef    `json:"l,omitempty"`
	Ls       []LRef   `json:"ls,omitempty"`
	DurMs    int      `json:"dur_ms,omitempty"`
	Reason   string   `json:"reason,omitempty"`
	IDs      []string `json:"ids,omitempty"`
	State    string   `json:"state,omitempty"`
	BeforeMs int      `json:"before_ms,omitempty"` // absolute offset from T0 (0: none)
	BeforeOf string   `json:"before_of,omitempty"` // "received_at of message id" (resolved at run time)
	Preview  bool     `json:"preview,omitempty"`
	Order    string   `json:"order,omitempty"`
	Inc      int      `json:"inc,omitempty"`
	AdvMode  string   `json:"adv_mode,omitempty"` // "" | lease | nextrun
	AdvK     int      `json:"adv_k,omitempty"`
	Ms       int      `json:"ms,omitempty"`
}

type QCase struct {
	Cfg QCfg  `json:"cfg"`
	Ops []QOp `json:"ops"`
}

var qT0 = time.Date(2026, 1, 1, 0, 0, 0, 0, time.UTC)

var (
	qRoutes  = []string{"/a", "/b", "/a/b"}
	qTargets = []string{"pull", "https://t1.example/x", "https://t2.example/y"}
	qStates  = []string{"", "queued", "leased", "dead", "canceled", "delivered"}
)

func hdrVariant(i int) map[string]string {
	switch i {
	case 1:
		return map[string]string{}
	case 2:
		return map[string]string{"Content-Type": "application/json"}
	case 3:
		return map[string]string{"X-K": "vé", "X-Empty": ""}
	case 4:
		return map[string]string{"X-Multi": "a,b", "X-Q": "\"q\"\\"}
	case 5:
		// plain ASCII except for backslashes (nothing else in the map that a serialiser would have to escape)
		return map[string]string{"X-Path": "C:\\temp\\new\\report.json", "X-Re": "^\\d+$", "X-End": "a\\"}
	}
	return nil
}

// Generator profile: which behaviours a property's check wants to see often.
type qProfile struct {
	name        string
	backends    []string
	depths      []int
	drops       []string
	retention   bool // draw retention / prune settings
	pressure    bool
	subMs       bool // off-lattice clock steps (sub-granularity tier)
	maxOps      int
	weights     map[string]int
	padSingle   bool // padded lease ids in single-lease ops (memory and sqlite differ; see DESIGN)
	explicitTS  int  // percent of items with explicit received_at
	extreme     bool // lease ttls and nack delays of centuries (where nanosecond arithmetic in 64 bits ends)
	fullBias    bool // bias to full queues
	blankIDs    bool
	deliveredOK bool // allow delivered retention together with max_depth on memory
	motifs      [][]QOp
}

func genQCfg(t *rapid.T, p qProfile) QCfg {
	c := QCfg{Backend: rapid.SampledFrom(p.backends).Draw(t, "backend")}
	c.MaxDepth = rapid.SampledFrom(p.depths).Draw(t, "max_depth")
	if c.MaxDepth > 0 {
		c.Drop = rapid.SampledFrom(p.drops).Draw(t, "drop")
	}
	if p.retention {
		c.PruneMs = rapid.SampledFrom([]int{0, 10, 10, 50, 100000}).Draw(t, "prune_ms")
		c.RetMs = rapid.SampledFrom([]int{0, 0, 30, 100, 1000}).Draw(t, "ret_ms")
		c.DelivMs = rapid.SampledFrom([]int{0, 0, 20, 100, 100000}).Draw(t, "deliv_ms")
		c.DLQAgeMs = rapid.SampledFrom([]int{0, 0, 40, 1000}).Draw(t, "dlq_age_ms")
		c.DLQDepth = rapid.SampledFrom([]int{0, 0, 1, 2}).Draw(t, "dlq_depth")
	} else if rapid.IntRange(0, 3).Draw(t, "deliv_on") == 0 {
		c.DelivMs = 100000
		c.PruneMs = 100000
	}
	if !p.deliveredOK && c.MaxDepth > 0 && c.DelivMs > 0 {
		// memory documents an extra queued+leased+delivered guard here; profiles that
		// compare backends avoid the combination.
		c.DelivMs = 0
	}
	if p.pressure && c.Backend == "memory" {
		c.PressItems = rapid.SampledFrom([]int{0, 0, 0, 1, 2, 3}).Draw(t, "press")
	}
	return c
}

func genID(t *rapid.T, p qProfile, label string) string {
	n := rapid.IntRange(0, 11).Draw(t, label)
	return fmt.Sprintf("m%d", n)
}

func genIDRef(t *rapid.T, p qProfile, label string) string {
	switch rapid.IntRange(0, 19).Draw(t, label+"_kind") {
	case 0:
		return ""
	case 1:
		return "   "
	case 2:
		return "nope"
	case 3:
		return " " + genID(t, p, label) + "\t"
	case 4, 5:
		return fmt.Sprintf("@%d", rapid.IntRange(0, 3).Draw(t, label+"_gen"))
	}
	return genID(t, p, label)
}

func genItem(t *rapid.T, p qProfile, i int) QItem {
	it := QItem{
		Route:  rapid.SampledFrom(qRoutes).Draw(t, "route"),
		Target: rapid.SampledFrom(qTargets).Draw(t, "target"),
	}
	if !p.blankIDs || rapid.IntRange(0, 3).Draw(t, "explicit_id") > 0 {
		it.ID = genID(t, p, "id")
	}
	n := rapid.SampledFrom([]int{0, 1, 2, 3, 8}).Draw(t, "plen")
	if n > 0 {
		pool := []byte{0x00, 0xff, 'a', '{', 0x80, '\n', 'z', 0x7f}
		b := make([]byte, n)
		for j := range b {
			b[j] = pool[rapid.IntRange(0, len(pool)-1).Draw(t, "pb")]
		}
		it.Payload = b
	}
	it.Hdr = rapid.IntRange(0, 5).Draw(t, "hdr")
	it.Trc = rapid.SampledFrom([]int{0, 0, 2}).Draw(t, "trc")
	if rapid.IntRange(0, 99).Draw(t, "explicit_ts") < p.explicitTS {
		it.RecvAgoMs = rapid.SampledFrom([]int{10, 20, 50, 100, 1000}).Draw(t, "recv_ago")
	}
	if rapid.IntRange(0, 9).Draw(t, "future") == 0 {
		it.NextInMs = rapid.SampledFrom([]int{10, 20, 100, 1000}).Draw(t, "next_in")
	}
	return it
}

func genLRef(t *rapid.T, p qProfile, single bool) LRef {
	r := LRef{K: rapid.IntRange(0, 7).Draw(t, "lk")}
	if rapid.IntRange(0, 2).Draw(t, "recent") > 0 {
		r.K = -1 - rapid.IntRange(0, 2).Draw(t, "lk_recent") // -1: most recent lease, -2: the one before ...
	}
	switch rapid.IntRange(0, 23).Draw(t, "lmode") {
	case 0:
		r.Mode = "unknown"
	case 1:
		r.Mode = "blank"
	case 2:
		if !single || p.padSingle {
			r.Mode = "pad"
		}
	}
	return r
}

var (
	qTTLs     = []int{0, 10, 20, 50, 100, 30000}
	qAdvances = []int{0, 10, 10, 20, 50, 100, 1000, 30000}
	qSubAdv   = []int{1, 3, 5, 9, 11, 15}
	qDelays   = []int{0, 0, 10, 20, 100, 1000, -10}
	// 100 / 236 / 237 / 250 years and the largest duration there is, in milliseconds (the clock of the
	// cases stands in 2026; 64-bit nanoseconds since 1970 end in 2262)
	qCenturies = []int{3155760000000, 7447000000000, 7479000000000, 7889400000000, 9223372036854}
	qLimits    = []int{-1, 0, 1, 1, 2, 2, 3, 5, 100, 1000, 1001}
	qBatches   = []int{0, 1, 1, 2, 2, 3, 5, 100, 101, 1000}
)

func genOp(t *rapid.T, p qProfile, cfg QCfg) QOp {
	kinds := make([]string, 0, 64)
	for k, w := range p.weights {
		for i := 0; i < w; i++ {
			kinds = append(kinds, k)
		}
	}
	// deterministic order (map iteration is random)
	sortStrings(kinds)
	k := rapid.SampledFrom(kinds).Draw(t, "kind")
	op := QOp{K: k}
	switch k {
	case "enq":
		n := 1
		if rapid.IntRange(0, 3).Draw(t, "is_batch") == 0 {
			op.Batch = true
			n = rapid.SampledFrom([]int{1, 2, 2, 3, 4, 6}).Draw(t, "nitems")
		}
		blankSeen := false
		for i := 0; i < n; i++ {
			it := genItem(t, p, i)
			if it.ID == "" {
				if blankSeen {
					it.ID = genID(t, p, "id2")
				}
				blankSeen = true
			}
			op.Items = append(op.Items, it)
		}
	case "deq":
		if rapid.IntRange(0, 2).Draw(t, "froute") > 0 {
			op.Route = rapid.SampledFrom(qRoutes).Draw(t, "route")
		}
		if rapid.IntRange(0, 2).Draw(t, "ftarget") == 0 {
			op.Target = rapid.SampledFrom(qTargets).Draw(t, "target")
		}
		op.N = rapid.SampledFrom(qBatches).Draw(t, "batch")
		op.TTLMs = rapid.SampledFrom(qTTLs).Draw(t, "ttl")
		if p.extreme && rapid.IntRange(0, 11).Draw(t, "ttl_extreme") == 0 {
			op.TTLMs = rapid.SampledFrom(qCenturies).Draw(t, "ttl_centuries")
		}
		op.UseNow = rapid.IntRange(0, 4).Draw(t, "use_now") == 0
	case "ack", "nack", "ext", "dead":
		r := genLRef(t, p, true)
		op.L = &r
		switch k {
		case "nack":
			op.DurMs = rapid.SampledFrom(qDelays).Draw(t, "delay")
			if p.extreme && rapid.IntRange(0, 7).Draw(t, "delay_extreme") == 0 {
				op.DurMs = rapid.SampledFrom(qCenturies).Draw(t, "delay_centuries")
			}
		case "ext":
			op.DurMs = rapid.SampledFrom([]int{0, -10, 10, 20, 50, 1000}).Draw(t, "extend")
			if p.extreme && rapid.IntRange(0, 9).Draw(t, "ext_extreme") == 0 {
				op.DurMs = rapid.SampledFrom(qCenturies).Draw(t, "ext_centuries")
			}
		case "dead":
			op.Reason = rapid.SampledFrom([]string{"no_retry", "max_retries", "", "  ", "x y"}).Draw(t, "reason")
		}
	case "ackb", "nackb", "deadb":
		n := rapid.SampledFrom([]int{0, 1, 2, 2, 3, 4}).Draw(t, "nls")
		for i := 0; i < n; i++ {
			op.Ls = append(op.Ls, genLRef(t, p, false))
		}
		if n >= 2 && rapid.IntRange(0, 3).Draw(t, "dup") == 0 {
			op.Ls[n-1] = op.Ls[0]
		}
		switch k {
		case "nackb":
			op.DurMs = rapid.SampledFrom(qDelays).Draw(t, "delay")
			if p.extreme && rapid.IntRange(0, 7).Draw(t, "delay_extreme") == 0 {
				op.DurMs = rapid.SampledFrom(qCenturies).Draw(t, "delay_centuries")
			}
		case "deadb":
			op.Reason = rapid.SampledFrom([]string{"no_retry", "", " "}).Draw(t, "reason")
		}
	case "cancel", "requeue", "resume", "rqdead", "deldead", "lookup":
		n := rapid.SampledFrom([]int{0, 1, 1, 2, 3, 5}).Draw(t, "nids")
		for i := 0; i < n; i++ {
			op.IDs = append(op.IDs, genIDRef(t, p, "idref"))
		}
		if n >= 2 && rapid.IntRange(0, 3).Draw(t, "dupid") == 0 {
			op.IDs[n-1] = op.IDs[0]
		}
	case "cancelf", "requeuef", "resumef", "list", "listdead":
		if rapid.IntRange(0, 1).Draw(t, "froute") == 0 {
			op.Route = rapid.SampledFrom(qRoutes).Draw(t, "route")
		}
		if k != "listdead" && rapid.IntRange(0, 2).Draw(t, "ftarget") == 0 {
			op.Target = rapid.SampledFrom(qTargets).Draw(t, "target")
		}
		if k != "listdead" && rapid.IntRange(0, 1).Draw(t, "fstate") == 0 {
			op.State = rapid.SampledFrom(qStates).Draw(t, "state")
		}
		op.N = rapid.SampledFrom(qLimits).Draw(t, "limit")
		switch rapid.IntRange(0, 4).Draw(t, "before_kind") {
		case 0:
			op.BeforeOf = genID(t, p, "before_of")
		case 1:
			op.BeforeMs = rapid.SampledFrom([]int{10, 50, 100, 1000, 100000}).Draw(t, "before_ms")
		}
		if k == "cancelf" || k == "requeuef" || k == "resumef" {
			op.Preview = rapid.IntRange(0, 3).Draw(t, "preview") == 0
		}
		if k == "list" {
			op.Order = rapid.SampledFrom([]string{"", "asc", "desc", " ASC ", "bogus"}).Draw(t, "order")
			op.Inc = rapid.IntRange(0, 7).Draw(t, "inc")
		}
		if k == "listdead" {
			op.Inc = rapid.IntRange(0, 7).Draw(t, "inc")
		}
	case "att":
		op.IDs = []string{fmt.Sprintf("att-%d", rapid.IntRange(0, 40).Draw(t, "att_id"))}
		op.BeforeOf = genID(t, p, "event")
		op.Route = rapid.SampledFrom(qRoutes).Draw(t, "route")
		op.Target = rapid.SampledFrom(qTargets).Draw(t, "target")
		op.N = rapid.IntRange(0, 3).Draw(t, "attempt")
		op.Ms = rapid.SampledFrom([]int{0, 200, 500, 429}).Draw(t, "status")
		op.Reason = rapid.SampledFrom([]string{"", "timeout", "  padded  "}).Draw(t, "error")
		op.State = rapid.SampledFrom([]string{"", "acked", "retry", "dead"}).Draw(t, "outcome")
		op.Order = rapid.SampledFrom([]string{"", "max_retries", " no_retry "}).Draw(t, "dead_reason")
	case "latt":
		if rapid.IntRange(0, 2).Draw(t, "froute") == 0 {
			op.Route = rapid.SampledFrom(qRoutes).Draw(t, "route")
		}
		if rapid.IntRange(0, 3).Draw(t, "ftarget") == 0 {
			op.Target = rapid.SampledFrom(qTargets).Draw(t, "target")
		}
		if rapid.IntRange(0, 3).Draw(t, "fevent") == 0 {
			op.BeforeOf = genID(t, p, "event")
		}
		op.State = rapid.SampledFrom([]string{"", "", "acked", "retry", "dead", "bogus"}).Draw(t, "outcome")
		op.N = rapid.SampledFrom(qLimits).Draw(t, "limit")
		if rapid.IntRange(0, 3).Draw(t, "before") == 0 {
			op.BeforeMs = rapid.SampledFrom([]int{10, 50, 100, 1000}).Draw(t, "before_ms")
		}
	case "stats", "reopen":
	case "adv":
		switch rapid.IntRange(0, 5).Draw(t, "adv_kind") {
		case 0, 1:
			op.AdvMode = "lease"
			op.AdvK = -1 - rapid.IntRange(0, 2).Draw(t, "adv_k")
			op.Ms = rapid.SampledFrom([]int{-10, 0, 0, 10}).Draw(t, "adv_delta")
		case 2:
			op.AdvMode = "nextrun"
			op.Ms = rapid.SampledFrom([]int{-10, 0, 10}).Draw(t, "adv_delta")
		default:
			op.Ms = rapid.SampledFrom(qAdvances).Draw(t, "adv_ms")
		}
		if p.subMs && rapid.IntRange(0, 1).Draw(t, "sub") == 0 {
			op.AdvMode = ""
			op.Ms = rapid.SampledFrom(qSubAdv).Draw(t, "sub_ms")
		}
	}
	return op
}

func sortStrings(s []string) {
	for i := 1; i < len(s); i++ {
		for j := i; j > 0 && strings.Compare(s[j-1], s[j]) > 0; j-- {
			s[j-1], s[j] = s[j], s[j-1]
		}
	}
}

func genQCase(p qProfile) *rapid.Generator[QCase] {
	return rapid.Custom(func(t *rapid.T) QCase {
		c := QCase{Cfg: genQCfg(t, p)}
		if p.fullBias && c.Cfg.MaxDepth > 0 {
			// pre-fill close to the limit so that admission decisions are reached quickly
			fill := c.Cfg.MaxDepth - rapid.IntRange(0, 1).Draw(t, "fill_gap")
			for i := 0; i < fill; i++ {
				it := genItem(t, p, i)
				it.ID = fmt.Sprintf("m%d", i)
				it.NextInMs = 0
				c.Ops = append(c.Ops, QOp{K: "enq", Items: []QItem{it}})
			}
		}
		cfg := c.Cfg
		// prologue: a few enqueues and a dequeue so that the body starts from a populated queue
		// (all drawn, all ordinary ops; SliceOfN lets rapid shrink by deleting whole operations)
		enqOnly := p
		enqOnly.weights = map[string]int{"enq": 1}
		enqGen := rapid.Custom(func(t *rapid.T) QOp { return genOp(t, enqOnly, cfg) })
		c.Ops = append(c.Ops, rapid.SliceOfN(enqGen, 0, 6).Draw(t, "prologue_enq")...)
		deqOnly := p
		deqOnly.weights = map[string]int{"deq": 1}
		deqGen := rapid.Custom(func(t *rapid.T) QOp { return genOp(t, deqOnly, cfg) })
		c.Ops = append(c.Ops, rapid.SliceOfN(deqGen, 0, 2).Draw(t, "prologue_deq")...)
		opGen := rapid.Custom(func(t *rapid.T) QOp { return genOp(t, p, cfg) })
		lo := rapid.SampledFrom([]int{1, 6, 12, 20}).Draw(t, "min_ops")
		if lo > p.maxOps {
			lo = p.maxOps
		}
		body := rapid.SliceOfN(opGen, lo, p.maxOps).Draw(t, "ops")
		// motifs: short op sequences that set up the situation a property is about; spliced into the
		// generated body at a drawn position (all ordinary ops, all shrinkable)
		if len(p.motifs) > 0 && rapid.IntRange(0, 2).Draw(t, "motif") > 0 {
			m := p.motifs[rapid.IntRange(0, len(p.motifs)-1).Draw(t, "motif_kind")]
			at := rapid.IntRange(0, len(body)).Draw(t, "motif_at")
			spliced := append([]QOp(nil), body[:at]...)
			spliced = append(spliced, m...)
			spliced = append(spliced, body[at:]...)
			body = spliced
		}
		c.Ops = append(c.Ops, body...)
		return c
	})
}

// ---------------------------------------------------------------------------------------
// Profiles
// ---------------------------------------------------------------------------------------

func lref(k int) *LRef { return &LRef{K: k} }

var (
	motifEnq      = QOp{K: "enq", Items: []QItem{{ID: "m0", Route: "/a", Target: "pull"}}}
	motifEnq2     = QOp{K: "enq", Items: []QItem{{ID: "m1", Route: "/a", Target: "pull"}}}
	motifDeqShort = QOp{K: "deq", Route: "/a", N: 5, TTLMs: 20}
	motifDeqLong  = QOp{K: "deq", Route: "/a", N: 5, TTLMs: 30000}
	// a message is leased, released, leased again: then the older lease id is presented
	motifsStale = [][]QOp{
		{motifEnq, motifDeqLong, {K: "nack", L: lref(-1)}, motifDeqLong, {K: "ack", L: lref(-2)}, {K: "nack", L: lref(-2), DurMs: 10}, {K: "dead", L: lref(-2), Reason: "no_retry"}, {K: "ext", L: lref(-2), DurMs: 50}},
		{motifEnq, motifEnq2, motifDeqLong, {K: "nackb", Ls: []LRef{{K: -1}, {K: -2}}}, motifDeqLong, {K: "ackb", Ls: []LRef{{K: -1}, {K: -3}}}},
		{motifEnq, motifDeqShort, {K: "adv", AdvMode: "lease", AdvK: -1}, motifDeqLong, {K: "ack", L: lref(-2)}, {K: "ext", L: lref(-2), DurMs: 1000}},
		{motifEnq, motifDeqLong, {K: "cancel", IDs: []string{"m0"}}, {K: "ack", L: lref(-1)}, {K: "resume", IDs: []string{"m0"}}, {K: "nack", L: lref(-1)}, motifDeqLong, {K: "dead", L: lref(-2), Reason: "x"}},
		{motifEnq, motifDeqShort, {K: "adv", AdvMode: "lease", AdvK: -1}, {K: "ack", L: lref(-1)}, {K: "ack", L: lref(-1)}},
	}
	// expiry, then re-grant; extend then expire
	motifsExpiry = [][]QOp{
		{motifEnq, motifDeqShort, {K: "adv", AdvMode: "lease", AdvK: -1, Ms: -10}, motifDeqLong, {K: "adv", Ms: 10}, motifDeqLong},
		{motifEnq, motifDeqShort, {K: "ext", L: lref(-1), DurMs: 20}, {K: "adv", Ms: 20}, motifDeqLong, {K: "adv", Ms: 20}, motifDeqLong},
		{motifEnq, motifEnq2, motifDeqShort, {K: "cancel", IDs: []string{"m0"}}, {K: "requeue", IDs: []string{"m0"}}, motifDeqLong, {K: "adv", Ms: 20}, motifDeqLong},
	}
	// one batch call presents an expired lease next to a live one (either order): the live one must be
	// honoured, the expired one reported, and nothing else may move
	motifsMixedBatch = [][]QOp{
		{motifEnq, motifEnq2, {K: "deq", Route: "/a", N: 1, TTLMs: 20}, {K: "deq", Route: "/a", N: 1, TTLMs: 30000}, {K: "adv", Ms: 20}, {K: "nackb", Ls: []LRef{{K: -1}, {K: -2}}, DurMs: 10}, motifDeqLong, {K: "adv", Ms: 10}, motifDeqLong},
		{motifEnq, motifEnq2, {K: "deq", Route: "/a", N: 1, TTLMs: 20}, {K: "deq", Route: "/a", N: 1, TTLMs: 30000}, {K: "adv", Ms: 20}, {K: "ackb", Ls: []LRef{{K: -2}, {K: -1}}}, motifDeqLong},
		{motifEnq, motifEnq2, {K: "enq", Items: []QItem{{ID: "m2", Route: "/a", Target: "pull"}}}, {K: "deq", Route: "/a", N: 2, TTLMs: 20}, {K: "deq", Route: "/a", N: 1, TTLMs: 30000}, {K: "adv", Ms: 25}, {K: "deadb", Ls: []LRef{{K: -1}, {K: -2}, {K: -3}}, Reason: "x"}, motifDeqLong},
	}
	// an id is enqueued again after its earlier message was evicted or settled
	motifsReuseID = [][]QOp{
		{motifEnq, motifEnq2, {K: "enq", Items: []QItem{{ID: "m0", Route: "/a", Target: "pull", Payload: []byte{0x80, 0x80}}}}, motifDeqLong, {K: "ackb", Ls: []LRef{{K: -1}, {K: -2}, {K: -3}}}},
		{motifEnq, motifDeqLong, {K: "ack", L: lref(-1)}, motifEnq2, {K: "enq", Items: []QItem{{ID: "m0", Route: "/a", Target: "pull", Payload: []byte{1}}}}, motifDeqLong},
		{{K: "enq", Items: []QItem{{ID: "m0", Route: "/a", Target: "pull", RecvAgoMs: 1000}}}, {K: "stats"}, {K: "enq", Items: []QItem{{ID: "m0", Route: "/a", Target: "pull", Payload: []byte{2}}}}, motifDeqLong},
	}
	// operator mutations aimed at states they are not defined for (by id and by filter, the filter
	// naming the wrong state explicitly): nothing may move
	motifsWrongSource = [][]QOp{
		{motifEnq, motifEnq2, motifDeqLong, {K: "requeuef", State: "leased", N: 10}, {K: "resumef", State: "leased", N: 10}, {K: "requeue", IDs: []string{"m0", "m1"}}, {K: "resume", IDs: []string{"m0"}}, {K: "ackb", Ls: []LRef{{K: -1}, {K: -2}}}},
		{motifEnq, motifDeqLong, {K: "dead", L: lref(-1), Reason: "x"}, {K: "resumef", State: "dead", N: 10}, {K: "resume", IDs: []string{"m0"}}, {K: "cancelf", State: "canceled", N: 10}, {K: "rqdead", IDs: []string{"m0"}}, motifDeqLong},
		{motifEnq, motifEnq2, {K: "requeuef", State: "queued", N: 10}, {K: "resumef", State: "queued", N: 10}, {K: "cancel", IDs: []string{"m1"}}, {K: "rqdead", IDs: []string{"m1"}}, {K: "requeuef", State: "canceled", N: 10}, motifDeqLong},
		{motifEnq, motifDeqLong, {K: "ack", L: lref(-1)}, {K: "requeuef", State: "delivered", N: 10}, {K: "cancelf", State: "delivered", N: 10}, {K: "resumef", State: "delivered", N: 10}, {K: "requeue", IDs: []string{"m0"}}, motifDeqLong},
	}
	// delayed nack, future next_run_at, mixed readiness
	motifsReady = [][]QOp{
		{motifEnq, motifEnq2, motifDeqLong, {K: "nack", L: lref(-1), DurMs: 20}, {K: "nack", L: lref(-2), DurMs: 0}, {K: "deq", Route: "/a", N: 1}, {K: "adv", Ms: 10}, {K: "deq", Route: "/a", N: 5}, {K: "adv", Ms: 10}, {K: "deq", Route: "/a", N: 5}},
		{{K: "enq", Items: []QItem{{ID: "m2", Route: "/a", Target: "pull", NextInMs: 20}}}, motifEnq, {K: "deq", Route: "/a", N: 2}, {K: "adv", Ms: 20}, {K: "deq", Route: "/a", N: 2}},
	}
)

func baseWeights() map[string]int {
	return map[string]int{
		"enq": 10, "deq": 9, "ack": 3, "nack": 4, "ext": 2, "dead": 3,
		"ackb": 2, "nackb": 2, "deadb": 2,
		"cancel": 2, "requeue": 2, "resume": 2, "rqdead": 1, "deldead": 1, "lookup": 1,
		"cancelf": 2, "requeuef": 1, "resumef": 1, "list": 2, "listdead": 1, "stats": 1,
		"adv": 8, "reopen": 1,
	}
}

func profileC02() qProfile {
	return qProfile{name: "C02", backends: []string{"memory", "sqlite"}, depths: []int{0, 0, 1, 2, 3, 5},
		drops: []string{"reject", "drop_oldest"}, retention: true, pressure: true, maxOps: 40,
		weights: baseWeights(), padSingle: true, explicitTS: 15, blankIDs: true, deliveredOK: true,
		motifs: append(append(append([][]QOp(nil), motifsReuseID...), motifsStale...), motifsWrongSource...)}
}

func profileC03() qProfile {
	w := baseWeights()
	w["deq"] = 16
	w["adv"] = 12
	w["ext"] = 4
	w["cancel"] = 3
	w["requeue"] = 3
	w["resume"] = 3
	w["reopen"] = 3
	return qProfile{name: "C03", backends: []string{"memory", "sqlite"}, depths: []int{0, 0, 2, 5},
		drops: []string{"reject", "drop_oldest"}, retention: false, maxOps: 40, weights: w,
		padSingle: true, explicitTS: 5, blankIDs: true, deliveredOK: true, motifs: append(append(append([][]QOp(nil), motifsExpiry...), motifsReuseID...), motifsMixedBatch...), extreme: true}
}

func profileC04() qProfile {
	w := baseWeights()
	w["ack"], w["nack"], w["ext"], w["dead"] = 6, 6, 4, 5
	w["ackb"], w["nackb"], w["deadb"] = 5, 5, 4
	w["deq"] = 14
	w["adv"] = 10
	w["cancel"] = 3
	return qProfile{name: "C04", backends: []string{"memory", "sqlite"}, depths: []int{0, 0, 0, 5},
		drops: []string{"reject"}, retention: false, maxOps: 40, weights: w,
		padSingle: true, explicitTS: 5, blankIDs: true, deliveredOK: true, motifs: append(append([][]QOp(nil), motifsStale...), motifsMixedBatch...), extreme: true}
}

func profileC05() qProfile {
	w := baseWeights()
	w["deq"] = 18
	w["nack"] = 8
	w["nackb"] = 4
	w["adv"] = 14
	w["enq"] = 12
	return qProfile{name: "C05", backends: []string{"memory", "sqlite"}, depths: []int{0, 0, 0, 5, 2, 3},
		drops: []string{"reject", "reject", "drop_oldest"}, retention: false, maxOps: 40, weights: w,
		padSingle: true, explicitTS: 10, blankIDs: true, deliveredOK: true, motifs: motifsReady, extreme: true}
}

func profileC05Sub() qProfile {
	p := profileC05()
	p.name = "C05sub"
	p.backends = []string{"sqlite", "memory"}
	p.subMs = true
	// a consumer polling faster than the sweep granularity: the expired lease must still be released
	// no later than 10 ms after its deadline, however often dequeue is called in between
	poll := []QOp{motifEnq, {K: "deq", Route: "/a", N: 1, TTLMs: 20}}
	for i := 0; i < 9; i++ {
		poll = append(poll, QOp{K: "adv", Ms: 5}, QOp{K: "deq", Route: "/a", N: 1, TTLMs: 30000})
	}
	poll2 := []QOp{motifEnq, motifEnq2, {K: "deq", Route: "/a", N: 1, TTLMs: 10}}
	for i := 0; i < 12; i++ {
		poll2 = append(poll2, QOp{K: "adv", Ms: 3}, QOp{K: "deq", Route: "/b", N: 1}, QOp{K: "adv", Ms: 4}, QOp{K: "deq", Route: "/a", N: 5, TTLMs: 30000})
	}
	p.motifs = append(append([][]QOp(nil), p.motifs...), poll, poll2)
	return p
}

func profileC12() qProfile {
	w := baseWeights()
	w["enq"] = 22
	w["deq"] = 8
	w["ack"], w["ackb"] = 4, 2
	w["requeue"], w["resume"] = 1, 1
	return qProfile{name: "C12", backends: []string{"memory", "sqlite"}, depths: []int{1, 2, 3, 5},
		drops: []string{"reject", "drop_oldest", "drop_oldest"}, retention: false, pressure: true, maxOps: 30,
		weights: w, padSingle: true, explicitTS: 15, fullBias: true, blankIDs: true, deliveredOK: true}
}

func profileC13() qProfile {
	w := baseWeights()
	w["reopen"] = 0
	w["att"], w["latt"] = 3, 2
	return qProfile{name: "C13", backends: []string{"both"}, depths: []int{0, 0, 1, 2, 3, 5},
		drops: []string{"reject", "drop_oldest"}, retention: true, pressure: false, maxOps: 40,
		weights: w, padSingle: false, explicitTS: 4, blankIDs: true, deliveredOK: false}
}

func profileC14() qProfile {
	w := baseWeights()
	w["cancel"], w["requeue"], w["resume"], w["rqdead"], w["deldead"] = 5, 5, 5, 3, 3
	w["cancelf"], w["requeuef"], w["resumef"] = 8, 6, 6
	w["dead"], w["deadb"] = 5, 3
	w["enq"] = 14
	return qProfile{name: "C14", backends: []string{"memory", "sqlite"}, depths: []int{0},
		drops: []string{"reject"}, retention: false, maxOps: 45, weights: w,
		padSingle: true, explicitTS: 35, blankIDs: true, deliveredOK: true}
}
