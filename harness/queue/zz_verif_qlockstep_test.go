//go:build verif

package queue

import (
	"encoding/json"
	"fmt"
	"sort"
	"strings"
	"testing"

	"github.com/nuetzliches/hookaido/internal/verifkit"
	"pgregory.net/rapid"
)

// C13: memory and SQLite driven in lock-step by one case and one clock. Results and full
// contents are compared after every step, modulo (a) generated message ids and lease ids
// (canonicalised through the order in which they were issued) and (b) the documented freedom
// to choose among equally eligible messages: when such a choice actually occurred and the two
// backends chose differently the case is cut at that step (the prefix was compared).

func canonMsg(w *qWorld, m Msg) Msg {
	m.ID = w.canonID(m.ID)
	if m.Lease != "" {
		m.Lease = w.canonLease(m.Lease)
	}
	return m
}

func canonSnap(w *qWorld, s Snap) Snap {
	out := Snap{}
	for _, m := range s {
		c := canonMsg(w, m)
		out[c.ID] = c
	}
	return out
}

func diffSnap(a, b Snap) string {
	var d []string
	for _, id := range unionIDs(a, b) {
		x, inA := a[id]
		y, inB := b[id]
		switch {
		case inA && inB:
			if !eqMsg(x, y) {
				d = append(d, fmt.Sprintf("%s: memory %s / sqlite %s", id, fmtMsg(x), fmtMsg(y)))
			}
		case inA:
			d = append(d, fmt.Sprintf("%s: only memory %s", id, fmtMsg(x)))
		default:
			d = append(d, fmt.Sprintf("%s: only sqlite %s", id, fmtMsg(y)))
		}
	}
	return strings.Join(d, "; ")
}

func idSet(w *qWorld, items []Msg) []string {
	var out []string
	for _, m := range items {
		out = append(out, w.canonID(m.ID))
	}
	sort.Strings(out)
	return out
}

func canonItems(w *qWorld, items []Msg, keepOrder bool) []Msg {
	out := make([]Msg, 0, len(items))
	for _, m := range items {
		out = append(out, canonMsg(w, m))
	}
	if !keepOrder {
		sort.Slice(out, func(i, j int) bool { return out[i].ID < out[j].ID })
	}
	return out
}

func sameItems(a, b []Msg, listing bool) bool {
	if len(a) != len(b) {
		return false
	}
	for i := range a {
		x, y := a[i], b[i]
		if listing {
			// listings do not carry lease fields on every backend; compare what the APIs expose
			x.Lease, y.Lease, x.Until, y.Until = "", "", qZero, qZero
			x.Schema, y.Schema = 0, 0
		}
		if !eqMsg(x, y) {
			return false
		}
	}
	return true
}

func canonConflicts(w *qWorld, cs []QConf) []string {
	var out []string
	for _, c := range cs {
		out = append(out, fmt.Sprintf("%q/%v", w.canonLease(c.Lease), c.Expired))
	}
	sort.Strings(out)
	return out
}

// filterCands mirrors the documented selection for listings and by-filter mutations on a
// canonical snapshot; it is used only to decide whether a tie at the limit cut made the
// outcome a free choice.
func filterCands(s Snap, route, target, state string, allowed []string, before int64) []Msg {
	var out []Msg
	for _, m := range s {
		if route != "" && m.Route != route {
			continue
		}
		if target != "" && m.Target != target {
			continue
		}
		if state != "" && m.State != state {
			continue
		}
		if allowed != nil && !inList(m.State, allowed) {
			continue
		}
		if before != qZero && !(m.Recv < before) {
			continue
		}
		out = append(out, m)
	}
	sort.Slice(out, func(i, j int) bool {
		if out[i].Recv == out[j].Recv {
			return out[i].ID > out[j].ID
		}
		return out[i].Recv > out[j].Recv
	})
	return out
}

// tieAtCut: the limit cuts a group of equal received_at (newest-first order).
func tieAtCut(cands []Msg, limit int, asc bool) bool {
	if limit >= len(cands) || limit <= 0 {
		return false
	}
	c := cands
	if asc {
		c = make([]Msg, len(cands))
		for i := range cands {
			c[len(cands)-1-i] = cands[i]
		}
	}
	return c[limit-1].Recv == c[limit].Recv
}

func hasTies(cands []Msg) bool {
	for i := 1; i < len(cands); i++ {
		if cands[i].Recv == cands[i-1].Recv {
			return true
		}
	}
	return false
}

func runQLockStep(c QCase, tolerateKnown bool) qOutcome {
	var out qOutcome
	labels := map[string]bool{}
	clk := &qClock{}
	wm, err := openQStore(c.Cfg, "memory", clk, "")
	if err != nil {
		out.Failure = fail("HARNESS", "open", 0, "%v", err)
		return out
	}
	defer wm.close()
	ws, err := openQStore(c.Cfg, "sqlite", clk, "")
	if err != nil {
		out.Failure = fail("HARNESS", "open", 0, "%v", err)
		return out
	}
	defer ws.close()
	prevM, _ := wm.snapshot()
	prevS, _ := ws.snapshot()
	bothErr := 0
	cutAt := -1
	insSeq := map[string]int{}
	seq := 0
	aboveDepth := false
	finish := func() qOutcome {
		for l := range labels {
			out.Labels = append(out.Labels, l)
		}
		sort.Strings(out.Labels)
		out.NonTriv = bothErr > 0 && (cutAt < 0 || cutAt >= 8) && out.Steps >= 8
		return out
	}
	cut := func(i int, why string) qOutcome {
		labels["cut:"+why] = true
		cutAt = i
		return finish()
	}
	for i, op := range c.Ops {
		out.Steps = i + 1
		if op.K == "adv" {
			wm.advance(op, prevM)
			continue
		}
		if op.K == "reopen" {
			continue
		}
		rm := wm.resolve(op, prevM)
		rs := ws.resolve(op, prevS)
		resM := wm.exec(rm)
		resS := ws.exec(rs)
		if op.K == "deq" {
			wm.wallet = wm.wallet[:len(wm.wallet)-len(resM.Items)]
			ws.wallet = ws.wallet[:len(ws.wallet)-len(resS.Items)]
			appendWallet(wm, resM.Items)
			appendWallet(ws, resS.Items)
		}
		nextM, errM := wm.snapshot()
		nextS, errS := ws.snapshot()
		if errM != nil || errS != nil {
			out.Failure = fail("HARNESS", "snapshot", i, "%v / %v", errM, errS)
			return finish()
		}
		wm.noteGenerated(prevM, nextM, rm)
		ws.noteGenerated(prevS, nextS, rs)
		cPrev := canonSnap(wm, prevM)
		cM, cS := canonSnap(wm, nextM), canonSnap(ws, nextS)
		now := rm.Now

		mk := func(clause, format string, args ...any) *verifkit.Failure {
			f := fail("C13", clause, i, "op %s: "+format, append([]any{op.K}, args...)...)
			return f
		}
		var f *verifkit.Failure

		// Once an operator requeue/resume has lifted the active count above max_depth the admission
		// behaviour is outside what C12 specifies (memory drains down to the limit, sqlite's single
		// enqueue drops exactly one): differences on enqueue are not judged from there on.
		if c.Cfg.MaxDepth > 0 && cPrev.count("queued", "leased") > c.Cfg.MaxDepth {
			aboveDepth = true
		}
		if aboveDepth && op.K == "enq" && (resM.Err != resS.Err || !snapEqual(cM, cS)) {
			return cut(i, "above-depth-regime")
		}
		// drop_oldest: "oldest" is by insertion on memory and by received_at on sqlite; when the two
		// readings name different victims the outcome (including a duplicate-id refusal that
		// depends on whether the duplicate was the victim) is a free choice.
		if op.K == "enq" && c.Cfg.MaxDepth > 0 && c.Cfg.Drop == "drop_oldest" &&
			cPrev.count("queued", "leased")+len(op.Items) > c.Cfg.MaxDepth && evictionAmbiguous(cPrev, insSeq) {
			if resM.Err != resS.Err || !snapEqual(cM, cS) {
				return cut(i, "eviction-oldest-reading")
			}
		}
		if op.K == "enq" && resM.Err == "" {
			for _, e := range rm.Envs {
				id := e.ID
				if id == "" { // at most one blank id per op: the one new generated id
					for _, cid := range cM.sortedIDs() {
						if _, was := cPrev[cid]; !was && strings.HasPrefix(cid, "@") {
							id = cid
						}
					}
				}
				seq++
				insSeq[id] = seq
			}
		}
		if resM.Err != resS.Err {
			f = mk("error-class", "memory err=%q sqlite err=%q", resM.Err, resS.Err)
		}
		if resM.Err != "" && resS.Err != "" || len(resM.Conflicts) > 0 && len(resS.Conflicts) > 0 {
			bothErr++
		}

		if f == nil {
			switch op.K {
			case "deq":
				var ready int
				for _, m := range cPrev {
					if (op.Route == "" || m.Route == op.Route) && (op.Target == "" || m.Target == op.Target) &&
						((m.State == "queued" && (m.Next == qZero || m.Next <= now)) || isExpired(m, now)) {
						ready++
					}
				}
				a, b := idSet(wm, resM.Items), idSet(ws, resS.Items)
				if strings.Join(a, ",") != strings.Join(b, ",") {
					if len(a) == len(b) && capBatch(op.N) < ready {
						return cut(i, "dequeue-choice")
					}
					f = mk("dequeue-set", "memory returned %v sqlite returned %v (ready=%d batch=%d)", a, b, ready, capBatch(op.N))
				} else if !sameItems(canonItems(wm, resM.Items, false), canonItems(ws, resS.Items, false), false) {
					f = mk("dequeue-items", "memory %v sqlite %v", canonItems(wm, resM.Items, false), canonItems(ws, resS.Items, false))
				}
			case "ackb", "nackb", "deadb":
				ca, cb := canonConflicts(wm, resM.Conflicts), canonConflicts(ws, resS.Conflicts)
				if resM.N != resS.N || strings.Join(ca, ",") != strings.Join(cb, ",") {
					f = mk("batch-result", "memory n=%d conflicts=%v sqlite n=%d conflicts=%v", resM.N, ca, resS.N, cb)
				}
			case "cancelf", "requeuef", "resumef":
				allowed := manageAllowed[op.K]
				if op.State != "" && !inList(op.State, allowed) {
					allowed = []string{"<none>"}
				}
				cands := filterCands(cPrev, op.Route, op.Target, op.State, allowed, relNs(rm.Before))
				if tieAtCut(cands, capLimit(op.N), false) && !snapEqual(cM, cS) {
					return cut(i, "filter-tie-at-limit")
				}
				if resM.N != resS.N || resM.Matched != resS.Matched || resM.Preview != resS.Preview {
					f = mk("manage-result", "memory n=%d matched=%d preview=%v sqlite n=%d matched=%d preview=%v", resM.N, resM.Matched, resM.Preview, resS.N, resS.Matched, resS.Preview)
				}
			case "cancel", "requeue", "resume", "rqdead", "deldead":
				if resM.N != resS.N || resM.Matched != resS.Matched {
					f = mk("manage-result", "memory n=%d matched=%d sqlite n=%d matched=%d", resM.N, resM.Matched, resS.N, resS.Matched)
				}
			case "enq":
				if resM.N != resS.N {
					f = mk("enqueue-count", "memory %d sqlite %d", resM.N, resS.N)
				}
			case "stats":
				if resM.Total != resS.Total || !sameHist(resM.ByState, resS.ByState) {
					f = mk("stats", "memory %d %v sqlite %d %v", resM.Total, resM.ByState, resS.Total, resS.ByState)
				} else if resM.StatsExtra != resS.StatsExtra {
					genQueued := false
					for id, m := range cM {
						if strings.HasPrefix(id, "@") && m.State == "queued" {
							genQueued = true
						}
					}
					if genQueued {
						labels["stats-extra-not-compared-generated-id"] = true
					} else {
						f = mk("stats-extra", "memory %s / sqlite %s", resM.StatsExtra, resS.StatsExtra)
					}
				}
			case "latt":
				if strings.Join(resM.Lookup, "\n") != strings.Join(resS.Lookup, "\n") {
					f = mk("list-attempts", "memory %v sqlite %v", resM.Lookup, resS.Lookup)
				}
			case "lookup":
				a := append([]string(nil), resM.Lookup...)
				b := append([]string(nil), resS.Lookup...)
				for k := range a {
					p := strings.SplitN(a[k], "|", 2)
					a[k] = wm.canonID(p[0]) + "|" + p[1]
				}
				for k := range b {
					p := strings.SplitN(b[k], "|", 2)
					b[k] = ws.canonID(p[0]) + "|" + p[1]
				}
				sort.Strings(a)
				sort.Strings(b)
				if strings.Join(a, ",") != strings.Join(b, ",") {
					f = mk("lookup", "memory %v sqlite %v", a, b)
				}
			case "list", "listdead":
				if resM.Err == "" {
					state := op.State
					if op.K == "listdead" {
						state = "dead"
					}
					target := op.Target
					if op.K == "listdead" {
						target = ""
					}
					cands := filterCands(cM, op.Route, target, state, nil, relNs(rm.Before))
					asc := op.K == "list" && strings.ToLower(strings.TrimSpace(op.Order)) == "asc"
					la, lb := canonItems(wm, resM.Items, true), canonItems(ws, resS.Items, true)
					if !sameItems(la, lb, true) {
						genInvolved := false
						for _, m := range cands {
							if strings.HasPrefix(m.ID, "@") {
								genInvolved = true
							}
						}
						switch {
						case tieAtCut(cands, capLimit(op.N), asc) && genInvolved:
							labels["list-tie-at-limit-generated-id"] = true
						case hasTies(cands) && genInvolved && sameItems(sortedCanon(la), sortedCanon(lb), true):
							labels["list-tie-order-generated-id"] = true
						default:
							f = mk("listing", "memory %v sqlite %v", idsOf(la), idsOf(lb))
						}
					}
				}
			}
		}
		if f == nil && !snapEqual(cM, cS) {
			// allowed choices: which equally old message drop_oldest evicts / dlq depth prunes
			// (for queued messages only while insertion order and received_at leave the victim open: with one
			// strict order both backends must evict the same messages - seed C13-13 made sqlite evict by due time)
			if st, ok := onlyChoiceRemovalDiffers(cPrev, cM, cS); ok && (st != "queued" || evictionAmbiguous(cPrev, insSeq)) {
				return cut(i, "eviction-or-prune-choice")
			}
			f = mk("contents", "contents differ after step: %s", diffSnap(cM, cS))
		}
		if f != nil {
			if f.Sig != "" && tolerateKnown && verifkit.Known(f.Sig) {
				out.Known = append(out.Known, f.Sig)
				return finish()
			}
			out.Failure = f
			return finish()
		}
		labels["op:"+op.K] = true
		if resM.Err != "" {
			labels["both-err:"+resM.Err] = true
		}
		prevM, prevS = nextM, nextS
	}
	return finish()
}

// evictionAmbiguous: among the queued messages, insertion order and received_at order do not
// name one and the same strict sequence of victims.
func evictionAmbiguous(prev Snap, insSeq map[string]int) bool {
	var q []Msg
	for _, m := range prev {
		if m.State == "queued" {
			q = append(q, m)
		}
	}
	sort.Slice(q, func(i, j int) bool { return insSeq[q[i].ID] < insSeq[q[j].ID] })
	for i := 1; i < len(q); i++ {
		if q[i].Recv <= q[i-1].Recv {
			return true
		}
	}
	return false
}

func sortedCanon(items []Msg) []Msg {
	out := append([]Msg(nil), items...)
	sort.Slice(out, func(i, j int) bool { return out[i].ID < out[j].ID })
	return out
}

func idsOf(items []Msg) []string {
	var out []string
	for _, m := range items {
		out = append(out, m.ID)
	}
	return out
}

// onlyChoiceRemovalDiffers: both backends removed the same number of messages of one state
// (queued: drop_oldest eviction; dead: dlq depth prune) and everything else is identical.
func onlyChoiceRemovalDiffers(prev, a, b Snap) (string, bool) {
	var onlyA, onlyB []Msg
	for _, id := range unionIDs(a, b) {
		x, inA := a[id]
		y, inB := b[id]
		switch {
		case inA && inB:
			if !eqMsg(x, y) {
				return "", false
			}
		case inA:
			onlyA = append(onlyA, x)
		default:
			onlyB = append(onlyB, y)
		}
	}
	if len(onlyA) == 0 || len(onlyA) != len(onlyB) {
		return "", false
	}
	state := ""
	for _, m := range append(append([]Msg(nil), onlyA...), onlyB...) {
		p, ok := prev[m.ID]
		if !ok || !eqMsg(p, m) {
			return "", false // the survivor must be an untouched older message
		}
		if p.State != "queued" && p.State != "dead" {
			return "", false
		}
		if state == "" {
			state = p.State
		}
		if p.State != state {
			return "", false
		}
	}
	return state, true
}

func TestProp_C13_LockStep(t *testing.T) {
	gen := genQCase(profileC13())
	rapid.Check(t, func(rt *rapid.T) {
		c := gen.Draw(rt, "case")
		out := runQLockStep(c, true)
		verifkit.Emit(verifkit.Record{Prop: "C13", Test: "TestProp_C13_LockStep", Hash: verifkit.Hash(c), NonTrivial: out.NonTriv,
			Labels: out.Labels, Known: out.Known}, c)
		if out.Failure != nil {
			verifkit.SaveFailing("TestProp_C13_LockStep", c, out.Failure)
			rt.Fatalf("%v", out.Failure)
		}
	})
}

var _ = json.Marshal
